------------------------------ MODULE PQGen ------------------------------
(* Script generator for C01.  Behaviours of PersistentQueue (one consumer) under an EAGER
   schedule -- autonomous steps of the queue (recovery, dequeue, hand-off start, completion
   bookkeeping, enqueue return) run to quiescence before the next driver-controlled step --
   projected to the driver-level script the Go harness (harness/exporter/pq) executes against
   the real queue: offer r | await r | release r outcome | shutdown | await_shutdown | start | drain.
   Crashes are NOT chosen here: the harness enumerates a process death at the entry of every
   storage call of every incarnation of every script (and of the recoveries that follow). *)
EXTENDS PersistentQueue, Json

CONSTANTS MaxSteps,      \* bound on driver-controlled steps
          Retry          \* TRUE: retry enabled (a failed attempt parks in back-off until shutdown)

VARIABLES script,        \* sequence of script steps emitted so far
          parked,        \* consumer 1 parked in a retry back-off wait
          nsteps, ended, order

gvars == <<vars, script, parked, nsteps, ended, order>>
C == 1

Step(op, r, o) == [op |-> op, req |-> r, outcome |-> o]
Emit(s) == script' = Append(script, s)

GenInit == Init /\ script = <<Step("start", "", "")>> /\ parked = FALSE /\ nsteps = 0 /\ ended = FALSE
                /\ order = <<>>

\* autonomous steps, in a fixed priority order (the real code performs them without the driver)
AutoEnabled == \/ ENABLED RecIdx \/ ENABLED RecGetDI \/ ENABLED RecRetrieve \/ ENABLED RecMove
               \/ ENABLED RecCleanup \/ ENABLED RecPut
               \/ \E r \in Reqs : ENABLED OfferReturn(r)
               \/ ENABLED Dequeue(C) \/ ENABLED PushStart(C) \/ ENABLED DoneStore(C) \/ ENABLED CleanupMissing(C)
               \/ (parked /\ stopped /\ cons[C].st = "pushing")

Auto ==
  /\ ~ended
  /\ \/ /\ (RecIdx \/ RecGetDI \/ RecRetrieve \/ RecMove \/ RecCleanup \/ RecPut) /\ UNCHANGED <<script, parked>>
     \/ /\ \E r \in Reqs : OfferReturn(r)
        /\ UNCHANGED <<script, parked>>
     \/ /\ ~(\E r \in Reqs : ENABLED OfferReturn(r))
        /\ \/ Dequeue(C) /\ UNCHANGED <<script, parked>>
           \/ PushStart(C) /\ Emit(Step("await", cons[C].req, "")) /\ UNCHANGED parked
           \/ DoneStore(C) /\ UNCHANGED <<script, parked>>
           \/ CleanupMissing(C) /\ UNCHANGED <<script, parked>>
           \/ parked /\ stopped /\ PushEnd(C, "shutdown") /\ parked' = FALSE /\ UNCHANGED script
  /\ UNCHANGED <<nsteps, ended, order>>

\* next request to offer: fixed order (requests are interchangeable)
NextReq == CHOOSE r \in Reqs : prod[r] = "todo"

Driver ==
  /\ ~ended /\ ~AutoEnabled /\ nsteps < MaxSteps
  /\ nsteps' = nsteps + 1 /\ UNCHANGED <<ended>>
  /\ \/ /\ phase = "running" /\ ~stopped /\ \E r \in Reqs : prod[r] = "todo"
        /\ LET r == NextReq IN
             /\ (OfferStore(r) \/ OfferRefuse(r))
             /\ Emit(Step("offer", r, "")) /\ order' = Append(order, r)
        /\ UNCHANGED parked
     \/ /\ cons[C].st = "pushing" /\ ~parked
        /\ \E o \in {"ok", "fail"} :
             /\ ~(Retry /\ o = "fail")      \* with retry a plain failure is not final: see ParkTransient
             /\ PushEnd(C, o)
             /\ Emit(Step("release", cons[C].req, IF o = "fail" /\ ~Retry THEN "fail" ELSE IF o = "fail" THEN "perm" ELSE "ok"))
        /\ UNCHANGED <<parked, order>>
     \/ /\ Retry /\ cons[C].st = "pushing" /\ ~parked
        /\ PushEnd(C, "fail") /\ Emit(Step("release", cons[C].req, "perm"))
        /\ UNCHANGED <<parked, order>>
     \/ \* a transient failure with retry enabled: the hand-off is NOT complete, the sender waits in back-off
        /\ Retry /\ cons[C].st = "pushing" /\ ~parked /\ AllowShutdown
        /\ parked' = TRUE /\ Emit(Step("release", cons[C].req, "transient"))
        /\ UNCHANGED <<vars, order>>
     \/ /\ Shutdown /\ Emit(Step("shutdown", "", "")) /\ UNCHANGED <<parked, order>>
     \/ \* clean restart once shutdown has completed (all consumers idle): a new incarnation
        /\ stopped /\ cons[C].st = "idle" /\ ~parked
        /\ Crash /\ script' = script \o <<Step("await_shutdown", "", ""), Step("start", "", "")>>
        /\ UNCHANGED <<parked, order>>

\* finish the script: restart if needed, then drain with an always-succeeding backend
End ==
  /\ ~ended /\ ~AutoEnabled
  /\ ended' = TRUE
  /\ script' = script \o (IF stopped /\ cons[C].st = "idle" /\ ~parked
                            THEN <<Step("await_shutdown", "", ""), Step("start", "", "")>> ELSE <<>>)
                      \o (IF parked \/ (stopped /\ cons[C].st # "idle") THEN <<Step("crash", "", ""), Step("start", "", "")>> ELSE <<>>)
                      \o <<Step("drain", "", "")>>
  /\ UNCHANGED <<vars, parked, nsteps, order>>

GenNext == Auto \/ Driver \/ End
GenSpec == GenInit /\ [][GenNext]_gvars

EmitScript == ended => PrintT(<<"BEH", ToJson([steps |-> script, nsteps |-> nsteps])>>)
=============================================================================
