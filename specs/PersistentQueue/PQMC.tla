------------------------------ MODULE PQMC ------------------------------
EXTENDS PersistentQueue
\* history variables do not influence behaviour: hide `handed` (grows with incarnations)
View == <<durable, volatile, prod, crashes, accepted, finalised>>
=========================================================================
