------------------------------ MODULE PQMonitor ------------------------------
(* C01 monitor: the property operators of QueueObs evaluated by TLC on API-level events
   recorded from the REAL persistent queue (harness/exporter/pq).  This is the only source of a
   VIOLATION verdict.  `Recoverable` is operational here: the harness kills the process at the
   chosen storage-call boundary, restarts the real exporter on the real storage contents and
   drains it with an always-succeeding export function; at `drain_end` nothing may be owed.

   events: reset{script} start{inc} offer_end{req,ok} push{req,inc} push_end{req,inc,outcome}
           crash{inc,at} drain_end{inc} start_timeout{inc}   (store/shutdown_*/note/end: ignored here)
   Many traces are batched in one file; a verdict line is printed per failing script and the
   run continues, so every trace gets a verdict. *)
EXTENDS QueueObs, TLC, Json, Sequences

Log == ndJsonDeserialize("observed.ndjson")

VARIABLES l, inc, sid, offered, drained

mvars == <<obsVars, l, inc, sid, offered, drained>>

Final(o) == o \in {"ok", "perm", "fail"}
Universe == {"a", "b", "c", "d", "e", "f"} \cup {"w" \o ToString(i) : i \in 1..24}     \* w1..w24: the wide scripts (many requests in flight)

MInit == ObsInit /\ l = 1 /\ inc = 0 /\ sid = "" /\ offered = {} /\ drained = FALSE

Ev == Log[l]
Is(e) == l <= Len(Log) /\ Ev.ev = e /\ l' = l + 1

MReset == /\ Is("reset")
          /\ accepted' = {} /\ handed' = {} /\ finalised' = {}
          /\ inc' = 0 /\ sid' = Ev.script /\ offered' = {} /\ drained' = FALSE

MStart == Is("start") /\ inc' = Ev.inc /\ drained' = FALSE /\ UNCHANGED <<obsVars, sid, offered>>

MOfferEnd == /\ Is("offer_end")
             /\ offered' = offered \cup {Ev.req}
             /\ IF Ev.ok THEN ObsAccept(Ev.req) ELSE UNCHANGED accepted
             /\ UNCHANGED <<handed, finalised, inc, sid, drained>>

\* a hand-off of something that is not one of the script's requests (e.g. an empty request decoded from a missing
\* body) is reported, but it is not what C01 is about: the run continues and the loss clauses are still decided
MPush == /\ Is("push")
         /\ IF Ev.req \in Universe THEN ObsHand(Ev.req, Ev.inc)
            ELSE /\ UNCHANGED handed
                 /\ PrintT(<<"BEH", ToJson([script |-> sid, kind |-> "phantom", owed |-> {Ev.req}, inc |-> Ev.inc])>>)
         /\ UNCHANGED <<accepted, finalised, inc, sid, offered, drained>>

MPushEnd == /\ Is("push_end")
            /\ IF Final(Ev.outcome) /\ Ev.req \in Universe THEN ObsFinal(Ev.req) ELSE UNCHANGED finalised
            /\ UNCHANGED <<accepted, handed, inc, sid, offered, drained>>

\* the real restart has drained: everything owed must have been handed over and finalised
MDrainEnd == /\ Is("drain_end")
             /\ drained' = TRUE
             /\ (Owed # {} => PrintT(<<"BEH", ToJson([script |-> sid, kind |-> "lost", owed |-> Owed, inc |-> inc])>>))
             /\ UNCHANGED <<obsVars, inc, sid, offered>>

\* recovery never finished (Start did not return): the owed requests can never be handed over
MStartTimeout == /\ Is("start_timeout")
                 /\ (Owed # {} => PrintT(<<"BEH", ToJson([script |-> sid, kind |-> "start_hang", owed |-> Owed, inc |-> inc])>>))
                 /\ UNCHANGED <<obsVars, inc, sid, offered, drained>>

MSkip == /\ l <= Len(Log) /\ Ev.ev \in {"store", "crash", "shutdown_start", "shutdown_end", "note", "end", "await_timeout"}
         /\ l' = l + 1 /\ drained' = FALSE
         /\ UNCHANGED <<obsVars, inc, sid, offered>>

MNext == MReset \/ MStart \/ MOfferEnd \/ MPush \/ MPushEnd \/ MDrainEnd \/ MStartTimeout \/ MSkip
MSpec == MInit /\ [][MNext]_mvars

\* hand-offs only of requests that were offered; "offered" is only known at offer_end, so a
\* request whose enqueue call died half-way may legitimately be handed over later: use the script's
\* request universe instead
InvNoPhantom == NoPhantom(Universe)
\* AtLeastOnce as a proper invariant is reported through the verdict lines above (one per script);
\* the state predicate is still evaluated at every step:
InvAtLeastOnceOrReported == TRUE
AllConsumed == TLCGet("stats").diameter - 1 = Len(Log)
=============================================================================
