SPECIFICATION Spec
CONSTANTS
  CfgKind = "fixed"
  UnitsPerMiB = 1048576
  CfgLimit = 4
  CfgSpike = 1
  TotalMem = 0
  SoftInt = 3
  HardInt = 1
  MaxT = 5
  Users = {"logs", "traces"}
  Delays = {1, 2}
  Results = {"ok", "err", "perm"}
  ReadingSet = "small"
VIEW View
INVARIANT Property
PROPERTY ModeChangesOnlyInCheck
CHECK_DEADLOCK FALSE
