-------------------------- MODULE MemoryLimiterConc --------------------------
(* C18 -- start/shutdown of the users of one shared MemoryLimiter under real concurrency, at the
   granularity of the regions protected by refCounterLock (internal/memorylimiter/memorylimiter.go
   Start, Shutdown and the checker goroutine launched by the first Start).

     StartCall(u) / StartBody(u) / StartRet(u)
         StartBody is the whole body under the lock: refCounter++; if it became 1: closed := new
         channel, launch the checker goroutine.  The ticker is NOT re-armed (named deviation of the
         implementation: after a full stop a restarted checker exists but never ticks; the
         statement is silent about restart and nothing here depends on ticks after a full stop).
     ShutdownCall(u) / ShutdownEnter(u) / ShutdownFinish(u) / ShutdownRet(u)
         ShutdownEnter takes the lock: refCounter = 0 -> error; refCounter = 1 -> ticker.Stop(),
         close(closed), then waitGroup.Wait(); otherwise refCounter--, unlock, return.
         ShutdownFinish is the end of the wait (the goroutine has exited): refCounter--, unlock.
         WaitStyles says what may happen to the lock during the wait: {"locked"} is the code as it
         is (the lock is held across the wait, so no Start/Shutdown of another user can interleave);
         "unlocked" is the alternative design in which the lock is released around the wait.  The
         trace monitor admits both (the statement does not prescribe the locking), the strict
         conformance run only "locked".
     CheckBegin / CheckEnd      one execution of CheckMemLimits by the goroutine; Hold/Release: the
                                environment keeps a check from finishing (a long forced GC)
     GorExit                    the goroutine sees closed and returns

   The clauses of the statement ("The shared checker keeps running until the last user has shut
   down and then stops", over every interleaving of start/shutdown of the users):
     RunsWhileLiveUser   some user has started and has not asked to shut down => a checker
                         goroutine exists that has not been told to stop
     StopsAfterLast      nobody is started and no call is in flight => no checker goroutine is left
     NoPanic             no Shutdown of a started user panics (the symptom of a checker that was
                         stopped behind a live user's back: close of a closed channel) *)
EXTENDS Integers, FiniteSets

CONSTANTS Users, WaitStyles

VARIABLES lock,        \* "free" or the user holding refCounterLock
          pc,          \* [Users -> idle | start_called | start_done | sd_called | sd_waiting | sd_done | sd_err | sd_panic]
          style,       \* [Users -> wait style chosen by the Shutdown in progress]
          ust,         \* [Users -> new | started | stopped]   (API level: Start / Shutdown has returned)
          refCount,
          gor,         \* none | idle | checking | exited      the checker goroutine
          closedCh,    \* the current ml.closed channel is closed
          tickerLive,  \* ml.ticker has not been stopped
          buf,         \* a tick is still buffered in the stopped ticker's channel
          held         \* the environment holds the running check

cvars == <<lock, pc, style, ust, refCount, gor, closedCh, tickerLive, buf, held>>

CInit == /\ lock = "free" /\ pc = [u \in Users |-> "idle"] /\ style = [u \in Users |-> "locked"]
         /\ ust = [u \in Users |-> "new"] /\ refCount = 0 /\ gor = "none" /\ closedCh = FALSE
         /\ tickerLive = TRUE /\ buf = FALSE /\ held = FALSE

Alive == gor \in {"idle", "checking"}

StartCall(u) == /\ pc[u] = "idle" /\ ust[u] = "new"
                /\ pc' = [pc EXCEPT ![u] = "start_called"]
                /\ UNCHANGED <<lock, style, ust, refCount, gor, closedCh, tickerLive, buf, held>>

StartBody(u) == /\ pc[u] = "start_called" /\ lock = "free"
                /\ refCount' = refCount + 1
                /\ IF refCount + 1 = 1
                     THEN /\ closedCh' = FALSE /\ gor' = "idle"
                     ELSE UNCHANGED <<closedCh, gor>>
                /\ pc' = [pc EXCEPT ![u] = "start_done"]
                /\ UNCHANGED <<lock, style, ust, tickerLive, buf, held>>

StartRet(u) == /\ pc[u] = "start_done"
               /\ pc' = [pc EXCEPT ![u] = "idle"] /\ ust' = [ust EXCEPT ![u] = "started"]
               /\ UNCHANGED <<lock, style, refCount, gor, closedCh, tickerLive, buf, held>>

ShutdownCall(u) == /\ pc[u] = "idle" /\ ust[u] = "started"
                   /\ pc' = [pc EXCEPT ![u] = "sd_called"]
                   /\ UNCHANGED <<lock, style, ust, refCount, gor, closedCh, tickerLive, buf, held>>

ShutdownEnter(u) ==
  /\ pc[u] = "sd_called" /\ lock = "free"
  /\ CASE refCount = 0 ->
            /\ pc' = [pc EXCEPT ![u] = "sd_err"]
            /\ UNCHANGED <<lock, style, refCount, closedCh, tickerLive, buf>>
       [] refCount = 1 ->
            /\ tickerLive' = FALSE
            /\ buf' \in (IF tickerLive THEN BOOLEAN ELSE {buf})
            /\ IF closedCh
                 THEN \* close of a closed channel: panic, the deferred Unlock releases the lock
                      /\ pc' = [pc EXCEPT ![u] = "sd_panic"]
                      /\ UNCHANGED <<lock, style, refCount, closedCh>>
                 ELSE /\ closedCh' = TRUE
                      /\ \E w \in WaitStyles :
                            /\ style' = [style EXCEPT ![u] = w]
                            /\ lock' = IF w = "locked" THEN u ELSE "free"
                      /\ pc' = [pc EXCEPT ![u] = "sd_waiting"]
                      /\ UNCHANGED refCount
       [] OTHER ->
            /\ refCount' = refCount - 1
            /\ pc' = [pc EXCEPT ![u] = "sd_done"]
            /\ UNCHANGED <<lock, style, closedCh, tickerLive, buf>>
  /\ UNCHANGED <<ust, gor, held>>

ShutdownFinish(u) ==
  /\ pc[u] = "sd_waiting" /\ ~Alive
  /\ IF style[u] = "locked" THEN lock = u ELSE lock = "free"
  /\ lock' = "free"
  /\ refCount' = refCount - 1
  /\ pc' = [pc EXCEPT ![u] = "sd_done"]
  /\ UNCHANGED <<style, ust, gor, closedCh, tickerLive, buf, held>>

\* res: "nil" | "err" | "panic"
ShutdownRes(u) == CASE pc[u] = "sd_done" -> "nil" [] pc[u] = "sd_err" -> "err" [] pc[u] = "sd_panic" -> "panic"
                    [] OTHER -> "-"
ShutdownRet(u) == /\ pc[u] \in {"sd_done", "sd_err", "sd_panic"}
                  /\ pc' = [pc EXCEPT ![u] = "idle"]
                  /\ ust' = [ust EXCEPT ![u] = IF pc[u] = "sd_done" THEN "stopped" ELSE @]
                  /\ UNCHANGED <<lock, style, refCount, gor, closedCh, tickerLive, buf, held>>

CheckBegin == /\ gor = "idle" /\ (tickerLive \/ buf)
              /\ gor' = "checking" /\ buf' = (IF tickerLive THEN buf ELSE FALSE)
              /\ UNCHANGED <<lock, pc, style, ust, refCount, closedCh, tickerLive, held>>
CheckEnd == /\ gor = "checking" /\ ~held
            /\ gor' = "idle"
            /\ UNCHANGED <<lock, pc, style, ust, refCount, closedCh, tickerLive, buf, held>>
GorExit == /\ gor = "idle" /\ closedCh
           /\ gor' = "exited"
           /\ UNCHANGED <<lock, pc, style, ust, refCount, closedCh, tickerLive, buf, held>>
HoldCheck == /\ gor = "idle" /\ (tickerLive \/ buf) /\ ~held
             /\ gor' = "checking" /\ buf' = (IF tickerLive THEN buf ELSE FALSE) /\ held' = TRUE
             /\ UNCHANGED <<lock, pc, style, ust, refCount, closedCh, tickerLive>>
Release == /\ held /\ held' = FALSE
           /\ UNCHANGED <<lock, pc, style, ust, refCount, gor, closedCh, tickerLive, buf>>

Internal == \/ \E u \in Users : StartBody(u) \/ ShutdownEnter(u) \/ ShutdownFinish(u)
            \/ CheckBegin \/ CheckEnd \/ GorExit
CNext == \/ \E u \in Users : StartCall(u) \/ StartRet(u) \/ ShutdownCall(u) \/ ShutdownRet(u)
         \/ Internal \/ HoldCheck \/ Release
CSpec == CInit /\ [][CNext]_cvars

-----------------------------------------------------------------------------
Live == {u \in Users : ust[u] = "started" /\ pc[u] = "idle"}
Quiet == \A u \in Users : pc[u] = "idle"

RunsWhileLiveUser == Live # {} => (Alive /\ ~closedCh)
StopsAfterLast    == (Quiet /\ \A u \in Users : ust[u] # "started") => ~Alive
NoPanic           == \A u \in Users : pc[u] # "sd_panic"
RefCountIsUsers   == Quiet => refCount = Cardinality({u \in Users : ust[u] = "started"})

ConcProperty == RunsWhileLiveUser /\ StopsAfterLast /\ NoPanic
=============================================================================
