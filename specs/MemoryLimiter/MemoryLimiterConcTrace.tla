------------------------ MODULE MemoryLimiterConcTrace ------------------------
(* Trace validation of concurrent start/shutdown runs of the real limiter (harness/memlimiter conc).
   observed.ndjson -- events in the order they were recorded under one mutex:
     {"ev":"reset","sid":n}
     {"ev":"call","u":..,"op":"start"|"shutdown"}     logged before the call is made
     {"ev":"ret","u":..,"op":..,"res":"nil"|"err"|"panic"}   logged after it returned
     {"ev":"hold"}        a memory check has begun and is kept inside ReadMemStatsFn
     {"ev":"release"}     logged before the held check is let go
     {"ev":"obs","ticking":b,"gor":n}   nothing in flight: the ticker-driven checks keep coming (b);
                                         n = checker goroutines found in a goroutine dump (-1 unknown)
     {"ev":"end"}
   The lock acquisitions, the checks that are not held and the goroutine's exit are not logged: TLC
   searches for an execution of MemoryLimiterConc whose logged actions appear in this order.
   Monitor mode (Strict = FALSE): both wait styles are admitted and only executions on which the
   clauses of the statement hold are followed (Follow); a trace that no such execution explains
   contradicts the statement.  Strict mode: only the code's own locking. *)
EXTENDS MemoryLimiterConc, TLC, Json, Sequences

CONSTANTS Clauses      \* subset of {"runs", "stops", "nopanic"} enforced along the execution

Log == ndJsonDeserialize("observed.ndjson")

VARIABLES l, sid
tvars == <<cvars, l, sid>>

Is(e) == l <= Len(Log) /\ Log[l].ev = e /\ l' = l + 1

TInit == CInit /\ l = 1 /\ sid = -1 /\ TLCSet(1, 1)

TReset == /\ Is("reset") /\ sid' = Log[l].sid
          /\ lock' = "free" /\ pc' = [u \in Users |-> "idle"] /\ style' = [u \in Users |-> "locked"]
          /\ ust' = [u \in Users |-> "new"] /\ refCount' = 0 /\ gor' = "none" /\ closedCh' = FALSE
          /\ tickerLive' = TRUE /\ buf' = FALSE /\ held' = FALSE

TCall == /\ Is("call") /\ UNCHANGED sid
         /\ LET u == Log[l].u IN
            IF Log[l].op = "start" THEN StartCall(u) ELSE ShutdownCall(u)
TRet == /\ Is("ret") /\ UNCHANGED sid
        /\ LET u == Log[l].u IN
           IF Log[l].op = "start" THEN Log[l].res = "nil" /\ StartRet(u)
           ELSE Log[l].res = ShutdownRes(u) /\ ShutdownRet(u)
THold == Is("hold") /\ HoldCheck /\ UNCHANGED sid
TRelease == Is("release") /\ UNCHANGED sid /\ (IF held THEN Release ELSE UNCHANGED cvars)
TObs == /\ Is("obs") /\ UNCHANGED <<cvars, sid>>
        /\ LET e == Log[l] IN
           /\ e.ticking => (Alive /\ (tickerLive \/ buf))
           /\ ~e.ticking => ~(Alive /\ tickerLive)
           /\ e.gor >= 0 => ((e.gor > 0) <=> Alive)
TEnd == Is("end") /\ UNCHANGED <<cvars, sid>>
TSilent == Internal /\ UNCHANGED <<l, sid>>

TNext == TReset \/ TCall \/ TRet \/ THold \/ TRelease \/ TObs \/ TEnd \/ TSilent
TSpec == TInit /\ [][TNext]_tvars

Holds == /\ ("runs" \in Clauses => RunsWhileLiveUser)
         /\ ("stops" \in Clauses => StopsAfterLast)
         /\ ("nopanic" \in Clauses => NoPanic)
\* only executions on which the clauses hold are followed; the high-water mark records how far
Follow == Holds /\ (IF l > TLCGet(1) THEN TLCSet(1, l) ELSE TRUE)
Accepted == IF TLCGet(1) = Len(Log) + 1 THEN TRUE
            ELSE PrintT(<<"REJECTED_AT", TLCGet(1), Len(Log)>>) /\ FALSE
=============================================================================
