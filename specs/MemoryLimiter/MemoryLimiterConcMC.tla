------------------------- MODULE MemoryLimiterConcMC -------------------------
(* Exhaustive design check of the lock-region model: every interleaving of the users' Start and
   Shutdown calls, the checker goroutine's checks, and an environment that may hold a check.
   With WaitStyles = {"locked"} (the code as it is) all clauses hold.  With "unlocked" admitted TLC
   finds the Start-inside-the-last-Shutdown's-wait interleaving that breaks RunsWhileLiveUser; the
   check runs that configuration as a control that the model reaches the interleaving. *)
EXTENDS MemoryLimiterConc, TLC
=============================================================================
