SPECIFICATION TSpec
CONSTANTS
  CfgKind = "fixed"
  UnitsPerMiB = 1048576
  CfgLimit = 4
  CfgSpike = 1
  TotalMem = 0
  SoftInt = 135000
  HardInt = 75000
  MaxT = 1
  Users = {"logs"}
CONSTRAINT HighWater
INVARIANT CheckInv
INVARIANT Conforms
POSTCONDITION Accepted
CHECK_DEADLOCK FALSE
