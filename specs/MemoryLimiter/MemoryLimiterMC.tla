--------------------------- MODULE MemoryLimiterMC ---------------------------
(* Exhaustive design check of MemoryLimiter: every sequence of checks (ticker and direct), every
   time advance in Delays, every reading in Readings (first and after-GC), every start/shutdown
   interleaving of the users, consume calls with every downstream result and extension checks.
   The observation records chk/out do not influence behaviour but the invariants read them, so they
   stay in the state; the check counter is hidden by the VIEW. *)
EXTENDS MemoryLimiter, TLC

CONSTANTS Delays, Results,
          ReadingSet    \* "small" | "full"

ASSUME ValidCfg
ASSUME MaxT > 0

Readings == IF ReadingSet = "small" THEN {Soft - 1, Soft, Limit - 1, Limit}
            ELSE {0, Soft - 1, Soft, Soft + 1, Limit - 1, Limit, Limit + 1}

DoCheck == \E src \in {"ticker", "direct"}, d \in Delays, r \in Readings, a \in Readings : Check(src, d, r, a)
DoStart == \E u \in Users : Start(u)
DoShutdown == \E u \in Users : Shutdown(u)
DoConsume == \E u \in Users, res \in Results : Consume(u, res)
DoExtCheck == \E u \in Users : ExtCheck(u)

Next == DoCheck \/ DoStart \/ DoShutdown \/ DoConsume \/ DoExtCheck
Spec == Init /\ [][Next]_vars

View == <<mustRefuse, sinceGC, refCount, running, ustate, [chk EXCEPT !.n = IF @ > 0 THEN 1 ELSE 0], out>>
=============================================================================
