---------------------------- MODULE MemoryLimiter ----------------------------
(* C18 -- memory limiter (internal/memorylimiter/memorylimiter.go), the memory-limiter processor
   (processor/memorylimiterprocessor) and extension (extension/memorylimiterextension).

   One MemoryLimiter object shared by a set of users (the logs/metrics/traces processors created by
   one factory for one configuration; or the single extension).  Implementation-shaped part:

     Check(src,d,r,a)  one execution of CheckMemLimits(): first reading r; if usage is above the soft
                       limit and time.Since(lastGCDone) exceeds the interval of the severity, runtime.GC(),
                       lastGCDone := now, second reading a; mustRefuse := aboveSoftLimit(last reading).
                       src = "ticker" (goroutine started by Start, only while running) or "direct".
                       d = time passed since the previous check (or since construction), > 0.
     Start(u) / Shutdown(u)   reference counting under refCounterLock; the first Start launches the
                       ticker goroutine, the Shutdown that finds refCounter = 1 stops it.
     Consume(u,res)    processorhelper wrapper + process{Logs,Metrics,Traces}: MustRefuse() ->
                       ErrDataRefused, nothing forwarded; else next.Consume(payload), its result returned.
     ExtCheck(u)       extension MustRefuse().

   Time is an integer number of abstract units; sinceGC = now - lastGCDone, capped at MaxT (MaxT is
   larger than every finite interval used, so the cap does not change any decision).  "Very large"
   intervals are the integer Inf > MaxT.

   Named deviations / assumptions:
     * a user is started at most once and shut down at most once, after its start (component
       lifecycle); Shutdown without Start is not modelled (the statement is silent about it);
     * no Start after the last user has shut down (the statement says "then stops"; the
       implementation does not re-arm its ticker, restart is outside the statement);
     * CheckMemLimits is not called concurrently with itself.

   The property clauses (bottom) are written from the statement over the observation records
   chk (last check) and out (last consume / extension check), which the trace specification
   MemoryLimiterTrace fills from observations of the real code.
*)
EXTENDS Integers, FiniteSets, Sequences

CONSTANTS
  CfgKind,     \* "fixed": limit_mib / spike_limit_mib;  "percent": limit_percentage / spike_limit_percentage
  CfgLimit,    \* MiB or percent
  CfgSpike,    \* MiB or percent; 0 = unspecified
  TotalMem,    \* total memory in memory units (used by "percent")
  UnitsPerMiB, \* memory unit of the model: 1 MiB / UnitsPerMiB bytes.  1048576: the unit is the byte.  TLC's integers
               \* have 32 bits, so limits of 4096 MiB and more (which Config.Validate accepts) need a coarser unit;
               \* readings then differ from the thresholds by one unit instead of one byte
  SoftInt,     \* min_gc_interval_when_soft_limited (time units)
  HardInt,     \* min_gc_interval_when_hard_limited (time units)
  MaxT,        \* cap of the elapsed-time counter
  Users        \* users sharing the limiter

MiB == UnitsPerMiB

\* getMemUsageChecker / newFixedMemUsageChecker / newPercentageMemUsageChecker
Limit    == IF CfgKind = "fixed" THEN CfgLimit * MiB ELSE (CfgLimit * TotalMem) \div 100
SpikeCfg == IF CfgKind = "fixed" THEN CfgSpike * MiB ELSE (CfgSpike * TotalMem) \div 100
Spike    == IF SpikeCfg = 0 THEN Limit \div 5 ELSE SpikeCfg     \* documented default: 20% of the limit
Soft     == Limit - Spike

\* Config.Validate (check_interval > 0 is a property of the harness, not of the model)
ValidCfg == /\ SoftInt >= HardInt /\ HardInt >= 0
            /\ CfgLimit > 0 /\ CfgSpike >= 0 /\ CfgSpike < CfgLimit
            /\ (CfgKind = "percent" => CfgLimit <= 100)

NA == -1     \* "no second reading"

VARIABLES
  mustRefuse,  \* ml.mustRefuse
  sinceGC,     \* now - ml.lastGCDone, capped
  refCount,    \* ml.refCounter
  running,     \* the ticker goroutine exists and has not been told to stop
  ustate,      \* [Users -> {"new","started","stopped"}]
  chk,         \* observation of the last check
  out          \* observation of the last consume / extension check

vars == <<mustRefuse, sinceGC, refCount, running, ustate, chk, out>>

NoChk == [n |-> 0, src |-> "none", first |-> 0, last |-> 0, reads |-> 0, gc |-> FALSE,
          elLo |-> 0, elHi |-> 0, ranWhile |-> TRUE]
NoOut == [kind |-> "none"]

Init == /\ mustRefuse = FALSE /\ sinceGC = 0 /\ refCount = 0 /\ running = FALSE
        /\ ustate = [u \in Users |-> "new"]
        /\ chk = NoChk /\ out = NoOut

Min(a, b) == IF a < b THEN a ELSE b

-----------------------------------------------------------------------------
(* CheckMemLimits, transcribed branch by branch.  Result: did a forced GC happen, which reading
   was the last one, and the new mode. *)
AboveSoft(ms) == ms >= Limit - Spike      \* usageChecker.aboveSoftLimit
AboveHard(ms) == ms >= Limit              \* usageChecker.aboveHardLimit

Decide(el, r, a) ==
  IF ~AboveSoft(r)
    THEN [gc |-> FALSE, last |-> r, refuse |-> FALSE]
    ELSE IF AboveHard(r)
           THEN IF el > HardInt
                  THEN [gc |-> TRUE,  last |-> a, refuse |-> AboveSoft(a)]
                  ELSE [gc |-> FALSE, last |-> r, refuse |-> TRUE]
           ELSE IF el > SoftInt
                  THEN [gc |-> TRUE,  last |-> a, refuse |-> AboveSoft(a)]
                  ELSE [gc |-> FALSE, last |-> r, refuse |-> TRUE]

\* would a check with first reading r, d units after the previous one, force a GC?
WouldGC(d, r) == Decide(Min(sinceGC + d, MaxT), r, r).gc

Check(src, d, r, a) ==
  /\ d > 0
  /\ src = "ticker" => running
  /\ LET el  == Min(sinceGC + d, MaxT)
         dec == Decide(el, r, a)
     IN /\ mustRefuse' = dec.refuse
        /\ sinceGC' = IF dec.gc THEN 0 ELSE el
        /\ chk' = [n |-> chk.n + 1, src |-> src, first |-> r, last |-> dec.last,
                   reads |-> IF dec.gc THEN 2 ELSE 1, gc |-> dec.gc, elLo |-> el, elHi |-> el,
                   ranWhile |-> (src = "ticker" => running)]
  /\ UNCHANGED <<refCount, running, ustate, out>>

\* Start: refCounter++, the first one launches the goroutine
Start(u) ==
  /\ ustate[u] = "new"
  /\ \A v \in Users : ustate[v] # "stopped" \/ refCount > 0     \* no restart after a full stop
  /\ ustate' = [ustate EXCEPT ![u] = "started"]
  /\ refCount' = refCount + 1
  /\ running' = (IF refCount + 1 = 1 THEN TRUE ELSE running)
  /\ UNCHANGED <<mustRefuse, sinceGC, chk, out>>

\* Shutdown: case 1 -> ticker.Stop, close(closed), Wait; refCounter--
Shutdown(u) ==
  /\ ustate[u] = "started"
  /\ ustate' = [ustate EXCEPT ![u] = "stopped"]
  /\ running' = (IF refCount = 1 THEN FALSE ELSE running)
  /\ refCount' = refCount - 1
  /\ UNCHANGED <<mustRefuse, sinceGC, chk, out>>

\* processor wrapper; res = downstream's result ("ok" or an error tag)
Consume(u, res) ==
  /\ out' = IF mustRefuse
              THEN [kind |-> "consume", u |-> u, refusing |-> TRUE, err |-> "refused", permanent |-> FALSE,
                    forwarded |-> 0, intact |-> TRUE, downstream |-> res]
              ELSE [kind |-> "consume", u |-> u, refusing |-> FALSE, err |-> res, permanent |-> (res = "perm"),
                    forwarded |-> 1, intact |-> TRUE, downstream |-> res]
  /\ UNCHANGED <<mustRefuse, sinceGC, refCount, running, ustate, chk>>

ExtCheck(u) ==
  /\ out' = [kind |-> "ext", u |-> u, refusing |-> mustRefuse, answer |-> mustRefuse]
  /\ UNCHANGED <<mustRefuse, sinceGC, refCount, running, ustate, chk>>

-----------------------------------------------------------------------------
(* The property, clause by clause (from the statement). *)

\* interval "for that severity"
IntervalFor(first) == IF first >= Limit THEN HardInt ELSE SoftInt

\* "After each memory check the limiter is in refusing mode iff the most recent measurement (taken
\*  after a forced collection when one was due) is at or above limit minus spike limit"
RefuseIff == chk.n > 0 => (mustRefuse <=> chk.last >= Limit - Spike)
\* the most recent measurement was taken after the collection: a forced GC is followed by a re-read
MeasuredAfterGC == chk.n > 0 => (chk.reads = IF chk.gc THEN 2 ELSE 1)
\* "a forced garbage collection happens only when usage is above the soft limit and the configured
\*  minimum interval for that severity has elapsed"   (elLo..elHi: what is known about the elapsed time)
GCOnlyWhenDue == chk.gc => (chk.first >= Limit - Spike /\ chk.elHi > IntervalFor(chk.first))
\* "... when one was due": it is taken when due
GCWhenDue == (chk.n > 0 /\ chk.first >= Limit - Spike /\ chk.elLo > IntervalFor(chk.first)) => chk.gc

\* "While refusing, every consume call ... returns a non-permanent error and forwards nothing"
RefusingReturnsNonPermanentAndForwardsNothing ==
  (out.kind = "consume" /\ out.refusing) => (out.err # "ok" /\ ~out.permanent /\ out.forwarded = 0)
\* "while not refusing, the payload is forwarded unmodified and downstream's result is returned"
AcceptingForwardsUnmodified ==
  (out.kind = "consume" /\ ~out.refusing) =>
      (out.forwarded = 1 /\ out.intact /\ out.err = out.downstream /\ out.permanent = (out.downstream = "perm"))
\* "(and the extension's check)"
ExtensionAnswersMode == out.kind = "ext" => out.answer = out.refusing

\* "The shared checker keeps running until the last user has shut down and then stops"
RunsUntilLastUser == running <=> (\E u \in Users : ustate[u] = "started")
ChecksOnlyWhileRunning == chk.ranWhile
RefCountIsUsers == refCount = Cardinality({u \in Users : ustate[u] = "started"})

CheckInv == RefuseIff /\ MeasuredAfterGC /\ GCOnlyWhenDue /\ GCWhenDue
WrapInv  == RefusingReturnsNonPermanentAndForwardsNothing /\ AcceptingForwardsUnmodified /\ ExtensionAnswersMode
LifeInv  == RunsUntilLastUser /\ ChecksOnlyWhileRunning /\ RefCountIsUsers
Property == CheckInv /\ WrapInv /\ LifeInv

\* the mode changes only in a check (consume calls, start and shutdown never flip it)
ModeChangesOnlyInCheck == [][mustRefuse' # mustRefuse => chk'.n = chk.n + 1]_vars
=============================================================================
