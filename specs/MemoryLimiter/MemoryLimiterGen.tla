--------------------------- MODULE MemoryLimiterGen ---------------------------
(* Behaviour generator for C18.  A behaviour is a sequence of N steps, each annotated with the
   observations the specification determines.  Printed as JSON from an invariant (-workers 1) or
   sampled with -simulate; replayed into the real code by harness/memlimiter.

   Mode "checks": direct CheckMemLimits() calls only.  Step [k:"check", d, r, a, gc, refuse]:
       d  time advance before the check (units; the driver sleeps d units when Timed, otherwise
          it only makes sure that the clock has advanced),
       r  first reading (bytes), a second reading returned if the limiter re-reads (bytes; NA when
          the specification says no collection is due -- the driver then returns r again),
       gc, refuse  specified decision.
   Mode "wrap": a limiter shared by Users behind the processor factory (or the extension),
       driven by its own ticker.  Steps start/shutdown/tcheck/consume/ext with the specified
       running flag after the step and the specified outcome of consume/ext. *)
EXTENDS MemoryLimiter, TLC, Json

CONSTANTS Mode,        \* "checks" | "wrap"
          N,           \* number of steps
          Delays,      \* time advances
          ReadingSet,  \* "classes" | "small" | "full"
          Results,     \* downstream results
          ExtMode,     \* TRUE: users are extensions (ext steps), FALSE: processors (consume steps)
          Timed        \* TRUE: real-time scripts; a second reading is always supplied

ASSUME ValidCfg

Readings == CASE ReadingSet = "classes" -> {Soft - 1, Soft, Limit}
              [] ReadingSet = "small"   -> {Soft - 1, Soft, Limit - 1, Limit}
              [] OTHER                  -> {0, Soft - 1, Soft, Soft + 1, Limit - 1, Limit, Limit + 1}

VARIABLE hist
gvars == <<vars, hist>>

GenInit == Init /\ hist = <<>>

GenCheck ==
  \E d \in Delays, r \in Readings :
    \E a \in (IF Timed \/ WouldGC(d, r) THEN Readings ELSE {NA}) :
       /\ Check("direct", d, r, a)
       /\ hist' = Append(hist, [k |-> "check", d |-> d, r |-> r, a |-> a,
                                gc |-> chk'.gc, refuse |-> mustRefuse'])

\* ticker-driven check in wrap mode: the configured intervals are very large there, so one reading
GenTCheck ==
  \E r \in Readings :
     /\ ~WouldGC(1, r)
     /\ Check("ticker", 1, r, NA)
     /\ hist' = Append(hist, [k |-> "tcheck", r |-> r, refuse |-> mustRefuse', running |-> running'])

GenStart == \E u \in Users : /\ Start(u)
                             /\ hist' = Append(hist, [k |-> "start", u |-> u, running |-> running'])
GenShutdown == \E u \in Users : /\ Shutdown(u)
                                /\ hist' = Append(hist, [k |-> "shutdown", u |-> u, running |-> running'])
GenConsume == \E u \in Users, res \in Results :
                 /\ ~ExtMode
                 /\ Consume(u, res)
                 /\ hist' = Append(hist, [k |-> "consume", u |-> u, res |-> res, err |-> out'.err,
                                          permanent |-> out'.permanent, forwarded |-> out'.forwarded,
                                          running |-> running'])
GenExt == \E u \in Users :
                 /\ ExtMode
                 /\ ExtCheck(u)
                 /\ hist' = Append(hist, [k |-> "ext", u |-> u, answer |-> out'.answer, running |-> running'])

GenNext == /\ Len(hist) < N
           /\ IF Mode = "checks" THEN GenCheck
              ELSE GenTCheck \/ GenStart \/ GenShutdown \/ GenConsume \/ GenExt
GenSpec == GenInit /\ [][GenNext]_gvars

Emit == Len(hist) = N => PrintT(<<"BEH", ToJson(hist)>>)
=============================================================================
