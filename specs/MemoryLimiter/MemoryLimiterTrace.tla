-------------------------- MODULE MemoryLimiterTrace --------------------------
(* Trace validation for C18, real-time check scripts (finite GC intervals).
   observed.ndjson (written by harness/memlimiter timed), times in microseconds of one monotonic clock:
     {"ev":"reset","sid":n,"c0":..,"c1":..}      a new limiter; NewMemoryLimiter ran inside [c0,c1]
     {"ev":"check","sid":n,"r":..,"a":..,"reads":k,"gcs":g,"fresh":b,"t1":..,"t2":..,"te":..,"refuse":b}
           one CheckMemLimits(): r/a = the readings supplied, reads = how many were taken, gcs =
           forced collections counted by the Go runtime during the call, fresh = the second reading
           was taken after the collection, t1/t2 = instants of the first/second reading, te = return,
           refuse = MustRefuse() afterwards
     {"ev":"end"}
   The specification's elapsed time since the last forced GC is only known to lie in
   [t1 - gHi, te - gLo] where [gLo,gHi] brackets the instant lastGCDone was set; the property
   clauses of MemoryLimiter (CheckInv) are evaluated on the observations with that interval, and
   Conforms requires that the transcribed decision procedure Decide explains the observation for
   some instant of the interval.  Constants SoftInt/HardInt are in microseconds here. *)
EXTENDS MemoryLimiter, TLC, Json

Log == ndJsonDeserialize("observed.ndjson")

VARIABLES l,        \* next line
          sid,      \* script id of the current trace
          gLo, gHi  \* bounds of the instant of the last forced GC (or construction)

tvars == <<vars, l, sid, gLo, gHi>>

TInit == /\ Init /\ l = 1 /\ sid = -1 /\ gLo = 0 /\ gHi = 0 /\ TLCSet(1, 1)

TReset == /\ l <= Len(Log) /\ Log[l].ev = "reset"
          /\ mustRefuse' = FALSE /\ sinceGC' = 0 /\ chk' = NoChk /\ out' = NoOut
          /\ UNCHANGED <<refCount, running, ustate>>
          /\ sid' = Log[l].sid /\ gLo' = Log[l].c0 /\ gHi' = Log[l].c1
          /\ l' = l + 1

TCheck == /\ l <= Len(Log) /\ Log[l].ev = "check"
          /\ LET e  == Log[l]
                 gc == e.gcs > 0
             IN /\ mustRefuse' = e.refuse
                /\ chk' = [n |-> chk.n + 1, src |-> "direct", first |-> e.r,
                           last |-> IF e.reads >= 2 THEN e.a ELSE e.r,
                           reads |-> IF e.reads = 2 /\ ~e.fresh THEN 0 ELSE e.reads,   \* a stale re-read does not count
                           gc |-> gc,
                           elLo |-> IF e.t1 - gHi > 0 THEN e.t1 - gHi ELSE 0,
                           elHi |-> e.te - gLo,
                           ranWhile |-> TRUE]
                /\ gLo' = IF gc THEN e.t1 ELSE gLo
                /\ gHi' = IF gc THEN (IF e.reads >= 2 THEN e.t2 ELSE e.te) ELSE gHi
          /\ l' = l + 1
          /\ UNCHANGED <<sinceGC, refCount, running, ustate, out, sid>>

TEnd == /\ l <= Len(Log) /\ Log[l].ev = "end" /\ l' = l + 1
        /\ UNCHANGED <<vars, sid, gLo, gHi>>

TNext == TReset \/ TCheck \/ TEnd
TSpec == TInit /\ [][TNext]_tvars

\* strict: the transcription of CheckMemLimits explains the observation for some clock reading
Conforms == chk.n > 0 =>
   \E el \in {chk.elLo, chk.elHi} :
      LET dec == Decide(el, chk.first, chk.last)
      IN dec.gc = chk.gc /\ dec.refuse = mustRefuse /\ dec.last = chk.last

HighWater == IF l > TLCGet(1) THEN TLCSet(1, l) ELSE TRUE
Accepted == IF TLCGet(1) = Len(Log) + 1 THEN TRUE
            ELSE PrintT(<<"REJECTED_AT", TLCGet(1), Len(Log)>>) /\ FALSE
=============================================================================
