------------------------------ MODULE Collector ------------------------------
(* C20 -- implementation-shaped model of the collector run loop.

   Shaped like   otelcol/collector.go        Run / setupConfigurationComponents / reloadConfiguration /
                                             shutdown / Shutdown
                 confmap/resolver.go         1-slot watcher channel, closed by Shutdown BEFORE the
                                             retrievals are closed; onChange = blocking send
                 service/service.go          Start / Shutdown
                 service/internal/graph      StartAll / ShutdownAll (two status reports per component,
                                             each under the status reporter mutex),
                                             Host.NotifyComponentStatusChange (fatal error -> send on the
                                             collector's async error channel WHILE the reporter mutex is held)
   one action per critical section / channel operation of the run loop; the environment (config
   watcher, signals, Shutdown() callers, context, components reporting fatal errors, components whose
   create / start / shutdown fails, broken configurations) is nondeterministic and bounded.

   Variants (constants):
     Blocking = TRUE   the fatal error is handed over with a blocking send on the unbuffered channel
                       while the reporter mutex is held (the pinned tree)
     Blocking = FALSE  the send is done by a goroutine of its own that gives up when the service it
                       belongs to has been shut down (fixes/C20-fatal-error-send.patch)
     SafeWatch = FALSE Resolver.Shutdown closes the watcher channel while providers may still notify:
                       a notification that is blocked on the full buffer, or arrives before its
                       retrieval is closed, panics (the pinned tree)
     SafeWatch = TRUE  Shutdown first turns notifications away (done channel), waits for those in
                       flight, then closes the channel (fixes/C20-watcher-close.patch)
   Deviations from the code, on purpose:
     * components are created in start order (the real order is pipelines, then extensions) and
       shut down in exactly the reverse start order; orders are C10's business
     * signal.Notify is merged with the first transition to Running (it follows it immediately)
     * the environment's history `hist` (used to project a behaviour to a script for the real
       collector, see CollectorGen) does not influence behaviour and is hidden by the VIEW       *)
EXTENDS CollectorObs, TLC

CONSTANTS Comps,        \* the components every configuration consists of
          CompSeq,      \* the same in start order
          MaxGen,       \* bound on configuration generations (reloads + 1)
          MaxEnv,       \* bound on external events
          MaxFail,      \* bound on scripted failures (broken config, create / start / shutdown errors)
          Blocking,     \* see above
          SafeWatch,    \* see above
          Nobody        \* model value

ASSUME Comps = {CompSeq[k] : k \in 1..Len(CompSeq)}
N == Len(CompSeq)
StopSeq == [k \in 1..N |-> CompSeq[N + 1 - k]]
Gens == 1..MaxGen
\* extensions are handed the bare host, which is not a componentstatus.Reporter: their reports go nowhere
Reporters == Comps \ {"x"}

VARIABLES
  pc, i, mode,    \* run loop: program counter, component index, why components are being stopped
  cur,            \* the component whose Start / Shutdown the loop is in
  state,          \* Collector.state
  gen,            \* generation of the configuration retrieved last
  fs,             \* <<g,c>> -> status of the component in the reporter's state machine (abridged)
  rmu,            \* g -> holder of the status reporter mutex of service g (Nobody or a component)
  fpc, ftg,       \* c -> pc of the goroutine in which component c reports a fatal error; its generation
  shutReq,        \* shutdownChan is closed
  ctxDone,        \* the context passed to Run is cancelled
  sigReg, sigQ,   \* signal handlers installed; content of signalsChannel (capacity 3)
  wbuf, wblk,     \* watcher channel: buffer (capacity 1), payloads of the senders blocked on it
  wclosed,        \* watcher channel closed
  openA, openB,   \* retrievals mem:main / mem:aux are open (their Close has not been called)
  apend,          \* (Blocking = FALSE) generations with a fatal error waiting to be received
  sdoneG,         \* generations whose service has been shut down completely
  stopErr,        \* some component Shutdown of the current service returned an error
  nenv, nfail, o, hist

vars == <<pc, i, cur, mode, state, gen, fs, rmu, fpc, ftg, shutReq, ctxDone, sigReg, sigQ, wbuf, wblk, wclosed,
          openA, openB, apend, sdoneG, stopErr, nenv, nfail, o, hist>>
view == <<pc, i, cur, mode, state, gen, fs, rmu, fpc, ftg, shutReq, ctxDone, sigReg, sigQ, wbuf, wblk, wclosed,
          openA, openB, apend, sdoneG, stopErr, nenv, nfail, o>>

Init ==
  /\ pc = "init" /\ i = 0 /\ cur = CompSeq[1] /\ mode = "none" /\ state = "Starting" /\ gen = 0
  /\ fs = [x \in Gens \X Comps |-> "None"]
  /\ rmu = [g \in Gens |-> Nobody]
  /\ fpc = [c \in Comps |-> "idle"] /\ ftg = [c \in Comps |-> 0]
  /\ shutReq = FALSE /\ ctxDone = FALSE /\ sigReg = FALSE /\ sigQ = <<>>
  /\ wbuf = <<>> /\ wblk = <<>> /\ wclosed = FALSE /\ openA = FALSE /\ openB = FALSE
  /\ apend = {} /\ sdoneG = {} /\ stopErr = FALSE
  /\ nenv = 0 /\ nfail = 0 /\ o = ObsInit(Comps) /\ hist = <<>>

\* ---------------------------------------------------------------- script projection
ToS(n) == ToString(n)
\* the callback of the real run loop that is nearest to the current position (see harness/collector)
Anchor ==
  CASE pc = "init"                      -> "pre"
    [] pc \in {"setstarting", "get"}    -> IF gen = 0 /\ pc = "setstarting" THEN "pre" ELSE "get:" \o ToS(gen + 1)
    [] pc = "create"                    -> "create:" \o ToS(gen) \o ":" \o CompSeq[i]
    [] pc \in {"startA", "startB"}      -> "start:" \o ToS(gen) \o ":" \o CompSeq[i]
    [] pc \in {"stopA", "stopB", "stopC", "stopCf"} -> "stop:" \o ToS(gen) \o ":" \o StopSeq[i]
    [] pc \in {"setrunning", "select", "retire0", "closing", "wclose"} -> "idle"
    [] pc \in {"pcloseA", "pcloseB"}    -> "pclose:" \o ToS(gen)
    [] pc = "provsd"                    -> "provsd"
    [] OTHER                            -> "post"
\* gates: TRUE here; CollectorGen overrides them to bias random simulation (never in exhaustive runs)
EnvGate == TRUE
FailGate == TRUE
TimeoutGate == TRUE
Fail(what) == /\ nfail < MaxFail /\ FailGate /\ nfail' = nfail + 1
              /\ hist' = Append(hist, [k |-> "fail", c |-> what, at |-> "", v |-> pc])
NoFail == nfail' = nfail /\ hist' = hist
Env(kind, c) == /\ nenv < MaxEnv /\ EnvGate /\ nenv' = nenv + 1 /\ pc # "timedout"
                /\ hist' = Append(hist, [k |-> kind, c |-> c, at |-> Anchor,
                                         \* visit: distinguishes two stays at the same anchor
                                         v |-> ToS(gen) \o (IF Anchor = "idle" THEN "idle" ELSE pc)])

\* ---------------------------------------------------------------- status state machine (abridged)
CanFatal(s)   == s \in {"Starting", "OK", "Perm", "Stopping"}
ToStopping(s) == IF s \in {"Starting", "OK", "Perm"} THEN "Stopping" ELSE s
ToStopped(s)  == IF s = "Stopping" THEN "Stopped" ELSE s
ToPerm(s)     == IF s \in {"Starting", "OK", "Stopping"} THEN "Perm" ELSE s

\* ---------------------------------------------------------------- the run loop
\* the component the loop is dealing with (CollectorStrict takes the name from the log instead: the
\* real order inside one service is any topological order, which is C10's business)
CreateComp == CompSeq[i]
StartComp  == CompSeq[i]
StopComp   == StopSeq[i]

RunBegin ==
  /\ pc = "init" /\ pc' = "setstarting"
  /\ UNCHANGED <<i, cur, mode, state, gen, fs, rmu, fpc, ftg, shutReq, ctxDone, sigReg, sigQ, wbuf, wblk, wclosed,
                 openA, openB, apend, sdoneG, stopErr, nenv, nfail, o, hist>>

\* setupConfigurationComponents: state := Starting
SetStarting ==
  /\ pc = "setstarting" /\ state' = "Starting" /\ pc' = "get" /\ o' = OSample(o, "Starting")
  /\ UNCHANGED <<i, cur, mode, gen, fs, rmu, fpc, ftg, shutReq, ctxDone, sigReg, sigQ, wbuf, wblk, wclosed,
                 openA, openB, apend, sdoneG, stopErr, nenv, nfail, hist>>

\* configProvider.Get: the resolver closes the previous retrievals and retrieves again; the
\* configuration may be unusable
Get ==
  /\ pc = "get" /\ gen < MaxGen
  /\ gen' = gen + 1 /\ openA' = TRUE /\ openB' = TRUE /\ stopErr' = FALSE
  /\ \/ /\ NoFail /\ pc' = "create" /\ i' = 1
     \/ /\ Fail("get:" \o ToS(gen + 1)) /\ pc' = "bufail" /\ i' = i
  /\ o' = OGet(o, gen + 1, state)
  /\ UNCHANGED <<cur, mode, state, fs, rmu, fpc, ftg, shutReq, ctxDone, sigReg, sigQ, wbuf, wblk, wclosed, apend, sdoneG, nenv>>

\* service.New: the components are created one by one; a factory may fail (nothing is shut down then)
Create ==
  /\ pc = "create"
  /\ LET c == CreateComp IN
     \/ /\ NoFail /\ o' = OCreate(o, gen, c, state)
        /\ IF i < N THEN i' = i + 1 /\ pc' = pc ELSE i' = 1 /\ pc' = "startA"
     \/ /\ Fail("create:" \o ToS(gen) \o ":" \o c) /\ o' = OSample(o, state) /\ pc' = "bufail" /\ i' = i
  /\ UNCHANGED <<cur, mode, state, gen, fs, rmu, fpc, ftg, shutReq, ctxDone, sigReg, sigQ, wbuf, wblk, wclosed,
                 openA, openB, apend, sdoneG, stopErr, nenv>>

\* StartAll: ReportStatus(Starting) under the reporter mutex, then comp.Start is entered
StartA ==
  /\ pc = "startA" /\ rmu[gen] = Nobody
  /\ LET c == StartComp IN
       /\ cur' = c
       /\ fs' = [fs EXCEPT ![<<gen, c>>] = IF @ = "None" THEN "Starting" ELSE @]
       /\ o' = OStartBegin(o, gen, c, state)
  /\ pc' = "startB"
  /\ UNCHANGED <<i, mode, state, gen, rmu, fpc, ftg, shutReq, ctxDone, sigReg, sigQ, wbuf, wblk, wclosed,
                 openA, openB, apend, sdoneG, stopErr, nenv, nfail, hist>>

\* comp.Start returns; ReportOKIfStarting / ReportStatus(PermanentError) under the reporter mutex
StartB ==
  /\ pc = "startB" /\ rmu[gen] = Nobody
  /\ LET c == cur IN
     \/ /\ NoFail
        /\ fs' = [fs EXCEPT ![<<gen, c>>] = IF @ = "Starting" THEN "OK" ELSE @]
        /\ o' = OStartEnd(o, gen, c, TRUE, state)
        /\ IF i < N THEN i' = i + 1 /\ pc' = "startA" ELSE i' = i /\ pc' = "setrunning"
        /\ mode' = mode
     \/ /\ Fail("start:" \o ToS(gen) \o ":" \o c)
        /\ fs' = [fs EXCEPT ![<<gen, c>>] = ToPerm(@)]
        /\ o' = OStartEnd(o, gen, c, FALSE, state)
        /\ i' = 1 /\ pc' = "stopA" /\ mode' = "startfail"     \* service.Shutdown after a failed Start
  /\ UNCHANGED <<cur, state, gen, rmu, fpc, ftg, shutReq, ctxDone, sigReg, sigQ, wbuf, wblk, wclosed,
                 openA, openB, apend, sdoneG, stopErr, nenv>>

SetRunning ==
  /\ pc = "setrunning" /\ state' = "Running" /\ sigReg' = TRUE /\ pc' = "select"
  /\ o' = OSample(o, "Running")
  /\ UNCHANGED <<i, cur, mode, gen, fs, rmu, fpc, ftg, shutReq, ctxDone, sigQ, wbuf, wblk, wclosed,
                 openA, openB, apend, sdoneG, stopErr, nenv, nfail, hist>>

\* ---- the select statement: any ready case may be taken
ToStop   == pc' = "closing"
ToReload == pc' = "retire0"
SelWatch ==
  /\ pc = "select" /\ wbuf # <<>>
  /\ IF wblk # <<>> THEN wbuf' = <<Head(wblk)>> /\ wblk' = Tail(wblk) ELSE wbuf' = <<>> /\ wblk' = wblk
  /\ IF Head(wbuf) = "err" THEN ToStop ELSE ToReload
  /\ \* a notifier that was blocked on the full buffer has now returned
     o' = IF wblk # <<>> THEN ONotified(o, Head(wblk) = "err", FALSE, state) ELSE o
  /\ UNCHANGED <<i, cur, mode, state, gen, fs, rmu, fpc, ftg, shutReq, ctxDone, sigReg, sigQ, wclosed,
                 openA, openB, apend, sdoneG, stopErr, nenv, nfail, hist>>
SelAsync ==
  /\ pc = "select" /\ ToStop
  /\ IF Blocking
       THEN \E c \in Comps : fpc[c] = "sending" /\ fpc' = [fpc EXCEPT ![c] = "sent"] /\ apend' = apend
       ELSE \E g \in apend : apend' = apend \ {g} /\ fpc' = fpc
  /\ UNCHANGED <<i, cur, mode, state, gen, fs, rmu, ftg, shutReq, ctxDone, sigReg, sigQ, wbuf, wblk, wclosed,
                 openA, openB, sdoneG, stopErr, nenv, nfail, o, hist>>
SelSignal ==
  /\ pc = "select" /\ sigQ # <<>> /\ sigQ' = Tail(sigQ)
  /\ IF Head(sigQ) = "hup" THEN ToReload ELSE ToStop
  /\ UNCHANGED <<i, cur, mode, state, gen, fs, rmu, fpc, ftg, shutReq, ctxDone, sigReg, wbuf, wblk, wclosed,
                 openA, openB, apend, sdoneG, stopErr, nenv, nfail, o, hist>>
SelShutdown ==
  /\ pc = "select" /\ shutReq /\ ToStop
  /\ UNCHANGED <<i, cur, mode, state, gen, fs, rmu, fpc, ftg, shutReq, ctxDone, sigReg, sigQ, wbuf, wblk, wclosed,
                 openA, openB, apend, sdoneG, stopErr, nenv, nfail, o, hist>>
SelCtx ==
  /\ pc = "select" /\ ctxDone /\ ToStop
  /\ UNCHANGED <<i, cur, mode, state, gen, fs, rmu, fpc, ftg, shutReq, ctxDone, sigReg, sigQ, wbuf, wblk, wclosed,
                 openA, openB, apend, sdoneG, stopErr, nenv, nfail, o, hist>>

\* reloadConfiguration: state := Closing, service.Shutdown, setupConfigurationComponents
Retire0 ==
  /\ pc = "retire0" /\ state' = "Closing" /\ pc' = "stopA" /\ i' = 1 /\ mode' = "retire"
  /\ o' = OSample(o, "Closing")
  /\ UNCHANGED <<cur, gen, fs, rmu, fpc, ftg, shutReq, ctxDone, sigReg, sigQ, wbuf, wblk, wclosed,
                 openA, openB, apend, sdoneG, stopErr, nenv, nfail, hist>>

\* shutdown: state := Closing; configProvider.Shutdown = close(watcher), close the retrievals,
\* shut the providers down; then service.Shutdown
Closing ==
  /\ pc = "closing" /\ state' = "Closing" /\ pc' = "wclose"
  /\ o' = OSample(o, "Closing")
  /\ UNCHANGED <<i, cur, mode, gen, fs, rmu, fpc, ftg, shutReq, ctxDone, sigReg, sigQ, wbuf, wblk, wclosed,
                 openA, openB, apend, sdoneG, stopErr, nenv, nfail, hist>>
WClose ==
  /\ pc = "wclose" /\ wclosed' = TRUE /\ wblk' = <<>> /\ pc' = "pcloseA"
  /\ \* a sender blocked on the buffer panics when the channel is closed under it
     \* (SafeWatch: it is released by the done channel first and returns)
     o' = IF wblk # <<>> THEN ONotified(o, FALSE, ~SafeWatch, state) ELSE o
  /\ UNCHANGED <<i, cur, mode, state, gen, fs, rmu, fpc, ftg, shutReq, ctxDone, sigReg, sigQ, wbuf,
                 openA, openB, apend, sdoneG, stopErr, nenv, nfail, hist>>
PCloseA ==
  /\ pc = "pcloseA" /\ openA' = FALSE /\ pc' = "pcloseB"
  /\ UNCHANGED <<i, cur, mode, state, gen, fs, rmu, fpc, ftg, shutReq, ctxDone, sigReg, sigQ, wbuf, wblk, wclosed,
                 openB, apend, sdoneG, stopErr, nenv, nfail, o, hist>>
PCloseB ==
  /\ pc = "pcloseB" /\ openB' = FALSE /\ pc' = "provsd"
  /\ UNCHANGED <<i, cur, mode, state, gen, fs, rmu, fpc, ftg, shutReq, ctxDone, sigReg, sigQ, wbuf, wblk, wclosed,
                 openA, apend, sdoneG, stopErr, nenv, nfail, o, hist>>
ProvSd ==
  /\ pc = "provsd" /\ o' = OProv(o, state) /\ pc' = "stopA" /\ i' = 1 /\ mode' = "final"
  /\ UNCHANGED <<cur, state, gen, fs, rmu, fpc, ftg, shutReq, ctxDone, sigReg, sigQ, wbuf, wblk, wclosed,
                 openA, openB, apend, sdoneG, stopErr, nenv, nfail, hist>>

\* ShutdownAll: ReportStatus(Stopping) under the reporter mutex, then comp.Shutdown is entered
StopA ==
  /\ pc = "stopA" /\ rmu[gen] = Nobody
  /\ LET c == StopComp IN
       /\ cur' = c
       /\ fs' = [fs EXCEPT ![<<gen, c>>] = ToStopping(@)]
       /\ o' = OStopBegin(o, gen, c, state)
  /\ pc' = "stopB"
  /\ UNCHANGED <<i, mode, state, gen, rmu, fpc, ftg, shutReq, ctxDone, sigReg, sigQ, wbuf, wblk, wclosed,
                 openA, openB, apend, sdoneG, stopErr, nenv, nfail, hist>>

\* comp.Shutdown returns (with or without an error)
StopB ==
  /\ pc = "stopB"
  /\ \E ok \in BOOLEAN :
        /\ IF ok THEN NoFail ELSE Fail("stop:" \o ToS(gen) \o ":" \o cur)
        /\ o' = OStopEnd(o, gen, cur, ok, state)
        /\ stopErr' = (stopErr \/ ~ok)
        /\ pc' = IF ok THEN "stopC" ELSE "stopCf"
  /\ UNCHANGED <<i, cur, mode, state, gen, fs, rmu, fpc, ftg, shutReq, ctxDone, sigReg, sigQ, wbuf, wblk, wclosed,
                 openA, openB, apend, sdoneG, nenv>>

\* ReportStatus(Stopped / PermanentError) under the reporter mutex.
\* After the last component the service is down: Run goes on according to why it was stopped.
StopC ==
  /\ pc \in {"stopC", "stopCf"} /\ rmu[gen] = Nobody
  /\ fs' = [fs EXCEPT ![<<gen, cur>>] = IF pc = "stopC" THEN ToStopped(@) ELSE ToPerm(@)]
  /\ IF i < N
       THEN i' = i + 1 /\ pc' = "stopA" /\ sdoneG' = sdoneG /\ apend' = apend
       ELSE /\ i' = i /\ sdoneG' = sdoneG \cup {gen}
            /\ apend' = apend \ {gen}     \* (Blocking = FALSE) pending senders of this service give up
            /\ pc' = CASE mode = "retire"    -> IF stopErr THEN "reterr" ELSE "setstarting"
                       [] mode = "final"     -> "setclosed"
                       [] mode = "startfail" -> "bufail"
  /\ UNCHANGED <<cur, mode, state, gen, rmu, fpc, ftg, shutReq, ctxDone, sigReg, sigQ, wbuf, wblk, wclosed,
                 openA, openB, stopErr, nenv, nfail, o, hist>>

\* the bring-up failed: Run returns the error (the first time it also sets Closed)
BuFail ==
  /\ pc = "bufail" /\ pc' = "returned"
  /\ state' = IF gen = 1 THEN "Closed" ELSE state
  /\ o' = OReturn(o, TRUE, state')
  /\ UNCHANGED <<i, cur, mode, gen, fs, rmu, fpc, ftg, shutReq, ctxDone, sigReg, sigQ, wbuf, wblk, wclosed,
                 openA, openB, apend, sdoneG, stopErr, nenv, nfail, hist>>
\* the retiring service failed to shut down: Run returns the error
RetErr ==
  /\ pc = "reterr" /\ pc' = "returned" /\ o' = OReturn(o, TRUE, state)
  /\ UNCHANGED <<i, cur, mode, state, gen, fs, rmu, fpc, ftg, shutReq, ctxDone, sigReg, sigQ, wbuf, wblk, wclosed,
                 openA, openB, apend, sdoneG, stopErr, nenv, nfail, hist>>
SetClosed ==
  /\ pc = "setclosed" /\ state' = "Closed" /\ pc' = "returned" /\ o' = OReturn(o, stopErr, "Closed")
  /\ UNCHANGED <<i, cur, mode, gen, fs, rmu, fpc, ftg, shutReq, ctxDone, sigReg, sigQ, wbuf, wblk, wclosed,
                 openA, openB, apend, sdoneG, stopErr, nenv, nfail, hist>>

RunNext == RunBegin \/ SetStarting \/ Get \/ Create \/ StartA \/ StartB \/ SetRunning
           \/ SelWatch \/ SelAsync \/ SelSignal \/ SelShutdown \/ SelCtx
           \/ Retire0 \/ Closing \/ WClose \/ PCloseA \/ PCloseB \/ ProvSd \/ StopA \/ StopB \/ StopC
           \/ BuFail \/ RetErr \/ SetClosed

\* ---------------------------------------------------------------- components reporting a fatal error
\* componentstatus.ReportStatus(host, NewFatalErrorEvent(err)) in a goroutine of the component
Reporting(c) == {g \in Gens : CanFatal(fs[<<g, c>>])}
FatalWant(c) ==
  /\ fpc[c] = "idle" /\ Reporting(c) # {} /\ Env("fatal", c)
  /\ ftg' = [ftg EXCEPT ![c] = CHOOSE g \in Reporting(c) : \A h \in Reporting(c) : h <= g]
  /\ fpc' = [fpc EXCEPT ![c] = "want"]
  /\ UNCHANGED <<pc, i, cur, mode, state, gen, fs, rmu, shutReq, ctxDone, sigReg, sigQ, wbuf, wblk, wclosed,
                 openA, openB, apend, sdoneG, stopErr, nfail, o>>
\* reporter.ReportStatus: lock; transition; onStatusChange -> Host.NotifyComponentStatusChange
FatalLock(c) ==
  /\ fpc[c] = "want" /\ rmu[ftg[c]] = Nobody /\ pc # "timedout"
  /\ LET g == ftg[c] IN
     IF CanFatal(fs[<<g, c>>])
       THEN /\ fs' = [fs EXCEPT ![<<g, c>>] = "Fatal"]
            /\ o' = OFatalSeen(o, g, state)
            /\ IF Blocking
                 THEN \* asyncErrorChannel <- err  with the mutex held
                      rmu' = [rmu EXCEPT ![g] = c] /\ fpc' = [fpc EXCEPT ![c] = "sending"] /\ apend' = apend
                 ELSE \* go func() { select { case ch <- err: case <-done: } }(); unlock
                      /\ rmu' = rmu /\ fpc' = [fpc EXCEPT ![c] = "done"]
                      /\ apend' = IF g \in sdoneG THEN apend ELSE apend \cup {g}
       ELSE \* invalid transition: nobody is notified
            fs' = fs /\ o' = o /\ rmu' = rmu /\ apend' = apend /\ fpc' = [fpc EXCEPT ![c] = "done"]
  /\ UNCHANGED <<pc, i, cur, mode, state, gen, ftg, shutReq, ctxDone, sigReg, sigQ, wbuf, wblk, wclosed,
                 openA, openB, sdoneG, stopErr, nenv, nfail, hist>>
FatalUnlock(c) ==
  /\ fpc[c] = "sent" /\ rmu' = [rmu EXCEPT ![ftg[c]] = Nobody] /\ fpc' = [fpc EXCEPT ![c] = "done"]
  /\ UNCHANGED <<pc, i, cur, mode, state, gen, fs, ftg, shutReq, ctxDone, sigReg, sigQ, wbuf, wblk, wclosed,
                 openA, openB, apend, sdoneG, stopErr, nenv, nfail, o, hist>>
RepNext == \E c \in Comps : FatalLock(c) \/ FatalUnlock(c)

\* ---------------------------------------------------------------- the rest of the environment
\* (*Collector).Shutdown(): closes shutdownChan when the state is Running or Starting (recover()
\* swallows the double close), otherwise does nothing
ExtShutdown ==
  /\ Env("shutdown", "")
  /\ shutReq' = (shutReq \/ state \in {"Running", "Starting"})
  /\ o' = OExtShutdownEnd(OExtShutdownBegin(o, 0, state), 0, state, FALSE)
  /\ UNCHANGED <<pc, i, cur, mode, state, gen, fs, rmu, fpc, ftg, ctxDone, sigReg, sigQ, wbuf, wblk, wclosed,
                 openA, openB, apend, sdoneG, stopErr, nfail>>
ExtCtx ==
  /\ ~ctxDone /\ pc \notin {"init", "returned"} /\ ~(pc = "setstarting" /\ gen = 0) /\ Env("ctx", "") /\ ctxDone' = TRUE
  /\ o' = OExtCtx(o, state)
  /\ UNCHANGED <<pc, i, cur, mode, state, gen, fs, rmu, fpc, ftg, shutReq, sigReg, sigQ, wbuf, wblk, wclosed,
                 openA, openB, apend, sdoneG, stopErr, nfail>>
\* the number of reloads is bounded by bounding the triggers
Triggers == o.ntrig
ExtSignal(s) ==
  /\ pc \notin {"init", "returned"} /\ ~(pc = "setstarting" /\ gen = 0) /\ (s = "sighup" => Triggers < MaxGen - 1) /\ Env(s, "")
  /\ sigQ' = IF sigReg /\ Len(sigQ) < 3 THEN Append(sigQ, IF s = "sighup" THEN "hup" ELSE "term") ELSE sigQ
  /\ o' = IF s = "sighup" THEN OExtSighup(o, sigReg, state) ELSE OExtSigterm(o, sigReg, state)
  /\ UNCHANGED <<pc, i, cur, mode, state, gen, fs, rmu, fpc, ftg, shutReq, ctxDone, sigReg, wbuf, wblk, wclosed,
                 openA, openB, apend, sdoneG, stopErr, nfail>>
\* a provider calls the watcher function of a retrieval that is still open: Resolver.onChange
MaxBlocked == 1     \* bound on notifiers blocked on the full buffer (CollectorStrict admits more)
ExtChange(v) ==
  /\ (openA \/ openB) /\ (v = "ok" => Triggers < MaxGen - 1) /\ Len(wblk) < MaxBlocked
  /\ Env(IF v = "ok" THEN "change" ELSE "change_err", "")
  /\ LET o1 == IF v = "ok" THEN OExtChange(o, state) ELSE OSample(o, state) IN
     IF wclosed
       THEN \* send on closed channel (SafeWatch: the notification is turned away)
            /\ o' = ONotified(o1, FALSE, ~SafeWatch, state) /\ UNCHANGED <<wbuf, wblk>>
       ELSE IF wbuf = <<>>
              THEN /\ wbuf' = <<v>> /\ wblk' = wblk /\ o' = ONotified(o1, v = "err", FALSE, state)
              ELSE /\ wblk' = Append(wblk, v) /\ wbuf' = wbuf /\ o' = o1
  /\ UNCHANGED <<pc, i, cur, mode, state, gen, fs, rmu, fpc, ftg, shutReq, ctxDone, sigReg, sigQ, wclosed,
                 openA, openB, apend, sdoneG, stopErr, nfail>>
EnvNext == ExtShutdown \/ ExtCtx \/ ExtSignal("sighup") \/ ExtSignal("sigterm")
           \/ ExtChange("ok") \/ ExtChange("err") \/ \E c \in Reporters : FatalWant(c)

\* ---------------------------------------------------------------- the watchdog
\* neither the run loop nor a reporter can take a step and Run has not returned
Quiescent == pc \notin {"returned", "timedout"} /\ ~ENABLED RunNext /\ ~ENABLED RepNext
Timeout ==
  /\ Quiescent /\ TimeoutGate /\ pc' = "timedout" /\ o' = OTimeout(o, state)
  /\ UNCHANGED <<i, cur, mode, state, gen, fs, rmu, fpc, ftg, shutReq, ctxDone, sigReg, sigQ, wbuf, wblk, wclosed,
                 openA, openB, apend, sdoneG, stopErr, nenv, nfail, hist>>

Next == RunNext \/ RepNext \/ EnvNext \/ Timeout
Spec == Init /\ [][Next]_vars

\* ---------------------------------------------------------------- invariants (clauses of C20)
InvStateOrder            == StateOrder(o)
InvEndsClosed            == EndsClosed(o)
InvServiceShutdownOnce   == ServiceShutdownOnce(o)
InvProvidersShutdownOnce == ProvidersShutdownOnce(o)
InvNoOverlap             == NoOverlap(o)
InvFailedBringUpCleansUp == FailedBringUpCleansUp(o)
InvShutdownIdempotent    == ShutdownIdempotent(o)
InvRunReturns            == RunReturns(o)
InvNotifySafe            == NotifySafe(o)

\* model sanity: the observer's sample is the state variable; the mutex is held only by a sender
TypeOK == /\ o.st = state
          /\ \A g \in Gens : rmu[g] # Nobody => fpc[rmu[g]] \in {"sending", "sent"} /\ ftg[rmu[g]] = g
          /\ Len(wbuf) <= 1 /\ Len(sigQ) <= 3
\* statistics for the coverage report: behaviours that end in each way are reachable
=============================================================================
