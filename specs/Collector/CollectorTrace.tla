---------------------------- MODULE CollectorTrace ----------------------------
(* C20 -- monitor: the clauses of CollectorObs evaluated by TLC on logs recorded from the real
   otelcol.Collector (harness/collector/c20).

   observed.ndjson holds many traces, each starting with a `reset` line; checks/C20.py has only
   normalised the recorder's lines (every line has every field, SIGINT is written as sigterm,
   lines after a `timeout` are cut).

     ev        fields used           observation
     reset     id, comps             a new run: o = ObsInit(comps)
     retrieve  gen                   the provider was asked for the configuration of generation gen
     create    gen, comp, ok         a factory was called (ok = FALSE: it returned an error)
     start / start_end(ok)           Component.Start entered / returned
     shutdown / shutdown_end(ok)     Component.Shutdown entered / returned
     prov_shutdown                   Provider.Shutdown
     run_return ok                   Run returned (ok = FALSE: with an error)
     ext kind (reg, iid)             an external event was injected: ctx, sigterm, sighup, change,
                                     change_err, fatal, shutdown (iid: the Shutdown() calls start)
     ext_done  iid, bad              the Shutdown() calls of injection iid have returned (bad: one of
                                     them panicked or did not return)
     notify_done kind, bad           a change notification returned (bad: it panicked)
     fatal_seen gen                  the status reporter accepted a fatal error (seen by a watcher
                                     extension under the reporter's mutex)
     timeout                         the watchdog expired
     (anything else)                 only the GetState() sample `st` is used

   The monitor is deterministic: one behaviour, one state per line.  It does not stop at the first
   broken clause: it collects <<trace id, clause, line>> in `viol` and prints the verdict at the end,
   so one TLC run gives every trace of the batch its own verdict.                                *)
EXTENDS CollectorObs, TLC, Json

Log == ndJsonDeserialize("observed.ndjson")

VARIABLES l, o, tid, viol
tvars == <<l, o, tid, viol>>

ToSet(s) == {s[k] : k \in 1..Len(s)}

Apply(ob, e) ==
  CASE e.ev = "reset"        -> ObsInit(ToSet(e.comps))
    [] e.ev = "retrieve"     -> OGet(ob, e.gen, e.st)
    [] e.ev = "create"       -> IF e.ok THEN OCreate(ob, e.gen, e.comp, e.st) ELSE OSample(ob, e.st)
    [] e.ev = "start"        -> OStartBegin(ob, e.gen, e.comp, e.st)
    [] e.ev = "start_end"    -> OStartEnd(ob, e.gen, e.comp, e.ok, e.st)
    [] e.ev = "shutdown"     -> OStopBegin(ob, e.gen, e.comp, e.st)
    [] e.ev = "shutdown_end" -> OStopEnd(ob, e.gen, e.comp, e.ok, e.st)
    [] e.ev = "prov_shutdown" -> OProv(ob, e.st)
    [] e.ev = "run_return"   -> OReturn(ob, ~e.ok, e.st)
    [] e.ev = "ext" /\ e.kind = "ctx"     -> OExtCtx(ob, e.st)
    [] e.ev = "ext" /\ e.kind = "sigterm" -> OExtSigterm(ob, e.reg, e.st)
    [] e.ev = "ext" /\ e.kind = "sighup"  -> OExtSighup(ob, e.reg, e.st)
    [] e.ev = "ext" /\ e.kind = "change"  -> OExtChange(ob, e.st)
    [] e.ev = "ext" /\ e.kind = "shutdown" -> OExtShutdownBegin(ob, e.iid, e.st)
    [] e.ev = "ext_done"     -> OExtShutdownEnd(ob, e.iid, e.st, e.bad)
    [] e.ev = "notify_done"  -> ONotified(ob, e.kind = "change_err", e.bad, e.st)
    [] e.ev = "fatal_seen"   -> OFatalSeen(ob, e.gen, e.st)
    [] e.ev = "timeout"      -> OTimeout(ob, e.st)
    [] OTHER                 -> OSample(ob, e.st)

Clauses(ob) ==
  { <<"StateOrder", StateOrder(ob)>>, <<"EndsClosed", EndsClosed(ob)>>,
    <<"ServiceShutdownOnce", ServiceShutdownOnce(ob)>>, <<"ProvidersShutdownOnce", ProvidersShutdownOnce(ob)>>,
    <<"NoOverlap", NoOverlap(ob)>>, <<"FailedBringUpCleansUp", FailedBringUpCleansUp(ob)>>,
    <<"ShutdownIdempotent", ShutdownIdempotent(ob)>>, <<"RunReturns", RunReturns(ob)>>,
    <<"NotifySafe", NotifySafe(ob)>> }
Broken(ob) == {x[1] : x \in {y \in Clauses(ob) : ~y[2]}}

TInit == l = 1 /\ o = ObsInit({}) /\ tid = "" /\ viol = <<>>

RECURSIVE AppendAll(_, _)
AppendAll(s, set) == IF set = {} THEN s
                     ELSE LET x == CHOOSE y \in set : TRUE IN AppendAll(Append(s, x), set \ {x})

TNext ==
  /\ l <= Len(Log)
  /\ LET e   == Log[l]
         ob  == Apply(o, e)
         id  == IF e.ev = "reset" THEN e.id ELSE tid
         new == {c \in Broken(ob) : ~\E k \in 1..Len(viol) : viol[k].t = id /\ viol[k].c = c}
     IN /\ o' = ob /\ tid' = id /\ l' = l + 1
        /\ viol' = AppendAll(viol, {[t |-> id, c |-> c, l |-> l] : c \in new})
TSpec == TInit /\ [][TNext]_tvars

\* printed once, in the last state
Verdict == l = Len(Log) + 1 => PrintT(<<"VERDICT", ToJson([lines |-> Len(Log), viol |-> viol])>>)
=============================================================================
