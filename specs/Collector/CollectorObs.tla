---------------------------- MODULE CollectorObs ----------------------------
(* C20 -- observable layer of the collector run loop and THE PROPERTY.

   Everything the statement of C20 talks about is visible from outside the collector:
   creation / start / shutdown of the components of a configuration (tagged with the generation of
   the configuration they belong to), shutdown of the configuration provider, the value of
   GetState(), the return of Run, and the external events that were injected.  This module keeps
   those observations in ONE record `o` and states the clauses of the property over it.

   The record is updated through the O... operators below
     * by the implementation-shaped model  (Collector.tla: every action that corresponds to an
       observable effect applies the operator)            -> exhaustive design check, and
     * by the monitor  (CollectorTrace.tla: every line of a log recorded from the real
       otelcol.Collector applies the same operator)       -> verdict on the real code.
   The clauses are written from the statement; nothing here looks at the run loop.            *)
EXTENDS Integers, Sequences, FiniteSets

\* C: names of the components every configuration of the run consists of
ObsInit(C) ==
  [ comps   |-> C,
    gen     |-> 0,        \* latest configuration generation retrieved (0: none yet)
    created |-> {},       \* <<g,c>> : component c of generation g was created
    begun   |-> {},       \* <<g,c>> : Start was called
    upok    |-> {},       \* <<g,c>> : Start returned nil
    sbeg    |-> {},       \* <<g,c>> : Shutdown was called
    sdone   |-> {},       \* <<g,c>> : Shutdown returned
    stwice  |-> {},       \* <<g,c>> : Shutdown was called more than once
    serr    |-> {},       \* generations in which some Shutdown returned an error
    prov    |-> 0,        \* number of provider Shutdown calls
    st      |-> "Starting", \* last sampled GetState()
    nclos   |-> 0,        \* number of times the sampled state changed to Closing
    pend    |-> {},       \* Shutdown() calls in progress: [id, s0 = sample before, nc = nclos before]
    closed  |-> FALSE,    \* Closed has been sampled
    late    |-> FALSE,    \* something happened to a component after Closed had been sampled
    back    |-> FALSE,    \* a state other than Closed was sampled after Closed
    ret     |-> "none",   \* "none" | "nil" | "err" : Run returned
    ntrig   |-> 0,        \* reload triggers injected (change notifications, SIGHUP)
    nsig    |-> 0,        \* signals sent
    stop    |-> FALSE,    \* a sticky stop reason is outstanding (see OExt...)
    fgen    |-> 0,        \* newest generation in which a fatal error was accepted
    tmo     |-> FALSE,    \* the watchdog expired: nothing moves and Run has not returned
    shutbad |-> FALSE,    \* a Shutdown() call panicked or did not return
    npanic  |-> FALSE ]   \* a change notification (made while its retrieval was open) panicked

\* ---- sampling GetState() (every recorded event carries a sample taken under the recorder mutex)
OSample(o, s) == [o EXCEPT !.st = s,
                           !.nclos = IF s = "Closing" /\ o.st # "Closing" THEN @ + 1 ELSE @,
                           !.closed = @ \/ s = "Closed",
                           !.back = @ \/ (o.closed /\ s # "Closed")]

\* ---- component life cycle
OGet(o, g, s)         == [OSample(o, s) EXCEPT !.gen = g]
Late(o, s) == o.closed \/ s = "Closed"
OCreate(o, g, c, s)   == [OSample(o, s) EXCEPT !.created = @ \cup {<<g, c>>}, !.late = @ \/ Late(o, s),
                                                !.gen = IF g > @ THEN g ELSE @]
OStartBegin(o, g, c, s) == [OSample(o, s) EXCEPT !.begun = @ \cup {<<g, c>>}, !.late = @ \/ Late(o, s)]
OStartEnd(o, g, c, ok, s) == [OSample(o, s) EXCEPT !.upok = IF ok THEN @ \cup {<<g, c>>} ELSE @]
OStopBegin(o, g, c, s) == [OSample(o, s) EXCEPT !.sbeg = @ \cup {<<g, c>>},
                                                 !.stwice = IF <<g, c>> \in o.sbeg THEN @ \cup {<<g, c>>} ELSE @,
                                                 !.late = @ \/ Late(o, s)]
OStopEnd(o, g, c, ok, s) == [OSample(o, s) EXCEPT !.sdone = @ \cup {<<g, c>>},
                                                   !.serr = IF ok THEN @ ELSE @ \cup {g}]
OProv(o, s)           == [OSample(o, s) EXCEPT !.prov = @ + 1]
OReturn(o, err, s)    == [OSample(o, s) EXCEPT !.ret = IF err THEN "err" ELSE "nil"]

\* ---- external events.  `stop` is set only by requests that are certain to be seen by a run loop
\*      that keeps running: they stay pending (closed channel, cancelled context, buffered signal or
\*      notification) until the loop looks at them.
Live2(s) == s \in {"Running", "Starting"}
\* Shutdown(): GetState() is sampled before (s0) and after (s1) the call.  The request is certainly
\* effective when the state was Running or Starting during the whole call: both samples say so and
\* no Closing phase was observed in between (the components of the retiring service log their
\* shutdown, sampled Closing, before the state leaves Closing again).  The statement does not say
\* that a request made while the collector is already Closing -- which includes the retirement of
\* the old service during a reload -- must be remembered; the code drops it.
OExtShutdownBegin(o, id, s0) ==
  LET o1 == OSample(o, s0) IN [o1 EXCEPT !.pend = @ \cup {[id |-> id, s0 |-> s0, nc |-> o1.nclos]}]
OExtShutdownEnd(o, id, s1, bad) ==
  LET o1 == OSample(o, s1)
      p  == CHOOSE x \in o.pend : x.id = id
  IN [o1 EXCEPT !.pend = @ \ {p},
                !.stop = @ \/ (Live2(p.s0) /\ Live2(s1) /\ o1.nclos = p.nc /\ ~bad),
                !.shutbad = @ \/ bad]
OExtCtx(o, s)         == [OSample(o, s) EXCEPT !.stop = TRUE]
\* reg: the sender is certain that the collector had its signal handlers installed (otherwise the
\* signal may or may not reach it).  The collector's signal channel holds 3 signals and the Go
\* runtime drops what does not fit, so only the first three signals of a run are certain to be seen.
\* Every SIGHUP may cause a reload.
OExtSigterm(o, reg, s) == [OSample(o, s) EXCEPT !.stop = @ \/ (reg /\ o.nsig < 3), !.nsig = @ + 1]
OExtSighup(o, reg, s)  == [OSample(o, s) EXCEPT !.ntrig = @ + 1, !.nsig = @ + 1]
\* a change notification was made (it may still be in flight)
OExtChange(o, s)      == [OSample(o, s) EXCEPT !.ntrig = @ + 1]
\* a notification call returned: delivered (ok) or panicked
ONotified(o, iserr, panicked, s) == [OSample(o, s) EXCEPT !.npanic = @ \/ panicked,
                                                          !.stop = @ \/ (iserr /\ ~panicked)]
\* the status reporter accepted a fatal error of a component of generation g
OFatalSeen(o, g, s)   == [OSample(o, s) EXCEPT !.fgen = IF g > @ THEN g ELSE @]
OTimeout(o, s)        == [OSample(o, s) EXCEPT !.tmo = TRUE]

\* ---------------------------------------------------------------- the property
Up(o, g)    == g >= 1 /\ \A c \in o.comps : <<g, c>> \in o.upok
Returned(o) == o.ret # "none"
Live(o)     == o.created \ o.sdone

\* Run returned although the latest configuration had been brought up completely, and the shutdown
\* that preceded the return cannot have been the retirement of that configuration by a reload
\* that failed (a failed reload returns the error at once; the statement requires nothing else then).
RetireMayHaveFailed(o) == o.gen \in o.serr /\ o.ntrig > o.gen - 1
NormalEnd(o)     == Returned(o) /\ Up(o, o.gen) /\ ~RetireMayHaveFailed(o)
BringUpFailed(o) == Returned(o) /\ ~Up(o, o.gen)

\* "moves through Starting -> Running -> Closing -> Closed": Running is claimed only while the
\* latest configuration is completely up and untouched; Closed is final.
StateOrder(o) ==
  /\ (o.st = "Running" => Up(o, o.gen) /\ \A c \in o.comps : <<o.gen, c>> \notin o.sbeg)
  /\ ~o.late /\ ~o.back
\* "... ends in Closed"
EndsClosed(o) == NormalEnd(o) => o.st = "Closed"
\* "... with the service ... shut down exactly once"
ServiceShutdownOnce(o) ==
  /\ o.stwice = {}
  /\ (NormalEnd(o) => o.created \subseteq o.sdone)
\* "... and the configuration providers each shut down exactly once"
ProvidersShutdownOnce(o) == o.prov <= 1 /\ (NormalEnd(o) => o.prov = 1)
\* "the old service is completely shut down before any component of the new configuration is
\*  created, so components of two configurations are never live at the same time"
\* (a retiring service one of whose components FAILED to shut down is not "completely shut down": nothing of a newer
\*  configuration may be created after that -- the run loop returns the error instead)
NoOverlap(o) == /\ \A x, y \in Live(o) : x[1] = y[1]
                /\ \A x \in o.created : \A g \in o.serr : x[1] <= g
\* "if the initial or the new configuration cannot be brought up, Run returns the error and every
\*  component that had been started is shut down"
FailedBringUpCleansUp(o) == BringUpFailed(o) => o.ret = "err" /\ o.begun \subseteq o.sdone
\* "Shutdown requests are idempotent and safe from any state and any goroutine"
\* (idempotent: ServiceShutdownOnce / ProvidersShutdownOnce hold whatever the number of requests)
ShutdownIdempotent(o) == ~o.shutbad
\* "... and Run returns": when nothing moves any more, the collector is idle in Running and nobody
\* has asked it to stop.  Stuck in the middle of starting / stopping / reloading, or idle with a
\* pending stop reason, is a violation.
StopRequested(o) == o.stop \/ (o.fgen >= 1 /\ o.fgen = o.gen)
RunReturns(o) == o.tmo => (o.st = "Running" /\ ~StopRequested(o))
\* every history of change notifications is admissible: notifying must not blow up
NotifySafe(o) == ~o.npanic

Property(o) == /\ StateOrder(o) /\ EndsClosed(o) /\ ServiceShutdownOnce(o) /\ ProvidersShutdownOnce(o)
               /\ NoOverlap(o) /\ FailedBringUpCleansUp(o) /\ ShutdownIdempotent(o) /\ RunReturns(o)
=============================================================================
