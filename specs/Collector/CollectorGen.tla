----------------------------- MODULE CollectorGen -----------------------------
(* Behaviour generator for C20: explores Collector.tla (exhaustively with the history hidden by the
   VIEW, or by random simulation) and prints the environment's history of every behaviour that has
   come to an end (Run returned or the watchdog fired).  checks/C20.py projects each history to a
   script for the real collector: external events with the callback of the run loop at which they
   happened, and the scripted failures. *)
EXTENDS CollectorMC, Json
\* simulation only (cfg: EnvGate <- SimEnvGate ...): TLC's simulator picks uniformly among the enabled
\* actions, which would spend all external events before the run loop has got anywhere
SimEnvGate     == RandomElement(1..(IF pc = "select" THEN 4 ELSE 25)) = 1
SimFailGate    == RandomElement(1..25) = 1
SimTimeoutGate == nenv = MaxEnv \/ RandomElement(1..6) = 1
\* directed generation (cfg: EnvNext <- WatchEnvNext, no VIEW: every history counts): the configuration
\* watch is the only thing that talks to the collector, so that nothing else can end the run
WatchEnvNext == ExtChange("ok") \/ ExtChange("err") \/ ExtSignal("sighup")
BrokenNow == {x[1] : x \in {y \in { <<"StateOrder", StateOrder(o)>>, <<"EndsClosed", EndsClosed(o)>>,
                                        <<"ServiceShutdownOnce", ServiceShutdownOnce(o)>>,
                                        <<"ProvidersShutdownOnce", ProvidersShutdownOnce(o)>>,
                                        <<"NoOverlap", NoOverlap(o)>>,
                                        <<"FailedBringUpCleansUp", FailedBringUpCleansUp(o)>>,
                                        <<"RunReturns", RunReturns(o)>>, <<"NotifySafe", NotifySafe(o)>> } : ~y[2]}}
Emit == pc \in {"returned", "timedout"} =>
          PrintT(<<"BEH", ToJson([end |-> pc, bad |-> BrokenNow, h |-> hist])>>)
=============================================================================
