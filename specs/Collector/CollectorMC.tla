----------------------------- MODULE CollectorMC -----------------------------
(* Exhaustive configurations of Collector.tla (constants are substituted from the .cfg text that
   checks/C20.py generates per tier). *)
EXTENDS Collector
Seq2 == <<"e1", "r1">>
Seq3 == <<"x", "e1", "r1">>
Seq4 == <<"x", "e1", "r1", "r2">>
Set2 == {"e1", "r1"}
Set3 == {"x", "e1", "r1"}
Set4 == {"x", "e1", "r1", "r2"}
=============================================================================
