SPECIFICATION Spec
CONSTANTS
  CompSeq <- Seq2
  Comps <- Set2
  MaxGen = 2
  MaxEnv = 3
  MaxFail = 1
  Blocking = FALSE
  SafeWatch = TRUE
  Nobody = Nobody
VIEW view
INVARIANT TypeOK
INVARIANT InvStateOrder
INVARIANT InvEndsClosed
INVARIANT InvServiceShutdownOnce
INVARIANT InvProvidersShutdownOnce
INVARIANT InvNoOverlap
INVARIANT InvFailedBringUpCleansUp
INVARIANT InvShutdownIdempotent
INVARIANT InvRunReturns
INVARIANT InvNotifySafe
CHECK_DEADLOCK FALSE
