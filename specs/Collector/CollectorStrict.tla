---------------------------- MODULE CollectorStrict ----------------------------
(* C20 -- strict conformance: is a log recorded from the real otelcol.Collector a behaviour of the
   implementation-shaped model Collector.tla?

   Every line that the run loop itself caused (retrieve, create, start, start_end, shutdown,
   shutdown_end, prov_shutdown, run_return) must be produced by the corresponding action of
   Collector.tla, in the logged order, with the logged generation, outcome (ok / error) and -- because
   these lines are written by the run loop's own goroutine -- with the value of Collector.state the
   model has at that point.  Every injected external event must be taken by the environment action of
   the model where the log has it.  Steps of the model that leave no line (RunBegin, SetRunning, the
   select cases, Retire0, Closing, WClose, PCloseA/B, StopC, a refused fatal report, FatalUnlock) are silent:
   TLC searches for them.  The component a line names is taken over by the model (the order inside
   one service is C10's business: CreateComp / StartComp / StopComp are overridden by LogComp), but it
   must be one that is due: created once, started once after creation, shut down once.

   Leniency, on purpose (none of it can hide a violation: the verdict is CollectorTrace's):
     * a Shutdown() call takes effect at its `ext` line, at its `ext_done` line, or not at all (the
       call reads the state somewhere in between);
     * signals that are pending together, and notifiers that race for the watcher's buffer, may be
       served in any order (the log has the order in which they were started);
     * external events logged after the model's run loop has returned are skipped.

   A log that cannot be followed is reported as MODEL-DRIFT (exit 0): the property held on the real
   run (monitor), but the exhaustive result obtained on Collector.tla does not transfer to it.
   Unlogged steps => several candidate states per line: the run keeps the high-water mark of `l`
   (TLCSet) and a POSTCONDITION compares it with the length of the log (workers = 1).          *)
EXTENDS CollectorMC, Json

Log == ndJsonDeserialize("observed.ndjson")

VARIABLE l
svars == <<vars, l>>

Ln == Log[l]
Is(ev) == l <= Len(Log) /\ Ln.ev = ev
Adv  == l' = l + 1
Keep == l' = l

SInit == Init /\ l = 1 /\ TLCSet(1, 1)

\* the component named by the current line (cfg: CreateComp <- LogComp, StartComp <- LogComp, StopComp <- LogComp)
StrictMaxBlocked == 4
LogComp == IF l <= Len(Log) /\ Ln.comp \in Comps THEN Ln.comp ELSE CompSeq[1]

\* ---- lines caused by the run loop
SGet      == Is("retrieve") /\ Get /\ Ln.gen = gen' /\ (Ln.ok <=> pc' = "create") /\ Ln.st = state /\ Adv
SCreate   == /\ Is("create") /\ Ln.comp \in Comps /\ <<gen, Ln.comp>> \notin o.created
             /\ Create /\ Ln.gen = gen /\ (Ln.ok <=> pc' # "bufail") /\ Ln.st = state /\ Adv
SStartA   == /\ Is("start") /\ Ln.comp \in Comps /\ <<gen, Ln.comp>> \in o.created \ o.begun
             /\ StartA /\ Ln.gen = gen /\ Ln.st = state /\ Adv
SStartB   == /\ Is("start_end") /\ Ln.comp = cur
             /\ StartB /\ Ln.gen = gen /\ (Ln.ok <=> pc' # "stopA") /\ Adv
SStopA    == /\ Is("shutdown") /\ Ln.comp \in Comps /\ <<gen, Ln.comp>> \in o.created \ o.sbeg
             /\ StopA /\ Ln.gen = gen /\ Ln.st = state /\ Adv
SStopB    == /\ Is("shutdown_end") /\ Ln.comp = cur
             /\ StopB /\ Ln.gen = gen /\ (Ln.ok <=> nfail' = nfail) /\ Adv
SProvSd   == Is("prov_shutdown") /\ ProvSd /\ Ln.st = state /\ Adv
SReturn   == Is("run_return") /\ (BuFail \/ RetErr \/ SetClosed) /\ (Ln.ok <=> o'.ret = "nil") /\ Ln.st = state' /\ Adv
SSilent   == /\ \/ RunBegin \/ SetStarting \/ SetRunning \/ SelWatch \/ SelAsync \/ SelSignal \/ SelShutdown \/ SelCtx
                \/ Retire0 \/ Closing \/ WClose \/ PCloseA \/ PCloseB \/ StopC
             /\ Keep
\* signals that are pending together are handed over by the Go runtime in the order of their numbers,
\* not in the order in which the log has them: any order of the pending signals is admitted
SSigOrder == /\ Len(sigQ) >= 2 /\ Keep
             /\ \/ sigQ' = <<sigQ[2], sigQ[1]>> \o SubSeq(sigQ, 3, Len(sigQ))
                \/ sigQ' = Tail(sigQ) \o <<Head(sigQ)>>
             /\ UNCHANGED <<pc, i, cur, mode, state, gen, fs, rmu, fpc, ftg, shutReq, ctxDone, sigReg, wbuf, wblk, wclosed,
                            openA, openB, apend, sdoneG, stopErr, nenv, nfail, o, hist>>

\* ---- injected events
IsExt(k) == Is("ext") /\ Ln.kind = k
SExtCtx    == IsExt("ctx") /\ ExtCtx /\ Adv
SExtSignal == \E s \in {"sighup", "sigterm"} : IsExt(s) /\ ExtSignal(s) /\ Adv
SExtChange == \/ IsExt("change") /\ ExtChange("ok") /\ Adv
              \/ IsExt("change_err") /\ ExtChange("err") /\ Adv
SExtFatal  == IsExt("fatal") /\ Ln.comp \in Reporters /\ FatalWant(Ln.comp) /\ Adv
SFatalSeen == /\ Is("fatal_seen") /\ Ln.comp \in Comps /\ FatalLock(Ln.comp)
              /\ fs'[<<ftg[Ln.comp], Ln.comp>>] = "Fatal" /\ ftg[Ln.comp] = Ln.gen /\ Adv
SFatalQuiet == /\ \E c \in Comps : (FatalLock(c) /\ fs' = fs) \/ FatalUnlock(c)
               /\ Keep
\* notifiers that run concurrently race for the watcher's buffer: the order of their `ext` lines is
\* not the order of their sends
SWatchOrder == /\ wbuf # <<>> /\ wblk # <<>> /\ Keep
               /\ wbuf' = <<Head(wblk)>> /\ wblk' = <<Head(wbuf)>> \o Tail(wblk)
               /\ UNCHANGED <<pc, i, cur, mode, state, gen, fs, rmu, fpc, ftg, shutReq, ctxDone, sigReg, sigQ, wclosed,
                              openA, openB, apend, sdoneG, stopErr, nenv, nfail, o, hist>>
SExtShutdown == /\ (IsExt("shutdown") \/ Is("ext_done")) /\ Adv
                /\ \/ ExtShutdown
                   \/ UNCHANGED vars
\* ---- lines that carry nothing for the model, and events that come after the end
Noise == {"new", "run", "idle", "skip", "fatal_done", "notify_done", "pclose", "late_return", "end"}
SSkip == /\ l <= Len(Log)
         /\ \/ Ln.ev \in Noise
            \/ pc = "returned" /\ Ln.ev \in {"ext", "ext_done", "fatal_seen"}
         /\ Adv /\ UNCHANGED vars
STimeout == Is("timeout") /\ Timeout /\ Adv
\* ---- next trace of the batch
SReset ==
  /\ Is("reset") /\ (l = 1 \/ pc \in {"returned", "timedout"}) /\ Adv
  /\ pc' = "init" /\ i' = 0 /\ cur' = CompSeq[1] /\ mode' = "none" /\ state' = "Starting" /\ gen' = 0
  /\ fs' = [x \in Gens \X Comps |-> "None"]
  /\ rmu' = [g \in Gens |-> Nobody]
  /\ fpc' = [c \in Comps |-> "idle"] /\ ftg' = [c \in Comps |-> 0]
  /\ shutReq' = FALSE /\ ctxDone' = FALSE /\ sigReg' = FALSE /\ sigQ' = <<>>
  /\ wbuf' = <<>> /\ wblk' = <<>> /\ wclosed' = FALSE /\ openA' = FALSE /\ openB' = FALSE
  /\ apend' = {} /\ sdoneG' = {} /\ stopErr' = FALSE
  /\ nenv' = 0 /\ nfail' = 0 /\ o' = ObsInit(Comps) /\ hist' = <<>>

SNext == SGet \/ SCreate \/ SStartA \/ SStartB \/ SStopA \/ SStopB \/ SProvSd \/ SReturn \/ SSilent \/ SSigOrder \/ SWatchOrder
         \/ SExtCtx \/ SExtSignal \/ SExtChange \/ SExtFatal \/ SFatalSeen \/ SFatalQuiet \/ SExtShutdown
         \/ SSkip \/ STimeout \/ SReset
SSpec == SInit /\ [][SNext]_svars

HighWater == IF l > TLCGet(1) THEN TLCSet(1, l) ELSE TRUE
Accepted  == IF TLCGet(1) = Len(Log) + 1 THEN TRUE
             ELSE PrintT(<<"REJECTED_AT", TLCGet(1), Len(Log)>>) /\ FALSE
\* the model's own observation record must satisfy the property on the way (it does whenever the
\* design check passes; kept as a cross-check of the two layers)
ModelProperty == Property(o)
=============================================================================
