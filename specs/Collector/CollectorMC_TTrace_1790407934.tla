---- MODULE CollectorMC_TTrace_1790407934 ----
EXTENDS Sequences, TLCExt, Toolbox, Naturals, TLC, CollectorMC

_expression ==
    LET CollectorMC_TEExpression == INSTANCE CollectorMC_TEExpression
    IN CollectorMC_TEExpression!expression
----

_trace ==
    LET CollectorMC_TETrace == INSTANCE CollectorMC_TETrace
    IN CollectorMC_TETrace!trace
----

_inv ==
    ~(
        TLCGet("level") = Len(_TETrace)
        /\
        sdoneG = ({})
        /\
        shutReq = (TRUE)
        /\
        apend = ({})
        /\
        nenv = (2)
        /\
        fs = ((<<1, "e1">> :> "Fatal" @@ <<1, "r1">> :> "None" @@ <<2, "e1">> :> "None" @@ <<2, "r1">> :> "None"))
        /\
        mode = ("none")
        /\
        gen = (1)
        /\
        hist = (<<[k |-> "shutdown", c |-> "", at |-> "get:1", v |-> "0get"], [k |-> "fatal", c |-> "e1", at |-> "start:1:e1", v |-> "1startB"]>>)
        /\
        sigQ = (<<>>)
        /\
        fpc = ([e1 |-> "sending", r1 |-> "idle"])
        /\
        ftg = ([e1 |-> 1, r1 |-> 0])
        /\
        rmu = (<<"e1", Nobody>>)
        /\
        state = ("Starting")
        /\
        openA = (TRUE)
        /\
        openB = (TRUE)
        /\
        i = (1)
        /\
        wbuf = (<<>>)
        /\
        stopErr = (FALSE)
        /\
        o = ([gen |-> 1, ntrig |-> 0, st |-> "Starting", created |-> {<<1, "e1">>, <<1, "r1">>}, begun |-> {<<1, "e1">>}, upok |-> {}, sbeg |-> {}, sdone |-> {}, stwice |-> {}, serr |-> {}, prov |-> 0, closed |-> FALSE, late |-> FALSE, back |-> FALSE, ret |-> "none", stop |-> TRUE, fgen |-> 1, tmo |-> TRUE, shutbad |-> FALSE, npanic |-> FALSE])
        /\
        nfail = (0)
        /\
        pc = ("timedout")
        /\
        sigReg = (FALSE)
        /\
        wclosed = (FALSE)
        /\
        wblk = (<<>>)
        /\
        ctxDone = (FALSE)
    )
----

_init ==
    /\ nfail = _TETrace[1].nfail
    /\ sigQ = _TETrace[1].sigQ
    /\ ctxDone = _TETrace[1].ctxDone
    /\ wblk = _TETrace[1].wblk
    /\ rmu = _TETrace[1].rmu
    /\ mode = _TETrace[1].mode
    /\ fpc = _TETrace[1].fpc
    /\ i = _TETrace[1].i
    /\ o = _TETrace[1].o
    /\ pc = _TETrace[1].pc
    /\ state = _TETrace[1].state
    /\ stopErr = _TETrace[1].stopErr
    /\ openA = _TETrace[1].openA
    /\ openB = _TETrace[1].openB
    /\ hist = _TETrace[1].hist
    /\ wclosed = _TETrace[1].wclosed
    /\ fs = _TETrace[1].fs
    /\ ftg = _TETrace[1].ftg
    /\ apend = _TETrace[1].apend
    /\ nenv = _TETrace[1].nenv
    /\ shutReq = _TETrace[1].shutReq
    /\ sigReg = _TETrace[1].sigReg
    /\ wbuf = _TETrace[1].wbuf
    /\ sdoneG = _TETrace[1].sdoneG
    /\ gen = _TETrace[1].gen
----

_next ==
    /\ \E i,j \in DOMAIN _TETrace:
        /\ \/ /\ j = i + 1
              /\ i = TLCGet("level")
        /\ nfail  = _TETrace[i].nfail
        /\ nfail' = _TETrace[j].nfail
        /\ sigQ  = _TETrace[i].sigQ
        /\ sigQ' = _TETrace[j].sigQ
        /\ ctxDone  = _TETrace[i].ctxDone
        /\ ctxDone' = _TETrace[j].ctxDone
        /\ wblk  = _TETrace[i].wblk
        /\ wblk' = _TETrace[j].wblk
        /\ rmu  = _TETrace[i].rmu
        /\ rmu' = _TETrace[j].rmu
        /\ mode  = _TETrace[i].mode
        /\ mode' = _TETrace[j].mode
        /\ fpc  = _TETrace[i].fpc
        /\ fpc' = _TETrace[j].fpc
        /\ i  = _TETrace[i].i
        /\ i' = _TETrace[j].i
        /\ o  = _TETrace[i].o
        /\ o' = _TETrace[j].o
        /\ pc  = _TETrace[i].pc
        /\ pc' = _TETrace[j].pc
        /\ state  = _TETrace[i].state
        /\ state' = _TETrace[j].state
        /\ stopErr  = _TETrace[i].stopErr
        /\ stopErr' = _TETrace[j].stopErr
        /\ openA  = _TETrace[i].openA
        /\ openA' = _TETrace[j].openA
        /\ openB  = _TETrace[i].openB
        /\ openB' = _TETrace[j].openB
        /\ hist  = _TETrace[i].hist
        /\ hist' = _TETrace[j].hist
        /\ wclosed  = _TETrace[i].wclosed
        /\ wclosed' = _TETrace[j].wclosed
        /\ fs  = _TETrace[i].fs
        /\ fs' = _TETrace[j].fs
        /\ ftg  = _TETrace[i].ftg
        /\ ftg' = _TETrace[j].ftg
        /\ apend  = _TETrace[i].apend
        /\ apend' = _TETrace[j].apend
        /\ nenv  = _TETrace[i].nenv
        /\ nenv' = _TETrace[j].nenv
        /\ shutReq  = _TETrace[i].shutReq
        /\ shutReq' = _TETrace[j].shutReq
        /\ sigReg  = _TETrace[i].sigReg
        /\ sigReg' = _TETrace[j].sigReg
        /\ wbuf  = _TETrace[i].wbuf
        /\ wbuf' = _TETrace[j].wbuf
        /\ sdoneG  = _TETrace[i].sdoneG
        /\ sdoneG' = _TETrace[j].sdoneG
        /\ gen  = _TETrace[i].gen
        /\ gen' = _TETrace[j].gen

\* Uncomment the ASSUME below to write the states of the error trace
\* to the given file in Json format. Note that you can pass any tuple
\* to `JsonSerialize`. For example, a sub-sequence of _TETrace.
    \* ASSUME
    \*     LET J == INSTANCE Json
    \*         IN J!JsonSerialize("CollectorMC_TTrace_1790407934.json", _TETrace)

=============================================================================

 Note that you can extract this module `CollectorMC_TEExpression`
  to a dedicated file to reuse `expression` (the module in the 
  dedicated `CollectorMC_TEExpression.tla` file takes precedence 
  over the module `CollectorMC_TEExpression` below).

---- MODULE CollectorMC_TEExpression ----
EXTENDS Sequences, TLCExt, Toolbox, Naturals, TLC, CollectorMC

expression == 
    [
        \* To hide variables of the `CollectorMC` spec from the error trace,
        \* remove the variables below.  The trace will be written in the order
        \* of the fields of this record.
        nfail |-> nfail
        ,sigQ |-> sigQ
        ,ctxDone |-> ctxDone
        ,wblk |-> wblk
        ,rmu |-> rmu
        ,mode |-> mode
        ,fpc |-> fpc
        ,i |-> i
        ,o |-> o
        ,pc |-> pc
        ,state |-> state
        ,stopErr |-> stopErr
        ,openA |-> openA
        ,openB |-> openB
        ,hist |-> hist
        ,wclosed |-> wclosed
        ,fs |-> fs
        ,ftg |-> ftg
        ,apend |-> apend
        ,nenv |-> nenv
        ,shutReq |-> shutReq
        ,sigReg |-> sigReg
        ,wbuf |-> wbuf
        ,sdoneG |-> sdoneG
        ,gen |-> gen
        
        \* Put additional constant-, state-, and action-level expressions here:
        \* ,_stateNumber |-> _TEPosition
        \* ,_nfailUnchanged |-> nfail = nfail'
        
        \* Format the `nfail` variable as Json value.
        \* ,_nfailJson |->
        \*     LET J == INSTANCE Json
        \*     IN J!ToJson(nfail)
        
        \* Lastly, you may build expressions over arbitrary sets of states by
        \* leveraging the _TETrace operator.  For example, this is how to
        \* count the number of times a spec variable changed up to the current
        \* state in the trace.
        \* ,_nfailModCount |->
        \*     LET F[s \in DOMAIN _TETrace] ==
        \*         IF s = 1 THEN 0
        \*         ELSE IF _TETrace[s].nfail # _TETrace[s-1].nfail
        \*             THEN 1 + F[s-1] ELSE F[s-1]
        \*     IN F[_TEPosition - 1]
    ]

=============================================================================



Parsing and semantic processing can take forever if the trace below is long.
 In this case, it is advised to uncomment the module below to deserialize the
 trace from a generated binary file.

\*
\*---- MODULE CollectorMC_TETrace ----
\*EXTENDS IOUtils, TLC, CollectorMC
\*
\*trace == IODeserialize("CollectorMC_TTrace_1790407934.bin", TRUE)
\*
\*=============================================================================
\*

---- MODULE CollectorMC_TETrace ----
EXTENDS TLC, CollectorMC

trace == 
    <<
    ([sdoneG |-> {},shutReq |-> FALSE,apend |-> {},nenv |-> 0,fs |-> (<<1, "e1">> :> "None" @@ <<1, "r1">> :> "None" @@ <<2, "e1">> :> "None" @@ <<2, "r1">> :> "None"),mode |-> "none",gen |-> 0,hist |-> <<>>,sigQ |-> <<>>,fpc |-> [e1 |-> "idle", r1 |-> "idle"],ftg |-> [e1 |-> 0, r1 |-> 0],rmu |-> <<Nobody, Nobody>>,state |-> "Starting",openA |-> FALSE,openB |-> FALSE,i |-> 0,wbuf |-> <<>>,stopErr |-> FALSE,o |-> [gen |-> 0, ntrig |-> 0, st |-> "Starting", created |-> {}, begun |-> {}, upok |-> {}, sbeg |-> {}, sdone |-> {}, stwice |-> {}, serr |-> {}, prov |-> 0, closed |-> FALSE, late |-> FALSE, back |-> FALSE, ret |-> "none", stop |-> FALSE, fgen |-> 0, tmo |-> FALSE, shutbad |-> FALSE, npanic |-> FALSE],nfail |-> 0,pc |-> "init",sigReg |-> FALSE,wclosed |-> FALSE,wblk |-> <<>>,ctxDone |-> FALSE]),
    ([sdoneG |-> {},shutReq |-> FALSE,apend |-> {},nenv |-> 0,fs |-> (<<1, "e1">> :> "None" @@ <<1, "r1">> :> "None" @@ <<2, "e1">> :> "None" @@ <<2, "r1">> :> "None"),mode |-> "none",gen |-> 0,hist |-> <<>>,sigQ |-> <<>>,fpc |-> [e1 |-> "idle", r1 |-> "idle"],ftg |-> [e1 |-> 0, r1 |-> 0],rmu |-> <<Nobody, Nobody>>,state |-> "Starting",openA |-> FALSE,openB |-> FALSE,i |-> 0,wbuf |-> <<>>,stopErr |-> FALSE,o |-> [gen |-> 0, ntrig |-> 0, st |-> "Starting", created |-> {}, begun |-> {}, upok |-> {}, sbeg |-> {}, sdone |-> {}, stwice |-> {}, serr |-> {}, prov |-> 0, closed |-> FALSE, late |-> FALSE, back |-> FALSE, ret |-> "none", stop |-> FALSE, fgen |-> 0, tmo |-> FALSE, shutbad |-> FALSE, npanic |-> FALSE],nfail |-> 0,pc |-> "get",sigReg |-> FALSE,wclosed |-> FALSE,wblk |-> <<>>,ctxDone |-> FALSE]),
    ([sdoneG |-> {},shutReq |-> TRUE,apend |-> {},nenv |-> 1,fs |-> (<<1, "e1">> :> "None" @@ <<1, "r1">> :> "None" @@ <<2, "e1">> :> "None" @@ <<2, "r1">> :> "None"),mode |-> "none",gen |-> 0,hist |-> <<[k |-> "shutdown", c |-> "", at |-> "get:1", v |-> "0get"]>>,sigQ |-> <<>>,fpc |-> [e1 |-> "idle", r1 |-> "idle"],ftg |-> [e1 |-> 0, r1 |-> 0],rmu |-> <<Nobody, Nobody>>,state |-> "Starting",openA |-> FALSE,openB |-> FALSE,i |-> 0,wbuf |-> <<>>,stopErr |-> FALSE,o |-> [gen |-> 0, ntrig |-> 0, st |-> "Starting", created |-> {}, begun |-> {}, upok |-> {}, sbeg |-> {}, sdone |-> {}, stwice |-> {}, serr |-> {}, prov |-> 0, closed |-> FALSE, late |-> FALSE, back |-> FALSE, ret |-> "none", stop |-> TRUE, fgen |-> 0, tmo |-> FALSE, shutbad |-> FALSE, npanic |-> FALSE],nfail |-> 0,pc |-> "get",sigReg |-> FALSE,wclosed |-> FALSE,wblk |-> <<>>,ctxDone |-> FALSE]),
    ([sdoneG |-> {},shutReq |-> TRUE,apend |-> {},nenv |-> 1,fs |-> (<<1, "e1">> :> "None" @@ <<1, "r1">> :> "None" @@ <<2, "e1">> :> "None" @@ <<2, "r1">> :> "None"),mode |-> "none",gen |-> 1,hist |-> <<[k |-> "shutdown", c |-> "", at |-> "get:1", v |-> "0get"]>>,sigQ |-> <<>>,fpc |-> [e1 |-> "idle", r1 |-> "idle"],ftg |-> [e1 |-> 0, r1 |-> 0],rmu |-> <<Nobody, Nobody>>,state |-> "Starting",openA |-> TRUE,openB |-> TRUE,i |-> 1,wbuf |-> <<>>,stopErr |-> FALSE,o |-> [gen |-> 1, ntrig |-> 0, st |-> "Starting", created |-> {}, begun |-> {}, upok |-> {}, sbeg |-> {}, sdone |-> {}, stwice |-> {}, serr |-> {}, prov |-> 0, closed |-> FALSE, late |-> FALSE, back |-> FALSE, ret |-> "none", stop |-> TRUE, fgen |-> 0, tmo |-> FALSE, shutbad |-> FALSE, npanic |-> FALSE],nfail |-> 0,pc |-> "create",sigReg |-> FALSE,wclosed |-> FALSE,wblk |-> <<>>,ctxDone |-> FALSE]),
    ([sdoneG |-> {},shutReq |-> TRUE,apend |-> {},nenv |-> 1,fs |-> (<<1, "e1">> :> "None" @@ <<1, "r1">> :> "None" @@ <<2, "e1">> :> "None" @@ <<2, "r1">> :> "None"),mode |-> "none",gen |-> 1,hist |-> <<[k |-> "shutdown", c |-> "", at |-> "get:1", v |-> "0get"]>>,sigQ |-> <<>>,fpc |-> [e1 |-> "idle", r1 |-> "idle"],ftg |-> [e1 |-> 0, r1 |-> 0],rmu |-> <<Nobody, Nobody>>,state |-> "Starting",openA |-> TRUE,openB |-> TRUE,i |-> 2,wbuf |-> <<>>,stopErr |-> FALSE,o |-> [gen |-> 1, ntrig |-> 0, st |-> "Starting", created |-> {<<1, "e1">>}, begun |-> {}, upok |-> {}, sbeg |-> {}, sdone |-> {}, stwice |-> {}, serr |-> {}, prov |-> 0, closed |-> FALSE, late |-> FALSE, back |-> FALSE, ret |-> "none", stop |-> TRUE, fgen |-> 0, tmo |-> FALSE, shutbad |-> FALSE, npanic |-> FALSE],nfail |-> 0,pc |-> "create",sigReg |-> FALSE,wclosed |-> FALSE,wblk |-> <<>>,ctxDone |-> FALSE]),
    ([sdoneG |-> {},shutReq |-> TRUE,apend |-> {},nenv |-> 1,fs |-> (<<1, "e1">> :> "None" @@ <<1, "r1">> :> "None" @@ <<2, "e1">> :> "None" @@ <<2, "r1">> :> "None"),mode |-> "none",gen |-> 1,hist |-> <<[k |-> "shutdown", c |-> "", at |-> "get:1", v |-> "0get"]>>,sigQ |-> <<>>,fpc |-> [e1 |-> "idle", r1 |-> "idle"],ftg |-> [e1 |-> 0, r1 |-> 0],rmu |-> <<Nobody, Nobody>>,state |-> "Starting",openA |-> TRUE,openB |-> TRUE,i |-> 1,wbuf |-> <<>>,stopErr |-> FALSE,o |-> [gen |-> 1, ntrig |-> 0, st |-> "Starting", created |-> {<<1, "e1">>, <<1, "r1">>}, begun |-> {}, upok |-> {}, sbeg |-> {}, sdone |-> {}, stwice |-> {}, serr |-> {}, prov |-> 0, closed |-> FALSE, late |-> FALSE, back |-> FALSE, ret |-> "none", stop |-> TRUE, fgen |-> 0, tmo |-> FALSE, shutbad |-> FALSE, npanic |-> FALSE],nfail |-> 0,pc |-> "startA",sigReg |-> FALSE,wclosed |-> FALSE,wblk |-> <<>>,ctxDone |-> FALSE]),
    ([sdoneG |-> {},shutReq |-> TRUE,apend |-> {},nenv |-> 1,fs |-> (<<1, "e1">> :> "Starting" @@ <<1, "r1">> :> "None" @@ <<2, "e1">> :> "None" @@ <<2, "r1">> :> "None"),mode |-> "none",gen |-> 1,hist |-> <<[k |-> "shutdown", c |-> "", at |-> "get:1", v |-> "0get"]>>,sigQ |-> <<>>,fpc |-> [e1 |-> "idle", r1 |-> "idle"],ftg |-> [e1 |-> 0, r1 |-> 0],rmu |-> <<Nobody, Nobody>>,state |-> "Starting",openA |-> TRUE,openB |-> TRUE,i |-> 1,wbuf |-> <<>>,stopErr |-> FALSE,o |-> [gen |-> 1, ntrig |-> 0, st |-> "Starting", created |-> {<<1, "e1">>, <<1, "r1">>}, begun |-> {<<1, "e1">>}, upok |-> {}, sbeg |-> {}, sdone |-> {}, stwice |-> {}, serr |-> {}, prov |-> 0, closed |-> FALSE, late |-> FALSE, back |-> FALSE, ret |-> "none", stop |-> TRUE, fgen |-> 0, tmo |-> FALSE, shutbad |-> FALSE, npanic |-> FALSE],nfail |-> 0,pc |-> "startB",sigReg |-> FALSE,wclosed |-> FALSE,wblk |-> <<>>,ctxDone |-> FALSE]),
    ([sdoneG |-> {},shutReq |-> TRUE,apend |-> {},nenv |-> 2,fs |-> (<<1, "e1">> :> "Starting" @@ <<1, "r1">> :> "None" @@ <<2, "e1">> :> "None" @@ <<2, "r1">> :> "None"),mode |-> "none",gen |-> 1,hist |-> <<[k |-> "shutdown", c |-> "", at |-> "get:1", v |-> "0get"], [k |-> "fatal", c |-> "e1", at |-> "start:1:e1", v |-> "1startB"]>>,sigQ |-> <<>>,fpc |-> [e1 |-> "want", r1 |-> "idle"],ftg |-> [e1 |-> 1, r1 |-> 0],rmu |-> <<Nobody, Nobody>>,state |-> "Starting",openA |-> TRUE,openB |-> TRUE,i |-> 1,wbuf |-> <<>>,stopErr |-> FALSE,o |-> [gen |-> 1, ntrig |-> 0, st |-> "Starting", created |-> {<<1, "e1">>, <<1, "r1">>}, begun |-> {<<1, "e1">>}, upok |-> {}, sbeg |-> {}, sdone |-> {}, stwice |-> {}, serr |-> {}, prov |-> 0, closed |-> FALSE, late |-> FALSE, back |-> FALSE, ret |-> "none", stop |-> TRUE, fgen |-> 0, tmo |-> FALSE, shutbad |-> FALSE, npanic |-> FALSE],nfail |-> 0,pc |-> "startB",sigReg |-> FALSE,wclosed |-> FALSE,wblk |-> <<>>,ctxDone |-> FALSE]),
    ([sdoneG |-> {},shutReq |-> TRUE,apend |-> {},nenv |-> 2,fs |-> (<<1, "e1">> :> "Fatal" @@ <<1, "r1">> :> "None" @@ <<2, "e1">> :> "None" @@ <<2, "r1">> :> "None"),mode |-> "none",gen |-> 1,hist |-> <<[k |-> "shutdown", c |-> "", at |-> "get:1", v |-> "0get"], [k |-> "fatal", c |-> "e1", at |-> "start:1:e1", v |-> "1startB"]>>,sigQ |-> <<>>,fpc |-> [e1 |-> "sending", r1 |-> "idle"],ftg |-> [e1 |-> 1, r1 |-> 0],rmu |-> <<"e1", Nobody>>,state |-> "Starting",openA |-> TRUE,openB |-> TRUE,i |-> 1,wbuf |-> <<>>,stopErr |-> FALSE,o |-> [gen |-> 1, ntrig |-> 0, st |-> "Starting", created |-> {<<1, "e1">>, <<1, "r1">>}, begun |-> {<<1, "e1">>}, upok |-> {}, sbeg |-> {}, sdone |-> {}, stwice |-> {}, serr |-> {}, prov |-> 0, closed |-> FALSE, late |-> FALSE, back |-> FALSE, ret |-> "none", stop |-> TRUE, fgen |-> 1, tmo |-> FALSE, shutbad |-> FALSE, npanic |-> FALSE],nfail |-> 0,pc |-> "startB",sigReg |-> FALSE,wclosed |-> FALSE,wblk |-> <<>>,ctxDone |-> FALSE]),
    ([sdoneG |-> {},shutReq |-> TRUE,apend |-> {},nenv |-> 2,fs |-> (<<1, "e1">> :> "Fatal" @@ <<1, "r1">> :> "None" @@ <<2, "e1">> :> "None" @@ <<2, "r1">> :> "None"),mode |-> "none",gen |-> 1,hist |-> <<[k |-> "shutdown", c |-> "", at |-> "get:1", v |-> "0get"], [k |-> "fatal", c |-> "e1", at |-> "start:1:e1", v |-> "1startB"]>>,sigQ |-> <<>>,fpc |-> [e1 |-> "sending", r1 |-> "idle"],ftg |-> [e1 |-> 1, r1 |-> 0],rmu |-> <<"e1", Nobody>>,state |-> "Starting",openA |-> TRUE,openB |-> TRUE,i |-> 1,wbuf |-> <<>>,stopErr |-> FALSE,o |-> [gen |-> 1, ntrig |-> 0, st |-> "Starting", created |-> {<<1, "e1">>, <<1, "r1">>}, begun |-> {<<1, "e1">>}, upok |-> {}, sbeg |-> {}, sdone |-> {}, stwice |-> {}, serr |-> {}, prov |-> 0, closed |-> FALSE, late |-> FALSE, back |-> FALSE, ret |-> "none", stop |-> TRUE, fgen |-> 1, tmo |-> TRUE, shutbad |-> FALSE, npanic |-> FALSE],nfail |-> 0,pc |-> "timedout",sigReg |-> FALSE,wclosed |-> FALSE,wblk |-> <<>>,ctxDone |-> FALSE])
    >>
----


=============================================================================

---- CONFIG CollectorMC_TTrace_1790407934 ----
CONSTANTS
    CompSeq <- Seq2
    Comps <- Set2
    MaxGen = 2
    MaxEnv = 3
    MaxFail = 1
    Blocking = TRUE
    Nobody = Nobody
    Nobody = Nobody

INVARIANT
    _inv

CHECK_DEADLOCK
    \* CHECK_DEADLOCK off because of PROPERTY or INVARIANT above.
    FALSE

INIT
    _init

NEXT
    _next

CONSTANT
    _TETrace <- _trace

ALIAS
    _expression
=============================================================================
\* Generated on Sat Sep 26 07:32:16 UTC 2026