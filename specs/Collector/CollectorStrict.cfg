SPECIFICATION SSpec
CONSTANTS
  CompSeq <- Seq3
  Comps <- Set3
  MaxGen = 8
  MaxEnv = 60
  MaxFail = 60
  Blocking = FALSE
  SafeWatch = TRUE
  Nobody = Nobody
  CreateComp <- LogComp
  StartComp <- LogComp
  StopComp <- LogComp
  MaxBlocked <- StrictMaxBlocked
INVARIANT ModelProperty
CONSTRAINT HighWater
POSTCONDITION Accepted
CHECK_DEADLOCK FALSE
