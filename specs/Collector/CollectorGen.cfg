SPECIFICATION Spec
CONSTANTS
  CompSeq <- Seq3
  Comps <- Set3
  MaxGen = 2
  MaxEnv = 3
  MaxFail = 1
  Blocking = FALSE
  SafeWatch = TRUE
  Nobody = Nobody
VIEW view
INVARIANT Emit
CHECK_DEADLOCK FALSE
