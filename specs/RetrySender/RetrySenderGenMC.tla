---------------------------- MODULE RetrySenderGenMC ----------------------------
(* Exhaustive design check: every outcome sequence up to MaxAttempts attempts, every back-off draw
   in the envelope, shutdown during any attempt or at any instant of any wait, cancellation at any
   instant of any wait, for every configuration of ConfigSet. *)
EXTENDS RetrySenderGen

CONSTANTS Inits, Mult2s, Maxis, Rnd2s, Budgets, Tmos, Deadlines, Enableds,
          ThrLo, ThrHi,   \* delays a throttling backend asks for (below / above the back-off)
          SlowDur         \* duration of a slow failing attempt

ConfigSet == { c \in [enabled : Enableds, init : Inits, mult2 : Mult2s, maxi : Maxis, rnd2 : Rnd2s,
                      budget : Budgets, tmo : Tmos, deadline : Deadlines] :
                 /\ c.maxi >= c.init
                 /\ (c.budget > 0 => c.budget >= c.maxi)      \* BackOffConfig.Validate
                 /\ (~c.enabled => c.init = 1 /\ c.mult2 = 2 /\ c.rnd2 = 0 /\ c.budget = 0) }

OutcomeSet == {[kind |-> "ok", thr |-> 0, dur |-> 0, sub |-> "-"],
               [kind |-> "transient", thr |-> 0, dur |-> 0, sub |-> "-"],
               [kind |-> "transient", thr |-> 0, dur |-> SlowDur, sub |-> "-"],
               [kind |-> "permanent", thr |-> 0, dur |-> 0, sub |-> "-"],
               [kind |-> "throttle", thr |-> ThrLo, dur |-> 0, sub |-> "-"],
               [kind |-> "throttle", thr |-> ThrHi, dur |-> 0, sub |-> "-"],
               [kind |-> "partial", thr |-> 0, dur |-> 0, sub |-> "drop_min"],
               [kind |-> "partial", thr |-> 0, dur |-> 0, sub |-> "keep_max"],
               [kind |-> "expire", thr |-> 0, dur |-> 0, sub |-> "-"]}
=============================================================================
