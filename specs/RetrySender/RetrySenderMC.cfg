SPECIFICATION Spec
CONSTANTS
  NoDeadline = 1000000
  Eps = 0
  Items = {1, 2, 3}
  MaxAttempts = 4
  Configs <- ConfigSet
  Outcomes <- OutcomeSet
  Inits = {1, 2}
  Mult2s = {2, 4}
  Maxis = {2, 4}
  Rnd2s = {0, 1}
  Budgets = {0, 4, 7}
  Tmos = {0, 2}
  Deadlines = {1000000, 5}
  Enableds = {TRUE, FALSE}
  ThrLo = 1
  ThrHi = 3
  SlowDur = 1
INVARIANT Property
INVARIANT Conformance
PROPERTY Quiescent
CHECK_DEADLOCK FALSE
