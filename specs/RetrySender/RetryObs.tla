------------------------------- MODULE RetryObs -------------------------------
(* C05 -- observable layer of the retry sender, and the property written from the statement.

   One request travelling through exporterhelper's retry sender.  Observables (what a scripted
   backend and the caller can see; filled by the implementation-shaped module RetrySender in the
   design check and from recorded events of the real code in RetrySenderTrace):

     cfg   [enabled, init, mult2, maxi, rnd2, budget, tmo, deadline]   integer time units
             mult2 = 2*multiplier, rnd2 = 2*randomization_factor (0 or 1), budget = max_elapsed_time
             (0 = unlimited), tmo = per-attempt timeout (0 = none), deadline = absolute deadline of
             the request's context (NoDeadline = none)
     tc    instant Send was called
     att   sequence of export attempts  [items, t0, t1, kind, thr, rem]
             kind in ok | transient | permanent | throttle | partial | expire, thr = delay asked by
             the backend (throttle), rem = items named undelivered (partial)
     dec   one record per failed attempt whose continuation is known:
             [logged, d, tlog, nowLo, nowHi, next, tnext]
             logged/d/tlog  the sender announced a retry after interval d at instant tlog
             nowLo..nowHi   what is known about the clock reading the decision used
             next           "attempt" (it was retried) | "result" (Send returned instead), at tnext
     res   [cls, t]   cls in none | ok | permanent | shutdown | error
     stp, cnl   [t0, t1] interval in which Shutdown() / the context's cancel() ran (t0 = -1: never)
     late  number of attempts observed after Send had returned

   Clock readings are only known up to an interval in a real execution; every clause below is
   written as "the observation is consistent with the statement for SOME clock reading in the known
   interval"; in the design check all intervals are points and the clauses are exact. *)
EXTENDS Integers, Sequences, FiniteSets

CONSTANTS NoDeadline,   \* "no deadline" (an integer beyond every instant)
          Eps           \* clock/rounding granularity: 0 in the design check, 1 (microsecond) on real traces

VARIABLES cfg, tc, att, dec, res, stp, cnl, late

obsVars == <<cfg, tc, att, dec, res, stp, cnl, late>>

Max(a, b) == IF a > b THEN a ELSE b
Min(a, b) == IF a < b THEN a ELSE b

Never == [t0 |-> -1, t1 |-> -1]
NoRes == [cls |-> "none", t |-> -1]

ObsInit(c, t) == /\ cfg = c /\ tc = t /\ att = <<>> /\ dec = <<>> /\ res = NoRes
                 /\ stp = Never /\ cnl = Never /\ late = 0

\* the announcement of a retry that has not been followed by anything yet
NoPend == [logged |-> FALSE, d |-> -1, tlog |-> -1]

\* close the decision record of the last attempt if it failed and its continuation is now known
CloseDec(p, next, t) ==
  IF Len(att) > 0 /\ Len(dec) < Len(att) /\ att[Len(att)].kind # "ok"
    THEN Append(dec, [logged |-> p.logged, d |-> p.d, tlog |-> p.tlog,
                      nowLo |-> att[Len(att)].t1, nowHi |-> IF p.logged THEN p.tlog ELSE t,
                      next |-> next, tnext |-> t])
    ELSE dec

-----------------------------------------------------------------------------
(* The configured exponential back-off envelope: the k-th wait (k = 0, 1, ...) is drawn from
   interval_k * (1 +- randomization_factor), interval_0 = initial_interval,
   interval_{k+1} = min(interval_k * multiplier, max_interval). *)
RECURSIVE IntervalAt(_)
IntervalAt(k) == IF k = 0 THEN cfg.init
                 ELSE LET p == IntervalAt(k - 1) IN
                      IF p * cfg.mult2 >= 2 * cfg.maxi THEN cfg.maxi ELSE (p * cfg.mult2) \div 2
EnvLo(k) == IntervalAt(k) - (IntervalAt(k) * cfg.rnd2) \div 2
EnvHi(k) == IntervalAt(k) + (IntervalAt(k) * cfg.rnd2) \div 2 + Eps

Failed(i)    == att[i].kind \notin {"ok"}
Permanent(i) == att[i].kind = "permanent"
Thr(i)       == IF att[i].kind = "throttle" THEN att[i].thr ELSE 0

\* budget: Send read the clock once between the call and the first attempt
BudgetEndLo == tc + cfg.budget
BudgetEndHi == (IF Len(att) > 0 THEN att[1].t0 ELSE tc) + cfg.budget

FitsMaybe(t)    == /\ (cfg.budget = 0 \/ t <= BudgetEndHi + 2 * Eps)
                   /\ (cfg.deadline = NoDeadline \/ t <= cfg.deadline + 2 * Eps)
NoFitMaybe(t)   == \/ (cfg.budget > 0 /\ t + 2 * Eps > BudgetEndLo)
                   \/ (cfg.deadline # NoDeadline /\ t + 2 * Eps > cfg.deadline)

\* decision j belongs to failed attempt j (every earlier attempt failed and was retried)
StopSurelyBeforeWake(j)   == stp.t0 >= 0 /\ dec[j].logged /\ stp.t1 + 2 * Eps < dec[j].tlog + dec[j].d
CancelSurelyBeforeWake(j) == cnl.t0 >= 0 /\ dec[j].logged /\ cnl.t1 + 2 * Eps < dec[j].tlog + dec[j].d
StopMaybeBefore(t)   == stp.t0 >= 0 /\ stp.t0 <= t
CancelMaybeBefore(t) == cnl.t0 >= 0 /\ cnl.t0 <= t
\* the request's context may have expired by t (a wait that ends exactly at the deadline races with it)
DeadlineMaybeBefore(t) == cfg.deadline # NoDeadline /\ cfg.deadline <= t + 2 * Eps

Retried(j) == dec[j].next = "attempt"

\* "An export attempt that fails is retried if and only if retrying is enabled, the error is not
\*  permanent, the next attempt still fits in the configured elapsed-time budget and the request's
\*  deadline, and the exporter is not shutting down"
MayRetry(j) ==
  /\ cfg.enabled /\ ~Permanent(j)
  /\ (dec[j].logged => FitsMaybe(dec[j].nowLo + dec[j].d))
  /\ ~StopSurelyBeforeWake(j)
MayGiveUp(j) ==
  \/ ~cfg.enabled \/ Permanent(j)
  \/ StopMaybeBefore(dec[j].tnext) \/ CancelMaybeBefore(dec[j].tnext) \/ DeadlineMaybeBefore(dec[j].tnext)
  \* once it has announced the retry only shutdown (or the end of the request's context) may end the wait
  \/ (~dec[j].logged /\ NoFitMaybe(dec[j].nowHi + Max(EnvHi(j - 1), Thr(j))))
RetryIff == \A j \in 1..Len(dec) : IF Retried(j) THEN MayRetry(j) ELSE MayGiveUp(j)

\* "after a success or a permanent error no further attempt is ever made for that request"
NothingAfterVerdict ==
  /\ \A i \in 1..(Len(att) - 1) : att[i].kind \notin {"ok", "permanent"}
  /\ late = 0
  /\ (res.cls # "none" => \A i \in 1..Len(att) : att[i].t0 <= res.t)

\* "The wait before each retry is at least the delay the backend asked for (throttling)"
DelayAtLeastThrottle ==
  \A j \in 1..Len(dec) :
     /\ (dec[j].logged => dec[j].d >= Thr(j))
     /\ (Retried(j) => dec[j].tnext - att[j].t1 + 2 * Eps >= Thr(j))
\* "and otherwise stays within the configured exponential back-off envelope"
DelayInEnvelope ==
  \A j \in 1..Len(dec) :
     /\ (dec[j].logged /\ Thr(j) = 0) => (EnvLo(j - 1) <= dec[j].d /\ dec[j].d <= EnvHi(j - 1))
     /\ Retried(j) => /\ dec[j].tnext - att[j].t1 + 2 * Eps >= Max(EnvLo(j - 1), Thr(j))     \* really waited
                      /\ (dec[j].logged => dec[j].tnext - att[j].t1 + 2 * Eps >= dec[j].d)
\* "when a failure names the undelivered subset only that subset is resent"
OnlyRemainderResent ==
  \A i \in 1..(Len(att) - 1) :
     att[i + 1].items = IF att[i].kind = "partial" THEN att[i].rem ELSE att[i].items
\* "A retry wait interrupted by shutdown ends with a shutdown-classified error"
ShutdownClassified ==
  \A j \in 1..Len(dec) :
     (/\ dec[j].logged /\ ~Retried(j) /\ StopMaybeBefore(dec[j].tnext)
      /\ ~CancelMaybeBefore(dec[j].tnext) /\ ~DeadlineMaybeBefore(dec[j].tnext))
        => res.cls = "shutdown"

Property == /\ RetryIff /\ NothingAfterVerdict /\ DelayAtLeastThrottle /\ DelayInEnvelope
            /\ OnlyRemainderResent /\ ShutdownClassified

(* Conformance-only clauses: what the implementation does where the statement is silent. *)
\* a throttled wait is exactly max(back-off, asked delay)
ThrottledUpper == \A j \in 1..Len(dec) :
                     (dec[j].logged /\ Thr(j) > 0) => dec[j].d <= Max(EnvHi(j - 1), Thr(j))
\* a cancelled context ends the wait without another attempt
CancelRespected == \A j \in 1..Len(dec) : Retried(j) => ~CancelSurelyBeforeWake(j)
\* the result reflects the last attempt
ResultReflects == res.cls # "none" =>
                     /\ (res.cls = "ok") = (Len(att) > 0 /\ att[Len(att)].kind = "ok")
                     /\ (res.cls = "permanent" => Len(att) > 0 /\ att[Len(att)].kind = "permanent")
                     /\ (res.cls = "shutdown" => stp.t0 >= 0)
Conformance == ThrottledUpper /\ CancelRespected /\ ResultReflects
=============================================================================
