--------------------------- MODULE RetrySenderTrace ---------------------------
(* Trace validation for C05: the observables of RetryObs are filled from the events recorded by
   harness/retry on the real retry sender (times in microseconds, Eps = 1), and the clauses of the
   statement (RetryObs!Property, one invariant each) are evaluated by TLC on them.  The conformance
   clauses (RetryObs!Conformance) are evaluated too; their failure is model drift, not a violation.

   observed.ndjson, per script:
     {"ev":"begin","sid":n,"tc":..,"deadline":abs|-1,"items":[..],"stop0":..,"stop1":..,"cancel0":..,
      "cancel1":..,"cfg":{enabled,init,mult2,maxi,rnd2,budget,tmo}}
     {"ev":"attempt","n":k,"items":[..],"t0":..,"t1":..,"kind":..,"thr":..,"rem":[..]}
     {"ev":"delay","d":..,"t":..}          the sender announced "will retry after interval d" at t
     {"ev":"result","cls":..,"t":..}       ConsumeLogs returned
     {"ev":"late","n":k}                   attempts that arrived after the result
   and a final {"ev":"end"}. *)
EXTENDS RetryObs, TLC, Json

Log == ndJsonDeserialize("observed.ndjson")

VARIABLES l, sid, pendT
tvars == <<obsVars, l, sid, pendT>>

ToSet(s) == {s[i] : i \in 1..Len(s)}

TInit == /\ cfg = [enabled |-> FALSE, init |-> 1, mult2 |-> 2, maxi |-> 1, rnd2 |-> 0, budget |-> 0, tmo |-> 0,
                   deadline |-> NoDeadline]
         /\ tc = 0 /\ att = <<>> /\ dec = <<>> /\ res = NoRes /\ stp = Never /\ cnl = Never /\ late = 0
         /\ l = 1 /\ sid = -1 /\ pendT = NoPend /\ TLCSet(1, 1)

Is(e) == l <= Len(Log) /\ Log[l].ev = e /\ l' = l + 1

TBegin == /\ Is("begin")
          /\ LET e == Log[l] IN
             /\ cfg' = [enabled |-> e.cfg.enabled, init |-> e.cfg.init, mult2 |-> e.cfg.mult2, maxi |-> e.cfg.maxi,
                        rnd2 |-> e.cfg.rnd2, budget |-> e.cfg.budget, tmo |-> e.cfg.tmo,
                        deadline |-> IF e.deadline < 0 THEN NoDeadline ELSE e.deadline]
             /\ tc' = e.tc /\ sid' = e.sid
             /\ stp' = [t0 |-> e.stop0, t1 |-> e.stop1] /\ cnl' = [t0 |-> e.cancel0, t1 |-> e.cancel1]
          /\ att' = <<>> /\ dec' = <<>> /\ res' = NoRes /\ late' = 0 /\ pendT' = NoPend

TAttempt == /\ Is("attempt")
            /\ LET e == Log[l] IN
               /\ dec' = CloseDec(pendT, "attempt", e.t0)
               /\ att' = Append(att, [items |-> ToSet(e.items), t0 |-> e.t0, t1 |-> e.t1, kind |-> e.kind,
                                      thr |-> e.thr, rem |-> ToSet(e.rem)])
            /\ pendT' = NoPend
            /\ UNCHANGED <<cfg, tc, res, stp, cnl, late, sid>>

TDelay == /\ Is("delay")
          /\ pendT' = [logged |-> TRUE, d |-> Log[l].d, tlog |-> Log[l].t]
          /\ UNCHANGED <<obsVars, sid>>

TResult == /\ Is("result")
           /\ dec' = CloseDec(pendT, "result", Log[l].t)
           /\ res' = [cls |-> Log[l].cls, t |-> Log[l].t]
           /\ pendT' = NoPend
           /\ UNCHANGED <<cfg, tc, att, stp, cnl, late, sid>>

TLate == /\ Is("late") /\ late' = Log[l].n
         /\ UNCHANGED <<cfg, tc, att, dec, res, stp, cnl, sid, pendT>>

TEnd == /\ Is("end") /\ UNCHANGED <<obsVars, sid, pendT>>

TNext == TBegin \/ TAttempt \/ TDelay \/ TResult \/ TLate \/ TEnd
TSpec == TInit /\ [][TNext]_tvars

HighWater == IF l > TLCGet(1) THEN TLCSet(1, l) ELSE TRUE
Accepted == IF TLCGet(1) = Len(Log) + 1 THEN TRUE
            ELSE PrintT(<<"REJECTED_AT", TLCGet(1), Len(Log)>>) /\ FALSE
=============================================================================
