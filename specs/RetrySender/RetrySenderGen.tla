---------------------------- MODULE RetrySenderGen ----------------------------
(* Script generator for C05.  Every complete behaviour of RetrySender (Send has returned) yields a
   script for the real-time driver harness/retry:
     cfg      back-off configuration, per-attempt timeout, request deadline (time units)
     outs     what the scripted backend answers, attempt by attempt: [kind, thr, dur, sub, stop]
              (stop: Shutdown() is called from inside that attempt)
     stop     [n, when]  Shutdown() during the wait after attempt n ("start": before the wait begins,
              "mid": half way through the announced interval); n = 0: none
     cancel   [n, when]  the same for the context's cancel()
     nominal  attempts and result class of this behaviour (information only: the real draw of the
              back-off and the real clock decide; the recorded trace is validated by TLC)
   Back-off draws are restricted to the ends of the envelope and interruptions to the start or the
   middle of a wait: enough to reach every branch of the decision, small enough to enumerate. *)
EXTENDS RetrySender, TLC, Json

VARIABLES outs, stopSpec, cancelSpec
gvars == <<vars, outs, stopSpec, cancelSpec>>

None == [n |-> 0, when |-> "-"]

GenInit == Init /\ outs = <<>> /\ stopSpec = None /\ cancelSpec = None

When(t) == IF t = now THEN "start" ELSE "mid"
Mid == now + (pend.d \div 2)

GenAttempt == \E o \in Outcomes, s \in BOOLEAN :
                 /\ s => (~stopping /\ stopSpec.n = 0)
                 /\ Attempt(o, s)
                 /\ outs' = Append(outs, [kind |-> o.kind, thr |-> o.thr, dur |-> o.dur, sub |-> o.sub, stop |-> s])
                 /\ UNCHANGED <<stopSpec, cancelSpec>>
GenDecide == /\ phase = "failed"
             /\ \E b \in {EnvLo(Len(att) - 1), EnvHi(Len(att) - 1)} : Decide(b)
             /\ UNCHANGED <<outs, stopSpec, cancelSpec>>
GenPlain == GiveUpPlain /\ UNCHANGED <<outs, stopSpec, cancelSpec>>
GenWait == (WaitDone \/ ExpireInWait) /\ UNCHANGED <<outs, stopSpec, cancelSpec>>
GenStop == phase = "wait" /\ \E t \in (IF stopping THEN {now} ELSE {now, Mid}) :
              /\ StopInWait(t)
              /\ stopSpec' = IF stopping THEN stopSpec ELSE [n |-> Len(att), when |-> When(t)]
              /\ UNCHANGED <<outs, cancelSpec>>
GenCancel == phase = "wait" /\ \E t \in {now, Mid} :
              /\ CancelInWait(t)
              /\ cancelSpec' = [n |-> Len(att), when |-> When(t)]
              /\ UNCHANGED <<outs, stopSpec>>

GenNext == GenAttempt \/ GenDecide \/ GenPlain \/ GenWait \/ GenStop \/ GenCancel
GenSpec == GenInit /\ [][GenNext]_gvars

Emit == phase = "done" =>
          PrintT(<<"BEH", ToJson([cfg |-> cfg, outs |-> outs, stop |-> stopSpec, cancel |-> cancelSpec,
                                  nominal |-> [attempts |-> Len(att), cls |-> res.cls]])>>)
=============================================================================
