----------------------------- MODULE RetrySender -----------------------------
(* C05 -- implementation-shaped model of exporterhelper's retry sender
   (exporter/exporterhelper/internal/retry_sender.go Send, timeout_sender.go, logs.go OnError).

   One action per step of the loop in Send:
     Call            Send is entered: the elapsed-time budget starts
     Attempt(o,..)   rs.next.Send(ctx, req) returns outcome o (through the per-attempt timeout
                     sender); a Shutdown() may run while the attempt is in flight
     GiveUpPlain     retry disabled (no retry sender in the chain): the error is returned
     Decide(b)       permanent -> return; OnError narrows the request; NextBackOff() = b from the
                     current envelope, the interval grows; throttle override; budget and deadline
                     tests; "will retry after interval" is logged
     WaitDone        time.After(delay) fires
     StopInWait(t)   stopCh closes during the wait -> shutdown-classified error
     CancelInWait(t) ctx.Done() during the wait (cancel())
     ExpireInWait    ctx.Done() because the wait ends exactly at the request's deadline
   Integer time.  The observables of RetryObs are updated alongside. *)
EXTENDS RetryObs

CONSTANTS Items,       \* item ids of the request
          Configs,     \* set of cfg records
          Outcomes,    \* set of [kind, thr, dur, sub] templates the backend may answer with
          MaxAttempts

VARIABLES now, phase, curI, req, pend, stopping, cancelled

implVars == <<now, phase, curI, req, pend, stopping, cancelled>>
vars == <<obsVars, implVars>>


Init == /\ \E c \in Configs : ObsInit(c, 0)
        /\ now = 0 /\ phase = "send" /\ curI = 0 /\ req = Items /\ pend = NoPend
        /\ stopping = FALSE /\ cancelled = FALSE

\* the subset a partial failure names: sub = "drop_min" (everything but the smallest id) or "keep_max"
SubsetOf(sub, s) == LET mx == CHOOSE x \in s : \A y \in s : y <= x
                        mn == CHOOSE x \in s : \A y \in s : y >= x
                    IN IF sub = "keep_max" THEN {mx} ELSE s \ {mn}

Attempt(o, stopDuring) ==
  /\ phase = "send" /\ Len(att) < MaxAttempts
  /\ o.kind = "partial" => Cardinality(req) >= 2
  /\ o.kind = "expire" => (cfg.tmo > 0 \/ cfg.deadline # NoDeadline)
  /\ LET t1 == IF o.kind = "expire"
                 THEN Max(now, Min(IF cfg.tmo > 0 THEN now + cfg.tmo ELSE NoDeadline, cfg.deadline))
                 ELSE now + o.dur
         rec == [items |-> req, t0 |-> now, t1 |-> t1, kind |-> o.kind,
                 thr |-> IF o.kind = "throttle" THEN o.thr ELSE 0,
                 rem |-> IF o.kind = "partial" THEN SubsetOf(o.sub, req) ELSE {}]
     IN /\ dec' = CloseDec(pend, "attempt", now)
        /\ att' = Append(att, rec)
        /\ now' = t1
        /\ IF o.kind = "ok"
             THEN /\ phase' = "done" /\ res' = [cls |-> "ok", t |-> t1]
             ELSE /\ phase' = "failed" /\ res' = res
        /\ stopping' = (stopping \/ stopDuring)
        /\ stp' = IF stopDuring /\ stp.t0 < 0 THEN [t0 |-> now, t1 |-> t1] ELSE stp
  /\ pend' = NoPend
  /\ UNCHANGED <<cfg, tc, cnl, late, curI, req, cancelled>>

Last == att[Len(att)]

Finish(cls) == /\ phase' = "done" /\ res' = [cls |-> cls, t |-> now]
               /\ dec' = CloseDec(pend, "result", now)

\* retry disabled: the failure goes straight back to the caller
GiveUpPlain ==
  /\ phase = "failed" /\ ~cfg.enabled
  /\ Finish(IF Last.kind = "permanent" THEN "permanent" ELSE "error")
  /\ UNCHANGED <<cfg, tc, att, stp, cnl, late, now, curI, req, pend, stopping, cancelled>>

Decide(b) ==
  /\ phase = "failed" /\ cfg.enabled
  /\ IF Last.kind = "permanent"
       THEN /\ Finish("permanent")
            /\ UNCHANGED <<curI, req, pend>>
       ELSE LET c0 == IF curI = 0 THEN cfg.init ELSE curI               \* NextBackOff
                lo == c0 - (c0 * cfg.rnd2) \div 2
                hi == c0 + (c0 * cfg.rnd2) \div 2
                d  == IF Last.kind = "throttle" THEN Max(b, Last.thr) ELSE b
                next == now + d
            IN /\ b \in lo..hi
               /\ curI' = IF c0 * cfg.mult2 >= 2 * cfg.maxi THEN cfg.maxi ELSE (c0 * cfg.mult2) \div 2
               /\ req' = IF Last.kind = "partial" THEN Last.rem ELSE req          \* OnError
               /\ IF \/ (cfg.budget > 0 /\ tc + cfg.budget < next)
                     \/ (cfg.deadline # NoDeadline /\ cfg.deadline < next)
                    THEN /\ Finish("error") /\ pend' = pend
                    ELSE /\ pend' = [logged |-> TRUE, d |-> d, tlog |-> now]
                         /\ phase' = "wait" /\ res' = res /\ dec' = dec
  /\ UNCHANGED <<cfg, tc, att, stp, cnl, late, now, stopping, cancelled>>

WaitDone ==
  /\ phase = "wait" /\ ~stopping /\ ~cancelled
  /\ now' = pend.tlog + pend.d
  /\ phase' = "send"
  /\ UNCHANGED <<obsVars, curI, req, pend, stopping, cancelled>>

\* shutdown: already requested (select sees stopCh closed at once) or arriving at t during the wait
StopInWait(t) ==
  /\ phase = "wait" /\ ~cancelled
  /\ t >= now /\ t < pend.tlog + pend.d
  /\ stopping \/ t >= now
  /\ now' = t
  /\ stopping' = TRUE
  /\ stp' = IF stp.t0 < 0 THEN [t0 |-> t, t1 |-> t] ELSE stp
  /\ phase' = "done" /\ res' = [cls |-> "shutdown", t |-> t]
  /\ dec' = CloseDec(pend, "result", t)
  /\ UNCHANGED <<cfg, tc, att, cnl, late, curI, req, pend, cancelled>>

CancelInWait(t) ==
  /\ phase = "wait" /\ ~stopping
  /\ t >= now /\ t < pend.tlog + pend.d
  /\ now' = t
  /\ cancelled' = TRUE
  /\ cnl' = [t0 |-> t, t1 |-> t]
  /\ phase' = "done" /\ res' = [cls |-> "error", t |-> t]
  /\ dec' = CloseDec(pend, "result", t)
  /\ UNCHANGED <<cfg, tc, att, stp, late, curI, req, pend, stopping>>

\* the wait ends exactly at the request's deadline: ctx.Done() and the timer are both ready, either wins
ExpireInWait ==
  /\ phase = "wait" /\ ~stopping /\ ~cancelled
  /\ cfg.deadline # NoDeadline /\ pend.tlog + pend.d = cfg.deadline
  /\ now' = cfg.deadline
  /\ phase' = "done" /\ res' = [cls |-> "error", t |-> cfg.deadline]
  /\ dec' = CloseDec(pend, "result", cfg.deadline)
  /\ UNCHANGED <<cfg, tc, att, stp, cnl, late, curI, req, pend, stopping, cancelled>>

DoAttempt == \E o \in Outcomes, s \in BOOLEAN : Attempt(o, s)
DoDecide == \E b \in 0..(4 * cfg.maxi) : Decide(b)
DoStop == \E t \in 0..(now + 4 * cfg.maxi) : StopInWait(t)
DoCancel == \E t \in 0..(now + 4 * cfg.maxi) : CancelInWait(t)

Next == DoAttempt \/ GiveUpPlain \/ DoDecide \/ WaitDone \/ ExpireInWait \/ DoStop \/ DoCancel
Spec == Init /\ [][Next]_vars

\* nothing moves once Send has returned
Quiescent == [][res.cls # "none" => UNCHANGED <<att, res>>]_vars
=============================================================================
