SPECIFICATION TSpec
CONSTANTS
  NoDeadline = 2000000000
  Eps = 1
CONSTRAINT HighWater
INVARIANT RetryIff
INVARIANT NothingAfterVerdict
INVARIANT DelayAtLeastThrottle
INVARIANT DelayInEnvelope
INVARIANT OnlyRemainderResent
INVARIANT ShutdownClassified
INVARIANT ThrottledUpper
INVARIANT CancelRespected
INVARIANT ResultReflects
POSTCONDITION Accepted
CHECK_DEADLOCK FALSE
