----------------------------- MODULE BatchTrace -----------------------------
(* C17 -- monitor: the clauses of BatchObs.tla evaluated by TLC on what the REAL batch processor did.

   observed.ndjson is written by harness/batchproc; many scripts per file, each starts with "reset":
     {"ev":"reset","sid":n,"conf":{size,max,timer,keyed,limit},"pendmax":n,"timeout":ms,"slack":ms,...}
                      timeout = the configured timeout in ms (0: none); -1: a timer exists but cannot
                      expire during the script (size-only triggers)
     {"ev":"produce","p":..,"n":..,"md":group,"items":[{"id":..,"c":ctx},..],"t":ms}   before Consume is called
     {"ev":"produce_end","p":..,"n":..,"ids":[..],"err":"ok"|"refused"|"panic","t":ms} after it returned
     {"ev":"emit","md":group found in the call's context,"items":[..],"ok":bool,"t":ms} inside the downstream call
     {"ev":"settle","quiet":bool,"t":ms}  single-producer scripts: the driver waited (<= 5 s) for quiescence
     {"ev":"waited","t":ms}               timer scripts: the driver gave pending data timeout+slack to leave
     {"ev":"shutdown_start"} {"ev":"shutdown_end"} {"ev":"shutdown_hang"} {"ev":"panic"}
     {"ev":"end"}
   The order of the lines is the order in which the recorder's mutex was taken.

   The monitor is as nondeterministic as the statement: ANY partition into batches that conserves
   the bag, keeps every context, respects the maximum and the groups is accepted; nothing here
   refers to the implementation-shaped model.  A false clause does not stop the run: it is printed
   as <<"VIOL", json>> (script, line, clause) so that every script of the file gets its verdict. *)
EXTENDS BatchObs, Json

Log == ndJsonDeserialize("observed.ndjson")

VARIABLES l,        \* next line
          sid,      \* current script
          conf, timeout, slack,
          acceptT,  \* function id -> time its Consume returned nil
          nchecks   \* number of clause evaluations so far (evidence)

tvars == <<l, sid, conf, timeout, slack, acceptT, nchecks, obsVars>>

NoConf == [size |-> 0, max |-> 0, timer |-> FALSE, keyed |-> FALSE, limit |-> 0]

TInit == /\ ObsInit /\ l = 1 /\ sid = 0 /\ conf = NoConf /\ timeout = 0 /\ slack = 0
         /\ acceptT = <<>> /\ nchecks = 0

E == Log[l]

\* evaluates to TRUE always; prints the clause when it does not hold
Report(clause, holds, detail) ==
  IF holds THEN TRUE
  ELSE PrintT(<<"VIOL", ToJson([sid |-> sid, line |-> l, clause |-> clause, detail |-> detail])>>)

ItemsOf(e)   == [i \in DOMAIN e.items |-> [id |-> e.items[i].id, ctx |-> e.items[i].c]]
IdsOfEvent(e) == {e.items[i].id : i \in DOMAIN e.items}
CtxOf(e, id) == e.items[CHOOSE i \in DOMAIN e.items : e.items[i].id = id].c
EmittedIds   == IdsOfSeq(emitted)
Accepted     == WithStatus("before") \cup WithStatus("after")
Pending(g)   == {id \in Accepted \ EmittedIds : offered[id].md = g}
GroupsSeen   == {offered[id].md : id \in DOMAIN offered}
TReset ==
  /\ E.ev = "reset"
  /\ offered' = <<>> /\ status' = <<>> /\ emitted' = <<>> /\ phase' = "running"
  /\ sid' = E.sid /\ conf' = E.conf /\ timeout' = E.timeout /\ slack' = E.slack
  /\ acceptT' = <<>> /\ UNCHANGED nchecks

TProduce ==
  /\ E.ev = "produce"
  /\ offered' = offered @@ [id \in IdsOfEvent(E) |-> [ctx |-> CtxOf(E, id), md |-> E.md]]
  /\ status' = status @@ [id \in IdsOfEvent(E) |-> "inflight"]
  /\ UNCHANGED <<emitted, phase, sid, conf, timeout, slack, acceptT, nchecks>>

TProduceEnd ==
  /\ E.ev = "produce_end"
  /\ UNCHANGED <<offered, emitted, phase, sid, conf, timeout, slack>>
  /\ LET ids == {E.ids[i] : i \in DOMAIN E.ids}
         st  == CASE E.err = "ok" -> IF phase = "running" THEN "before" ELSE "after"
                  [] E.err = "refused" -> "refused"
                  [] OTHER -> "inflight"
     IN /\ status' = [id \in DOMAIN status |-> IF id \in ids THEN st ELSE status[id]]
        /\ acceptT' = IF E.err = "ok" THEN acceptT @@ [id \in ids |-> E.t] ELSE acceptT
  \* "arrivals beyond the cardinality limit are refused with an error"
  /\ Report("CardinalityRefused", CardinalityRefused(conf)', AcceptedGroups')
  /\ nchecks' = nchecks + 1

TEmit ==
  /\ E.ev = "emit"
  /\ LET b == [items |-> ItemsOf(E), md |-> E.md, ok |-> E.ok] IN
       /\ Report("ExactlyOnce", BatchNoDup(b, EmittedIds), <<>>)
       /\ Report("NothingInvented", BatchKnown(b, offered, status), <<>>)
       /\ Report("Identity", BatchIdentity(b, offered),
                 {<<b.items[i].id, b.items[i].ctx, offered[b.items[i].id].ctx>> : i \in {j \in DOMAIN b.items :
                      b.items[j].id \in DOMAIN offered /\ b.items[j].ctx # offered[b.items[j].id].ctx}})
       /\ Report("MaxSize", BatchMax(b, conf), <<Len(b.items), conf.max>>)
       /\ Report("GroupIsolation", BatchGroup(b, offered),
                 <<b.md, {offered[id].md : id \in Ids(b) \cap DOMAIN offered}>>)
       /\ Report("TimerBound",
                 timeout < 0 \/ \A id \in Ids(b) \cap DOMAIN acceptT : TimelyOK(E.t, acceptT[id], timeout, slack),
                 <<E.t, timeout, slack>>)
       /\ Report("CardinalityRefused", CardinalityOK(EmittedGroups \cup {b.md}, conf), EmittedGroups \cup {b.md})
       /\ emitted' = Append(emitted, b)
  /\ nchecks' = nchecks + 7
  /\ UNCHANGED <<offered, status, phase, sid, conf, timeout, slack, acceptT>>

\* single-producer scripts: after every produce the driver waited for quiescence
TSettle ==
  /\ E.ev = "settle"
  /\ Report("SizeTrigger", \A g \in GroupsSeen : QuiescentOK(Cardinality(Pending(g)), conf),
            [g \in GroupsSeen |-> Cardinality(Pending(g))])
  /\ nchecks' = nchecks + 1
  /\ UNCHANGED <<obsVars, sid, conf, timeout, slack, acceptT>>

\* timer scripts: whatever was accepted at least timeout + slack ago must have left
TWaited ==
  /\ E.ev = "waited"
  /\ Report("TimerBound",
            timeout < 0 \/ \A id \in (Accepted \ EmittedIds) \cap DOMAIN acceptT :
                               TimelyOK(E.t, acceptT[id], timeout, slack),
            <<"still pending", Accepted \ EmittedIds>>)
  /\ nchecks' = nchecks + 1
  /\ UNCHANGED <<obsVars, sid, conf, timeout, slack, acceptT>>

TShutdownStart ==
  /\ E.ev = "shutdown_start" /\ phase' = "stopping"
  /\ UNCHANGED <<offered, status, emitted, sid, conf, timeout, slack, acceptT, nchecks>>

TShutdownEnd ==
  /\ E.ev = "shutdown_end" /\ phase' = "stopped"
  /\ Report("Conservation", Conserved(WithStatus("before"), EmittedIds), WithStatus("before") \ EmittedIds)
  /\ nchecks' = nchecks + 1
  /\ UNCHANGED <<offered, status, emitted, sid, conf, timeout, slack, acceptT>>

TOther ==
  /\ E.ev \in {"shutdown_hang", "panic"}
  /\ UNCHANGED <<obsVars, sid, conf, timeout, slack, acceptT, nchecks>>

TEnd ==
  /\ E.ev = "end"
  /\ PrintT(<<"DONE", ToJson([lines |-> l, checks |-> nchecks])>>)
  /\ UNCHANGED <<obsVars, sid, conf, timeout, slack, acceptT, nchecks>>

TNext == /\ l <= Len(Log)
         /\ l' = l + 1
         /\ TReset \/ TProduce \/ TProduceEnd \/ TEmit \/ TSettle \/ TWaited \/ TShutdownStart
            \/ TShutdownEnd \/ TOther \/ TEnd

TSpec == TInit /\ [][TNext]_tvars
=============================================================================
