--------------------------- MODULE BatchGenParams ---------------------------
(* Parameters of a generator run.  checks/C17.py writes its own copy of this module for every run
   (a .cfg file cannot contain tuples); this one is the default for running BatchGen by hand. *)
ParamN          == 2
ParamShapeSel   == {1, 2, 5}
ParamGroups     == {"a"}
\* <<send_batch_size, send_batch_max_size, timer, keyed, cardinality limit>>
ParamConfigs    == {<<2, 3, TRUE, FALSE, 0>>, <<0, 2, TRUE, FALSE, 0>>}
=============================================================================
