------------------------------ MODULE BatchMC ------------------------------
(* Exhaustive design check of BatchProcessor: two concurrent producers with fixed programs, every
   configuration accepted by Config.Validate inside the bounds, shutdown at every moment, timer
   firing at every moment, optional downstream failures.  All clauses of Property are invariants. *)
EXTENDS BatchProcessor

CONSTANTS MaxS,     \* send_batch_size      \in 0..MaxS
          MaxM,     \* send_batch_max_size  \in 0..MaxM   (0 = unset), validation: max = 0 \/ max >= size
          MaxL,     \* cardinality limit    \in 0..MaxL   (0 = unlimited), keyed configurations only
          ProgSel   \* which pair of producer programs

MCProducers == {"p1", "p2"}
MCGroups    == {"a", "b"}

\* Config.Validate: send_batch_max_size >= send_batch_size when set
MCConfigs == {c \in [size : 0..MaxS, max : 0..MaxM, timer : BOOLEAN, keyed : BOOLEAN, limit : 0..MaxL] :
                 /\ c.max = 0 \/ c.max >= c.size
                 /\ ~c.keyed => c.limit = 0}

P(md, ctxs) == [md |-> md, ctxs |-> ctxs]
MCProg0 ==
  CASE ProgSel = 1 -> [p \in MCProducers |-> IF p = "p1" THEN <<P("a", <<1, 1>>), P("b", <<2>>)>>
                                                         ELSE <<P("a", <<3, 3, 4>>)>>]
    [] ProgSel = 2 -> [p \in MCProducers |-> IF p = "p1" THEN <<P("a", <<1>>), P("a", <<2, 2>>)>>
                                                         ELSE <<P("b", <<3, 3>>), P("a", <<>>)>>]
    [] ProgSel = 3 -> [p \in MCProducers |-> IF p = "p1" THEN <<P("a", <<1, 1, 1, 2, 2>>)>>
                                                         ELSE <<P("b", <<3>>), P("a", <<4>>), P("b", <<5, 5>>)>>]
MCPayloads == {}
=============================================================================
