------------------------------ MODULE BatchGen ------------------------------
(* Behaviour generator for the deterministic part of C17: ONE producer, no timer expiry (either
   no timer at all -- timeout = 0 or send_batch_size = 0 -- or size-only triggers, i.e. a timer that
   does not expire during the behaviour), downstream always accepts, shutdown at the end.

   The behaviours are those of BatchProcessor.tla under a deterministic schedule: the producer only
   moves when every shard is quiescent, shards finish in a fixed order after shutdown.  Every
   behaviour is printed as  [conf, pendmax, hist]  where hist is the sequence of
       [ev |-> "produce", shape |-> index into StdShapes, md |-> tag, refused |-> BOOLEAN]
       [ev |-> "emit", md |-> tag, ids |-> << <<k, j>>, ... >>]     k-th produce, j-th item of it
       [ev |-> "shutdown"]
   harness/batchproc replays it into the real processor (three signals) and compares. *)
EXTENDS BatchProcessor, TelemetryShape, BatchGenParams, Json

N          == ParamN          \* number of payloads per behaviour
ShapeSel   == ParamShapeSel   \* indices into StdShapes used
GenGroups  == ParamGroups     \* metadata tags used
GenConfigs == ParamConfigs    \* set of <<size, max, timer, keyed, limit>> tuples (validated below)

VARIABLE hist

GProducers == {"p"}
GProg0     == [p \in GProducers |-> <<>>]
GPayloads  == {[md |-> g, ctxs |-> Flatten(StdShapes[k]), shape |-> k] : g \in GenGroups, k \in ShapeSel}
GConfigs   == {c \in {[size |-> t[1], max |-> t[2], timer |-> t[3], keyed |-> t[4], limit |-> t[5]] : t \in GenConfigs} :
                  /\ c.max = 0 \/ c.max >= c.size             \* Config.Validate
                  /\ ~c.keyed => c.limit = 0}

GroupOrder == <<"a", "b", "c", "d", "e", "f", "-">>
Rank(g)    == CHOOSE i \in DOMAIN GroupOrder : GroupOrder[i] = g
Quiescent  == /\ ppc["p"] = "idle"
              /\ \A g \in AllGroups : chan[g] = <<>> /\ spc[g] \in {"none", "idle"}
\* after shutdown the shards finish one after the other (the real order is free; the driver
\* compares the final batches as a set)
Turn(g)    == closed => \A h \in AllGroups : Rank(h) < Rank(g) => spc[h] \in {"none", "done"}

PairsOf(b) == [i \in DOMAIN b.items |-> <<b.items[i].id[2], b.items[i].id[3]>>]
EmitEvent  == LET b == emitted'[Len(emitted')] IN [ev |-> "emit", md |-> b.md, ids |-> PairsOf(b)]

GenInit == Init /\ hist = <<>>
GenNext ==
  \/ /\ Quiescent /\ phase = "running"
     /\ \E pl \in Payloads : Choose("p", pl)
     /\ UNCHANGED hist
  \/ /\ Lookup("p")
     /\ LET pl == prog["p"][pidx["p"]] IN
          hist' = Append(hist, [ev |-> "produce", shape |-> pl.shape, md |-> pl.md,
                                refused |-> ppc'["p"] = "idle"])
  \/ Send("p") /\ UNCHANGED hist
  \/ \E g \in AllGroups : /\ Turn(g)
                          /\ Recv(g) \/ SeeShutdown(g) \/ DrainEnd(g)
                          /\ UNCHANGED hist
  \/ \E g \in AllGroups : /\ Turn(g)
                          /\ Export(g, TRUE) \/ FinalSend(g, TRUE)
                          /\ hist' = IF emitted' # emitted THEN Append(hist, EmitEvent) ELSE hist
  \/ /\ Quiescent /\ Len(prog["p"]) = N /\ pidx["p"] > N
     /\ ShutdownSignal
     /\ hist' = Append(hist, [ev |-> "shutdown"])
  \/ ShutdownReturn /\ UNCHANGED hist

GenSpec == GenInit /\ [][GenNext]_<<vars, hist>>

Emit == phase = "stopped" =>
          PrintT(<<"BEH", ToJson([conf |-> conf, pendmax |-> PendingMax(conf), hist |-> hist])>>)
=============================================================================
