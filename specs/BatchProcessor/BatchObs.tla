------------------------------ MODULE BatchObs ------------------------------
(* C17 -- observable layer of the batch processor and the clauses of the property.

   Written from the STATEMENT, not from the code.  The same operators are used
     * as state invariants of the implementation-shaped model (BatchProcessor.tla, BatchMC), and
     * by the monitor (BatchTrace.tla) on the events recorded from the real processor.

   Vocabulary
     item    [id, ctx]      id : identity of one log record / span / data point
                            ctx: opaque tag standing for everything the statement says an item
                                 keeps: resource, scope, both schema URLs and the metric identity
     group   the tuple of values of the configured client-metadata keys (one tag per tuple;
             NoGroup when no metadata keys are configured)
     batch   [items, md, ok] one downstream Consume call: the items in payload order, the group
             tag found in the call's context, and whether downstream accepted it
     conf    [size, max, timer, keyed, limit]
               size  = send_batch_size, max = send_batch_max_size (0 = unset),
               timer = (timeout > 0), keyed = metadata_keys non-empty,
               limit = metadata_cardinality_limit (0 = unlimited)                        *)
EXTENDS Integers, Sequences, FiniteSets, TLC

VARIABLES
  offered,   \* function id -> [ctx, md] : every item ever handed to the processor's Consume
  status,    \* function id -> "inflight"  Consume has not returned yet
             \*                "before"    Consume returned nil before shutdown began
             \*                "after"     Consume returned nil after shutdown began
             \*                "refused"   Consume returned an error
  emitted,   \* sequence of batches, in the order of the downstream calls
  phase      \* "running" | "stopping" (Shutdown called) | "stopped" (Shutdown returned)

obsVars == <<offered, status, emitted, phase>>

ObsInit == /\ offered = <<>> /\ status = <<>> /\ emitted = <<>> /\ phase = "running"

---------------------------------------------------------------------------
(* helpers *)
Ids(b)        == {b.items[i].id : i \in DOMAIN b.items}
IdsOfSeq(em)  == UNION {Ids(em[k]) : k \in DOMAIN em}
WithStatus(s) == {id \in DOMAIN status : status[id] = s}
HasTimer(c)   == c.timer /\ c.size > 0

---------------------------------------------------------------------------
(* Clauses about ONE batch b, given what was emitted before it (prevIds).  *)

\* "nothing is emitted twice"
BatchNoDup(b, prevIds) == /\ Cardinality(Ids(b)) = Len(b.items)
                          /\ Ids(b) \cap prevIds = {}

\* "... or invented"; an arrival that was refused with an error must not show up either
BatchKnown(b, off, st) == \A id \in Ids(b) : id \in DOMAIN off /\ st[id] # "refused"

\* "with each item keeping its resource, scope, schema URLs and metric identity"
BatchIdentity(b, off) == \A i \in DOMAIN b.items :
                            b.items[i].id \in DOMAIN off => b.items[i].ctx = off[b.items[i].id].ctx

\* "No emitted batch exceeds send_batch_max_size when that is set"
BatchMax(b, c) == c.max > 0 => Len(b.items) <= c.max

\* "items arriving with different values of those keys are never placed in the same batch and
\*  each batch is sent with exactly its group's metadata"
BatchGroup(b, off) == \A i \in DOMAIN b.items :
                            b.items[i].id \in DOMAIN off => off[b.items[i].id].md = b.md

BatchOK(b, prevIds, off, st, c) ==
    /\ BatchNoDup(b, prevIds) /\ BatchKnown(b, off, st) /\ BatchIdentity(b, off)
    /\ BatchMax(b, c) /\ BatchGroup(b, off)

---------------------------------------------------------------------------
(* Clauses about the whole history *)

\* "Everything accepted before its shutdown began is emitted downstream ... by the time shutdown
\*  returns (provided downstream accepts it)": emission = the downstream call; what downstream
\*  does with a batch it rejects is outside the statement.
Conserved(acceptedBefore, emittedIds) == acceptedBefore \subseteq emittedIds

\* "a batch is emitted as soon as send_batch_size items are pending" and, without a timer
\* (timeout = 0) or with send_batch_size = 0, "pending items are emitted no later than the timeout":
\* whenever a group's batcher is quiescent it holds at most PendingMax items.
PendingMax(c)     == IF HasTimer(c) THEN c.size - 1 ELSE 0
QuiescentOK(n, c) == n <= PendingMax(c)

\* "arrivals beyond the cardinality limit are refused": never more than limit groups get accepted
CardinalityOK(groups, c) == c.limit > 0 => Cardinality(groups) <= c.limit

\* real-time form of "no later than the timeout after the first of them arrived" (monitor only;
\* Slack is the generous real-time allowance, in the unit of the time stamps)
TimelyOK(tEmit, tArrive, timeout, slack) == tEmit - tArrive <= timeout + slack

---------------------------------------------------------------------------
(* State forms over the observable variables (used by BatchMC) *)
Prefix(k) == SubSeq(emitted, 1, k - 1)

ExactlyOnce    == \A k \in DOMAIN emitted : BatchNoDup(emitted[k], IdsOfSeq(Prefix(k)))
NothingInvented == \A k \in DOMAIN emitted : BatchKnown(emitted[k], offered, status)
Identity       == \A k \in DOMAIN emitted : BatchIdentity(emitted[k], offered)
GroupIsolation == \A k \in DOMAIN emitted : BatchGroup(emitted[k], offered)
MaxSize(c)     == \A k \in DOMAIN emitted : BatchMax(emitted[k], c)
Conservation   == phase = "stopped" => Conserved(WithStatus("before"), IdsOfSeq(emitted))
AcceptedGroups == {offered[id].md : id \in WithStatus("before") \cup WithStatus("after")}
\* ... and never more than limit groups reach downstream either (a refusal that still batches the data
\* would show up here and in NothingInvented)
EmittedGroups  == {emitted[k].md : k \in DOMAIN emitted}
CardinalityRefused(c) == CardinalityOK(AcceptedGroups, c) /\ CardinalityOK(EmittedGroups, c)
=============================================================================
