--------------------------- MODULE BatchProcessor ---------------------------
(* C17 -- implementation-shaped model of processor/batchprocessor (batch_processor.go).

   One action per critical section / channel operation of the Go code:

     Lookup(p)        multiShardBatcher.consume up to and including the locked section:
                      metadata -> attribute set -> batchers.Load / (lock; limit test; LoadOrStore;
                      start goroutine; size++; unlock).  singleShardBatcher: the shard exists.
     Send(p)          `b.newItem <- data`  (blocks while the channel is full); Consume returns nil
     Recv(g)          `case item := <-b.newItem` of startLoop (also the inner drain select):
                      processItem: batch.add(item), then enter the send loop if its condition holds
     Export(g, ok)    one iteration of the loop in processItem: sendItems = split + downstream call;
                      when the loop ends the timer is stopped and reset
     TimerFire(g)     `case <-timerCh`: sendItems once if anything is pending, reset the timer
     ShutdownSignal   Shutdown: close(shutdownC)
     SeeShutdown(g)   `case <-shutdownC` chosen by the shard's select
     DrainEnd(g)      the `default:` branch of the drain loop
     FinalSend(g, ok) the last sendItems of the shard, goroutine exits
     ShutdownReturn   goroutines.Wait() returns

   split(max) = the first min(count, max) items in traversal order (split*.go walks
   resource -> scope -> (metric) -> item), so the model works on the flat projection of a payload
   (TelemetryShape.tla) and an item carries its context with it by construction.  That the real
   split functions re-create the enclosing containers faithfully is exactly what the model cannot
   show and the monitor (BatchTrace.tla) checks on the real code.

   Deviations from the code, named:
     * the periodic time.Timer is abstracted to "TimerFire may happen whenever the shard is idle";
       the timeliness clause is kept in logical form (TimerBound below);
     * the telemetry (bpt.record) and the logger are not modelled;
     * a failed downstream call drops the batch (as the code does: it logs and returns);
     * the WaitGroup is modelled as "all shards that exist are done".                          *)
EXTENDS BatchObs

CONSTANTS
  Producers,   \* set of producer names
  Groups,      \* set of metadata tags producers may use (strings)
  NoGroup,     \* the tag of the only shard when no metadata keys are configured
  ChanCap,     \* capacity of shard.newItem (runtime.NumCPU() in the code)
  Configs,     \* set of conf records explored
  Prog0,       \* function producer -> sequence of payload templates [md, ctxs] known from the start
  MaxChoose,   \* producers may extend their program up to this length with payloads of Payloads
  Payloads,    \* set of payload templates used by Choose (generator only)
  AllowFail    \* whether the downstream call may fail

VARIABLES
  conf,     \* the configuration of this behaviour (constant along it)
  prog,     \* function producer -> sequence of payload templates
  ppc,      \* producer pc: "idle" | "send"
  pidx,     \* index of the producer's current payload
  pitems,   \* items of the payload a producer is about to put on a channel
  ptarget,  \* shard (group tag) the producer selected in Lookup
  shards,   \* set of group tags that have a shard (multiShardBatcher.batchers / size)
  chan,     \* function group -> sequence of payloads (each a sequence of items): shard.newItem
  batch,    \* function group -> sequence of items: shard.batch in traversal order
  spc,      \* shard pc: "none" | "idle" | "sending" | "drain" | "drainsending" | "final" | "done"
  last,     \* function group -> ids added by the most recent Recv (ghost, for TimerBound)
  stale,    \* function group -> ids that were already pending when the timer was last re-armed
            \*                   and did not arrive in that very step (ghost, for TimerBound)
  closed    \* shutdownC is closed

implVars == <<conf, prog, ppc, pidx, pitems, ptarget, shards, chan, batch, spc, last, stale, closed>>
vars     == <<implVars, obsVars>>

AllGroups   == Groups \cup {NoGroup}
GroupOf(md) == IF conf.keyed THEN md ELSE NoGroup

\* items of the k-th payload of producer p: ids are structural so that they do not depend on the
\* interleaving
ItemsOf(p, k) == LET pl == prog[p][k]
                 IN [j \in 1..Len(pl.ctxs) |-> [id |-> <<p, k, j>>, ctx |-> pl.ctxs[j]]]
IdSet(its)    == {its[j].id : j \in DOMAIN its}

Init ==
  /\ ObsInit
  /\ conf \in Configs
  /\ prog = Prog0
  /\ ppc = [p \in Producers |-> "idle"]
  /\ pidx = [p \in Producers |-> 1]
  /\ pitems = [p \in Producers |-> <<>>]
  /\ ptarget = [p \in Producers |-> NoGroup]
  /\ shards = IF conf.keyed THEN {} ELSE {NoGroup}
  /\ chan = [g \in AllGroups |-> <<>>]
  /\ batch = [g \in AllGroups |-> <<>>]
  /\ spc = [g \in AllGroups |-> IF ~conf.keyed /\ g = NoGroup THEN "idle" ELSE "none"]
  /\ last = [g \in AllGroups |-> {}]
  /\ stale = [g \in AllGroups |-> {}]
  /\ closed = FALSE

---------------------------------------------------------------------------
(* producers *)

Choose(p, pl) ==
  /\ ppc[p] = "idle" /\ pidx[p] > Len(prog[p]) /\ Len(prog[p]) < MaxChoose
  /\ prog' = [prog EXCEPT ![p] = Append(@, pl)]
  /\ UNCHANGED <<conf, ppc, pidx, pitems, ptarget, shards, chan, batch, spc, last, stale, closed, obsVars>>

Lookup(p) ==
  /\ ppc[p] = "idle" /\ pidx[p] <= Len(prog[p])
  /\ LET its == ItemsOf(p, pidx[p])
         g   == GroupOf(prog[p][pidx[p]].md)
         full == g \notin shards /\ conf.limit > 0 /\ Cardinality(shards) >= conf.limit
     IN /\ offered' = offered @@ [id \in IdSet(its) |-> [ctx |-> its[id[3]].ctx, md |-> g]]
        /\ status' = status @@ [id \in IdSet(its) |-> IF full THEN "refused" ELSE "inflight"]
        /\ IF full
             THEN \* errTooManyBatchers
                  /\ pidx' = [pidx EXCEPT ![p] = @ + 1]
                  /\ UNCHANGED <<ppc, pitems, ptarget, shards, spc>>
             ELSE /\ ppc' = [ppc EXCEPT ![p] = "send"]
                  /\ pitems' = [pitems EXCEPT ![p] = its]
                  /\ ptarget' = [ptarget EXCEPT ![p] = g]
                  /\ shards' = shards \cup {g}
                  /\ spc' = IF g \in shards THEN spc ELSE [spc EXCEPT ![g] = "idle"]   \* shard.start()
                  /\ UNCHANGED pidx
  /\ UNCHANGED <<conf, prog, chan, batch, last, stale, closed, emitted, phase>>

Send(p) ==
  /\ ppc[p] = "send"
  /\ LET g == ptarget[p] IN
       /\ Len(chan[g]) < ChanCap
       /\ chan' = [chan EXCEPT ![g] = Append(@, pitems[p])]
  /\ status' = [id \in DOMAIN status |->
                  IF id \in IdSet(pitems[p]) THEN (IF phase = "running" THEN "before" ELSE "after")
                  ELSE status[id]]
  /\ ppc' = [ppc EXCEPT ![p] = "idle"]
  /\ pidx' = [pidx EXCEPT ![p] = @ + 1]
  /\ pitems' = [pitems EXCEPT ![p] = <<>>]
  /\ UNCHANGED <<conf, prog, ptarget, shards, batch, spc, last, stale, closed, offered, emitted, phase>>

---------------------------------------------------------------------------
(* one shard *)

\* loop condition of processItem
SendCond(b) == Len(b) > 0 /\ (~HasTimer(conf) \/ Len(b) >= conf.size)
\* batch.split(sendBatchMaxSize): how many items leave
Take(b)     == IF conf.max > 0 /\ Len(b) > conf.max THEN conf.max ELSE Len(b)
Outcomes    == IF AllowFail THEN BOOLEAN ELSE {TRUE}

\* sendItems: split + export
SendItems(g, ok) ==
  LET k == Take(batch[g]) IN
    /\ emitted' = Append(emitted, [items |-> SubSeq(batch[g], 1, k), md |-> g, ok |-> ok])
    /\ batch' = [batch EXCEPT ![g] = SubSeq(@, k + 1, Len(@))]

Recv(g) ==
  /\ spc[g] \in {"idle", "drain"} /\ chan[g] # <<>>
  /\ LET nb == batch[g] \o Head(chan[g]) IN
       /\ batch' = [batch EXCEPT ![g] = nb]
       /\ spc' = IF SendCond(nb)
                   THEN [spc EXCEPT ![g] = IF @ = "idle" THEN "sending" ELSE "drainsending"]
                   ELSE spc
  /\ last' = [last EXCEPT ![g] = IdSet(Head(chan[g]))]
  /\ chan' = [chan EXCEPT ![g] = Tail(@)]
  /\ UNCHANGED <<conf, prog, ppc, pidx, pitems, ptarget, shards, stale, closed, obsVars>>

Export(g, ok) ==
  /\ spc[g] \in {"sending", "drainsending"}
  /\ SendItems(g, ok)
  /\ IF SendCond(batch'[g])
       THEN UNCHANGED <<spc, stale>>
       ELSE /\ spc' = [spc EXCEPT ![g] = IF @ = "sending" THEN "idle" ELSE "drain"]
            \* stopTimer(); resetTimer(): what is still pending must have arrived just now
            /\ stale' = [stale EXCEPT ![g] = IdSet(batch'[g]) \ last[g]]
  /\ UNCHANGED <<conf, prog, ppc, pidx, pitems, ptarget, shards, chan, last, closed, offered, status, phase>>

TimerFire(g) ==
  /\ HasTimer(conf) /\ spc[g] = "idle"
  /\ IF batch[g] # <<>>
       THEN \E ok \in Outcomes : SendItems(g, ok)
       ELSE UNCHANGED <<emitted, batch>>
  /\ stale' = [stale EXCEPT ![g] = IdSet(batch'[g])]       \* resetTimer()
  /\ UNCHANGED <<conf, prog, ppc, pidx, pitems, ptarget, shards, chan, spc, last, closed, offered, status, phase>>

SeeShutdown(g) ==
  /\ closed /\ spc[g] = "idle"
  /\ spc' = [spc EXCEPT ![g] = "drain"]
  /\ UNCHANGED <<conf, prog, ppc, pidx, pitems, ptarget, shards, chan, batch, last, stale, closed, obsVars>>

DrainEnd(g) ==
  /\ spc[g] = "drain" /\ chan[g] = <<>>
  /\ spc' = [spc EXCEPT ![g] = "final"]
  /\ UNCHANGED <<conf, prog, ppc, pidx, pitems, ptarget, shards, chan, batch, last, stale, closed, obsVars>>

FinalSend(g, ok) ==
  /\ spc[g] = "final"
  /\ IF batch[g] # <<>> THEN SendItems(g, ok) ELSE UNCHANGED <<emitted, batch>>
  /\ spc' = [spc EXCEPT ![g] = "done"]
  /\ UNCHANGED <<conf, prog, ppc, pidx, pitems, ptarget, shards, chan, last, stale, closed, offered, status, phase>>

---------------------------------------------------------------------------
(* component life cycle *)

ShutdownSignal ==
  /\ phase = "running"
  /\ closed' = TRUE /\ phase' = "stopping"
  /\ UNCHANGED <<conf, prog, ppc, pidx, pitems, ptarget, shards, chan, batch, spc, last, stale, offered, status, emitted>>

ShutdownReturn ==
  /\ phase = "stopping" /\ \A g \in shards : spc[g] = "done"
  /\ phase' = "stopped"
  /\ UNCHANGED <<implVars, offered, status, emitted>>

Next ==
  \/ \E p \in Producers : Lookup(p) \/ Send(p) \/ \E pl \in Payloads : Choose(p, pl)
  \/ \E g \in AllGroups : Recv(g) \/ TimerFire(g) \/ SeeShutdown(g) \/ DrainEnd(g)
  \/ \E g \in AllGroups, ok \in Outcomes : Export(g, ok) \/ FinalSend(g, ok)
  \/ ShutdownSignal \/ ShutdownReturn

Spec == Init /\ [][Next]_vars

---------------------------------------------------------------------------
(* The property, on the implementation-shaped model.  Clauses over the observables come from
   BatchObs; the two below need the pending count, which only the model sees directly (the monitor
   derives it from the observed bags at quiescence points). *)

\* "a batch is emitted as soon as send_batch_size items are pending" (and immediately without timer)
SizeTrigger == \A g \in shards : spc[g] \in {"idle", "drain", "final", "done"} => QuiescentOK(Len(batch[g]), conf)

\* logical form of "pending items are emitted no later than the timeout after the first of them
\* arrived": the timer is only ever re-armed when nothing older than the current step is pending,
\* and a firing timer leaves nothing behind.
TimerBound == \A g \in AllGroups : stale[g] = {}

ShardsWithinLimit == CardinalityOK(shards, conf)

Property ==
  /\ ExactlyOnce /\ NothingInvented /\ Identity /\ GroupIsolation /\ MaxSize(conf)
  /\ Conservation /\ CardinalityRefused(conf) /\ ShardsWithinLimit /\ SizeTrigger /\ TimerBound

TypeOK ==
  /\ conf \in Configs
  /\ shards \subseteq AllGroups
  /\ \A g \in AllGroups : spc[g] \in {"none", "idle", "sending", "drain", "drainsending", "final", "done"}
  /\ \A g \in AllGroups : (spc[g] = "none") = (g \notin shards)
  /\ \A g \in AllGroups : Len(chan[g]) <= ChanCap
  /\ phase \in {"running", "stopping", "stopped"}
  /\ closed = (phase # "running")
=============================================================================
