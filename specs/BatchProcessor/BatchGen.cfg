SPECIFICATION GenSpec
CONSTANTS
  Producers <- GProducers
  Groups <- GenGroups
  NoGroup = "-"
  ChanCap = 1
  Configs <- GConfigs
  Prog0 <- GProg0
  MaxChoose <- N
  Payloads <- GPayloads
  AllowFail = FALSE
INVARIANT Emit
INVARIANT Property
CHECK_DEADLOCK FALSE
