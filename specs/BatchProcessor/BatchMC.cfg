SPECIFICATION Spec
CONSTANTS
  Producers <- MCProducers
  Groups <- MCGroups
  NoGroup = "-"
  ChanCap = 1
  Configs <- MCConfigs
  Prog0 <- MCProg0
  MaxChoose = 0
  Payloads <- MCPayloads
  AllowFail = FALSE
  MaxS = 2
  MaxM = 2
  MaxL = 1
  ProgSel = 1
INVARIANT TypeOK
INVARIANT Property
CHECK_DEADLOCK FALSE
