-------------------------- MODULE PipelineGraphGen --------------------------
(* Configuration generator for the conformance binding of C09 (and the configuration source of C10).
   Every COMPLETE configuration reached (BFS: all with at most MaxSize references; -simulate: random
   larger ones) is printed once per visit as one JSON object holding the configuration and what the
   STATEMENT-LEVEL reference of PipelineGraph says about it:
      valid / why       accepted, or rejected because of "cycle" / "unsupported"
      deliv             per (receiver, signal): the bag of <<exporter, signal, trail>> deliveries
      inst              the component instances that must exist (each exactly once)
   harness/graph builds the configuration with the real graph.Build and instrumented factories and
   reports what really happened; checks/C09.py compares. *)
EXTENDS PipelineGraphMC, Json

BagRecs(B) == {[x |-> d[1], s |-> d[2], t |-> d[3], n |-> CopiesIn(d, B)] : d \in BagToSet(B)}

Out == [pipes |-> {[sig |-> p[1], name |-> p[2], r |-> cfg[p].r, p |-> cfg[p].p, e |-> cfg[p].e] : p \in On},
        conns |-> {[id |-> c, sup |-> Support[c]] : c \in ConnUsed},
        valid |-> Valid,
        why   |-> IF Unsupported THEN "unsupported" ELSE IF Cyclic THEN "cycle" ELSE "",
        inst  |-> IF Valid THEN Instances ELSE {},
        deliv |-> IF Valid THEN {[r |-> xs[1], sig |-> xs[2], d |-> BagRecs(Deliveries(xs[1], xs[2]))] : xs \in UsedRcvs}
                  ELSE {}]

Emit == Complete => PrintT(<<"BEH", ToJson(Out)>>)
\* only valid configurations (configuration source for the lifecycle check C10)
EmitValid == (Complete /\ Valid) => PrintT(<<"BEH", ToJson(Out)>>)
=============================================================================
