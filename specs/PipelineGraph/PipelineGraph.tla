--------------------------- MODULE PipelineGraph ---------------------------
(* C09 -- the built pipeline graph routes data exactly as the configuration says.

   Three parts.

   1. CONFIGURATIONS BUILT BY ACTIONS.  A service configuration is a function from pipeline ids
      <<signal, name>> to [r: receivers (incl. connectors), p: processor list, e: exporters (incl.
      connectors)].  It is grown by actions (Open a pipeline with one receiver and one exporter /
      AddRcv / AddProc / AddExp / Link two pipelines by a connector) up to MaxSize component
      references, so BFS is the exhaustive set of complete configurations with at most MaxSize
      references, and -simulate yields random larger ones.  Init never enumerates the space.  Every
      reachable configuration is complete (each pipeline has a receiver and an exporter), as the
      validation of pipelines.Config demands before a graph is built.

   2. REFERENCE SEMANTICS, written from the STATEMENT of the property at pipeline level:
        Valid        no connector cycle, every connector use has a supported counterpart pipeline
        Deliveries   bag of <<exporter, signal, trail>> over all PATHS from a receiver
        Instances    one receiver/exporter per (signal, id), one processor per (pipeline, id),
                     one connector per (source signal, destination signal, id) in use

   3. IMPLEMENTATION-SHAPED MODEL of service/internal/graph/graph.go at NODE level:
        createNodes   -> PipeRcvNodes / PipeExpNodes / ConnErr   (node identity = attribute tuple,
                         connector type-pair check with the expTypes/recTypes bookkeeping)
        createEdges   -> Edges (receiver -> capabilities -> processors... -> fanout -> exporters)
        buildComponents / topo.Sort -> NodeCyclic, BuildError
        data flow through the built consumers -> NodeDeliveries (walk of the node graph; a node with
                         several successors is a fan-out, so bags add up)

   The design check (PipelineGraphMC) proves, for every configuration in the bounds, that part 3
   computes part 2 (RefErrIff, RefRouting, RefInstances).  The conformance binding
   (PipelineGraphGen + harness/graph) prints part 2 for every configuration and compares it with
   what the real graph.Build / StartAll / consumers do.

   Named deviations / abstractions:
     * receivers and exporters of a pipeline are SETS (the Go lists are deduplicated by node id;
       a reference listed twice is outside the statement);
     * a connector forwards every payload to every pipeline it feeds (route-all) -- routing
       connectors that pick a subset are the connector's own business, not the graph's;
     * capabilities (MutatesData) are C06's subject and not modelled here;
     * component ids of different kinds are disjoint (an id shared by a connector and a
       receiver/exporter is rejected before the graph is built: C13). *)
EXTENDS Naturals, Sequences, FiniteSets, Bags, FiniteSetsExt, TLC

CONSTANTS PipeSeq,    \* sequence of pipeline ids <<signal, name>> (the order is only used by CanOpen)
          Rcvs, Procs, Exps, Conns,      \* component ids (strings), pairwise disjoint
          Support,    \* [Conns -> SUBSET (signal \X signal)]: supported <<from, to>> pairs
          MaxSize     \* bound on the number of component references in a configuration

VARIABLES cfg         \* [Pipes -> [r : SUBSET (Rcvs \cup Conns), p : Seq(Procs), e : SUBSET (Exps \cup Conns)]]

gvars == <<cfg>>

Pipes   == {PipeSeq[i] : i \in DOMAIN PipeSeq}
Sig(p)  == p[1]
Signals == {Sig(p) : p \in Pipes}
\* Range(f) comes from Functions (via FiniteSetsExt)

EmptyPipe == [r |-> {}, p |-> <<>>, e |-> {}]
EmptyCfg  == [p \in Pipes |-> EmptyPipe]

TypeOK == cfg \in [Pipes -> [r : SUBSET (Rcvs \cup Conns), p : Seq(Procs), e : SUBSET (Exps \cup Conns)]]

-----------------------------------------------------------------------------
(* 1. configuration building *)

On == {p \in Pipes : cfg[p] # EmptyPipe}

\* symmetry breaking only: among pipelines of one signal, a later one is opened only after the earlier ones
CanOpen(p) == \A i, j \in DOMAIN PipeSeq :
                 (PipeSeq[j] = p /\ i < j /\ Sig(PipeSeq[i]) = Sig(p)) => cfg[PipeSeq[i]] # EmptyPipe

\* number of component references of a configuration; the bound keeps the space finite
SizeOf(f) == FoldSet(LAMBDA p, acc : Cardinality(f[p].r) + Len(f[p].p) + Cardinality(f[p].e) + acc, 0, Pipes)
Fits      == SizeOf(cfg') <= MaxSize

\* a pipeline is opened with one receiver and one exporter, so every reachable configuration is complete
\* (the guard CanOpen(p) is conjoined once per pipeline in GNext, not once per choice of x and y)
Open(p, x, y) == /\ cfg[p] = EmptyPipe
                 /\ cfg' = [cfg EXCEPT ![p] = [r |-> {x}, p |-> <<>>, e |-> {y}]] /\ Fits
AddRcv(p, x)  == /\ cfg[p] # EmptyPipe /\ x \notin cfg[p].r
                 /\ cfg' = [cfg EXCEPT ![p].r = @ \cup {x}] /\ Fits
AddExp(p, x)  == /\ cfg[p] # EmptyPipe /\ x \notin cfg[p].e
                 /\ cfg' = [cfg EXCEPT ![p].e = @ \cup {x}] /\ Fits
AddProc(p, x) == /\ cfg[p] # EmptyPipe /\ x \notin Range(cfg[p].p)
                 /\ cfg' = [cfg EXCEPT ![p].p = Append(@, x)] /\ Fits
\* connector c joins pipeline p (as exporter) to pipeline q (as receiver) in one step
Link(p, c, q) == /\ cfg[p] # EmptyPipe /\ cfg[q] # EmptyPipe /\ (c \notin cfg[p].e \/ c \notin cfg[q].r)
                 /\ cfg' = IF p = q THEN [cfg EXCEPT ![p].e = @ \cup {c}, ![p].r = @ \cup {c}]
                           ELSE [cfg EXCEPT ![p].e = @ \cup {c}, ![q].r = @ \cup {c}]
                 /\ Fits

GInit == cfg = EmptyCfg
GNext == \E p \in Pipes : \/ /\ cfg[p] = EmptyPipe /\ CanOpen(p)
                             /\ \E x \in Rcvs \cup Conns, y \in Exps \cup Conns : Open(p, x, y)
                          \/ \E x \in Rcvs \cup Conns : AddRcv(p, x)
                          \/ \E x \in Exps \cup Conns : AddExp(p, x)
                          \/ \E x \in Procs : AddProc(p, x)
                          \/ \E c \in Conns, q \in Pipes : Link(p, c, q)
GSpec == GInit /\ [][GNext]_gvars

\* what pipelines.Config / PipelineConfig.Validate require before the graph is built
Complete == On # {} /\ \A p \in On : cfg[p].r # {} /\ cfg[p].e # {}

-----------------------------------------------------------------------------
(* 2. reference semantics -- from the statement, pipeline level *)

Sup(c, s, t) == <<s, t>> \in Support[c]

\* data leaves pipeline p through connector c into pipeline q
PEdge(p, c, q) == c \in cfg[p].e /\ c \in cfg[q].r /\ Sup(c, Sig(p), Sig(q))
PNext(p)       == {q \in On : \E c \in Conns : PEdge(p, c, q)}

RECURSIVE PReach(_, _)
PReach(S, n) == IF n = 0 THEN S
                ELSE LET T == S \cup UNION {PNext(p) : p \in S}
                     IN IF T = S THEN S ELSE PReach(T, n - 1)

\* "connector usage forms a cycle"
Cyclic == \E p \in On : p \in PReach(PNext(p), Cardinality(Pipes))

\* "uses a connector in a pipeline for which it has no supported counterpart pipeline"
Unsupported ==
  \E c \in Conns :
     \/ \E p \in On : c \in cfg[p].e /\ ~ \E q \in On : c \in cfg[q].r /\ Sup(c, Sig(p), Sig(q))
     \/ \E q \in On : c \in cfg[q].r /\ ~ \E p \in On : c \in cfg[p].e /\ Sup(c, Sig(p), Sig(q))

Valid == ~Cyclic /\ ~Unsupported

SumBags(S, F(_)) == FoldSet(LAMBDA x, acc : F(x) (+) acc, EmptyBag, S)

\* trail elements: <<"proc", signal, pipeline name, processor id>>, <<"conn", connector id, signal, name>> (destination)
ProcHops(p) == [i \in DOMAIN cfg[p].p |-> <<"proc", p[1], p[2], cfg[p].p[i]>>]

\* everything a payload that enters pipeline p with trail t causes at exporters: once per path
RECURSIVE Deliv(_, _, _)
Deliv(p, t, fuel) ==
  LET t2     == t \o ProcHops(p)
      direct == SetToBag({<<x, Sig(p), t2>> : x \in cfg[p].e \cap Exps})
      via    == {cq \in (cfg[p].e \cap Conns) \X On : PEdge(p, cq[1], cq[2])}
  IN IF fuel = 0 THEN direct
     ELSE direct (+) SumBags(via, LAMBDA cq : Deliv(cq[2], Append(t2, <<"conn", cq[1], cq[2][1], cq[2][2]>>), fuel - 1))

\* receiver x emitting signal s
Deliveries(x, s) == SumBags({p \in On : Sig(p) = s /\ x \in cfg[p].r},
                            LAMBDA p : Deliv(p, <<>>, Cardinality(Pipes)))

UsedRcvs == {xs \in Rcvs \X Signals : \E p \in On : Sig(p) = xs[2] /\ xs[1] \in cfg[p].r}

Instances ==
     {<<"receiver", xs[2], xs[1]>> : xs \in UsedRcvs}
  \cup UNION {{<<"exporter", Sig(p), x>> : x \in cfg[p].e \cap Exps} : p \in On}
  \cup UNION {{<<"processor", p[1], p[2], x>> : x \in Range(cfg[p].p)} : p \in On}
  \cup {n \in {<<"connector", stc[1], stc[2], stc[3]>> : stc \in Signals \X Signals \X Conns} :
           /\ Sup(n[4], n[2], n[3])
           /\ \E p \in On : Sig(p) = n[2] /\ n[4] \in cfg[p].e
           /\ \E q \in On : Sig(q) = n[3] /\ n[4] \in cfg[q].r}

\* sanity of the reference itself: something is delivered to x only if x is listed in a pipeline reachable from the receiver's pipelines
RefSane == Valid => \A xs \in UsedRcvs : \A d \in BagToSet(Deliveries(xs[1], xs[2])) :
              \E p \in PReach({q \in On : Sig(q) = xs[2] /\ xs[1] \in cfg[q].r}, Cardinality(Pipes)) :
                  d[1] \in cfg[p].e /\ d[2] = Sig(p)

-----------------------------------------------------------------------------
(* 3. implementation-shaped model -- graph.go, node level *)

RcvN(s, x)     == <<"receiver", s, x>>
ExpN(s, x)     == <<"exporter", s, x>>
ProcN(p, x)    == <<"processor", p[1], p[2], x>>
ConnN(s, t, c) == <<"connector", s, t, c>>
CapN(p)        == <<"capabilities", p[1], p[2]>>
FanN(p)        == <<"fanout", p[1], p[2]>>

\* createNodes: bookkeeping per connector
AsExp(c)    == {p \in On : c \in cfg[p].e}          \* connectorsAsExporter[c]
AsRcv(c)    == {p \in On : c \in cfg[p].r}          \* connectorsAsReceiver[c]
ConnUsed    == {c \in Conns : AsExp(c) \cup AsRcv(c) # {}}
ExpTypes(c) == {Sig(p) : p \in AsExp(c)}
RecTypes(c) == {Sig(p) : p \in AsRcv(c)}
\* expTypes[s] / recTypes[t] set to true by the double loop over the type pairs
ExpTypeOK(c, s) == \E t \in RecTypes(c) : Sup(c, s, t)
RecTypeOK(c, t) == \E s \in ExpTypes(c) : Sup(c, s, t)
ConnErr == \E c \in ConnUsed : \/ \E s \in ExpTypes(c) : ~ExpTypeOK(c, s)
                               \/ \E t \in RecTypes(c) : ~RecTypeOK(c, t)

\* pipelineNodes.receivers / .exporters after createNodes (maps keyed by node id = sets)
PipeRcvNodes(p) == {RcvN(Sig(p), x) : x \in cfg[p].r \cap Rcvs}
                   \cup {n \in {ConnN(sc[1], Sig(p), sc[2]) : sc \in Signals \X (cfg[p].r \cap Conns)} :
                            /\ Sup(n[4], n[2], n[3])
                            /\ \E e \in AsExp(n[4]) : Sig(e) = n[2]}
PipeExpNodes(p) == {ExpN(Sig(p), x) : x \in cfg[p].e \cap Exps}
                   \cup {n \in {ConnN(Sig(p), tc[1], tc[2]) : tc \in Signals \X (cfg[p].e \cap Conns)} :
                            /\ Sup(n[4], n[2], n[3])
                            /\ \E q \in AsRcv(n[4]) : Sig(q) = n[3]}
ProcNodes(p)    == [i \in DOMAIN cfg[p].p |-> ProcN(p, cfg[p].p[i])]

\* createEdges
PipeEdges(p) ==
  LET procs == ProcNodes(p)
      n     == Len(procs)
      chain == <<CapN(p)>> \o procs \o <<FanN(p)>>
  IN    {<<x, CapN(p)>> : x \in PipeRcvNodes(p)}
     \cup {<<chain[i], chain[i + 1]>> : i \in 1..(n + 1)}
     \cup {<<FanN(p), x>> : x \in PipeExpNodes(p)}
Edges       == UNION {PipeEdges(p) : p \in On}
NodesOf(E)  == UNION {{e[1], e[2]} : e \in E}
AllNodes    == NodesOf(Edges)
\* (the edge set is passed around so that TLC evaluates it once per state, not once per use)
SuccIn(E, n) == {e[2] : e \in {f \in E : f[1] = n}}

RECURSIVE NReach(_, _, _)
NReach(E, S, k) == IF k = 0 THEN S
                   ELSE LET T == S \cup UNION {SuccIn(E, n) : n \in S}
                        IN IF T = S THEN S ELSE NReach(E, T, k - 1)
\* topo.Sort fails iff some strongly connected component has more than one node (no self edges here)
NodeCyclic == LET E == Edges
                  N == NodesOf(E)
              IN \E n \in N : n \in NReach(E, SuccIn(E, n), Cardinality(N))

BuildError == ConnErr \/ NodeCyclic

IsComponent(n) == n[1] \in {"receiver", "processor", "exporter", "connector"}
ComponentNodes == {n \in AllNodes : IsComponent(n)}

\* what the consumers wired by buildComponents do with one payload entering node n with trail t
RECURSIVE NWalk(_, _, _, _)
NWalk(E, n, t, fuel) ==
  IF n[1] = "exporter" THEN SetToBag({<<n[3], n[2], t>>})
  ELSE IF fuel = 0 THEN EmptyBag
  ELSE IF n[1] = "connector"
       THEN \* the router hands one copy to the capabilities node of every pipeline the connector feeds
            SumBags(SuccIn(E, n), LAMBDA m : NWalk(E, m, Append(t, <<"conn", n[4], m[2], m[3]>>), fuel - 1))
       ELSE LET t2 == IF n[1] = "processor" THEN Append(t, <<"proc", n[2], n[3], n[4]>>) ELSE t
            IN SumBags(SuccIn(E, n), LAMBDA m : NWalk(E, m, t2, fuel - 1))
NodeDeliveries(x, s) == LET E == Edges IN NWalk(E, RcvN(s, x), <<>>, Cardinality(E) + 1)

-----------------------------------------------------------------------------
(* design properties: the node-level construction computes the pipeline-level reference *)

RefErrIff    == BuildError <=> ~Valid
RefRouting   == Valid => \A xs \in UsedRcvs : NodeDeliveries(xs[1], xs[2]) = Deliveries(xs[1], xs[2])
RefInstances == Valid => ComponentNodes = Instances
\* every payload is delivered at least once when the configuration is complete and valid
NoBlackHole  == (Complete /\ Valid) => \A xs \in UsedRcvs : Deliveries(xs[1], xs[2]) # EmptyBag

\* only steps that keep the configuration valid (simulations use it to reach large valid configurations)
GNextValid == GNext /\ Valid'
GSpecValid == GInit /\ [][GNextValid]_gvars
=============================================================================
