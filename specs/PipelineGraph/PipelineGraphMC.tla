-------------------------- MODULE PipelineGraphMC --------------------------
(* Exhaustive design check of PipelineGraph: every configuration with at most MaxSize references over
   the chosen universe; the node-level construction of graph.go must compute the statement-level
   reference (RefErrIff, RefRouting, RefInstances).  Universes are named here because a .cfg file
   cannot contain tuples; checks/C09.py picks them with `PipeSeq <- ...`. *)
EXTENDS PipelineGraph

AllSig == {"logs", "traces", "metrics", "profiles"}
AllPairs  == AllSig \X AllSig
SamePairs == {<<s, s>> : s \in AllSig}
\* connector kinds by id: ca* every pair, cs* same signal only, cl* logs -> anything, cm* anything -> metrics,
\*   k<s><d>  EXACTLY the pair (s, d)          (s, d in l t m p = logs traces metrics profiles)
\*   n<s><d>  every pair EXCEPT (s, d)
\* The k / n families make the support table asymmetric across destinations for one source signal and across
\* sources for one destination: for every ordered pair (s, d) there is a connector that supports (s, d) and none of
\* (s, d'), (s', d), and one that supports all of those but not (s, d).  So every single entry of the 4x4 type-pair
\* table of graph.go (connectorStability) decides validity / routing of some generated configuration.
OnlyPair == [kll |-> <<"logs", "logs">>, klt |-> <<"logs", "traces">>, klm |-> <<"logs", "metrics">>, klp |-> <<"logs", "profiles">>, ktl |-> <<"traces", "logs">>, ktt |-> <<"traces", "traces">>, ktm |-> <<"traces", "metrics">>, ktp |-> <<"traces", "profiles">>, kml |-> <<"metrics", "logs">>, kmt |-> <<"metrics", "traces">>, kmm |-> <<"metrics", "metrics">>, kmp |-> <<"metrics", "profiles">>, kpl |-> <<"profiles", "logs">>, kpt |-> <<"profiles", "traces">>, kpm |-> <<"profiles", "metrics">>, kpp |-> <<"profiles", "profiles">>]
AllBut   == [nll |-> <<"logs", "logs">>, nlt |-> <<"logs", "traces">>, nlm |-> <<"logs", "metrics">>, nlp |-> <<"logs", "profiles">>, ntl |-> <<"traces", "logs">>, ntt |-> <<"traces", "traces">>, ntm |-> <<"traces", "metrics">>, ntp |-> <<"traces", "profiles">>, nml |-> <<"metrics", "logs">>, nmt |-> <<"metrics", "traces">>, nmm |-> <<"metrics", "metrics">>, nmp |-> <<"metrics", "profiles">>, npl |-> <<"profiles", "logs">>, npt |-> <<"profiles", "traces">>, npm |-> <<"profiles", "metrics">>, npp |-> <<"profiles", "profiles">>]
SupportDef == [c \in Conns |->
                 CASE c \in {"ca1", "ca2", "ca3"} -> AllPairs
                   [] c \in {"cs1", "cs2"}        -> SamePairs
                   [] c \in {"cl1"}               -> {<<"logs", t>> : t \in AllSig}
                   [] c \in {"cm1"}               -> {<<s, "metrics">> : s \in AllSig}
                   [] c \in DOMAIN OnlyPair       -> {OnlyPair[c]}
                   [] c \in DOMAIN AllBut         -> AllPairs \ {AllBut[c]}
                   [] OTHER                       -> AllPairs]

Pipes2   == << <<"logs", "a">>, <<"traces", "a">> >>
Pipes3   == << <<"logs", "a">>, <<"logs", "b">>, <<"traces", "a">> >>
Pipes3s  == << <<"logs", "a">>, <<"logs", "b">>, <<"logs", "c">> >>
Pipes4   == << <<"logs", "a">>, <<"logs", "b">>, <<"traces", "a">>, <<"traces", "b">> >>
Pipes4x  == << <<"logs", "a">>, <<"traces", "a">>, <<"metrics", "a">>, <<"profiles", "a">> >>
Pipes6   == << <<"logs", "a">>, <<"logs", "b">>, <<"traces", "a">>, <<"traces", "b">>,
               <<"metrics", "a">>, <<"profiles", "a">> >>
\* two pipelines of one signal + one of each other signal: the universes of the k<s>* / n<s>* connector families
PipesSrcL == << <<"logs", "a">>, <<"logs", "b">>, <<"traces", "a">>, <<"metrics", "a">>, <<"profiles", "a">> >>
PipesSrcT == << <<"traces", "a">>, <<"traces", "b">>, <<"logs", "a">>, <<"metrics", "a">>, <<"profiles", "a">> >>
PipesSrcM == << <<"metrics", "a">>, <<"metrics", "b">>, <<"logs", "a">>, <<"traces", "a">>, <<"profiles", "a">> >>
PipesSrcP == << <<"profiles", "a">>, <<"profiles", "b">>, <<"logs", "a">>, <<"traces", "a">>, <<"metrics", "a">> >>
Pipes8   == << <<"logs", "a">>, <<"logs", "b">>, <<"traces", "a">>, <<"traces", "b">>,
               <<"metrics", "a">>, <<"metrics", "b">>, <<"profiles", "a">>, <<"profiles", "b">> >>
=============================================================================
