-------------------------- MODULE PipelineGraphMC --------------------------
(* Exhaustive design check of PipelineGraph: every configuration with at most MaxSize references over
   the chosen universe; the node-level construction of graph.go must compute the statement-level
   reference (RefErrIff, RefRouting, RefInstances).  Universes are named here because a .cfg file
   cannot contain tuples; checks/C09.py picks them with `PipeSeq <- ...`. *)
EXTENDS PipelineGraph

AllSig == {"logs", "traces", "metrics", "profiles"}
AllPairs  == AllSig \X AllSig
SamePairs == {<<s, s>> : s \in AllSig}
\* connector kinds by id: ca* every pair, cs* same signal only, cl* logs -> anything, cm* anything -> metrics
SupportDef == [c \in Conns |->
                 CASE c \in {"ca1", "ca2", "ca3"} -> AllPairs
                   [] c \in {"cs1", "cs2"}        -> SamePairs
                   [] c \in {"cl1"}               -> {<<"logs", t>> : t \in AllSig}
                   [] c \in {"cm1"}               -> {<<s, "metrics">> : s \in AllSig}
                   [] OTHER                       -> AllPairs]

Pipes2   == << <<"logs", "a">>, <<"traces", "a">> >>
Pipes3   == << <<"logs", "a">>, <<"logs", "b">>, <<"traces", "a">> >>
Pipes3s  == << <<"logs", "a">>, <<"logs", "b">>, <<"logs", "c">> >>
Pipes4   == << <<"logs", "a">>, <<"logs", "b">>, <<"traces", "a">>, <<"traces", "b">> >>
Pipes4x  == << <<"logs", "a">>, <<"traces", "a">>, <<"metrics", "a">>, <<"profiles", "a">> >>
Pipes6   == << <<"logs", "a">>, <<"logs", "b">>, <<"traces", "a">>, <<"traces", "b">>,
               <<"metrics", "a">>, <<"profiles", "a">> >>
Pipes8   == << <<"logs", "a">>, <<"logs", "b">>, <<"traces", "a">>, <<"traces", "b">>,
               <<"metrics", "a">>, <<"metrics", "b">>, <<"profiles", "a">>, <<"profiles", "b">> >>
=============================================================================
