SPECIFICATION GSpec
CONSTANTS
  PipeSeq <- Pipes3
  Rcvs = {"r1", "r2"}
  Procs = {"p1", "p2"}
  Exps = {"e1", "e2"}
  Conns = {"ca1"}
  Support <- SupportDef
  MaxSize = 8
INVARIANTS TypeOK RefErrIff RefRouting RefInstances RefSane NoBlackHole
CHECK_DEADLOCK FALSE
