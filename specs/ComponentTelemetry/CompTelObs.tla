----------------------------- MODULE CompTelObs -----------------------------
(* E13 -- ComponentTelemetryIdentity (EXTRA specification, no listed property).

   STATEMENT, in the form of a properties.jsonl record, written from docs/rfcs/component-universal-telemetry.md
   (section "Attributes" and its Note) and the doc comments of internal/telemetry/componentattribute:

   {"id": "E13",
    "title": "The telemetry handed to each component instance of a built service identifies exactly that instance",
    "statement": "For every component instance of a built service -- one receiver per (signal, id), one processor per
       (pipeline, id), one exporter per (signal, id), one connector per (source signal, destination signal, id), one
       extension per id -- the component.TelemetrySettings passed to the factory's Create call injects EXACTLY the
       documented attribute set of that instance (A1): receivers {otelcol.component.kind=receiver, otelcol.component.id,
       otelcol.signal}; processors {kind=processor, id, otelcol.pipeline.id, otelcol.signal}; exporters {kind=exporter, id,
       signal}; connectors {kind=connector, id, otelcol.signal = source signal, otelcol.signal.output}; extensions
       {kind=extension, id}.  (A2) These sets identify the instance: two different instances of one service never have the
       same set.  (A3) Every log entry the component emits through the Logger -- at every level, directly, with entry
       fields, and through child loggers it derives with With / Named -- carries the fields of the service's own core, the
       injected attributes, and the component's own fields, each key ONCE, and nothing of another instance; where the service
       copies its logs to a LoggerProvider the copied record's instrumentation scope attributes are exactly the injected set.
       (A4) Every span / data point produced through a Tracer / Meter obtained from the TracerProvider / MeterProvider carries
       the injected set as instrumentation scope attributes; the component's own scope attributes are kept and win on a
       clash.  (A5) What an instance was given never changes: not when other instances are created, not when the component
       derives other values from it.  (A6) WithAttributeSet(ts, S) gives telemetry that injects the NEW set S (replacing, not
       adding to, the previous one); WithoutAttributes(ts, keys) gives telemetry that injects the set of ts minus those keys;
       ts itself is unaffected.  (A7) A component that unifies several of its instances may omit otelcol.signal,
       otelcol.signal.output or otelcol.pipeline.id -- and only those -- from its telemetry (RFC Note: otlp receiver,
       memory_limiter processor).  (A8) The service's own messages about one component (builders' stability message,
       'Extension is starting...') carry exactly that component's set.",
    "quantifier": "every valid service configuration over the universes of specs/PipelineGraph (pipelines of the four signals,
       named and unnamed, shared receivers / exporters, processors repeated across pipelines, connectors between and within
       signals, component ids with and without a name) plus a set of extensions, enumerated by TLC up to a size bound and
       sampled beyond it; four logger stacks (console, sampled, console + LoggerProvider copy, both); every sequence of <= N
       derivations WithAttributeSet / WithoutAttributes / With / Named from the service's settings, enumerated by TLC.",
    "anchors": {"files": ["docs/rfcs/component-universal-telemetry.md", "internal/telemetry/telemetry.go",
                          "internal/telemetry/componentattribute/*.go", "service/internal/attribute/attribute.go",
                          "service/internal/graph/{receiver,processor,exporter,connector}.go", "service/extensions/extensions.go",
                          "service/telemetry/logger.go", "service/internal/builders/*.go",
                          "receiver/otlpreceiver/otlp.go", "processor/memorylimiterprocessor/factory.go"],
                "mechanisms": ["attribute.Receiver/Processor/Exporter/Connector/Extension", "telemetry.WithAttributeSet / WithoutAttributes",
                               "coreWithAttributes: console / otel tee / wrapper cores, tryWithAttributeSet",
                               "Tracer/Meter/LoggerProviderWithAttributes"]}}

   OPEN points (documentation silent; the specification admits every behaviour, nothing is reported):
     O1  WithAttributeSet / WithoutAttributes on settings whose Logger the component has ALREADY replaced by a child made
         with With (the core no longer supports injection; tryWithAttributeSet documents "does nothing"): the logger part is
         undetermined (the provider part is determined).
     O2  a component field whose key equals an injected key (its own doing).
     O3  the order of the fields of an entry; Named children: the logger name.
     O4  settings built by hand (zero extraAttributes) given to WithoutAttributes.
     O5  the feature gate telemetry.newPipelineTelemetry is Stable at this commit and cannot be switched off; the
         instrumentation layers of the RFC (produced / consumed metrics) are C19's neighbourhood, not this specification.
     O6  which of the omittable keys a unifying component drops (A7 says "may").

   This module: the attribute sets and the clauses over observed emissions.  Attribute sets are sets of <<key, value>>
   pairs; an emitted entry is the SEQUENCE of its pairs (so that a key occurring twice is visible). *)
EXTENDS Naturals, Sequences, FiniteSets

KKind   == "otelcol.component.kind"
KId     == "otelcol.component.id"
KPipe   == "otelcol.pipeline.id"
KSig    == "otelcol.signal"
KSigOut == "otelcol.signal.output"
Omittable == {KSig, KSigOut, KPipe}

PipeStr(s, name) == IF name = "" THEN s ELSE s \o "/" \o name

\* instance tuples as in PipelineGraph!Instances, plus <<"extension", id>>
IdOf(n) == n[Len(n)]
DocAttrs(n) ==
  CASE n[1] = "receiver"  -> {<<KKind, "receiver">>,  <<KId, n[3]>>, <<KSig, n[2]>>}
    [] n[1] = "exporter"  -> {<<KKind, "exporter">>,  <<KId, n[3]>>, <<KSig, n[2]>>}
    [] n[1] = "processor" -> {<<KKind, "processor">>, <<KId, n[4]>>, <<KSig, n[2]>>, <<KPipe, PipeStr(n[2], n[3])>>}
    [] n[1] = "connector" -> {<<KKind, "connector">>, <<KId, n[4]>>, <<KSig, n[2]>>, <<KSigOut, n[3]>>}
    [] n[1] = "extension" -> {<<KKind, "extension">>, <<KId, n[2]>>}

Without(A, K) == {p \in A : p[1] \notin K}
KeysOf(A)     == {p[1] : p \in A}
\* the component's own scope attributes win on a clash (A4)
Override(A, own) == Without(A, KeysOf(own)) \cup own

SeqSet(s) == {s[i] : i \in DOMAIN s}
Once(s)   == \A i, j \in DOMAIN s : s[i][1] = s[j][1] => i = j

\* A3 / A4: entry with pair sequence f, on a sink whose own fields are B, from a holder of the injected set A that added own
EntryOK(f, B, A, own) == Once(f) /\ SeqSet(f) = B \cup Override(A, SeqSet(own))

\* A2
Distinct(S) == \A m, n \in S : DocAttrs(m) = DocAttrs(n) => m = n
=============================================================================
