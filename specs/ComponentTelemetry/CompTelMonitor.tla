--------------------------- MODULE CompTelMonitor ---------------------------
(* E13: the clauses of CompTelObs evaluated on what the REAL code did.  observed.ndjson holds one record per built
   service: the instances the configuration defines (inst, exts: from CompTelMC), and the views = every
   TelemetrySettings value in the hands of a created component with every emission that arrived in a sink
   (deduplicated: [sink, own, f, n]).  The verdict per record is printed; checks/E13.py only reads it.

     A1A3A4  some instance of the view's kind / id / signal(s) explains EVERY emission of the view: each key once, the
             fields = sink's own fields + (documented set minus what the component dropped itself) + the component's own
     A2A5    no two views that dropped nothing are explained by the same instance; every instance explains some view
     A7      a real unifying component: as A1 for SOME subset of the omittable keys
     A8      every service message about a component carries exactly some instance's set *)
EXTENDS CompTelObs, TLC, Json

Recs == ndJsonDeserialize("observed.ndjson")
Base == {<<"svc", "v">>}
BaseOf(sink) == IF sink = "zap" THEN Base ELSE {}

AllInst(r) == SeqSet(r.inst) \cup {<<"extension", r.exts[i]>> : i \in DOMAIN r.exts}

Cands(r, v) ==
  IF v.may THEN {n \in AllInst(r) : n[1] = v.k /\ r.types[IdOf(n)] = v.id}
  ELSE {n \in AllInst(r) : /\ n[1] = v.k /\ IdOf(n) = v.id
                            /\ (v.k \in {"receiver", "exporter", "processor", "connector"} => n[2] = v.sig)
                            /\ (v.k = "connector" => n[3] = v.sig2)}

Explains(v, n, O) ==
  LET A == Without(Without(DocAttrs(n), SeqSet(v.drop)), O)
  IN \A i \in DOMAIN v.entries : EntryOK(v.entries[i].f, BaseOf(v.entries[i].sink), A, v.entries[i].own)

Ident(r, v) == {n \in Cands(r, v) : \E O \in (IF v.may THEN SUBSET Omittable ELSE {{}}) : Explains(v, n, O)}

Plain(r) == {i \in DOMAIN r.views : ~r.views[i].may /\ r.views[i].drop = <<>>}

Bad(r) ==
  LET id == [i \in DOMAIN r.views |-> Ident(r, r.views[i])] IN
     {<<"A1A3A4", r.views[i].tok>> : i \in {j \in DOMAIN r.views : ~r.views[j].may /\ id[j] = {}}}
  \cup {<<"A7", r.views[i].tok>> : i \in {j \in DOMAIN r.views : r.views[j].may /\ id[j] = {}}}
  \cup {<<"A2A5", r.views[i].tok>> : i \in {j \in Plain(r) : \E k \in Plain(r) : k # j /\ id[j] \cap id[k] # {}}}
  \cup {<<"A2A5", "uncovered">> : n \in {m \in AllInst(r) : r.types[IdOf(m)] \notin {"otlp", "memory_limiter"}
                                                            /\ ~ \E j \in Plain(r) : m \in id[j]}}
  \cup {<<"A8", r.svc[i].msg>> : i \in {j \in DOMAIN r.svc :
            ~ \E n \in AllInst(r) : EntryOK(r.svc[j].f, BaseOf(r.svc[j].sink), DocAttrs(n), <<>>)}}

ASSUME \A i \in DOMAIN Recs : PrintT(<<"BEH", ToJson([i |-> Recs[i].i, bad |-> Bad(Recs[i])])>>)

VARIABLE z
Init == z = 0
Next == UNCHANGED z
=============================================================================
