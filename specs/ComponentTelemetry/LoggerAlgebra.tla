--------------------------- MODULE LoggerAlgebra ---------------------------
(* E13, implementation-shaped model of internal/telemetry/telemetry.go + componentattribute/logger_zap.go +
   {tracer,meter,logger}_provider.go + zap's Logger.With / Named, as VALUES:

     core   a tree of zapcore.Core values
              base     the service's own core (observer / io core) with the fields accumulated by With
              console  consoleCoreWithAttributes{Core: from.With(fields(attrs)), from}       sub = <<from, Core>>
              otel     otelzap core behind loggerProviderWithAttributes: scope attributes a, record attributes f
              tee      otelTeeCoreWithAttributes{Core: NewTee(console, otel), consoleCore}     sub = <<console, otel>>
              multi    zapcore.NewTee result after With                                        sub = <<c1, c2>>
              wrap     wrapperCoreWithAttributes{Core: wrapper(from), from}                    sub = <<from>>
              sampler  what wrapper(from).With returns                                         sub = <<inner>>
     ts     component.TelemetrySettings: [core, name, extra (extraAttributes), tp, mp (attrs of the provider wrappers)]
            + GHOST fields of the statement (CompTelObs A3-A6): linj / pinj = the set the statement says is injected into
            logs / spans+metrics, own = fields the component added, ldet = FALSE once the logger part is open point O1.

   One operator per Go function (CWith = Core.With, TryWA = tryWithAttributeSet, Out = Core.Write fan-out); one action per
   call a component or the service can make.  Variant "real" is the code as it is; "stacked" (console core re-wrapped
   around its CURRENT core instead of `from`) and "nowrap" (the sampler wrapper does not pass the set on) are plausible
   wrong designs TLC must refute. *)
EXTENDS CompTelObs, TLC

CONSTANTS Variant,      \* "real" | "stacked" | "nowrap"
          Stacks,       \* subset of {"console", "sampled", "tee", "teesampled"}
          AttrSets,     \* attribute sets WithAttributeSet is called with
          KeySets,      \* key sets WithoutAttributes is called with
          MaxPool       \* number of derived settings values

VARIABLES stack, pool, hist
avars == <<stack, pool, hist>>

Base == {<<"svc", "v">>}
BaseSeq == << <<"svc", "v">> >>
Levels == <<"debug", "info", "warn", "error">>
LvlNo(l) == CHOOSE i \in 1..4 : Levels[i] = l
OtelMin == 2         \* the LoggerProvider copy is made from info upwards (logs::level of the tee)

\* a deterministic sequence of the pairs of a set: attribute.Set.ToSlice() is sorted by key (the order itself is open, O3)
Rank(k) == CASE k = KId -> 1 [] k = KKind -> 2 [] k = KPipe -> 3 [] k = KSig -> 4 [] k = KSigOut -> 5 [] OTHER -> 6
RECURSIVE RankSeq(_)
RankSeq(S) == IF S = {} THEN <<>>
              ELSE LET mn == CHOOSE p \in S : \A q \in S : Rank(p[1]) <= Rank(q[1])
                   IN <<mn>> \o RankSeq(S \ {mn})

Core(t, sub, f, a) == [t |-> t, sub |-> sub, f |-> f, a |-> a]
BaseCore    == Core("base", <<>>, BaseSeq, {})

RECURSIVE CWith(_, _)
CWith(c, f) ==
  CASE c.t = "base"    -> [c EXCEPT !.f = @ \o f]
    [] c.t = "otel"    -> [c EXCEPT !.f = @ \o f]
    [] c.t = "console" -> CWith(c.sub[2], f)                       \* embedded Core.With: the wrapper type is lost
    [] c.t = "tee"     -> Core("multi", <<CWith(c.sub[1], f), CWith(c.sub[2], f)>>, <<>>, {})
    [] c.t = "multi"   -> Core("multi", <<CWith(c.sub[1], f), CWith(c.sub[2], f)>>, <<>>, {})
    [] c.t = "wrap"    -> Core("sampler", <<CWith(c.sub[1], f)>>, <<>>, {})
    [] c.t = "sampler" -> Core("sampler", <<CWith(c.sub[1], f)>>, <<>>, {})

AttrFields(A) == RankSeq(A)
NewConsole(from, A) == Core("console", <<from, CWith(from, AttrFields(A))>>, <<>>, A)
NewOtel(A)          == Core("otel", <<>>, <<>>, A)
NewTee(console, A)  == Core("tee", <<console, NewOtel(A)>>, <<>>, A)
NewWrap(from)       == Core("wrap", <<from>>, <<>>, {})

Capable(c) == c.t \in {"console", "tee", "wrap"}

RECURSIVE TryWA(_, _)
TryWA(c, A) ==
  CASE c.t = "console" -> IF Variant = "stacked" THEN NewConsole(c.sub[2], A) ELSE NewConsole(c.sub[1], A)
    [] c.t = "tee"     -> NewTee(TryWA(c.sub[1], A), A)
    [] c.t = "wrap"    -> IF Variant = "nowrap" THEN c ELSE NewWrap(TryWA(c.sub[1], A))
    [] OTHER           -> c          \* "does nothing" (and says so in a debug entry)

\* what one Write at level number l with entry fields ef puts into the sinks
RECURSIVE Out(_, _, _)
Out(c, l, ef) ==
  CASE c.t = "base"    -> {[sink |-> "zap", f |-> c.f \o ef, scope |-> {}]}
    [] c.t = "otel"    -> IF l >= OtelMin THEN {[sink |-> "otel", f |-> c.f \o ef, scope |-> c.a]} ELSE {}
    [] c.t = "console" -> Out(c.sub[2], l, ef)
    [] c.t \in {"tee", "multi"} -> Out(c.sub[1], l, ef) \cup Out(c.sub[2], l, ef)
    [] c.t \in {"wrap", "sampler"} -> Out(c.sub[1], l, ef)

\* service/telemetry/logger.go newLogger
RootCore(s) ==
  LET console == NewConsole(BaseCore, {})
      teed    == IF s \in {"tee", "teesampled"} THEN NewTee(console, {}) ELSE console
  IN IF s \in {"sampled", "teesampled"} THEN NewWrap(teed) ELSE teed

TS(core, name, extra, linj, pinj, own, ldet) ==
  [core |-> core, name |-> name, extra |-> extra, tp |-> pinj, mp |-> pinj, linj |-> linj, pinj |-> pinj, own |-> own, ldet |-> ldet]
RootTS(s) == TS(RootCore(s), "", {}, {}, {}, <<>>, TRUE)

\* telemetry.WithAttributeSet: extraAttributes, logger core, both providers re-wrapped.  Statement (A6): the new set
\* replaces the old one; the logger part is determined only while the core still supports injection (O1).
WithAttributeSet(ts, A) ==
  [ts EXCEPT !.extra = A, !.core = TryWA(ts.core, A), !.tp = A, !.mp = A,
             !.linj = A, !.pinj = A, !.ldet = ts.ldet /\ ts.own = <<>>]
\* telemetry.WithoutAttributes = WithAttributeSet(ts, RemoveAttributes(ts.extraAttributes, keys)); statement: ts minus keys
WithoutAttributes(ts, K) ==
  LET r == WithAttributeSet(ts, Without(ts.extra, K))
  IN [r EXCEPT !.linj = Without(ts.linj, K), !.pinj = Without(ts.pinj, K)]
ZapWith(ts, f) == [ts EXCEPT !.core = CWith(ts.core, f), !.own = @ \o f]
ZapNamed(ts)   == [ts EXCEPT !.name = "sub"]

\* the component's own field: a fresh key per derivation (a key used twice is the component's own doing, O2)
CF(n) == << <<"cf" \o ToString(n), "1">> >>

Derive(h, op, arg, v) == /\ Len(pool) < MaxPool + 1
                         /\ pool' = Append(pool, v)
                         /\ hist' = Append(hist, [op |-> op, h |-> h, arg |-> arg])
                         /\ UNCHANGED stack

AInit == /\ stack \in Stacks
         /\ pool = <<RootTS(stack)>>
         /\ hist = <<>>
ANext == \E h \in DOMAIN pool :
            \/ \E A \in AttrSets : Derive(h, "wa", A, WithAttributeSet(pool[h], A))
            \/ \E K \in KeySets  : Derive(h, "wo", K, WithoutAttributes(pool[h], K))
            \/ Derive(h, "with", CF(Len(pool)), ZapWith(pool[h], CF(Len(pool))))
            \/ Derive(h, "named", {}, ZapNamed(pool[h]))
ASpec == AInit /\ [][ANext]_avars

-----------------------------------------------------------------------------
(* the clauses of the statement, for every settings value ever derived (A5: values never change, so "every value in
   the pool, in every state" is "everything any holder can still observe") *)
HasOtel == stack \in {"tee", "teesampled"}

LogOK(ts, l, ef) ==
  LET outs == Out(ts.core, l, ef) IN
    /\ \E o \in outs : o.sink = "zap"                                   \* every level reaches the service's core
    /\ (HasOtel /\ l >= OtelMin) <=> \E o \in outs : o.sink = "otel"    \* and the copy, from its level on
    /\ Cardinality(outs) <= 2                                           \* once per sink
    /\ ts.ldet => \A o \in outs :
          IF o.sink = "zap" THEN EntryOK(o.f, Base, ts.linj, ts.own \o ef)
          ELSE o.scope = ts.linj /\ o.f = ts.own \o ef

\* (pool only grows by Append and its elements are values: checking the NEWEST element in every state checks every element)
Newest      == {Len(pool)}
A3Logs      == \A h \in Newest : \A l \in 1..4 : LogOK(pool[h], l, <<>>) /\ LogOK(pool[h], l, << <<"ef", "x">> >>)
A4Providers == \A h \in Newest : pool[h].tp = pool[h].pinj /\ pool[h].mp = pool[h].pinj
\* the provider part and extraAttributes always agree (what WithoutAttributes starts from is what the providers inject)
A6Extra     == \A h \in Newest : pool[h].extra = pool[h].pinj
\* the open point is really reachable only through With-before-derive
O1Only      == \A h \in Newest : ~pool[h].ldet => pool[h].own # <<>>
CapIff      == \A h \in Newest : Capable(pool[h].core) <=> pool[h].own = <<>>
=============================================================================
