----------------------------- MODULE CompTelMC -----------------------------
(* E13, service level: the configuration universes of specs/PipelineGraph (copied next to this module by checks/E13.py)
   plus a set of extensions.  Design check: the documented attribute sets identify the instances (A2), also after the
   omissions the RFC allows to unifying components (A7); negative variants: processors without otelcol.pipeline.id, and
   the key set the memory_limiter processor really drops (which includes otelcol.component.id: two limiters collide --
   the design-level face of finding E13-memorylimiter-drops-component-id).  GenEmit prints every complete valid
   configuration with its instances; the monitor (CompTelMonitor) judges what the real graph.Build / extensions.New
   handed to the real factories. *)
EXTENDS PipelineGraphMC, CompTelObs, Json

CONSTANTS ExtIds
VARIABLES xs
xvars == <<cfg, xs>>

XInit == GInit /\ xs = {}
XNext == \/ GNext /\ UNCHANGED xs
         \/ \E x \in ExtIds \ xs : xs' = xs \cup {x} /\ UNCHANGED cfg
XSpec == XInit /\ [][XNext]_xvars
XNextValid == XNext /\ Valid'
XSpecValid == XInit /\ [][XNextValid]_xvars

\* pipelines without a name next to named ones
PipesE3 == << <<"logs", "">>, <<"logs", "b">>, <<"traces", "">> >>
PipesE4 == << <<"logs", "">>, <<"logs", "b">>, <<"traces", "">>, <<"metrics", "m">> >>
PipesE8 == << <<"logs", "">>, <<"logs", "b">>, <<"traces", "">>, <<"traces", "b">>,
              <<"metrics", "">>, <<"metrics", "b">>, <<"profiles", "">>, <<"profiles", "b">> >>

AllInst  == Instances \cup {<<"extension", x>> : x \in xs}
RcvInst  == {n \in Instances : n[1] = "receiver"}
ProcInst == {n \in Instances : n[1] = "processor"}

A2Distinct == Valid => Distinct(AllInst)
\* A7: what a unifying component may omit leaves exactly the instances it unifies with one set, and keeps every other apart
Unified(n, PD) == IF n[1] = "receiver" THEN Without(DocAttrs(n), {KSig})
                  ELSE IF n[1] = "processor" THEN Without(DocAttrs(n), PD)
                  ELSE IF n[1] = "connector" THEN Without(DocAttrs(n), {KSig, KSigOut})
                  ELSE DocAttrs(n)
SameLogical(m, n) == IF m[1] \in {"receiver", "processor", "connector"} THEN m[1] = n[1] /\ IdOf(m) = IdOf(n) ELSE m = n
A7With(PD)  == Valid => \A m, n \in AllInst : (Unified(m, PD) = Unified(n, PD)) <=> SameLogical(m, n)
A7Unified   == A7With({KSig, KPipe})
\* refuted: the key set of processor/memorylimiterprocessor/factory.go
NegMemLimiterKeys == A7With({KSig, KPipe, KId})
\* refuted: a design without otelcol.pipeline.id on processors
NegNoPipelineId == Valid => \A m, n \in AllInst : Without(DocAttrs(m), {KPipe}) = Without(DocAttrs(n), {KPipe}) => m = n

XOut == [pipes |-> {[sig |-> p[1], name |-> p[2], r |-> cfg[p].r, p |-> cfg[p].p, e |-> cfg[p].e] : p \in On},
         conns |-> {[id |-> c, sup |-> Support[c]] : c \in ConnUsed},
         exts  |-> xs,
         inst  |-> Instances]
GenEmit == (Complete /\ Valid) => PrintT(<<"BEH", ToJson(XOut)>>)
=============================================================================
