--------------------------- MODULE CompTelAlgMC ---------------------------
(* E13: exhaustive design check of LoggerAlgebra (every derivation sequence up to MaxPool values, every stack) and, with
   GenEmit, the generator of the scripts replayed on the real code: the derivations followed by emissions through EVERY
   value derived so far (oldest first: a parent is probed after its children exist), each with what the statement says
   must arrive. *)
EXTENDS LoggerAlgebra, Json

A0 == {}
ARcv  == {<<KKind, "receiver">>, <<KId, "r1">>, <<KSig, "logs">>}
AProc == {<<KKind, "processor">>, <<KId, "p1/b">>, <<KSig, "traces">>, <<KPipe, "traces/a">>}
AConn == {<<KKind, "connector">>, <<KId, "c1">>, <<KSig, "logs">>, <<KSigOut, "metrics">>}
AExt  == {<<KKind, "extension">>, <<KId, "x1">>}
AttrSetsQ == {ARcv, AProc, AExt}
AttrSetsT == {A0, ARcv, AProc, AConn, AExt}
KeySetsQ  == {{KSig}, {KSig, KPipe, KId}}
KeySetsT  == {{KSig}, {KSigOut}, {KSig, KPipe}, {KSig, KPipe, KId}, {KKind}}
AllStacks == {"console", "sampled", "tee", "teesampled"}
AttrSets2 == {ARcv, AProc}
StackTS   == {"teesampled"}

OwnScope(h) == IF h % 3 = 0 THEN {<<KSig, "mine">>} ELSE IF h % 2 = 1 THEN {<<"own", "1">>} ELSE {}
EntryF(h)   == IF h % 2 = 0 THEN << <<"ef", "x">> >> ELSE <<>>
EmitOp(h, l) ==
  LET ts == pool[h]
      ef == EntryF(h) IN
  [op |-> "emit", h |-> h, lvl |-> Levels[l], f |-> ef, own |-> OwnScope(h),
   exp |-> [ldet   |-> ts.ldet,
            zap    |-> Base \cup Override(ts.linj, SeqSet(ts.own \o ef)),
            otelon |-> HasOtel /\ l >= OtelMin,
            otelscope |-> ts.linj,
            otelf  |-> ts.own \o ef,
            prov   |-> Override(ts.pinj, OwnScope(h)),
            name   |-> ts.name]]
Emits == [i \in 1..(2 * Len(pool)) |->
            LET h == (i + 1) \div 2 IN
            IF i % 2 = 1 THEN EmitOp(h, 1) ELSE EmitOp(h, 2 + ((h + Len(hist)) % 3))]
Script == [stack |-> stack, ops |-> hist, emits |-> Emits]
GenEmit == (Len(pool) = MaxPool + 1) => PrintT(<<"BEH", ToJson(Script)>>)
=============================================================================
