----------------------------- MODULE PDataImpl -----------------------------
(* C07 -- implementation-shaped model of the generated pdata containers, checked against the reference
   (PData.tla) as a refinement:  the abstraction of the heap must equal the reference content after
   every operation, and the panics must coincide.

   Shape of the code (pdata/internal/cmd/pdatagen/internal/templates/slice.go.tmpl, pcommon/map.go,
   pcommon/slice.go):
     * a container is a Go slice: a backing array of `cap` slots of which the first `len` are live;
       the slots beyond len keep whatever was there (STALE slots): RemoveIf / Remove compact in place
       and re-slice, CopyTo re-slices the destination to the source length when it fits the capacity;
     * Ptr = TRUE  : slice of pointers (`[]*T`, most generated slices): a slot holds the address of a
                     cell or nil; EnsureCapacity and append-growth leave nil slots beyond len;
       Ptr = FALSE : slice of values (`[]T`: ExemplarSlice, AttributeTableSlice, pcommon.Slice, and
                     pcommon.Map = `[]KeyValue`): a slot IS a cell; compaction copies the struct, i.e.
                     the nested slice HEADER, so a stale slot shares the nested backing array `kb`
                     with the live slot it was copied to;
     * a cell is [id, t, s, kb, kl]: key (maps), scalars, shape, nested container = (backing array id,
       length);
       nested containers hold scalars; their CopyTo re-uses the destination's backing array when the
       source fits (the same template again);
     * every mutator starts with AssertMutable on the shared state flag.
   FixedSlots = FALSE is the pinned tree: CopyTo into a re-sliced destination copies INTO the stale
   slots (nil -> nil dereference; stale pointer / stale header -> two live entries share one object).
   FixedSlots = TRUE is fixes/C07-copyto-stale-slots.patch: slots between the old and the new length
   get a fresh (pointer slices) or zeroed (value slices) element before the element-wise copy.
   FixedUnset = FALSE is the pinned element CopyTo, which skips optional fields / one-of alternatives
   that are unset in the source and so leaves the destination's (modelled on the shape component);
   FixedUnset = TRUE is fixes/C07-copyto-unset-fields.patch.
   Deviations, named: capacity growth is deterministic doubling (Go promises nothing, the property
   must not depend on it); pcommon.Value keeps its nested container behind a one-of wrapper pointer
   instead of an inline header -- sharing the wrapper aliases in the same way; one nesting level.    *)
EXTENDS PData, TLC

CONSTANTS Ptr, FixedSlots, FixedUnset

VARIABLES cells,   \* heap of element cells: Seq([t, s, kb, kl]); address = index
          karr,    \* nested backing arrays: Seq(Seq(Nat)); id = index, Len = capacity
          arr,     \* [Vars -> Seq(address or 0)]  backing array of each variable, Len = capacity
          ln,      \* [Vars -> Nat]  length
          ipan     \* the implementation panicked in the last step

implVars == <<cells, karr, arr, ln, ipan>>
allVars  == <<refVars, implVars>>

ZeroCell == [id |-> 0, t |-> 0, s |-> 0, kb |-> 0, kl |-> 0]
Max(a, b) == IF a > b THEN a ELSE b
Grow(cap, need) == Max(need, IF cap = 0 THEN 1 ELSE 2 * cap)

\* heap record threaded through the sequential loops of the code
Heap == [c |-> cells, k |-> karr]

KCap(h, kb)   == IF kb = 0 THEN 0 ELSE Len(h.k[kb])
KidsOf(h, a)  == IF h.c[a].kb = 0 THEN <<>> ELSE SubSeq(h.k[h.c[a].kb], 1, h.c[a].kl)

\* n new slots: nil pointers, or n new zero cells
NewSlots(h, n) ==
  IF Ptr THEN [h |-> h, ids |-> [q \in 1..n |-> 0]]
         ELSE [h |-> [h EXCEPT !.c = @ \o [q \in 1..n |-> ZeroCell]], ids |-> [q \in 1..n |-> Len(h.c) + q]]

\* n new live elements (CopyTo's allocation of a whole new backing array)
NewCells(h, n) ==
  [h |-> [h EXCEPT !.c = @ \o [q \in 1..n |-> ZeroCell]], ids |-> [q \in 1..n |-> Len(h.c) + q]]

\* store a brand-new element (id, t, s) into slot `slot` of backing array `ar`
PutNew(h, ar, slot, id, t, s) ==
  IF Ptr THEN [h |-> [h EXCEPT !.c = Append(@, [ZeroCell EXCEPT !.id = id, !.t = t, !.s = s])],
               ar |-> [ar EXCEPT ![slot] = Len(h.c) + 1]]
         ELSE [h |-> [h EXCEPT !.c[ar[slot]] = [ZeroCell EXCEPT !.id = id, !.t = t, !.s = s]], ar |-> ar]

\* slot assignment  dst[slot] = src element  (pointer copy / struct copy)
Assign(h, ar, slot, a) ==
  IF Ptr THEN [h |-> h, ar |-> [ar EXCEPT ![slot] = a]]
         ELSE [h |-> [h EXCEPT !.c[ar[slot]] = h.c[a]], ar |-> ar]

\* nested container CopyTo: the kids `ks` into the nested container of cell d (re-use if it fits)
SetKids(h, d, ks) ==
  LET n == Len(ks)
      kb == h.c[d].kb
  IN IF n <= KCap(h, kb)
       THEN IF kb = 0 THEN h
            ELSE [h EXCEPT !.k[kb] = [q \in 1..Len(@) |-> IF q <= n THEN ks[q] ELSE @[q]], !.c[d].kl = n]
       ELSE [h EXCEPT !.k = Append(@, ks), !.c[d].kb = Len(h.k) + 1, !.c[d].kl = n]

\* element CopyTo  src cell a -> dst cell d
ElemCopy(h, a, d) ==
  LET h1 == [h EXCEPT !.c[d].t = h.c[a].t,
                      !.c[d].s = IF h.c[a].s = 0 /\ ~FixedUnset THEN @ ELSE h.c[a].s]
  IN SetKids(h1, d, KidsOf(h, a))
\* entry copy of Map.CopyTo: the key as well
EntryCopy(h, a, d) == [ElemCopy(h, a, d) EXCEPT !.c[d].id = h.c[a].id]

\* element edited in place: scalars := t; kid appended (Go append on the nested slice) or last kid edited
TouchCell(h, a, t) ==
  LET c == h.c[a]
      h1 == [h EXCEPT !.c[a].t = t]
  IN IF MaxKids = 0 THEN h1
     ELSE IF c.kl < MaxKids
       THEN IF c.kl < KCap(h, c.kb)
              THEN [h1 EXCEPT !.k[c.kb][c.kl + 1] = t, !.c[a].kl = c.kl + 1]
              ELSE LET ncap == Grow(KCap(h, c.kb), c.kl + 1)
                       na == KidsOf(h, a) \o <<t>> \o [q \in 1..(ncap - c.kl - 1) |-> 0]
                   IN [h1 EXCEPT !.k = Append(@, na), !.c[a].kb = Len(h.k) + 1, !.c[a].kl = c.kl + 1]
       ELSE [h1 EXCEPT !.k[c.kb][c.kl] = t]

\* re-allocation of a backing array to capacity ncap keeping the first n slots
Realloc(h, ar, n, ncap) ==
  LET ns == NewSlots(h, ncap - n) IN [h |-> ns.h, ar |-> SubSeq(ar, 1, n) \o ns.ids]

-----------------------------------------------------------------------------
(* One operation on the implementation state.  Result: [h, arr, ln, pan]. *)
R(h, ar, l, p) == [h |-> h, arr |-> ar, ln |-> l, pan |-> p]
Same == R(Heap, arr, ln, FALSE)

IAppendTo(h, ar, l, id, t, s) ==      \* *orig = append(*orig, new element)
  IF l < Len(ar)
    THEN LET pn == PutNew(h, ar, l + 1, id, t, s) IN [h |-> pn.h, ar |-> pn.ar, l |-> l + 1]
    ELSE LET ra == Realloc(h, ar, l, Grow(Len(ar), l + 1))
             pn == PutNew(ra.h, ra.ar, l + 1, id, t, s)
         IN [h |-> pn.h, ar |-> pn.ar, l |-> l + 1]

IAppend(o) ==
  LET r == IAppendTo(Heap, arr[o.a], ln[o.a], IF o.op = "put" THEN o.n ELSE 0, nxt, o.s)
  IN R(r.h, [arr EXCEPT ![o.a] = r.ar], [ln EXCEPT ![o.a] = r.l], FALSE)

PosOfKey(v, key) == IF \E q \in 1..ln[v] : cells[arr[v][q]].id = key
                      THEN CHOOSE q \in 1..ln[v] : cells[arr[v][q]].id = key ELSE 0

\* Map.Put*: update in place or append a KeyValue (value slices only)
IPut(o) ==
  LET q == PosOfKey(o.a, o.n) IN
  IF q = 0 THEN IAppend(o)
  ELSE R([Heap EXCEPT !.c[arr[o.a][q]] = [ZeroCell EXCEPT !.id = o.n, !.t = nxt, !.s = o.s]], arr, ln, FALSE)

\* index arguments name the i-th element of the reference order; for maps that is the entry with its key
SlotOf(v, i) == IF Keys = {} THEN i ELSE PosOfKey(v, val[v][i].id)
ITouch(o) == R(TouchCell(Heap, arr[o.a][SlotOf(o.a, o.i)], nxt), arr, ln, FALSE)

\* RemoveIf: the compaction loop of the template
IRemoveIf(o) ==
  LET a == o.a
      n == ln[a]
      F[m \in 0..n] ==      \* state after examining m elements: [h, ar, nl]
        IF m = 0 THEN [h |-> Heap, ar |-> arr[a], nl |-> 0]
        ELSE LET pr == F[m-1] IN
             IF PredHolds(o.p, m, pr.h.c[pr.ar[m]], n) THEN pr
             ELSE IF pr.nl + 1 = m THEN [pr EXCEPT !.nl = pr.nl + 1]
             ELSE LET as == Assign(pr.h, pr.ar, pr.nl + 1, pr.ar[m])
                  IN [h |-> as.h, ar |-> as.ar, nl |-> pr.nl + 1]
  IN R(F[n].h, [arr EXCEPT ![a] = F[n].ar], [ln EXCEPT ![a] = F[n].nl], FALSE)

\* Map.Remove: overwrite with the last entry, shrink by one
IRemove(o) ==
  LET q == PosOfKey(o.a, o.n) IN
  IF q = 0 THEN Same
  ELSE LET as == Assign(Heap, arr[o.a], q, arr[o.a][ln[o.a]])
       IN R(as.h, [arr EXCEPT ![o.a] = as.ar], [ln EXCEPT ![o.a] = ln[o.a] - 1], FALSE)

IEnsure(o) ==
  IF o.n <= Len(arr[o.a]) THEN Same
  ELSE LET ra == Realloc(Heap, arr[o.a], ln[o.a], o.n)
       IN R(ra.h, [arr EXCEPT ![o.a] = ra.ar], ln, FALSE)

\* sort.SliceStable on the live prefix (pointer slices)
ISort(o) ==
  LET a == o.a
      live == SubSeq(arr[a], 1, ln[a])
      Ins(sorted, e) ==
        LET m == Cardinality({q \in 1..Len(sorted) : cells[sorted[q]].t >= cells[e].t})
        IN SubSeq(sorted, 1, m) \o <<e>> \o SubSeq(sorted, m + 1, Len(sorted))
      F[m \in 0..Len(live)] == IF m = 0 THEN <<>> ELSE Ins(F[m-1], live[m])
  IN R(Heap, [arr EXCEPT ![a] = F[Len(live)] \o SubSeq(arr[a], ln[a] + 1, Len(arr[a]))], ln, FALSE)

\* CopyTo of the container
ICopy(o) ==
  LET a == o.a
      b == o.b
      n == ln[a]
  IN IF n <= Len(arr[b])
       THEN \* destination re-sliced to n: slots ln[b]+1..n are stale
            LET prep ==     \* the repair: fresh / zeroed elements in the re-exposed slots
                  IF ~FixedSlots THEN [h |-> Heap, ar |-> arr[b]]
                  ELSE LET G[m \in ln[b]..Max(n, ln[b])] ==
                             IF m = ln[b] THEN [h |-> Heap, ar |-> arr[b]]
                             ELSE PutNew(G[m-1].h, G[m-1].ar, m, 0, 0, 0)
                       IN G[Max(n, ln[b])]
                nilHit == \E q \in 1..n : prep.ar[q] = 0
                F[m \in 0..n] == IF m = 0 THEN prep.h ELSE EntryCopy(F[m-1], arr[a][m], prep.ar[m])
            IN IF nilHit THEN R(Heap, arr, ln, TRUE)      \* nil pointer dereference
               ELSE R(F[n], [arr EXCEPT ![b] = prep.ar], [ln EXCEPT ![b] = n], FALSE)
       ELSE \* new backing array of exactly n new elements
            LET nc == NewCells(Heap, n)
                F[m \in 0..n] == IF m = 0 THEN nc.h ELSE EntryCopy(F[m-1], arr[a][m], nc.ids[m])
            IN R(F[n], [arr EXCEPT ![b] = nc.ids], [ln EXCEPT ![b] = n], FALSE)

\* Map.MoveTo / primitive MoveTo: the destination takes the source's slice, the source becomes nil
IMove(o) == R(Heap, [arr EXCEPT ![o.b] = arr[o.a], ![o.a] = <<>>], [ln EXCEPT ![o.b] = ln[o.a], ![o.a] = 0], FALSE)

IMoveAppend(o) ==
  LET a == o.a
      b == o.b
  IN IF Len(arr[b]) = 0
       THEN IMove(o)                 \* nil destination: take the whole backing array
       ELSE LET total == ln[b] + ln[a]
                ra == IF total <= Len(arr[b]) THEN [h |-> Heap, ar |-> arr[b]]
                      ELSE Realloc(Heap, arr[b], ln[b], Grow(Len(arr[b]), total))
                F[m \in 0..ln[a]] == IF m = 0 THEN ra ELSE Assign(F[m-1].h, F[m-1].ar, ln[b] + m, arr[a][m])
            IN R(F[ln[a]].h, [arr EXCEPT ![b] = F[ln[a]].ar, ![a] = <<>>], [ln EXCEPT ![b] = total, ![a] = 0], FALSE)

IECopy(o) == R(ElemCopy(Heap, arr[o.a][SlotOf(o.a, o.i)], arr[o.b][SlotOf(o.b, o.j)]), arr, ln, FALSE)

\* MoveTo of an element:  *dest = *src ; *src = T{}   (the key of a map entry is not part of its value)
IEMove(o) ==
  LET s == arr[o.a][SlotOf(o.a, o.i)]
      d == arr[o.b][SlotOf(o.b, o.j)]
  IN R([Heap EXCEPT !.c[d] = [cells[s] EXCEPT !.id = cells[d].id], !.c[s] = [ZeroCell EXCEPT !.id = cells[s].id]], arr, ln, FALSE)

IFromRaw(o) ==
  LET nc == NewCells(Heap, o.n)
      h2 == [nc.h EXCEPT !.c = [q \in 1..Len(@) |-> IF q > Len(cells) THEN [ZeroCell EXCEPT !.id = IF Keys = {} THEN 0 ELSE q - Len(cells), !.t = nxt + (q - Len(cells)) - 1, !.s = RawShape] ELSE @[q]]]
  IN R(h2, [arr EXCEPT ![o.a] = nc.ids], [ln EXCEPT ![o.a] = o.n], FALSE)

IClear(o) == R(Heap, [arr EXCEPT ![o.a] = <<>>], [ln EXCEPT ![o.a] = 0], FALSE)

ITouchAll ==
  LET order == SelectSeq(AllVars, LAMBDA v : v \in Vars /\ v \notin ro)
      \* flatten: all (v, q) pairs in order
      H[vi \in 0..Len(order)] ==
        IF vi = 0 THEN Heap
        ELSE LET v == order[vi]
                 \* the q-th element of the REFERENCE order (for maps: the entry with that key)
                 Slot(q) == IF Keys = {} THEN q ELSE PosOfKey(v, val[v][q].id)
                 G[q \in 0..ln[v]] == IF q = 0 THEN H[vi-1]
                                      ELSE IF Touchable(val[v][q]) THEN TouchCell(G[q-1], arr[v][Slot(q)], TouchTag(v, q, nxt))
                                      ELSE G[q-1]
             IN G[ln[v]]
  IN R(H[Len(order)], arr, ln, FALSE)

IApply(o) ==
  CASE o.op = "append"     -> IAppend(o)
    [] o.op = "put"        -> IPut(o)
    [] o.op = "touch"      -> ITouch(o)
    [] o.op = "remove"     -> IRemove(o)
    [] o.op = "removeif"   -> IRemoveIf(o)
    [] o.op = "ensure"     -> IEnsure(o)
    [] o.op = "sort"       -> ISort(o)
    [] o.op = "copy"       -> ICopy(o)
    [] o.op = "move"       -> IMove(o)
    [] o.op = "moveappend" -> IMoveAppend(o)
    [] o.op = "ecopy"      -> IECopy(o)
    [] o.op = "emove"      -> IEMove(o)
    [] o.op = "fromraw"    -> IFromRaw(o)
    [] o.op = "clear"      -> IClear(o)
    [] o.op = "markro"     -> Same
    [] o.op = "touchall"   -> ITouchAll

\* the implementation step: AssertMutable first, then the body
IStep(o) ==
  IF Targets(o) \cap ro # {}
    THEN ipan' = TRUE /\ UNCHANGED <<cells, karr, arr, ln>>
    ELSE LET r == IApply(o) IN
         /\ ipan' = r.pan
         /\ cells' = r.h.c
         /\ karr' = r.h.k
         /\ arr' = r.arr
         /\ ln' = r.ln

-----------------------------------------------------------------------------
(* Initial contents: built the way a program builds them (append one by one), so the backing arrays
   have the capacities Go gives them (1, 2, 4: three elements leave one nil / zero slot). *)
ImplInitWith(lens) ==
  LET B[vi \in 0..3] ==    \* after building the first vi variables of AllVars
        IF vi = 0 THEN [h |-> [c |-> <<>>, k |-> <<>>], arr |-> [v \in Vars |-> <<>>], ln |-> [v \in Vars |-> 0]]
        ELSE LET v == AllVars[vi] IN
             IF v \notin Vars THEN B[vi-1]
             ELSE LET iv == InitVal(lens)[v]
                      G[q \in 0..lens[v]] ==
                        IF q = 0 THEN [h |-> B[vi-1].h, ar |-> <<>>, l |-> 0]
                        ELSE IAppendTo(G[q-1].h, G[q-1].ar, G[q-1].l, iv[q].id, iv[q].t, iv[q].s)
                      g == G[lens[v]]
                  IN [h |-> g.h, arr |-> [B[vi-1].arr EXCEPT ![v] = g.ar], ln |-> [B[vi-1].ln EXCEPT ![v] = g.l]]
  IN /\ cells = B[3].h.c
     /\ karr = B[3].h.k
     /\ arr = B[3].arr
     /\ ln = B[3].ln
     /\ ipan = FALSE

\* abstraction: what the public getters see
AbsElem(v, q) == LET a == arr[v][q] IN
                 [id |-> cells[a].id, t |-> cells[a].t, s |-> cells[a].s,
                  k |-> IF cells[a].kb = 0 THEN <<>> ELSE SubSeq(karr[cells[a].kb], 1, cells[a].kl)]
AbsVal == [v \in Vars |-> [q \in 1..ln[v] |-> AbsElem(v, q)]]

\* refinement: same panics, same content -- in order for slices, as a set of entries for maps (Map.Remove
\* moves the last entry into the hole; the statement says nothing about the order of map entries)
Entries(seq) == {seq[q] : q \in 1..Len(seq)}
Refines == /\ ipan = pan
           /\ ~ipan => /\ \A v \in Vars : ln[v] = Len(val[v])
                       /\ IF Keys = {} THEN AbsVal = val
                          ELSE \A v \in Vars : Entries(AbsVal[v]) = Entries(val[v])
=============================================================================
