---------------------------- MODULE PDataImplMC ----------------------------
(* Exhaustive refinement check of the implementation-shaped model against the reference, over every
   program of at most MaxSteps operations from every initial content with lengths in InitLens. *)
EXTENDS PDataImpl
CONSTANTS MaxSteps, InitLens
VARIABLE steps

TouchAllOp == O("touchall", "-", "-", 0, 0, 0, "-", 0)

MCInit == /\ \E lens \in [Vars -> InitLens] : RefInitWith(lens) /\ ImplInitWith(lens)
          /\ steps = 0
MCNext == /\ steps < MaxSteps
          /\ steps' = steps + 1
          /\ \E o \in Offered(val) \cup {TouchAllOp} : Distinct(o) /\ RefStep(o) /\ IStep(o)
MCSpec == MCInit /\ [][MCNext]_<<allVars, steps>>

\* the clauses of the statement, evaluated on what the getters of the implementation would return
ImplValueSemantics == [][(~ipan /\ ~ipan' /\ Refines) => (Keys = {} => StepOK(last', ipan', AbsVal, AbsVal', ro, ro'))]_<<allVars, steps>>
\* the implementation state is hidden behind its abstraction only in the property; the search itself must
\* distinguish heaps (stale slots matter), so there is no VIEW.
=============================================================================
