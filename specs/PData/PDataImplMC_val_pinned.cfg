SPECIFICATION MCSpec
CONSTANTS
  Vars = {"x", "y"}
  Ops = {"append", "touch", "removeif", "ensure", "copy", "moveappend", "ecopy", "emove", "fromraw", "markro"}
  SMin = 0
  SMax = 1
  Preds = {"first", "last", "evens", "all"}
  Keys = {}
  Caps = {4}
  RawLens = {0, 2}
  RawShape = 1
  MaxLen = 4
  MaxKids = 2
  ZeroTouch = TRUE
  Ptr = FALSE
  FixedSlots = FALSE
  FixedUnset = FALSE
  MaxSteps = 3
  InitLens = {0, 2, 3}
INVARIANT Refines
PROPERTY ImplValueSemantics
CHECK_DEADLOCK FALSE
