\* generated from checks/C07.py (the check passes the same text as cfg_text); kept for running TLC by hand
\* model of the pinned tree: Refines is expected to be VIOLATED (stale slot shares the nested backing array)
SPECIFICATION MCSpec
CONSTANTS
  Vars = {"x", "y"}
  Ops = {"append", "touch", "removeif", "ensure", "copy", "moveappend", "ecopy", "emove", "markro"}
  SMin = 1
  SMax = 2
  Preds = {"first", "last", "evens", "all"}
  Keys = {}
  Caps = {4}
  RawLens = {}
  RawShape = 0
  MaxLen = 4
  MaxKids = 2
  ZeroTouch = TRUE
  Ptr = FALSE
  FixedSlots = FALSE
  FixedUnset = TRUE
  MaxSteps = 3
  InitLens = {0, 2, 3}
INVARIANT Refines
PROPERTY ImplValueSemantics
CHECK_DEADLOCK FALSE
