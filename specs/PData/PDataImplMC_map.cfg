\* generated from checks/C07.py (the check passes the same text as cfg_text); kept for running TLC by hand
SPECIFICATION MCSpec
CONSTANTS
  Vars = {"x", "y"}
  Ops = {"put", "touch", "remove", "removeif", "ensure", "copy", "move", "ecopy", "emove", "fromraw", "clear", "markro"}
  SMin = 1
  SMax = 2
  Preds = {"ideven", "idodd", "all"}
  Keys = {1, 2, 3}
  Caps = {4}
  RawLens = {0, 2}
  RawShape = 1
  MaxLen = 3
  MaxKids = 2
  ZeroTouch = FALSE
  Ptr = FALSE
  FixedSlots = TRUE
  FixedUnset = TRUE
  MaxSteps = 3
  InitLens = {0, 2, 3}
INVARIANT Refines
PROPERTY ImplValueSemantics
CHECK_DEADLOCK FALSE
