\* generated from checks/C07.py (the check passes the same text as cfg_text); kept for running TLC by hand
SPECIFICATION MCSpec
CONSTANTS
  Vars = {"x", "y"}
  Ops = {"append", "touch", "removeif", "ensure", "copy", "moveappend", "ecopy", "emove", "fromraw", "markro"}
  SMin = 1
  SMax = 2
  Preds = {"first", "last", "evens", "all"}
  Keys = {}
  Caps = {4}
  RawLens = {0, 2}
  RawShape = 1
  MaxLen = 4
  MaxKids = 2
  ZeroTouch = FALSE
  Ptr = FALSE
  FixedSlots = TRUE
  FixedUnset = TRUE
  MaxSteps = 3
  InitLens = {0, 2, 3}
INVARIANT Refines
PROPERTY ImplValueSemantics
CHECK_DEADLOCK FALSE
