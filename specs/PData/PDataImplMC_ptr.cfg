\* generated from checks/C07.py (the check passes the same text as cfg_text); kept for running TLC by hand
SPECIFICATION MCSpec
CONSTANTS
  Vars = {"x", "y"}
  Ops = {"append", "touch", "removeif", "ensure", "sort", "copy", "moveappend", "ecopy", "emove", "markro"}
  SMin = 0
  SMax = 1
  Preds = {"first", "last", "evens", "all"}
  Keys = {}
  Caps = {4}
  RawLens = {}
  RawShape = 0
  MaxLen = 4
  MaxKids = 2
  ZeroTouch = TRUE
  Ptr = TRUE
  FixedSlots = TRUE
  FixedUnset = TRUE
  MaxSteps = 3
  InitLens = {0, 2, 3}
INVARIANT Refines
PROPERTY ImplValueSemantics
CHECK_DEADLOCK FALSE
