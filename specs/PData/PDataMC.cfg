SPECIFICATION MCSpec
CONSTANTS
  Vars = {"x", "y"}
  Ops = {"append", "touch", "removeif", "ensure", "sort", "copy", "moveappend", "ecopy", "emove", "markro", "put", "remove", "move", "fromraw", "clear"}
  SMin = 1
  SMax = 2
  Preds = {"first", "last", "evens", "all"}
  Keys = {1, 2, 3}
  Caps = {4}
  RawLens = {0, 2}
  RawShape = 1
  MaxLen = 3
  MaxKids = 2
  ZeroTouch = TRUE
  MaxSteps = 2
  InitLens = {0, 2, 3}
INVARIANT TypeOK
PROPERTY MCProp
CHECK_DEADLOCK FALSE
