\* generated from checks/C07.py (the check passes the same text as cfg_text); kept for running TLC by hand
SPECIFICATION MCSpec
CONSTANTS
  Vars = {"x", "y"}
  Ops = {"append", "put", "touch", "remove", "removeif", "ensure", "sort", "copy", "move", "moveappend", "ecopy", "emove", "fromraw", "clear", "markro"}
  SMin = 0
  SMax = 2
  Preds = {"first", "last", "evens", "all", "ideven"}
  Keys = {1, 2, 3}
  Caps = {4}
  RawLens = {0, 2}
  RawShape = 1
  MaxLen = 3
  MaxKids = 2
  ZeroTouch = TRUE
  MaxSteps = 3
  InitLens = {0, 2, 3}
INVARIANT TypeOK
PROPERTY MCProp
CHECK_DEADLOCK FALSE
