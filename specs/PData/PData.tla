------------------------------- MODULE PData -------------------------------
(* C07 -- value semantics of the pdata data model (pdata/pcommon, plog, pmetric, ptrace, pprofile).

   REFERENCE model: plain values, no sharing.  A "variable" is one value of one container type
   (a generated slice, pcommon.Slice, pcommon.Map, a primitive slice); its content is a sequence of
   elements.  An element is  [id, t, s, k]:
       id   key of the entry (maps only; 0 in slices) -- immutable, copied along with the element
       t    tag: stands for ALL scalar fields of the element (the driver derives every scalar from t)
       s    shape: which one-of alternative / optional fields are present (0 = none, zero value)
       k    kids: the content of EVERY nested container of the element (attributes, nested slices,
            nested value...), a sequence of tags
   An operation is a record [op,a,b,i,j,s,p,n]; RefApply is its meaning on values.  There is no
   capacity, no backing array, no pointer: EnsureCapacity is the identity, CopyTo is assignment.
   That is the statement of the property; PDataImpl.tla is the shape of the code and is checked
   against this module, and the real code is compared with it step by step (PDataGen.tla + harness).

   Kind profiles (constants) select the operations a container type offers:
     generated pointer slices : append touch removeif ensure sort copy moveappend ecopy emove markro
     generated value slices   : the same without sort
     pcommon.Slice            : the same without sort, plus fromraw
     pcommon.Map              : put touch remove removeif ensure copy move ecopy emove fromraw clear markro
     primitive slices         : append touch ensure copy move fromraw markro   (MaxKids = 0)
*)
EXTENDS Integers, Sequences, FiniteSets

CONSTANTS
  Vars,        \* subset of {"x","y","z"}
  Ops,         \* enabled operation names
  SMin, SMax,  \* shapes SMin..SMax are offered to append/put
  Preds,       \* predicates offered to remove-if
  Keys,        \* key pool for put/remove/fromraw (maps); {} for slices
  Caps,        \* arguments offered to ensure-capacity
  RawLens,     \* lengths offered to from-raw
  RawShape,    \* shape of elements made by from-raw
  MaxLen,      \* bound on the length of a variable
  MaxKids,     \* bound on the number of kids (0: elements have no nested container)
  ZeroTouch    \* TRUE: a zero element can be edited in place (messages); FALSE: pcommon.Value

AllVars == <<"x", "y", "z">>
VarIdx(v) == CHOOSE n \in 1..3 : AllVars[n] = v
ASSUME Vars \subseteq {"x", "y", "z"}

Shapes == SMin..SMax
ShapeAt(i) == SMin + ((i - 1) % (SMax - SMin + 1))

Zero(id)        == [id |-> id, t |-> 0, s |-> 0, k |-> <<>>]
Fresh(id, t, s) == [id |-> id, t |-> t, s |-> s, k |-> <<>>]
Touchable(e)    == ZeroTouch \/ e.s # 0

O(op, a, b, i, j, s, p, n) == [op |-> op, a |-> a, b |-> b, i |-> i, j |-> j, s |-> s, p |-> p, n |-> n]

-----------------------------------------------------------------------------
(* Which variables an operation must be allowed to mutate (it panics iff one of them is read-only),
   and which variables it names at all (every other variable must not change: independence). *)
Targets(o) ==
  CASE o.op \in {"copy", "ecopy"}               -> {o.b}
    [] o.op \in {"move", "moveappend", "emove"} -> {o.a, o.b}
    [] o.op \in {"markro", "touchall", "init"}  -> {}
    [] OTHER                                    -> {o.a}

Named(o) == IF o.op \in {"touchall", "init"} THEN Vars ELSE {o.a, o.b} \cap Vars

PredHolds(p, i, e, n) ==
  CASE p = "first"  -> i = 1
    [] p = "last"   -> i = n
    [] p = "evens"  -> i % 2 = 0
    [] p = "odds"   -> i % 2 = 1
    [] p = "all"    -> TRUE
    [] p = "ideven" -> e.id % 2 = 0
    [] p = "idodd"  -> e.id % 2 = 1

\* remove-if: the elements for which the predicate is false, in their order
Keep(seq, p) ==
  LET n == Len(seq)
      F[m \in 0..n] == IF m = 0 THEN <<>>
                       ELSE IF PredHolds(p, m, seq[m], n) THEN F[m-1] ELSE Append(F[m-1], seq[m])
  IN F[n]

\* stable sort, descending by tag
SortDesc(seq) ==
  LET Ins(sorted, e) ==
        LET m == Cardinality({q \in 1..Len(sorted) : sorted[q].t >= e.t})
        IN SubSeq(sorted, 1, m) \o <<e>> \o SubSeq(sorted, m + 1, Len(sorted))
      F[m \in 0..Len(seq)] == IF m = 0 THEN <<>> ELSE Ins(F[m-1], seq[m])
  IN F[Len(seq)]

TouchE(e, t) ==
  [e EXCEPT !.t = t,
            !.k = IF MaxKids = 0 THEN @
                  ELSE IF Len(@) < MaxKids THEN Append(@, t) ELSE [@ EXCEPT ![Len(@)] = t]]

KeyPos(seq, key) == IF \E q \in 1..Len(seq) : seq[q].id = key
                      THEN CHOOSE q \in 1..Len(seq) : seq[q].id = key ELSE 0

\* remove(key): the entry disappears; maps are unordered, the reference keeps the remaining order
DropKey(seq, key) ==
  LET F[m \in 0..Len(seq)] == IF m = 0 THEN <<>>
                              ELSE IF seq[m].id = key THEN F[m-1] ELSE Append(F[m-1], seq[m])
  IN F[Len(seq)]

RawSeq(n, t0) == [q \in 1..n |-> Fresh(IF Keys = {} THEN 0 ELSE q, t0 + q - 1, RawShape)]

\* Tag given to element i of variable v by touchall
TouchTag(v, i, t0) == t0 + (VarIdx(v) - 1) * MaxLen + (i - 1)

(* Meaning of a (non-panicking) operation: new contents and next fresh tag. *)
RefApply(o, val, ro, nxt) ==
  CASE o.op = "append" ->
         [val |-> [val EXCEPT ![o.a] = Append(@, Fresh(0, nxt, o.s))], nxt |-> nxt + 1]
    [] o.op = "put" ->
         LET q == KeyPos(val[o.a], o.n) IN
         [val |-> [val EXCEPT ![o.a] = IF q = 0 THEN Append(@, Fresh(o.n, nxt, o.s))
                                       ELSE [@ EXCEPT ![q] = Fresh(o.n, nxt, o.s)]],
          nxt |-> nxt + 1]
    [] o.op = "touch" ->
         [val |-> [val EXCEPT ![o.a][o.i] = TouchE(@, nxt)], nxt |-> nxt + 1]
    [] o.op = "remove" ->
         [val |-> [val EXCEPT ![o.a] = DropKey(@, o.n)], nxt |-> nxt]
    [] o.op = "removeif" ->
         [val |-> [val EXCEPT ![o.a] = Keep(@, o.p)], nxt |-> nxt]
    [] o.op = "ensure" ->
         [val |-> val, nxt |-> nxt]
    [] o.op = "sort" ->
         [val |-> [val EXCEPT ![o.a] = SortDesc(@)], nxt |-> nxt]
    [] o.op = "copy" ->
         [val |-> [val EXCEPT ![o.b] = val[o.a]], nxt |-> nxt]
    [] o.op = "move" ->
         [val |-> [val EXCEPT ![o.b] = val[o.a], ![o.a] = <<>>], nxt |-> nxt]
    [] o.op = "moveappend" ->
         [val |-> [val EXCEPT ![o.b] = @ \o val[o.a], ![o.a] = <<>>], nxt |-> nxt]
    [] o.op = "ecopy" ->
         [val |-> [val EXCEPT ![o.b][o.j] = [val[o.a][o.i] EXCEPT !.id = val[o.b][o.j].id]], nxt |-> nxt]
    [] o.op = "emove" ->
         \* two EXCEPT steps: a and b may be the same variable
         LET v1 == [val EXCEPT ![o.b][o.j] = [val[o.a][o.i] EXCEPT !.id = val[o.b][o.j].id]]
         IN [val |-> [v1 EXCEPT ![o.a][o.i] = Zero(val[o.a][o.i].id)], nxt |-> nxt]
    [] o.op = "fromraw" ->
         [val |-> [val EXCEPT ![o.a] = RawSeq(o.n, nxt)], nxt |-> nxt + o.n]
    [] o.op = "clear" ->
         [val |-> [val EXCEPT ![o.a] = <<>>], nxt |-> nxt]
    [] o.op = "markro" ->
         [val |-> val, nxt |-> nxt]
    [] o.op = "touchall" ->
         \* every element of every mutable variable gets a fresh distinct tag (and kid); on the
         \* read-only variables every mutator is attempted and must panic without effect
         [val |-> [v \in Vars |-> IF v \in ro THEN val[v]
                                  ELSE [q \in 1..Len(val[v]) |->
                                          IF Touchable(val[v][q]) THEN TouchE(val[v][q], TouchTag(v, q, nxt))
                                          ELSE val[v][q]]],
          nxt |-> nxt + 3 * MaxLen]

Panics(o, ro) == Targets(o) \cap ro # {}

(* The operations offered in a state (indices must exist, lengths stay bounded; operations on
   read-only variables ARE offered: they must panic). *)
Ends(seq) == IF Len(seq) = 0 THEN {} ELSE {1, Len(seq)}
Has(n) == n \in Ops

Offered(val) ==
  (IF Has("append") THEN {O("append", a, "-", 0, 0, s, "-", 0) : a \in {v \in Vars : Len(val[v]) < MaxLen}, s \in Shapes} ELSE {})
  \cup (IF Has("put") THEN {o \in {O("put", a, "-", 0, 0, s, "-", n) : a \in Vars, s \in Shapes, n \in Keys} :
                               KeyPos(val[o.a], o.n) # 0 \/ Len(val[o.a]) < MaxLen} ELSE {})
  \cup (IF Has("touch") THEN UNION {{O("touch", a, "-", i, 0, 0, "-", 0) : i \in {q \in 1..Len(val[a]) : Touchable(val[a][q])}} : a \in Vars} ELSE {})
  \cup (IF Has("remove") THEN {O("remove", a, "-", 0, 0, 0, "-", n) : a \in Vars, n \in Keys} ELSE {})
  \cup (IF Has("removeif") THEN {O("removeif", a, "-", 0, 0, 0, p, 0) : a \in Vars, p \in Preds} ELSE {})
  \cup (IF Has("ensure") THEN {O("ensure", a, "-", 0, 0, 0, "-", n) : a \in Vars, n \in Caps} ELSE {})
  \cup (IF Has("sort") THEN {O("sort", a, "-", 0, 0, 0, "-", 0) : a \in Vars} ELSE {})
  \cup (IF Has("copy") THEN {O("copy", a, b, 0, 0, 0, "-", 0) : a \in Vars, b \in Vars} ELSE {})
  \cup (IF Has("move") THEN {O("move", a, b, 0, 0, 0, "-", 0) : a \in Vars, b \in Vars} ELSE {})
  \cup (IF Has("moveappend") THEN {o \in {O("moveappend", a, b, 0, 0, 0, "-", 0) : a \in Vars, b \in Vars} :
                                     Len(val[o.a]) + Len(val[o.b]) <= MaxLen} ELSE {})
  \cup (IF Has("ecopy") THEN UNION {{O("ecopy", a, b, i, j, 0, "-", 0) : i \in Ends(val[a]), j \in Ends(val[b])} : a \in Vars, b \in Vars} ELSE {})
  \cup (IF Has("emove") THEN UNION {{O("emove", a, b, i, j, 0, "-", 0) : i \in Ends(val[a]), j \in Ends(val[b])} : a \in Vars, b \in Vars} ELSE {})
  \cup (IF Has("fromraw") THEN {O("fromraw", a, "-", 0, 0, 0, "-", n) : a \in Vars, n \in RawLens} ELSE {})
  \cup (IF Has("clear") THEN {O("clear", a, "-", 0, 0, 0, "-", 0) : a \in Vars} ELSE {})
  \cup (IF Has("markro") THEN {O("markro", a, "-", 0, 0, 0, "-", 0) : a \in Vars} ELSE {})

\* copy/move between DISTINCT values only (the statement's quantifier)
Distinct(o) == /\ o.op \in {"copy", "move", "moveappend"} => o.a # o.b
               /\ o.op \in {"ecopy", "emove"} => ~(o.a = o.b /\ o.i = o.j)

-----------------------------------------------------------------------------
VARIABLES val,    \* [Vars -> Seq(element)]
          ro,     \* read-only variables
          nxt,    \* next fresh tag
          last,   \* the operation of the last step
          pan     \* whether it panicked

refVars == <<val, ro, nxt, last, pan>>

InitVal(lens) ==
  LET base(v) == IF VarIdx(v) = 1 THEN 0
                 ELSE IF VarIdx(v) = 2 THEN (IF "x" \in Vars THEN lens["x"] ELSE 0)
                 ELSE (IF "x" \in Vars THEN lens["x"] ELSE 0) + (IF "y" \in Vars THEN lens["y"] ELSE 0)
  IN [v \in Vars |-> [q \in 1..lens[v] |-> Fresh(IF Keys = {} THEN 0 ELSE q, base(v) + q, ShapeAt(q))]]

SumLens(lens) == (IF "x" \in Vars THEN lens["x"] ELSE 0) + (IF "y" \in Vars THEN lens["y"] ELSE 0)
                 + (IF "z" \in Vars THEN lens["z"] ELSE 0)

RefInitWith(lens) ==
  /\ val = InitVal(lens)
  /\ ro = {}
  /\ nxt = SumLens(lens) + 1
  /\ last = O("init", "-", "-", 0, 0, 0, "-", 0)
  /\ pan = FALSE

RefStep(o) ==
  /\ last' = o
  /\ IF Panics(o, ro)
       THEN /\ pan' = TRUE
            /\ UNCHANGED <<val, ro, nxt>>
       ELSE LET r == RefApply(o, val, ro, nxt) IN
            /\ pan' = FALSE
            /\ val' = r.val
            /\ nxt' = r.nxt
            /\ ro' = IF o.op = "markro" THEN ro \cup {o.a} ELSE ro

RefNext == \E o \in Offered(val) : Distinct(o) /\ RefStep(o)

-----------------------------------------------------------------------------
(* The property, clause by clause, as predicates over one step  (v, r) -> (v2, r2)  with operation o
   and panic flag p.  They are written from the statement, not from RefApply; PDataMC checks them on
   the reference, PDataImplMC checks them on the ABSTRACTION of the implementation-shaped state. *)

Bag(seq) == [e \in {seq[q] : q \in 1..Len(seq)} |-> Cardinality({q \in 1..Len(seq) : seq[q] = e})]
IsSubSeqOf(s1, s2) ==   \* s1 is s2 with some positions deleted (order kept)
  \E keep \in SUBSET (1..Len(s2)) :
     /\ Cardinality(keep) = Len(s1)
     /\ \A q \in 1..Len(s1) :
          LET pos == CHOOSE m \in keep : Cardinality({u \in keep : u < m}) = q - 1 IN s1[q] = s2[pos]

\* "copying makes the destination equal to the source" and leaves the source alone
CopyEqual(o, p, v, v2) == (o.op = "copy" /\ ~p) => (v2[o.b] = v[o.a] /\ v2[o.a] = v[o.a])
\* "... never changes the other" / "or of any other value": only named variables may change
Independent(o, p, v, v2) == \A w \in Vars \ Named(o) : v2[w] = v[w]
\* "moving transfers the content and leaves the source empty"
MoveEmpties(o, p, v, v2) == (o.op = "move" /\ ~p) => (v2[o.b] = v[o.a] /\ v2[o.a] = <<>>)
\* "move-and-append ... keep exactly the expected elements in order"
MoveAppends(o, p, v, v2) == (o.op = "moveappend" /\ ~p) => (v2[o.b] = v[o.b] \o v[o.a] /\ v2[o.a] = <<>>)
\* "remove-if keeps exactly the expected elements in order"
RemoveIfKeeps(o, p, v, v2) ==
  (o.op = "removeif" /\ ~p) =>
     /\ IsSubSeqOf(v2[o.a], v[o.a])
     /\ Len(v2[o.a]) = Cardinality({q \in 1..Len(v[o.a]) : ~PredHolds(o.p, q, v[o.a][q], Len(v[o.a]))})
     /\ \A q \in 1..Len(v[o.a]) : ~PredHolds(o.p, q, v[o.a][q], Len(v[o.a])) =>
            \E m \in 1..Len(v2[o.a]) : v2[o.a][m] = v[o.a][q]
\* "sorting permutes without loss"
SortPermutes(o, p, v, v2) ==
  (o.op = "sort" /\ ~p) =>
     /\ Bag(v2[o.a]) = Bag(v[o.a])
     /\ \A q \in 1..(Len(v2[o.a]) - 1) : v2[o.a][q].t >= v2[o.a][q+1].t
\* "ensure-capacity" and "mark-read-only" are invisible
Invisible(o, p, v, v2) == o.op \in {"ensure", "markro"} => v2 = v
\* "every mutator on every value reachable from it panics without changing anything"
ReadOnlyFrozen(o, p, v, v2, r, r2) ==
  /\ \A w \in r : v2[w] = v[w]
  /\ r \subseteq r2
  /\ p <=> (Targets(o) \cap r # {})
  /\ p => (v2 = v /\ r2 = r)

StepOK(o, p, v, v2, r, r2) ==
  /\ CopyEqual(o, p, v, v2)
  /\ Independent(o, p, v, v2)
  /\ MoveEmpties(o, p, v, v2)
  /\ MoveAppends(o, p, v, v2)
  /\ RemoveIfKeeps(o, p, v, v2)
  /\ SortPermutes(o, p, v, v2)
  /\ Invisible(o, p, v, v2)
  /\ ReadOnlyFrozen(o, p, v, v2, r, r2)

ValueSemantics == [][StepOK(last', pan', val, val', ro, ro')]_refVars
=============================================================================
