------------------------------ MODULE PDataMC ------------------------------
(* Exhaustive check of the clauses of the statement on the reference model itself (sanity of the
   reference: RefApply is written operation by operation, the clauses are written from the statement). *)
EXTENDS PData
CONSTANTS MaxSteps, InitLens
VARIABLE steps

MCInit == /\ \E lens \in [Vars -> InitLens] : RefInitWith(lens)
          /\ steps = 0
MCNext == /\ steps < MaxSteps
          /\ steps' = steps + 1
          /\ \/ RefNext
             \/ RefStep(O("touchall", "-", "-", 0, 0, 0, "-", 0))
MCSpec == MCInit /\ [][MCNext]_<<refVars, steps>>
MCProp == [][StepOK(last', pan', val, val', ro, ro')]_<<refVars, steps>>
TypeOK == /\ \A v \in Vars : Len(val[v]) <= MaxLen
          /\ \A v \in Vars : \A q \in 1..Len(val[v]) : Len(val[v][q].k) <= MaxKids
          /\ ro \subseteq Vars
=============================================================================
