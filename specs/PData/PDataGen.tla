------------------------------ MODULE PDataGen ------------------------------
(* Behaviour generator: programs of exactly N operations (from arbitrary initial contents, lengths in
   InitLens) followed by one final "touchall" step, each step annotated with what the reference model
   says: did it panic, and the content of every variable afterwards.  Printed as JSON from an invariant
   (BFS, -workers 1: every program once; -simulate: random programs).  harness/pdata replays them on
   every container type of the profile and compares after each step.
   Step encoding:  <<op,a,b,i,j,s,p,n>>, panic, [var |-> <<<<id,t,s,k>>, ...>>]                      *)
EXTENDS PData, TLC, Json
CONSTANTS N, InitLens
VARIABLE hist

EncE(e) == <<e.id, e.t, e.s, e.k>>
EncVal(v) == [w \in Vars |-> [q \in 1..Len(v[w]) |-> EncE(v[w][q])]]
EncOp(o) == <<o.op, o.a, o.b, o.i, o.j, o.s, o.p, o.n>>
Entry == [o |-> EncOp(last), p |-> pan, v |-> EncVal(val)]

GenInit == /\ \E lens \in [Vars -> InitLens] : RefInitWith(lens)
           /\ hist = <<[o |-> EncOp(O("init", "-", "-", 0, 0, 0, "-", 0)), p |-> FALSE, v |-> EncVal(val)]>>
GenNext == /\ \/ Len(hist) <= N /\ RefNext
              \/ Len(hist) = N + 1 /\ RefStep(O("touchall", "-", "-", 0, 0, 0, "-", 0))
           /\ hist' = Append(hist, [o |-> EncOp(last'), p |-> pan', v |-> EncVal(val')])
GenSpec == GenInit /\ [][GenNext]_<<refVars, hist>>
Emit == Len(hist) = N + 2 => PrintT(<<"BEH", ToJson(hist)>>)
=============================================================================
