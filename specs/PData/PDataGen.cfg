\* generated from checks/C07.py (the check passes the same text as cfg_text); kept for running TLC by hand
SPECIFICATION GenSpec
CONSTANTS
  Vars = {"x", "y"}
  Ops = {"append", "touch", "removeif", "ensure", "sort", "copy", "moveappend", "ecopy", "emove", "markro"}
  SMin = 0
  SMax = 2
  Preds = {"first", "last", "evens", "all"}
  Keys = {}
  Caps = {4}
  RawLens = {}
  RawShape = 0
  MaxLen = 4
  MaxKids = 2
  ZeroTouch = TRUE
  N = 2
  InitLens = {0, 2, 3}
INVARIANT Emit
CHECK_DEADLOCK FALSE
