\* design check of the implementation-shaped model against the specification (both designs)
SPECIFICATION ImplSpec
CONSTANTS
  Chunks = {"x", "D", "DD", "rA", "rB", "bA", "nA", "c"}
  MaxLen = 4
  Defs = {TRUE, FALSE}
  Tabs = {"T1"}
  FixedModes = {TRUE, FALSE}
INVARIANT TypeOK
PROPERTY Refines
CHECK_DEADLOCK FALSE
