\* exhaustive exploration of the specification with the clauses of the statement as invariants
SPECIFICATION Spec
CONSTANTS
  Chunks = {"x", "D", "DD", "rA", "rB", "bA", "nA", "c"}
  MaxLen = 4
  Defs = {TRUE, FALSE}
  Tabs = {"T1"}
INVARIANT TypeOK
INVARIANT UnchangedClause
INVARIANT EscapeClause
INVARIANT ProtectClause
INVARIANT TypedClause
INVARIANT CycleClause
INVARIANT DollarClause
CHECK_DEADLOCK FALSE
