--------------------------- MODULE ConfResolveImplGen ---------------------------
(* One line per root and design (fx) with the exact result the implementation-shaped model predicts,
   used to detect model drift and to attach the known-defect predicate (kd) to a root. *)
EXTENDS ConfResolveImpl, Json
EmitImpl == phase = "done" => PrintT(<<"BEH", ToJson([r |-> root.s, d |-> root.def, tb |-> root.tab, w |-> wrap, o |-> cur, kd |-> kd, fx |-> fx])>>)
=============================================================================
