---------------------------- MODULE ConfResolveImpl ----------------------------
(* Implementation-shaped model of confmap/expand.go + resolver.go (escapeDollarSigns), one action per
   round of Resolver.expandValueRecursively:

     ImplRound   = expandValue on the current scalar: findURI (first "}", last "${" before it, skip pairs that
                   are not references, odd number of preceding "$" => give up for the whole scalar),
                   findAndExpandURI (whole value => typed value, otherwise textual substitution),
                   expandURI ("$" in the opaque value => error; provider lookup)
     ImplFinish  = no URI found: escapeDollarSigns (ReplaceAll "$$" -> "$") and the value is final

   fx = FALSE : substitution with strings.ReplaceAll(input, uri, repl)  -- the pinned tree
   fx = TRUE  : substitution at the index findURI found                 -- the repaired tree (fixes/C12-escaped-ref-replaceall.patch)
   (fx is chosen in the initial state from FixedModes, so that one TLC run covers both designs.)

   Named deviations from the code:
     * the bound of 1000 rounds is abstracted: the model reports the error when it expands a name that
       lies on a reference cycle of the table, the code reports it 1000 rounds later;
     * a map / list value is represented by its single leaf (wrap), the parallel expansion of
       expandedValue.Original is not modelled (it only feeds string fields of container values, which the
       statement does not determine).

   Checked by TLC (ConfResolveImplMC.cfg, checks/C12.py): every step of the repaired design is a step of
   the specification; every step of the pinned design is a step of the specification OR starts in a text
   that satisfies KnownPredicate (the reproduced defect, DESIGN 9.4) -- property Refines.  With
   FixedModes = {FALSE} and property RefinesStrict TLC exhibits the defect as a 2-state counterexample.  *)
EXTENDS ConfResolve
CONSTANT FixedModes    \* subset of BOOLEAN
VARIABLES fx,          \* which substitution the run uses (constant along a behaviour)
          kd           \* history: the known-defect predicate held in some text that was rewritten
ivars == <<root, cur, wrap, phase, emb, fx, kd>>

\* findURI on the suffix of s starting at lo; <<0, 0>> = "" (nothing to expand)
RECURSIVE FindFrom(_, _, _)
FindFrom(s, lo, def) ==
  LET C == {m \in lo..Len(s) : s[m] = "}"} IN
  IF C = {} THEN <<0, 0>>
  ELSE LET c == Min(C)
           O == {m \in lo..(c - 1) : IsOpen(s, m)}
       IN  IF O = {} \/ (~def /\ ~HasColon(SubSeq(s, Max(O), c)))
           THEN FindFrom(s, c + 1, def)                           \* "check the next URI"
           ELSE IF RunBefore(s, Max(O)) % 2 = 1 THEN <<0, 0>>     \* escaped: give up
                ELSE <<Max(O), c>>

RECURSIVE RepAll(_, _, _, _)
RepAll(s, pat, r, i) ==       \* strings.ReplaceAll: non-overlapping, left to right
  IF i > Len(s) THEN <<>>
  ELSE IF i + Len(pat) - 1 <= Len(s) /\ SubSeq(s, i, i + Len(pat) - 1) = pat
       THEN r \o RepAll(s, pat, r, i + Len(pat))
       ELSE <<s[i]>> \o RepAll(s, pat, r, i + 1)

\* the reproduced defect: an escaped occurrence of a reference that also occurs unescaped (and ready) in the same scalar
KnownPredicate(s, def) ==
  \E p \in RefPairs(s, def) : \E i \in 1..Len(s) :
      /\ EscOpen(s, i) /\ i + (p[2] - p[1]) <= Len(s)
      /\ SubSeq(s, i, i + (p[2] - p[1])) = SubSeq(s, p[1], p[2])

ImplRound ==
  /\ phase = "run" /\ cur.t = "str"
  /\ LET s == cur.s
         u == FindFrom(s, 1, root.def)
     IN  /\ u # <<0, 0>>
         /\ kd' = (kd \/ KnownPredicate(s, root.def)) /\ UNCHANGED fx
         /\ LET lk == Lookup(Content(s, u), root.def, root.tab) IN
            IF lk.err # "" THEN Fail(lk.err)
            ELSE IF u = <<1, Len(s)>> THEN Whole(lk.e)
            ELSE /\ cur' = [t |-> "str",
                            s |-> IF fx THEN Subst(s, {u}, lk.e.text, 1)
                                           ELSE RepAll(s, SubSeq(s, u[1], u[2]), lk.e.text, 1)]
                 /\ emb' = TRUE /\ UNCHANGED <<root, wrap, phase>>

ImplFinish ==
  /\ phase = "run" /\ cur.t = "str"
  /\ FindFrom(cur.s, 1, root.def) = <<0, 0>>
  /\ cur' = [t |-> "str", s |-> Unesc(cur.s, 1)] /\ phase' = "done" /\ UNCHANGED <<root, wrap, emb, fx, kd>>

ImplNext == ImplRound \/ ImplFinish
ImplInit == Init /\ kd = FALSE /\ fx \in FixedModes
ImplSpec == ImplInit /\ [][ImplNext]_ivars

\* every step of the implementation-shaped model is a step of the specification; the pinned design is excused
\* only from texts with the known defect predicate
Refines       == [][Next \/ (~fx /\ KnownPredicate(cur.s, root.def))]_vars
RefinesStrict == [][Next]_vars
=============================================================================
