----------------------------- MODULE ConfResolveGen -----------------------------
(* Enumeration of the admissible results: every final state of the specification's rewriting system is
   printed with its root; the set of lines with the same root is the admissible set of that root
   (INVARIANT Emit).  ConfResolveImplGen does the same for the implementation-shaped model.

   The history variable `lib` records which of the liberal rules (U1, U2, U3 of ConfResolve) a behaviour
   met.  checks/C12.py requires that every root with more than one final value has a final state with
   lib # {}: outside the points where the statement is silent the result does not depend on the order of
   rewriting (confluence of the specification). *)
EXTENDS ConfResolve, Json
VARIABLE lib

U1Met == phase = "run" /\ cur.t = "str" /\ \E p \in RefPairs(cur.s, root.def) : Doubtful(cur.s, p)
U2Met == phase = "run" /\ cur.t = "str" /\ emb /\ RefPairs(cur.s, root.def) = {<<1, Len(cur.s)>>}
U3Met == NonRefNested
GenNext == /\ NextSingle
           /\ lib' = lib \cup (IF U1Met THEN {"U1"} ELSE {}) \cup (IF U2Met THEN {"U2"} ELSE {}) \cup (IF U3Met THEN {"U3"} ELSE {})
GenSpec == Init /\ lib = {} /\ [][GenNext]_<<vars, lib>>

Emit == phase = "done" => PrintT(<<"BEH", ToJson([r |-> root.s, d |-> root.def, tb |-> root.tab, w |-> wrap, o |-> cur, lib |-> lib])>>)

\* the provider tables, for the Go driver (environment of the real envprovider)
ASSUME PrintT(<<"TAB", ToJson([tb \in Tabs |-> [n \in Names |-> [kind |-> Table[tb][n].kind, text |-> Table[tb][n].text]]])>>)
=============================================================================
