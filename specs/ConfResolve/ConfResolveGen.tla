----------------------------- MODULE ConfResolveGen -----------------------------
(* Enumeration of the admissible results: every final state of the specification's rewriting system is
   printed with its root; the set of lines with the same root is the admissible set of that root
   (INVARIANT Emit).  ConfResolveImplGen does the same for the implementation-shaped model. *)
EXTENDS ConfResolve, Json

Emit == phase = "done" => PrintT(<<"BEH", ToJson([r |-> root.s, d |-> root.def, tb |-> root.tab, w |-> wrap, o |-> cur])>>)

\* the provider tables, for the Go driver (environment of the real envprovider)
ASSUME PrintT(<<"TAB", ToJson([tb \in Tabs |-> [n \in Names |-> [kind |-> Table[tb][n].kind, text |-> Table[tb][n].text]]])>>)

GenSpec == Spec
=============================================================================
