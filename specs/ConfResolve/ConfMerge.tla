------------------------------- MODULE ConfMerge -------------------------------
(* C12, first sentence: "Resolving a list of configuration sources yields the recursive right-biased
   merge of their maps: a later source replaces scalars and lists and merges maps key by key, untouched
   keys survive, and merging an empty source changes nothing."

   A configuration tree is a function from keys to values; a value is a leaf (scalar, nil, list -- named
   by LeafNames, the Go driver maps the names to JSON values) or a map.  One action per iteration of the
   loop in Resolver.Resolve: AddSource(t) merges the next retrieved source into the accumulator
   (retMap.Merge(retCfgMap) -> koanf maps.Merge).  Every state is printed with its source list and the
   specified result; the driver resolves the same list through confmap.NewResolver and compares
   ToStringMap.                                                                                          *)
EXTENDS Integers, Sequences, FiniteSets, TLC, Json

CONSTANTS Keys,        \* keys usable at every level
          LeafNames,   \* names of leaf values
          Depth,       \* nesting depth of maps (1 = flat)
          NSrc,        \* maximal number of sources
          Small        \* TRUE: values at the top level are restricted to leaves and flat maps over one key (for long lists)

VARIABLES srcs, acc
mvars == <<srcs, acc>>

Leaf(n) == [t |-> "leaf", v |-> n, m |-> <<>>]
MapV(f) == [t |-> "map", v |-> "", m |-> f]
Leaves  == {Leaf(n) : n \in LeafNames}
Funs(K, V) == UNION {[S -> V] : S \in SUBSET K}

RECURSIVE Vals(_)
Vals(d) == IF d = 0 THEN Leaves ELSE Leaves \cup {MapV(f) : f \in Funs(Keys, Vals(d - 1))}
Trees == IF Small THEN Funs(Keys, Leaves \cup {MapV(f) : f \in Funs({CHOOSE k \in Keys : TRUE}, Leaves)})
         ELSE Funs(Keys, Vals(Depth - 1))
Empty == <<>>

\* the recursive right-biased merge, written from the statement
RECURSIVE Merge(_, _)
Merge(l, r) ==
  [k \in (DOMAIN l) \cup (DOMAIN r) |->
     IF k \notin DOMAIN r THEN l[k]                                   \* untouched keys survive
     ELSE IF k \notin DOMAIN l THEN r[k]
     ELSE IF l[k].t = "map" /\ r[k].t = "map" THEN MapV(Merge(l[k].m, r[k].m))   \* maps merge key by key
     ELSE r[k]]                                                       \* scalars, lists (and kind changes): the later source wins

Init == srcs = <<>> /\ acc = Empty
AddSource(t) == /\ Len(srcs) < NSrc
                /\ srcs' = Append(srcs, t)
                /\ acc' = Merge(acc, t)
Next == \E t \in Trees : AddSource(t)
Spec == Init /\ [][Next]_mvars

-----------------------------------------------------------------------------
(* Clauses of the statement. *)
\* the value found by following a path of keys, or "absent"
RECURSIVE At(_, _)
At(f, p) == IF p = <<>> THEN MapV(f)
            ELSE IF Head(p) \notin DOMAIN f THEN [t |-> "absent", v |-> "", m |-> <<>>]
            ELSE IF Len(p) = 1 THEN f[Head(p)]
            ELSE IF f[Head(p)].t = "map" THEN At(f[Head(p)].m, Tail(p))
            ELSE [t |-> "absent", v |-> "", m |-> <<>>]
Paths == UNION {[1..n -> Keys] : n \in 1..Depth}
Last == srcs[Len(srcs)]
Prev == IF Len(srcs) = 1 THEN Empty ELSE
          LET RECURSIVE Fold(_) Fold(i) == IF i = 0 THEN Empty ELSE Merge(Fold(i - 1), srcs[i]) IN Fold(Len(srcs) - 1)

\* "merging an empty source changes nothing"
NeutralClause == Len(srcs) >= 1 /\ Last = Empty => acc = Prev
\* "a later source replaces scalars and lists": wherever the last source has a leaf, the result has that leaf
ReplaceClause == Len(srcs) >= 1 => \A p \in Paths : At(Last, p).t = "leaf" => At(acc, p) = At(Last, p)
\* "untouched keys survive": a leaf of the earlier result is kept unless the last source defines the path, a prefix of it as a leaf,
\* or a map below it
SurviveClause == Len(srcs) >= 1 => \A p \in Paths :
                    (At(Prev, p).t = "leaf" /\ \A n \in 1..Len(p) : At(Last, SubSeq(p, 1, n)).t \in {"absent"} \cup (IF n < Len(p) THEN {"map"} ELSE {}))
                       => At(acc, p) = At(Prev, p)
\* "merges maps key by key": a map in both is a map in the result with the union of the keys
KeyByKeyClause == Len(srcs) >= 1 => \A p \in Paths \cup {<<>>} :
                    (At(Prev, p).t = "map" /\ At(Last, p).t = "map")
                       => At(acc, p).t = "map" /\ DOMAIN At(acc, p).m = (DOMAIN At(Prev, p).m) \cup (DOMAIN At(Last, p).m)
\* nothing is invented: every leaf of the result is a leaf of the last source or of the earlier result
NoInventClause == Len(srcs) >= 1 => \A p \in Paths : At(acc, p).t = "leaf" => At(acc, p) \in {At(Last, p), At(Prev, p)}
\* merging is idempotent: a source that was already merged changes nothing when merged again
\* (the fold is NOT associative -- {x:{p:1}}, {x:nil}, {x:{q:2}} -- so the order of the loop is part of the specification)
IdemClause  == Len(srcs) >= 1 => Merge(acc, acc) = acc /\ Merge(acc, Last) = acc

Emit == Len(srcs) >= 1 => PrintT(<<"BEH", ToJson([srcs |-> srcs, want |-> acc])>>)
=============================================================================
