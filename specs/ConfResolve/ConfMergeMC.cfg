SPECIFICATION Spec
CONSTANTS
  Keys = {"a", "b"}
  LeafNames = {"i1", "nil", "l2"}
  Depth = 2
  NSrc = 2
  Small = FALSE
INVARIANT NeutralClause
INVARIANT ReplaceClause
INVARIANT SurviveClause
INVARIANT KeyByKeyClause
INVARIANT NoInventClause
INVARIANT IdemClause
CHECK_DEADLOCK FALSE
