SPECIFICATION Spec
CONSTANTS
  Names = {"A", "B", "C"}
  Lits = {"x", "y"}
  MaxSteps = 4
  Memo = FALSE
INVARIANTS HistoryFree TypeOK
CHECK_DEADLOCK FALSE
