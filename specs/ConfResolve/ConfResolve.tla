------------------------------ MODULE ConfResolve ------------------------------
(* C12 -- configuration resolution: expansion of ${...} references, $$ escaping, termination.

   This module is the SPECIFICATION written from the statement of the property.  Expansion is a
   rewriting system over one scalar of the configuration:

     * a text is a sequence of ATOMS; the concrete string is the concatenation of the atoms.  "$", "{",
       "}" are atoms of their own, no other atom contains one of these characters, and "env:" / "k: " are
       the only atoms containing ':' ;
     * Rewrite  -- "every ${scheme:value} / ${NAME} reference is replaced by what the provider returns
       (itself subject to the same expansion and un-escaping)": any innermost complete unescaped reference
       may be replaced in place by the provider's text; when the reference is the WHOLE value the result
       is the provider's typed value (a string keeps being expanded as a whole value, a non-string scalar
       is final and remembers its original text, a map / list is entered);
     * Finish   -- when no reference is left that MUST be expanded, "$$ yields one literal $" is applied
       once, left to right, and the scalar is final;
     * errors   -- a reference whose (expanded) name contains "$", a reference cycle, and whatever error
       the provider reports end the resolution with an error.

   The order in which references are rewritten is not fixed by the statement, so the specification is
   nondeterministic in it; the set of final values reachable from a root IS the set of admissible
   results for that root (for closed provider values the order does not matter -- that is what TLC
   shows: ConfResolveGen records which of the liberal rules below a behaviour met, checks/C12.py requires
   that every root with more than one final value met one).

   Points where the statement is silent; the specification is exactly as liberal:
     (U1) "$$ ... protects the following text from expansion" does not delimit "following".  A
          reference whose closing brace lies to the right of an escaped "$${" in the same scalar is
          DOUBTFUL: it may be expanded or kept as text (DESIGN 9.4).  All other references are MANDATORY.
     (U2) a scalar that is not a single reference but becomes one while it is rewritten (the other
          references expanded to the empty text): read as a process the remaining reference now "is the
          whole value" (typed result), read per reference it was "embedded in a string" (text).  Both are
          admitted: `emb` remembers that the scalar at the current level already had an embedded rewrite.
     (U3) without a default scheme "${NAME}" is not a reference.  Whether "${env:${NAME}}" then is a
          reference whose name contains "$" (error) or plain text is not said: both admitted (OptNonRefErr).

   Escaping follows the parity rule implied by "$$ yields one literal $": in a maximal run of k "$"
   followed by "{" the brace opens a reference iff k is odd.

   The implementation-shaped model (one action per round of expandValueRecursively) is ConfResolveImpl;
   TLC checks that each of its steps is a step of this specification.                                   *)
EXTENDS Integers, Sequences, FiniteSets, TLC

CONSTANTS Chunks,      \* names of the chunks roots are built from (subset of DOMAIN ChunkText)
          MaxLen,      \* roots = all sequences of at most MaxLen chunks
          Defs,        \* subset of BOOLEAN: default scheme "env" configured or not
          Tabs         \* subset of DOMAIN Table

VARIABLES root,        \* [tab, def, s]  the scalar as written in the source, the provider table, the default-scheme switch
          cur,         \* [t |-> "str" | "yaml" | "err", s |-> text]   current value of the (innermost) scalar
          wrap,        \* containers entered through whole-value references: sequence of [w |-> "map"|"list", k |-> key]
          phase,       \* "run" | "done"
          emb          \* an embedded (textual) rewrite happened in the scalar at the current level  (U2)
vars == <<root, cur, wrap, phase, emb>>

Min(S) == CHOOSE x \in S : \A y \in S : x <= y
Max(S) == CHOOSE x \in S : \A y \in S : y <= x
Range(s) == {s[i] : i \in DOMAIN s}

-----------------------------------------------------------------------------
(* Provider tables.  kind: "str" (YAML string), "scalar" (non-string YAML scalar, typed),
   "map" / "list" (one entry / one element whose value is the text `leaf`).  `text` is what the
   provider returns as string representation (used when the reference is embedded).
   Assumption (stated in evidence): provider values are CLOSED -- no unmatched "${" or "}", no trailing
   odd run of "$" -- so that "expanded by itself" and "substituted and re-scanned" coincide.            *)
Ref(n)   == <<"$", "{", "env:", n, "}">>
Str(t)       == [kind |-> "str",    text |-> t, key |-> "", leaf |-> <<>>]
Scalar(t)    == [kind |-> "scalar", text |-> t, key |-> "", leaf |-> <<>>]
MapOf(k, ka, l) == [kind |-> "map",  text |-> <<ka>> \o l, key |-> k, leaf |-> l]   \* ka = the atom "k: "
ListOf(l)    == [kind |-> "list",   text |-> <<"- ">> \o l, key |-> "", leaf |-> l]

Table == [
  T1 |-> [A |-> Str(<<"va">>),  B |-> Str(<<"vb">>),
          N |-> Scalar(<<"123">>), O |-> Scalar(<<"0123">>), E |-> Scalar(<<>>), T |-> Scalar(<<"true">>),
          X |-> Str(<<"A">>),                                   \* a value used as a name: ${env:${env:X}}
          R |-> Str(Ref("A")),                                  \* value is itself a whole reference
          P |-> Str(<<"x">> \o Ref("N")),                       \* value embeds a reference
          S |-> Str(<<"$", "$", "{", "env:", "A", "}">>),       \* value contains an escaped reference
          Q |-> Str(<<"x", "$", "$", "x">>),                    \* value contains an escape
          C |-> Str(Ref("D")), D |-> Str(Ref("C")),             \* self-referential pair
          G |-> Str(<<"x">> \o Ref("G")),                       \* growing self reference
          M |-> MapOf("k", "k: ", Ref("A")),
          L |-> ListOf(Ref("N"))],
  T2 |-> [A |-> Str(<<"$", "$">>),                              \* value is one escaped dollar
          B |-> Str(<<"va">>),
          N |-> Scalar(<<"1.5">>), O |-> Scalar(<<"null">>), E |-> Str(<<"x">>), T |-> Scalar(<<"false">>),
          X |-> Str(<<"R">>),
          R |-> Str(Ref("X") \o Ref("B")),                      \* two references, chain R -> X -> "R" (text only)
          P |-> Str(<<"$", "$", "$", "{", "env:", "B", "}">>),  \* $$ + reference
          S |-> Str(<<"$", "{", "env:">> \o Ref("X") \o <<"}">>),\* nested reference in a value: ${env:${env:X}} -> R -> ...
          Q |-> Str(<<"$", "x">>),
          C |-> Str(Ref("C")),                                  \* direct self reference
          D |-> Str(<<"x">> \o Ref("C")),
          G |-> Str(Ref("B") \o Ref("G")),
          M |-> MapOf("k", "k: ", <<"x">> \o Ref("N")),
          L |-> ListOf(<<"$", "$", "{", "env:", "B", "}">>)]
]
Names == {"A", "B", "N", "O", "E", "T", "X", "R", "P", "S", "Q", "C", "D", "G", "M", "L"}
EmptyEntry == Scalar(<<>>)      \* what the provider returns for a valid name that is not set

\* classification of atoms with respect to environment-variable names  ^[a-zA-Z_][a-zA-Z0-9_]*$
NameStart == Names \cup {"x", "va", "vb", "true", "false", "null"}
NameRest  == NameStart \cup {"123", "0123"}
OtherAtoms == {"$", "{", "}", "env:", "k: ", "- ", "-", "1.5"}
Atoms == NameRest \cup OtherAtoms
ColonAtoms == {"env:", "k: "}

\* names that lie on a reference cycle of a table (dependencies read off the table texts)
Deps(tb, n) == LET t == Table[tb][n].text
               IN {m \in Names : \E i \in 1..(Len(t) - 1) : t[i] = "env:" /\ t[i + 1] = m}
RECURSIVE ReachFrom(_, _, _)
ReachFrom(tb, S, seen) == LET new == UNION {Deps(tb, n) : n \in S} \ seen
                          IN IF new = {} THEN seen ELSE ReachFrom(tb, new, seen \cup new)
Cyclic(tb, n) == n \in ReachFrom(tb, {n}, {})

-----------------------------------------------------------------------------
(* Chunks: the pieces roots are enumerated from. *)
NoScheme(n) == <<"$", "{", n, "}">>
BraceText(n) == <<"{", "env:", n, "}">>
ChunkText == [
  x |-> <<"x">>, dash |-> <<"-">>, D |-> <<"$">>, DD |-> <<"$", "$">>,
  o |-> <<"$", "{", "env:">>, on |-> <<"$", "{">>, c |-> <<"}">>, lb |-> <<"{">>, env |-> <<"env:">>,
  A |-> <<"A">>, B |-> <<"B">>, X |-> <<"X">>, E |-> <<"E">>,
  rA |-> Ref("A"), rB |-> Ref("B"), rN |-> Ref("N"), rO |-> Ref("O"), rE |-> Ref("E"), rT |-> Ref("T"),
  rX |-> Ref("X"), rR |-> Ref("R"), rP |-> Ref("P"), rS |-> Ref("S"), rQ |-> Ref("Q"),
  rC |-> Ref("C"), rD |-> Ref("D"), rG |-> Ref("G"), rM |-> Ref("M"), rL |-> Ref("L"), rZ |-> Ref("x"),
  nA |-> NoScheme("A"), nB |-> NoScheme("B"), nN |-> NoScheme("N"), nE |-> NoScheme("E"),
  bA |-> BraceText("A"), bB |-> BraceText("B"), bnA |-> <<"{", "A", "}">>
]
ASSUME Chunks \subseteq DOMAIN ChunkText
ASSUME \A ch \in DOMAIN ChunkText : Range(ChunkText[ch]) \subseteq Atoms
ASSUME \A tb \in DOMAIN Table : \A n \in Names :
          Range(Table[tb][n].text) \subseteq Atoms /\ Range(Table[tb][n].leaf) \subseteq Atoms

RECURSIVE Flat(_, _)
Flat(q, i) == IF i > Len(q) THEN <<>> ELSE ChunkText[q[i]] \o Flat(q, i + 1)
Roots == {Flat(q, 1) : q \in UNION {[1..m -> Chunks] : m \in 0..MaxLen}}

-----------------------------------------------------------------------------
(* Syntax of a text. *)
RECURSIVE RunEndingAt(_, _)
RunEndingAt(s, i) == IF i >= 1 /\ s[i] = "$" THEN 1 + RunEndingAt(s, i - 1) ELSE 0
RunBefore(s, i) == RunEndingAt(s, i - 1)      \* number of consecutive "$" immediately before position i
IsOpen(s, i)    == i >= 1 /\ i + 1 <= Len(s) /\ s[i] = "$" /\ s[i + 1] = "{"
UnescOpen(s, i) == IsOpen(s, i) /\ RunBefore(s, i) % 2 = 0       \* odd run of "$" before "{": opens a reference
EscOpen(s, i)   == IsOpen(s, i) /\ RunBefore(s, i) % 2 = 1       \* even run: "$$" protects the brace
FirstClose(s, i) == LET C == {m \in i..Len(s) : s[m] = "}"} IN IF C = {} THEN 0 ELSE Min(C)

\* innermost complete unescaped "${ ... }" pairs <<i, j>>
ReadyPairs(s) ==
  {<<i, FirstClose(s, i)>> : i \in {m \in 1..Len(s) : /\ UnescOpen(s, m)
                                                      /\ FirstClose(s, m) > 0
                                                      /\ \A q \in (m + 2)..(FirstClose(s, m) - 1) : ~UnescOpen(s, q)}}
Content(s, p) == SubSeq(s, p[1] + 2, p[2] - 1)
HasColon(c)   == \E m \in DOMAIN c : c[m] \in ColonAtoms
\* a pair is a reference if a default scheme is configured or its content names a scheme
RefPairs(s, def) == {p \in ReadyPairs(s) : def \/ HasColon(Content(s, p))}
Doubtful(s, p)   == \E m \in 1..(p[2] - 1) : EscOpen(s, m)                         \* (U1)
Mandatory(s, def) == {p \in RefPairs(s, def) : ~Doubtful(s, p)}

ValidName(nm) == /\ Len(nm) >= 1 /\ nm[1] \in NameStart
                 /\ \A i \in 2..Len(nm) : nm[i] \in NameRest

\* what the reference with content c stands for: [err |-> "" | class, e |-> table entry]
Lookup(c, def, tb) ==
  LET body == IF HasColon(c) THEN c ELSE <<"env:">> \o c
      nm   == Tail(body)
  IN  IF body[1] # "env:"          THEN [err |-> "uri",      e |-> EmptyEntry]   \* unknown scheme / malformed
      ELSE IF "$" \in Range(nm)    THEN [err |-> "dollar",   e |-> EmptyEntry]   \* "name itself contains $"
      ELSE IF ~ValidName(nm)       THEN [err |-> "provider", e |-> EmptyEntry]   \* the provider rejects the name
      ELSE IF Len(nm) = 1 /\ nm[1] \in Names
           THEN IF Cyclic(tb, nm[1]) THEN [err |-> "cycle", e |-> EmptyEntry]    \* "reference cycles"
                ELSE [err |-> "", e |-> Table[tb][nm[1]]]
      ELSE [err |-> "", e |-> EmptyEntry]                                         \* valid, unset

RECURSIVE Subst(_, _, _, _)
Subst(s, P, r, i) ==      \* replace every pair of P (disjoint) by r
  IF i > Len(s) THEN <<>>
  ELSE IF \E p \in P : p[1] = i
       THEN LET p == CHOOSE p \in P : p[1] = i IN r \o Subst(s, P, r, p[2] + 1)
       ELSE <<s[i]>> \o Subst(s, P, r, i + 1)

RECURSIVE Unesc(_, _)
Unesc(s, i) ==            \* "$$ yields one literal $", left to right
  IF i > Len(s) THEN <<>>
  ELSE IF s[i] = "$" /\ i + 1 <= Len(s) /\ s[i + 1] = "$" THEN <<"$">> \o Unesc(s, i + 2)
  ELSE <<s[i]>> \o Unesc(s, i + 1)

-----------------------------------------------------------------------------
(* Actions. *)
Fail(class) == cur' = [t |-> "err", s |-> <<class>>] /\ phase' = "done" /\ UNCHANGED <<root, wrap, emb>>

Whole(e) ==   \* the reference is the whole value: typed result
  /\ UNCHANGED root /\ emb' = FALSE
  /\ CASE e.kind = "str"    -> cur' = [t |-> "str", s |-> e.text] /\ UNCHANGED <<wrap, phase>>
       [] e.kind = "scalar" -> cur' = [t |-> "yaml", s |-> e.text] /\ phase' = "done" /\ UNCHANGED wrap
       [] e.kind = "map"    -> cur' = [t |-> "str", s |-> e.leaf] /\ wrap' = Append(wrap, [w |-> "map", k |-> e.key]) /\ UNCHANGED phase
       [] e.kind = "list"   -> cur' = [t |-> "str", s |-> e.leaf] /\ wrap' = Append(wrap, [w |-> "list", k |-> ""]) /\ UNCHANGED phase

\* P: a non-empty set of reference pairs with the same content, rewritten together
Rewrite(P) ==
  /\ phase = "run" /\ cur.t = "str"
  /\ LET s  == cur.s
         p0 == CHOOSE p \in P : TRUE
         lk == Lookup(Content(s, p0), root.def, root.tab)
     IN  IF lk.err # "" THEN Fail(lk.err)
         ELSE IF P = {<<1, Len(s)>>}
              THEN \/ Whole(lk.e)
                   \/ emb /\ cur' = [t |-> "str", s |-> lk.e.text] /\ UNCHANGED <<root, wrap, phase, emb>>      \* (U2)
         ELSE cur' = [t |-> "str", s |-> Subst(s, P, lk.e.text, 1)] /\ emb' = TRUE /\ UNCHANGED <<root, wrap, phase>>

Finish ==
  /\ phase = "run" /\ cur.t = "str"
  /\ Mandatory(cur.s, root.def) = {}
  /\ cur' = [t |-> "str", s |-> Unesc(cur.s, 1)] /\ phase' = "done" /\ UNCHANGED <<root, wrap, emb>>

\* a "${NAME}" that is not a reference (no default scheme) sits inside an unescaped "${ ... :... }"
NonRefNested ==
  /\ phase = "run" /\ cur.t = "str" /\ ~root.def
  /\ \E p \in ReadyPairs(cur.s) \ RefPairs(cur.s, FALSE) :
       \E i0 \in 1..(p[1] - 1) : \E j2 \in (p[2] + 1)..Len(cur.s) :
          /\ UnescOpen(cur.s, i0) /\ cur.s[j2] = "}"
          /\ \A m \in i0..p[1] : cur.s[m] # "}"
          /\ HasColon(SubSeq(cur.s, i0 + 2, j2 - 1))
OptNonRefErr == NonRefNested /\ Fail("dollar")                                      \* (U3)

SameContent(s, P) == \A p, q \in P : Content(s, p) = Content(s, q)
\* the full step relation (parallel rewriting of equal references is a sequence of single rewrites)
Next == \/ \E P \in (SUBSET RefPairs(cur.s, root.def)) \ {{}} : SameContent(cur.s, P) /\ Rewrite(P)
        \/ Finish
        \/ OptNonRefErr
\* the same reachable final values with single rewrites only (used for enumeration)
NextSingle == \/ \E p \in RefPairs(cur.s, root.def) : Rewrite({p})
              \/ Finish
              \/ OptNonRefErr

Init == /\ \E s \in Roots, d \in Defs, t \in Tabs : root = [tab |-> t, def |-> d, s |-> s]
        /\ cur = [t |-> "str", s |-> root.s] /\ wrap = <<>> /\ phase = "run" /\ emb = FALSE

Spec == Init /\ [][NextSingle]_vars

-----------------------------------------------------------------------------
(* Clauses of the statement, as invariants over the final states of every root. *)
TypeOK == /\ phase \in {"run", "done"} /\ cur.t \in {"str", "yaml", "err"}
          /\ Range(cur.s) \subseteq Atoms \cup {"uri", "dollar", "provider", "cycle"}
          /\ Len(wrap) <= 1
Done == phase = "done"
HasPairDD(s) == \E i \in 1..(Len(s) - 1) : s[i] = "$" /\ s[i + 1] = "$"
HasComplete(s) == \E i \in 1..Len(s) : IsOpen(s, i) /\ FirstClose(s, i) > 0

\* "text containing neither a complete reference nor $$ is unchanged"
UnchangedClause == Done /\ ~HasPairDD(root.s) /\ ~HasComplete(root.s) => cur = [t |-> "str", s |-> root.s] /\ wrap = <<>>
\* "$$ yields one literal $" (texts without braces: only un-escaping happens)
EscapeClause == Done /\ "{" \notin Range(root.s) => cur = [t |-> "str", s |-> Unesc(root.s, 1)]
\* "... and protects the following text from expansion": an escaped reference at the start stays text
ProtectClause == Done /\ Len(root.s) >= 3 /\ SubSeq(root.s, 1, 3) = <<"$", "$", "{">> /\ cur.t = "str" /\ wrap = <<>>
                   => Len(cur.s) >= 2 /\ SubSeq(cur.s, 1, 2) = <<"$", "{">>
\* "typed when the reference is the whole value"
TypedClause == \A n \in Names : Done /\ root.s = Ref(n) /\ Table[root.tab][n].kind = "scalar"
                   => cur = [t |-> "yaml", s |-> Table[root.tab][n].text]
\* "reporting an error for reference cycles"
CycleClause == \A n \in Names : Done /\ root.s = Ref(n) /\ Cyclic(root.tab, n) => cur.t = "err"
\* "... and for references whose name itself contains $"
DollarClause == Done /\ Len(root.s) >= 5 /\ SubSeq(root.s, 1, 3) = <<"$", "{", "env:">> /\ root.s[Len(root.s)] = "}"
                  /\ (LET mid == SubSeq(root.s, 4, Len(root.s) - 1) IN "$" \in Range(mid) /\ "{" \notin Range(mid) /\ "}" \notin Range(mid))
                  => cur.t = "err"
=============================================================================
