------------------------------ MODULE ConfReload ------------------------------
(* C12 -- histories of resolutions on ONE confmap.Resolver (configuration reload: Resolve, the providers' values
   change, Resolve again).  The statement says what a resolution yields as a function of the sources and of "what the
   provider returns"; nothing a previous resolution saw may influence it.  ConfResolve.tla specifies one resolution in
   full (escapes, typed / embedded references, cycles); this module abstracts a provider value to a literal or a
   reference to another name and specifies the history dimension:

     SetValue(n, v)   the environment / file behind a provider changes
     Resolve          what the real Resolver does: closeIfNeeded, retrieve the root, expand references to a fixpoint

   Memo = FALSE is the design of the tree (every reference asks its provider again in every resolution).  Memo = TRUE
   is the memoising variant of seeded change C12-5 (a per-URI cache of retrieved values that is never dropped): TLC
   must refute HistoryFree for it (negative control run inside checks/C12.py).

   Binding: harness/confmap resolves every generated scalar a second time on a Resolver that has ALREADY resolved the
   same document under other provider values (every name -> a plain literal), and compares with the same admissible
   outcomes of ConfResolve.tla. *)
EXTENDS Integers, FiniteSets, TLC

CONSTANTS Names,      \* provider entries
          Lits,       \* literal values
          MaxSteps,   \* bound on the length of a history
          Memo        \* TRUE: retrieved values are cached per name across resolutions (the refuted design)

Lit(x) == <<"lit", x>>
Ref(n) == <<"ref", n>>
None == <<"none", "">>
Cycle == <<"cycle", "">>
Vals == {Lit(x) : x \in Lits} \cup {Ref(n) : n \in Names}     \* a provider value: a literal, or a reference to another entry
VARIABLES env,        \* Names -> Vals : what each provider entry returns NOW
          root,       \* the name the document refers to
          cache,      \* Names -> Vals \cup {None} : the memoising variant's cache
          result,     \* outcome of the last Resolve (None before the first)
          envAt,      \* history: env at the moment of the last Resolve
          steps
vars == <<env, root, cache, result, envAt, steps>>

IsRef(v) == v[1] = "ref"
\* Eval(e, n): follow references from n in table e; "cycle" after more steps than there are names
RECURSIVE Follow(_, _, _)
Follow(e, n, k) == IF k = 0 THEN Cycle ELSE IF IsRef(e[n]) THEN Follow(e, e[n][2], k - 1) ELSE e[n]
Eval(e, n) == Follow(e, n, Cardinality(Names) + 1)

Init == /\ env \in [Names -> Vals] /\ root \in Names
        /\ cache = [n \in Names |-> None] /\ result = None /\ envAt = env /\ steps = 0

SetValue(n, v) == /\ steps < MaxSteps /\ env[n] # v
                  /\ env' = [env EXCEPT ![n] = v] /\ steps' = steps + 1
                  /\ UNCHANGED <<root, cache, result, envAt>>

\* one resolution; with Memo the value retrieved for a name is taken from the cache when present
RECURSIVE Walk(_, _, _, _)
Walk(e, c, n, k) ==     \* returns <<value, cache'>>
  IF k = 0 THEN <<Cycle, c>>
  ELSE LET v  == IF Memo /\ c[n] # None THEN c[n] ELSE e[n]
           c2 == IF Memo THEN [c EXCEPT ![n] = v] ELSE c
       IN IF IsRef(v) THEN Walk(e, c2, v[2], k - 1) ELSE <<v, c2>>

Resolve == /\ steps < MaxSteps
           /\ LET w == Walk(env, cache, root, Cardinality(Names) + 1)
              IN result' = w[1] /\ cache' = w[2]
           /\ envAt' = env /\ steps' = steps + 1
           /\ UNCHANGED <<env, root>>

Next == Resolve \/ \E n \in Names, v \in Vals : SetValue(n, v)
Spec == Init /\ [][Next]_vars

\* every resolution yields exactly what the providers return at the time of THAT resolution
HistoryFree == result # None => result = Eval(envAt, root)
TypeOK == result \in {Lit(x) : x \in Lits} \cup {None, Cycle}
=============================================================================
