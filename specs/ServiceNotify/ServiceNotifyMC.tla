--------------------------- MODULE ServiceNotifyMC ---------------------------
(* Exhaustive configurations of ServiceNotify.tla. *)
EXTENDS ServiceNotify
Seq2 == <<"x1", "x2">>
Seq3 == <<"x1", "x2", "x3">>
=============================================================================
