--------------------------- MODULE ServiceNotifyMC ---------------------------
(* Exhaustive configurations of ServiceNotify.tla. *)
EXTENDS ServiceNotify
Seq1 == <<"x1">>
Seq2 == <<"x1", "x2">>
Seq3 == <<"x1", "x2", "x3">>
=============================================================================
