SPECIFICATION TSpec
INVARIANT Verdict
CHECK_DEADLOCK FALSE
