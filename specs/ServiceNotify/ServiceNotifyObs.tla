-------------------------- MODULE ServiceNotifyObs --------------------------
(* E04 (extra, beyond the listed properties) -- what a service tells its EXTENSIONS, and when.

   Observable layer and THE STATEMENT.  Everything the statement talks about is a call the service makes
   on a component: Start / Shutdown of extensions and of pipeline components, and the capability callbacks
   of extensions (extension/extensioncapabilities, component/componentstatus):
       PipelineWatcher.Ready / NotReady, ConfigWatcher.NotifyConfig, componentstatus.Watcher.ComponentStatusChanged.
   The observations are kept in ONE record `o`, updated through the O... operators
     * by the implementation-shaped model (ServiceNotify.tla)          -> exhaustive design check,
     * by the monitor (ServiceNotifyTrace.tla) from the call log of a REAL service -> the verdict.
   A clause that is found broken when an event arrives is added to o.bad (the monitor reports the set).

   Written from the documentation only:
     extensioncapabilities.PipelineWatcher:
        "Ready notifies the Extension that all pipelines were built and the receivers were started, i.e.:
         the service is ready to receive data"
        "NotReady notifies the Extension that all receivers are about to be stopped ... This is sent before
         receivers are stopped"
     extensioncapabilities.ConfigWatcher:
        "NotifyConfig notifies the extension of the Collector's current effective configuration.  The
         extension owns the confmap.Conf ..."
     extensioncapabilities.Dependent: "must be started only after their dependencies"
     component.Component: "The component's lifecycle is completed once the Shutdown() method returns.  No
         other methods of the component are called after that."
   LEFT OPEN (the documentation is silent; the model is as free as the code, nothing is reported):
     - the order in which extensions are notified; whether NotReady is sent when Ready never was (after a
       failed start-up the code does send it); whether callbacks may reach an extension whose Start was never
       called or failed (the code does that for NotReady after a failed start-up);
     - what an error returned by a callback does (the code: Ready / NotifyConfig errors abort start-up,
       NotReady errors are collected into the error of Shutdown).                                         *)
EXTENDS Integers, FiniteSets, Sequences

ObsInit(X, R, C, PW, CW, SW) ==
  [ exts |-> X, rcvs |-> R, comps |-> C,   \* extensions; receivers; all pipeline components (R \subseteq C)
    pw |-> PW, cw |-> CW, sw |-> SW,       \* extensions implementing PipelineWatcher / ConfigWatcher / status Watcher
    xStartOK  |-> {},      \* extensions whose Start returned nil
    xStopCall |-> {},      \* extensions whose Shutdown has been called
    xStopRet  |-> {},      \* extensions whose Shutdown has returned
    cStartOK  |-> {},      \* pipeline components whose Start returned nil
    cStopCall |-> {},      \* pipeline components whose Shutdown has been called
    ready     |-> {}, notready |-> {}, config |-> {},   \* extensions that received the callback
    svcStart  |-> "none", svcStop |-> "none",           \* "none" | "ok" | "failed"
    bad       |-> {} ]     \* names of the clauses found broken so far

Mark(o, names) == [o EXCEPT !.bad = @ \cup names]
If(c, name) == IF c THEN {name} ELSE {}
\* every callback: "No other methods of the component are called after [Shutdown returned]"
Late(o, x) == If(x \in o.xStopRet, "NoCallAfterShutdown")

OExtStartEnd(o, x, ok)   == [o EXCEPT !.xStartOK = IF ok THEN @ \cup {x} ELSE @]
OExtStop(o, x)           == [o EXCEPT !.xStopCall = @ \cup {x}]
OExtStopEnd(o, x)        == [o EXCEPT !.xStopRet = @ \cup {x}]
OCompStartEnd(o, c, ok)  == [o EXCEPT !.cStartOK = IF ok THEN @ \cup {c} ELSE @]
OCompStop(o, c)          == [o EXCEPT !.cStopCall = @ \cup {c}]

\* "all pipelines were built and the receivers were started": every pipeline component has been started
OReady(o, x) ==
  Mark([o EXCEPT !.ready = @ \cup {x}],
       If(~(o.comps \subseteq o.cStartOK), "ReadyAfterAllStarted") \cup If(x \in o.ready, "ReadyOnce") \cup Late(o, x))
\* "sent before receivers are stopped"
ONotReady(o, x) ==
  Mark([o EXCEPT !.notready = @ \cup {x}],
       If(o.rcvs \cap o.cStopCall # {}, "NotReadyBeforeReceiversStop") \cup If(x \in o.notready, "NotReadyOnce") \cup Late(o, x))
\* equal: the notified configuration equals the collector configuration the service was given;
\* own: it is a copy of its own (changing it is not seen by the other extensions nor by the service)
ONotifyConfig(o, x, equal, own) ==
  Mark([o EXCEPT !.config = @ \cup {x}],
       If(~equal, "ConfigFaithful") \cup If(~own, "ConfigOwned") \cup If(x \in o.config, "ConfigOnce") \cup Late(o, x))
OStatusChanged(o, x) == Mark(o, Late(o, x))

\* service.Start returned: if nil, the service "is ready to receive data" -- every watcher has been told so, and
\* every ConfigWatcher knows the configuration (when the service was given one)
OSvcStartEnd(o, ok, hasConf) ==
  Mark([o EXCEPT !.svcStart = IF ok THEN "ok" ELSE "failed"],
       If(ok /\ ~(o.pw \subseteq o.ready), "RunningImpliesReady") \cup
       If(ok /\ hasConf /\ ~(o.cw \subseteq o.config), "RunningImpliesConfig") \cup
       If(ok /\ ~(o.exts \subseteq o.xStartOK /\ o.comps \subseteq o.cStartOK), "RunningImpliesStarted"))
\* service.Shutdown returned: every watcher that had been told Ready has been told NotReady
OSvcStopEnd(o, ok) ==
  Mark([o EXCEPT !.svcStop = IF ok THEN "ok" ELSE "failed"],
       If(~(o.ready \subseteq o.notready), "NotReadyFollowsReady"))

Clauses == {"ReadyAfterAllStarted", "ReadyOnce", "NotReadyBeforeReceiversStop", "NotReadyOnce", "ConfigFaithful", "ConfigOwned",
            "ConfigOnce", "NoCallAfterShutdown", "RunningImpliesReady", "RunningImpliesConfig", "RunningImpliesStarted",
            "NotReadyFollowsReady"}
=============================================================================
