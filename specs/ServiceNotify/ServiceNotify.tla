---------------------------- MODULE ServiceNotify ----------------------------
(* E04 (extra) -- implementation-shaped model of service.Start / service.Shutdown as far as EXTENSIONS are
   concerned: service/service.go (Start, Shutdown), service/extensions/extensions.go (Start, Shutdown,
   NotifyPipelineReady, NotifyPipelineNotReady, NotifyConfig, NotifyComponentStatusChange), service/host.go
   (status events of every component are forwarded to the watcher extensions synchronously), one action per
   call the service makes on a component.  The pipeline is fixed (receivers Rcvs -> "p1" -> "e1"); the order
   inside graph.StartAll / ShutdownAll is the subject of Lifecycle.tla (C10), here only "receivers last / first".

   The configuration part is chosen in the initial state: which extensions implement which capability, the
   declared dependencies, the order extensions.New computed (any topological order), whether the service was
   given a collector configuration, and which calls fail (<= MaxFail of them).

   NotifyStopped = TRUE is the pinned tree: a status event is forwarded to EVERY watcher extension, also to one
   whose Shutdown has already returned (extensions are shut down one after the other, each shutdown produces
   Stopping / Stopped events).  TLC finds NoCallAfterShutdown broken for it (see checks/E04.py: recorded, and the
   real service shows it).  NotifyStopped = FALSE models the proposed repair (extras/fixes/E04-*.patch).     *)
EXTENDS ServiceNotifyObs, TLC

CONSTANTS Exts,          \* extension ids
          ExtSeq,        \* the same as a sequence: a dependency x -> y is only declared for y earlier in ExtSeq (acyclic)
          Rcvs,          \* receiver ids
          MaxFail,       \* bound on the number of failing calls
          NotifyStopped  \* see above

Others == {"p1", "e1"}
Comps  == Rcvs \cup Others

Calls == ({"start", "shutdown", "ready", "notready", "config"} \X Exts) \cup ({"cstart", "cshutdown"} \X Comps)

VARIABLES PW, CW, SW,   \* capability sets
          deps,         \* deps[x]: extensions that must be started before x
          order,        \* the order extensions.New computed
          hasConf,      \* the service was given a collector configuration
          fail,         \* failing calls
          pc,           \* "xstart" | "config" | "cstart" | "ready" | "startret" | "notready" | "cstop" | "xstopcall" | "xstopret" | "stopret" | "done"
          i,            \* position in `order` (extension loops)
          err,          \* an error has been collected in the current phase / by Start
          cdone,        \* pipeline components handled in the current phase
          o             \* observations (ServiceNotifyObs)
vars == <<PW, CW, SW, deps, order, hasConf, fail, pc, i, err, cdone, o>>
cvars == <<PW, CW, SW, deps, order, hasConf, fail>>

Pos(x)   == CHOOSE k \in DOMAIN ExtSeq : ExtSeq[k] = x
Perms(S) == {s \in [1..Cardinality(S) -> S] : \A a, b \in DOMAIN s : a # b => s[a] # s[b]}
IsTopo(s, d) == \A a, b \in DOMAIN s : s[b] \in d[s[a]] => b < a
\* subsets with at most MaxFail (<= 2) elements, without enumerating SUBSET S
Small(S) == {T \in ({{}} \cup {{a} : a \in S} \cup {{ab[1], ab[2]} : ab \in S \X S}) : Cardinality(T) <= MaxFail}

Init ==
  /\ PW \in SUBSET Exts /\ CW \in SUBSET Exts /\ SW \in SUBSET Exts
  /\ deps \in [Exts -> SUBSET Exts] /\ \A x \in Exts : \A y \in deps[x] : Pos(y) < Pos(x)
  /\ order \in {s \in Perms(Exts) : IsTopo(s, deps)}
  /\ hasConf \in BOOLEAN
  /\ fail \in Small(Calls)
  /\ pc = "xstart" /\ i = 1 /\ err = FALSE /\ cdone = {}
  /\ o = ObsInit(Exts, Rcvs, Comps, PW, CW, SW)

Fails(k, n) == <<k, n>> \in fail
\* a status event (Starting, OK, PermanentError, Stopping, Stopped) of some component is forwarded to the watchers
Deliver(ob) == LET T == IF NotifyStopped THEN SW ELSE SW \ ob.xStopCall
               IN Mark(ob, UNION {Late(ob, x) : x \in T})

\* ---- service.Start
\* extensions.Start: in order, return at the first error
XStart == /\ pc = "xstart" /\ i <= Len(order)
          /\ LET x == order[i] ok == ~Fails("start", x)
             IN /\ o' = Deliver(OExtStartEnd(Deliver(o), x, ok))        \* Starting ... OK / PermanentError
                /\ IF ok THEN pc' = pc /\ i' = i + 1 /\ err' = err
                   ELSE pc' = "startret" /\ i' = i /\ err' = TRUE
          /\ UNCHANGED <<cvars, cdone>>
XStartDone == /\ pc = "xstart" /\ i > Len(order)
              /\ pc' = (IF hasConf THEN "config" ELSE "cstart") /\ i' = 1
              /\ UNCHANGED <<cvars, err, cdone, o>>
\* extensions.NotifyConfig: every ConfigWatcher, errors collected; then Start returns if there was one
Config == /\ pc = "config" /\ i <= Len(order)
          /\ LET x == order[i]
             IN IF x \in CW THEN o' = ONotifyConfig(o, x, TRUE, TRUE) /\ err' = (err \/ Fails("config", x))
                ELSE o' = o /\ err' = err
          /\ i' = i + 1 /\ UNCHANGED <<cvars, pc, cdone>>
ConfigDone == /\ pc = "config" /\ i > Len(order)
              /\ pc' = IF err THEN "startret" ELSE "cstart"
              /\ UNCHANGED <<cvars, i, err, cdone, o>>
\* graph.StartAll: exporter, processor, then the receivers (any order); return at the first error
CStartable == IF "e1" \notin cdone THEN {"e1"} ELSE IF "p1" \notin cdone THEN {"p1"} ELSE Rcvs \ cdone
CStart(c) == /\ pc = "cstart" /\ c \in CStartable
             /\ LET ok == ~Fails("cstart", c)
                IN /\ o' = Deliver(OCompStartEnd(Deliver(o), c, ok))
                   /\ cdone' = cdone \cup {c}
                   /\ IF ok THEN pc' = pc /\ err' = err ELSE pc' = "startret" /\ err' = TRUE
             /\ UNCHANGED <<cvars, i>>
CStartDone == /\ pc = "cstart" /\ cdone = Comps
              /\ pc' = "ready" /\ i' = 1 /\ UNCHANGED <<cvars, err, cdone, o>>
\* extensions.NotifyPipelineReady: in order, return at the first error
Ready == /\ pc = "ready" /\ i <= Len(order)
         /\ LET x == order[i]
            IN IF x \in PW
               THEN /\ o' = OReady(o, x)
                    /\ IF Fails("ready", x) THEN pc' = "startret" /\ err' = TRUE /\ i' = i
                       ELSE pc' = pc /\ err' = err /\ i' = i + 1
               ELSE o' = o /\ pc' = pc /\ err' = err /\ i' = i + 1
         /\ UNCHANGED <<cvars, cdone>>
ReadyDone == /\ pc = "ready" /\ i > Len(order)
             /\ pc' = "startret" /\ UNCHANGED <<cvars, i, err, cdone, o>>
\* service.Start returns; its caller (otelcol) calls service.Shutdown whether it failed or not (here: at once)
StartRet == /\ pc = "startret"
            /\ o' = OSvcStartEnd(o, ~err, hasConf)
            /\ pc' = "notready" /\ i' = 1 /\ err' = FALSE /\ cdone' = {}
            /\ UNCHANGED cvars

\* ---- service.Shutdown: errors are collected, everything is called
NotReady == /\ pc = "notready" /\ i <= Len(order)
            /\ LET x == order[i]
               IN IF x \in PW THEN o' = ONotReady(o, x) /\ err' = (err \/ Fails("notready", x))
                  ELSE o' = o /\ err' = err
            /\ i' = i + 1 /\ UNCHANGED <<cvars, pc, cdone>>
NotReadyDone == /\ pc = "notready" /\ i > Len(order)
                /\ pc' = "cstop" /\ UNCHANGED <<cvars, i, err, cdone, o>>
\* graph.ShutdownAll: the receivers (any order), then processor, exporter
CStoppable == IF Rcvs \ cdone # {} THEN Rcvs \ cdone ELSE IF "p1" \notin cdone THEN {"p1"} ELSE {"e1"} \ cdone
CStop(c) == /\ pc = "cstop" /\ c \in CStoppable
            /\ o' = Deliver(OCompStop(Deliver(o), c))
            /\ cdone' = cdone \cup {c} /\ err' = (err \/ Fails("cshutdown", c))
            /\ UNCHANGED <<cvars, pc, i>>
CStopDone == /\ pc = "cstop" /\ cdone = Comps
             /\ pc' = "xstopcall" /\ i' = Len(order) /\ UNCHANGED <<cvars, err, cdone, o>>
\* extensions.Shutdown: the whole order backwards; Stopping is reported before the call, Stopped / PermanentError after it
XStopCall == /\ pc = "xstopcall" /\ i >= 1
             /\ o' = OExtStop(Deliver(o), order[i])
             /\ pc' = "xstopret" /\ UNCHANGED <<cvars, i, err, cdone>>
XStopRet == /\ pc = "xstopret"
            /\ o' = Deliver(OExtStopEnd(o, order[i]))
            /\ err' = (err \/ Fails("shutdown", order[i]))
            /\ pc' = "xstopcall" /\ i' = i - 1 /\ UNCHANGED <<cvars, cdone>>
XStopDone == /\ pc = "xstopcall" /\ i = 0
             /\ o' = OSvcStopEnd(o, ~err) /\ pc' = "done"
             /\ UNCHANGED <<cvars, i, err, cdone>>

Next == XStart \/ XStartDone \/ Config \/ ConfigDone \/ (\E c \in Comps : CStart(c)) \/ CStartDone
        \/ Ready \/ ReadyDone \/ StartRet
        \/ NotReady \/ NotReadyDone \/ (\E c \in Comps : CStop(c)) \/ CStopDone \/ XStopCall \/ XStopRet \/ XStopDone
Spec == Init /\ [][Next]_vars

\* ---- the statement, as an invariant of the design
NothingBroken == o.bad = {}
\* every lifetime comes to its end
NoStuck == pc # "done" => ENABLED Next
\* the dependency order is the subject of C10; restated here because this model fixes `order` itself
DepsFirst == \A x \in o.xStartOK : \A y \in deps[x] : y \in o.xStartOK
=============================================================================
