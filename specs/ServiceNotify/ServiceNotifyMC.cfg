SPECIFICATION Spec
CONSTANTS
  Exts = {"x1", "x2"}
  ExtSeq <- Seq2
  Rcvs = {"r1", "r2"}
  MaxFail = 1
  NotifyStopped = FALSE
INVARIANTS NothingBroken NoStuck DepsFirst
CHECK_DEADLOCK FALSE
