--------------------------- MODULE ServiceNotifyGen ---------------------------
(* Script generator for E04: prints every configuration part of ServiceNotify.tla (capabilities, dependencies,
   whether the service is given a collector configuration, failing calls) -- the initial states; the run of a
   lifetime is deterministic up to the order of the receivers.  checks/E04.py samples from them with the seed
   and runs each on a real service (harness/svcnotify). *)
EXTENDS ServiceNotifyMC, Json
GenSpec == Init /\ [][FALSE]_vars
Emit == PrintT(<<"BEH", ToJson([pw |-> PW, cw |-> CW, sw |-> SW, deps |-> deps, conf |-> hasConf, fail |-> fail])>>)
=============================================================================
