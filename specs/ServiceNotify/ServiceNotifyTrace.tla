-------------------------- MODULE ServiceNotifyTrace --------------------------
(* E04 -- monitor: the clauses of ServiceNotifyObs evaluated by TLC on call logs recorded from a REAL service
   (harness/svcnotify).  observed.ndjson holds many lifetimes, each starting with a `reset` line; every line
   has every field (checks/E04.py normalises).

     ev             fields          observation
     reset          id, exts, rcvs, comps, pw, cw, sw     a new lifetime
     xstart_end     n, ok           Start of extension n returned
     xstop / xstop_end   n          Shutdown of extension n called / returned
     cstart_end     n, ok           Start of pipeline component n returned
     cstop          n               Shutdown of pipeline component n called
     ready / notready    n          PipelineWatcher callback on extension n
     config         n, equal, own   ConfigWatcher callback on n (equal: content equals the collector configuration;
                                    own: a change made to it by n is not seen by anybody else)
     status         n               ComponentStatusChanged called on extension n
     svc_start_end  ok, conf        service.Start returned (conf: the service was given a configuration)
     svc_stop_end   ok              service.Shutdown returned

   Deterministic: one behaviour, one state per line; the clauses broken in each lifetime are collected and
   printed once at the end.                                                                               *)
EXTENDS ServiceNotifyObs, TLC, Json

Log == ndJsonDeserialize("observed.ndjson")
VARIABLES l, o, tid, viol
tvars == <<l, o, tid, viol>>
ToSet(s) == {s[k] : k \in 1..Len(s)}

Apply(ob, e) ==
  CASE e.ev = "reset"         -> ObsInit(ToSet(e.exts), ToSet(e.rcvs), ToSet(e.comps), ToSet(e.pw), ToSet(e.cw), ToSet(e.sw))
    [] e.ev = "xstart_end"    -> OExtStartEnd(ob, e.n, e.ok)
    [] e.ev = "xstop"         -> OExtStop(ob, e.n)
    [] e.ev = "xstop_end"     -> OExtStopEnd(ob, e.n)
    [] e.ev = "cstart_end"    -> OCompStartEnd(ob, e.n, e.ok)
    [] e.ev = "cstop"         -> OCompStop(ob, e.n)
    [] e.ev = "ready"         -> OReady(ob, e.n)
    [] e.ev = "notready"      -> ONotReady(ob, e.n)
    [] e.ev = "config"        -> ONotifyConfig(ob, e.n, e.equal, e.own)
    [] e.ev = "status"        -> OStatusChanged(ob, e.n)
    [] e.ev = "svc_start_end" -> OSvcStartEnd(ob, e.ok, e.conf)
    [] e.ev = "svc_stop_end"  -> OSvcStopEnd(ob, e.ok)
    [] OTHER                  -> ob

TInit == l = 1 /\ o = ObsInit({}, {}, {}, {}, {}, {}) /\ tid = "" /\ viol = <<>>

RECURSIVE AppendAll(_, _)
AppendAll(s, set) == IF set = {} THEN s
                     ELSE LET x == CHOOSE y \in set : TRUE IN AppendAll(Append(s, x), set \ {x})
TNext ==
  /\ l <= Len(Log)
  /\ LET e   == Log[l]
         ob  == Apply(o, e)
         id  == IF e.ev = "reset" THEN e.id ELSE tid
         new == {c \in ob.bad : ~\E k \in 1..Len(viol) : viol[k].t = id /\ viol[k].c = c}
     IN /\ o' = ob /\ tid' = id /\ l' = l + 1
        /\ viol' = AppendAll(viol, {[t |-> id, c |-> c, l |-> l] : c \in new})
TSpec == TInit /\ [][TNext]_tvars
Verdict == l = Len(Log) + 1 => PrintT(<<"VERDICT", ToJson([lines |-> Len(Log), viol |-> viol])>>)
=============================================================================
