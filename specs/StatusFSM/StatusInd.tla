------------------------------ MODULE StatusInd ------------------------------
(* Unbounded safety of StatusFSM with Apalache: FsmInvariant (every clause of the statement over the delivered
   events, plus CurIsLast) is an INDUCTIVE invariant -- it holds initially and is preserved by every report from ANY state
   that satisfies it, whatever the length of the history (TLC only explores histories up to a bound).
     apalache-mc check --init=FsmInit --inv=FsmInvariant --length=0 StatusInd.tla
     apalache-mc check --init=IndInit --inv=FsmInvariant --length=1 StatusInd.tla *)
EXTENDS StatusFSM

CInst == {"i1", "i2"}
\* an arbitrary state satisfying the invariant (histories up to 4 events are enough to contain every pair pattern;
\* the invariant only constrains consecutive pairs and the head)
IndInit ==
  /\ cur \in [Inst -> Status]
  /\ \E n1, n2 \in 0..4 :
       \E a1, a2, a3, a4, b1, b2, b3, b4 \in Status :
         delivered = [i \in Inst |-> IF i = "i1" THEN SubSeq(<<a1, a2, a3, a4>>, 1, n1) ELSE SubSeq(<<b1, b2, b3, b4>>, 1, n2)]
  /\ FsmInvariant
=============================================================================
