---------------------------- MODULE StatusSvcTrace ----------------------------
(* C11 at service level: status events delivered to a StatusWatcher extension by a REAL service (graph.go, host.go,
   extensions.go, status.go) whose components also report statuses from their own goroutines.  The interleaving of
   automatic and component reports is the scheduler's: every delivered event must be a legal step of the instance's
   state machine from its current status (so each instance's sequence is a path of the diagram: begins with Starting,
   never repeats, PermanentError only to Stopping, nothing after FatalError / Stopped). *)
EXTENDS StatusFSM, TLC, Json

Log == ndJsonDeserialize("observed.ndjson")
VARIABLE l
svars == <<fsmVars, l>>
E == Log[l]

VInit == FsmInit /\ l = 1
VReset == /\ l <= Len(Log) /\ E.ev = "reset" /\ l' = l + 1
          /\ cur' = [i \in Inst |-> "None"] /\ delivered' = [i \in Inst |-> <<>>]
VEvent == /\ l <= Len(Log) /\ E.ev = "event" /\ l' = l + 1
          /\ E.inst \in Inst
          /\ Outcome(E.inst, E.st) = E.st          \* a legal transition from the current status ...
          /\ Report(E.inst, E.st)                  \* ... taken
VSkip == /\ l <= Len(Log) /\ E.ev \in {"end", "note"} /\ l' = l + 1 /\ UNCHANGED fsmVars
VNext == VReset \/ VEvent \/ VSkip
VSpec == VInit /\ [][VNext]_svars
\* on rejection the diameter stops at the offending line
Accepted == IF TLCGet("stats").diameter - 1 = Len(Log) THEN TRUE
            ELSE PrintT(<<"REJECTED_AT", TLCGet("stats").diameter, Len(Log)>>) /\ FALSE
=============================================================================
