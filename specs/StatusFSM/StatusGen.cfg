SPECIFICATION GenSpec
CONSTANTS
  Inst = {"i1"}
  N = 3
INVARIANT Emit
INVARIANT FsmInvariant
CHECK_DEADLOCK FALSE
