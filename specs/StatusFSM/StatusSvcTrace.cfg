SPECIFICATION VSpec
CONSTANTS
  Inst = {"receiver", "processor", "exporter", "extension"}
INVARIANT FsmInvariant
POSTCONDITION Accepted
CHECK_DEADLOCK FALSE
