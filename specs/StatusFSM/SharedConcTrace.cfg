SPECIFICATION CSpec
POSTCONDITION AllConsumed
CHECK_DEADLOCK FALSE
