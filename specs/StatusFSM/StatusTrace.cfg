SPECIFICATION TSpec
CONSTANTS
  Inst = {"i1", "i2", "i3"}
CONSTRAINT HighWater
INVARIANT FsmInvariant
POSTCONDITION Accepted
CHECK_DEADLOCK FALSE
