CONSTANT Inst <- CInst
INIT FsmInit
NEXT FsmNext
INVARIANT FsmInvariant
