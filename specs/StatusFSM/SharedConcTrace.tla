---------------------------- MODULE SharedConcTrace ----------------------------
(* C11, shared component under concurrency: the component reports statuses from its own goroutine while a second
   logical instance attaches (Start with another host).  Recorded per round: R = the statuses the component reported, in
   order; Q1 / Q2 = what the wrapper handed to the instance attached from the start / to the late instance.

   "A shared component delivers its status to every instance it represents": the first instance is handed Starting and
   then every report; the late instance is handed the remembered history (the last 5 events) as of SOME point k of the
   report sequence, and every report after that point, in order -- whatever the schedule.  No search: an existential
   over k. *)
EXTENDS Naturals, Sequences, TLC, Json

Log == ndJsonDeserialize("observed.ndjson")
VARIABLE l
E == Log[l]

Last5(s) == IF Len(s) <= 5 THEN s ELSE SubSeq(s, Len(s) - 4, Len(s))
All(r) == <<"Starting">> \o r                           \* everything the wrapper was asked to deliver
Late(r, k) == Last5(SubSeq(All(r), 1, k)) \o SubSeq(All(r), k + 1, Len(All(r)))
Explained(r, q1, q2) == /\ q1 = All(r)
                        /\ \E k \in 1..Len(All(r)) : q2 = Late(r, k)
Report(d) == PrintT(<<"BEH", ToJson(d)>>)

CInit == l = 1
CNext == /\ l <= Len(Log) /\ l' = l + 1
         /\ (E.ev = "round" /\ ~Explained(E.r, E.q1, E.q2)) => Report([line |-> l, r |-> E.r, q1 |-> E.q1, q2 |-> E.q2])
CSpec == CInit /\ [][CNext]_l
AllConsumed == TLCGet("stats").diameter - 1 = Len(Log)
=============================================================================
