------------------------------ MODULE StatusGen ------------------------------
(* Behaviour generator: all report sequences of exactly Len reports over the instances, each
   step annotated with the event the specification says is delivered ("none" = no event).
   Printed as JSON from an invariant (-workers 1); replayed into status.NewReporter by
   harness/service/c11. *)
EXTENDS StatusFSM, TLC, Json
CONSTANT N              \* length of the generated sequences
VARIABLE hist           \* sequence of [i, w, ev]

GenInit == FsmInit /\ hist = <<>>
GenNext == /\ Len(hist) < N
           /\ \E i \in Inst, w \in ReportKinds :
                 /\ Report(i, w)
                 /\ hist' = Append(hist, [i |-> i, w |-> w, ev |-> Outcome(i, w)])
GenSpec == GenInit /\ [][GenNext]_<<fsmVars, hist>>
Emit == Len(hist) = N => PrintT(<<"BEH", ToJson(hist)>>)
=============================================================================
