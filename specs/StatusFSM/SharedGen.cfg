SPECIFICATION SSpec
CONSTANTS
  Inst = {"i1", "i2"}
  NSteps = 4
INVARIANT EmitShared
INVARIANT SharedPath
INVARIANT SharedDeliversToAll
CHECK_DEADLOCK FALSE
