---------------------------- MODULE SharedComponent ----------------------------
(* C11, last clause -- a component shared by several pipelines or signals
   (internal/sharedcomponent/sharedcomponent.go) delivers its status to every instance it represents.

   One real component is wrapped once; the service starts / stops it once per logical instance
   (graph.go: report Starting, call Start, report OK-if-starting or PermanentError; report Stopping,
   call Shutdown, report Stopped or PermanentError).  The first Start creates a host wrapper whose
   Report fans an event out to every attached instance's reporter and remembers the last 5 events
   in a ring; a later Start only attaches the new instance and replays the ring to it.  Every
   instance has its own state machine (StatusFSM); all operators here are functional so that one
   driver-level step (several reports) is one action.

   steps: gstart(i, fails) | report(s) | gstop(i, fails) *)
EXTENDS StatusFSM, TLC, Json

CONSTANT NSteps

VARIABLES started, stopped, sources, ring, gstarted, gstopped, hist

svars == <<fsmVars, started, stopped, sources, ring, gstarted, gstopped, hist>>

\* functional form of StatusFSM.Report on a state record [cur, del]
Tgt(S, i, w) == IF w = "okIfStarting" THEN (IF S.cur[i] = "Starting" THEN "OK" ELSE "none") ELSE w
ApplyOne(S, i, w) ==
  LET t == Tgt(S, i, w) IN
  IF t # "none" /\ t \in Allowed(S.cur[i])
    THEN [cur |-> [S.cur EXCEPT ![i] = t], del |-> [S.del EXCEPT ![i] = Append(@, t)]]
    ELSE S
RECURSIVE ApplySeq(_, _)
ApplySeq(S, rs) == IF rs = <<>> THEN S ELSE ApplySeq(ApplyOne(S, rs[1][1], rs[1][2]), Tail(rs))

Last5(s) == IF Len(s) <= 5 THEN s ELSE SubSeq(s, Len(s) - 4, Len(s))
\* hostWrapper.Report(e): remembered only if somebody listens; delivered to every source
FanOut(srcs, e) == [k \in 1..Len(srcs) |-> <<srcs[k], e>>]
WRing(srcs, rg, e) == IF Len(srcs) > 0 THEN Last5(Append(rg, e)) ELSE rg

SInit == /\ FsmInit /\ started = FALSE /\ stopped = FALSE /\ sources = <<>> /\ ring = <<>>
         /\ gstarted = {} /\ gstopped = {} /\ hist = <<>>

S0 == [cur |-> cur, del |-> delivered]
Commit(S) == cur' = S.cur /\ delivered' = S.del

\* graph start of logical instance i; the component's own Start fails iff `fails` (only matters the first time)
GStart(i, fails) ==
  /\ i \notin gstarted /\ ~stopped
  /\ gstarted' = gstarted \cup {i}
  /\ LET S1 == ApplyOne(S0, i, "Starting") IN
     IF ~started
       THEN LET srcs == <<i>>
                r1   == WRing(srcs, ring, "Starting")
                S2   == ApplySeq(S1, FanOut(srcs, "Starting"))
                r2   == IF fails THEN WRing(srcs, r1, "PermanentError") ELSE r1
                S3   == IF fails THEN ApplySeq(S2, FanOut(srcs, "PermanentError")) ELSE S2
                S4   == IF fails THEN ApplyOne(S3, i, "PermanentError") ELSE ApplyOne(S3, i, "okIfStarting")
            IN /\ started' = TRUE /\ sources' = srcs /\ ring' = r2 /\ Commit(S4)
               /\ hist' = Append(hist, [op |-> "gstart", inst |-> i, fails |-> fails, st |-> "", after |-> S4.del])
       ELSE \* later Start: attach, replay the remembered events to the new instance only; Start returns nil
            LET S2 == ApplySeq(S1, [k \in 1..Len(ring) |-> <<i, ring[k]>>])
                S3 == ApplyOne(S2, i, "okIfStarting")
            IN /\ sources' = Append(sources, i) /\ Commit(S3) /\ UNCHANGED <<started, ring>>
               /\ hist' = Append(hist, [op |-> "gstart", inst |-> i, fails |-> FALSE, st |-> "", after |-> S3.del])
  /\ UNCHANGED <<stopped, gstopped>>

\* the component reports a status through its (wrapped) host
CompReport(s) ==
  /\ started /\ ~stopped
  /\ LET S1 == ApplySeq(S0, FanOut(sources, s)) IN
     /\ Commit(S1) /\ ring' = WRing(sources, ring, s)
     /\ hist' = Append(hist, [op |-> "report", inst |-> "", fails |-> FALSE, st |-> s, after |-> S1.del])
  /\ UNCHANGED <<started, stopped, sources, gstarted, gstopped>>

\* graph shutdown of logical instance i; the component's Shutdown runs once (stopOnce) and fails iff `fails`
GStop(i, fails) ==
  /\ i \in gstarted /\ i \notin gstopped
  /\ gstopped' = gstopped \cup {i}
  /\ LET S1 == ApplyOne(S0, i, "Stopping") IN
     IF ~stopped
       THEN LET S2 == ApplySeq(S1, FanOut(sources, "Stopping"))
                fin == IF fails THEN "PermanentError" ELSE "Stopped"
                S3 == ApplySeq(S2, FanOut(sources, fin))
                S4 == ApplyOne(S3, i, fin)
            IN /\ stopped' = TRUE /\ Commit(S4)
               /\ ring' = WRing(sources, WRing(sources, ring, "Stopping"), fin)
               /\ hist' = Append(hist, [op |-> "gstop", inst |-> i, fails |-> fails, st |-> "", after |-> S4.del])
       ELSE LET S2 == ApplyOne(S1, i, "Stopped")      \* Shutdown is a no-op returning nil
            IN /\ Commit(S2) /\ UNCHANGED <<stopped, ring>>
               /\ hist' = Append(hist, [op |-> "gstop", inst |-> i, fails |-> FALSE, st |-> "", after |-> S2.del])
  /\ UNCHANGED <<started, sources, gstarted>>

SNext == /\ Len(hist) < NSteps
         /\ \/ \E i \in Inst, f \in BOOLEAN : GStart(i, f) \/ GStop(i, f)
            \/ \E s \in {"OK", "RecoverableError", "PermanentError", "FatalError"} : CompReport(s)
SSpec == SInit /\ [][SNext]_svars

----------------------------------------------------------------------------
\* every instance's delivered events are a path of the diagram (the clauses of StatusFSM)
SharedPath == FsmInvariant
\* the shared component delivers its status to EVERY instance it represents: whatever the component reports while
\* several instances are attached reaches all of them -- so attached instances agree on the current status, as long
\* as a late-attached instance could be brought up to date from the ring (at most 5 remembered events)
Attached == {sources[k] : k \in 1..Len(sources)}
ReportsSoFar == Len(SelectSeq(hist, LAMBDA h : h.op = "report")) + 2
SharedDeliversToAll == (ReportsSoFar <= 5 /\ ~stopped) => \A i, j \in Attached : cur[i] = cur[j]
EmitShared == Len(hist) = NSteps => PrintT(<<"BEH", ToJson(hist)>>)
=============================================================================
