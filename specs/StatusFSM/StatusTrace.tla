------------------------------ MODULE StatusTrace ------------------------------
(* Trace validation for C11, concurrent reporters.
   observed.ndjson (written by harness/service/c11 conc):
     {"ev":"reset","progs":[[inst,what,inst,what,...], ...]}   one program per goroutine
     {"ev":"event","inst":i,"st":s}                            recorded inside the status callback,
                                                               i.e. under the reporter mutex
     ...                                                       (next round: reset ...)
     {"ev":"end"}
   The order in which the goroutines' reports were linearised is NOT logged: TLC searches for an
   interleaving of the programs that explains the delivered events.  A report the specification
   says is illegal is a silent step; a legal report must consume the next event line.  So the
   trace is rejected exactly when the real reporter delivered an event for an illegal report,
   dropped or altered a legal one, or mixed up instances -- under the real schedule. *)
EXTENDS StatusFSM, TLC, Json

Log == ndJsonDeserialize("observed.ndjson")

VARIABLES l,      \* next line of Log
          pc,     \* per goroutine: index of its next report (1-based)
          base    \* line of the current round's reset record (0 before the first)

tvars == <<cur, delivered, l, pc, base>>

Progs == Log[base].progs
NOps(g) == Len(Progs[g]) \div 2
AllDone == base = 0 \/ \A g \in DOMAIN pc : pc[g] > NOps(g)

TInit == /\ FsmInit /\ l = 1 /\ pc = <<>> /\ base = 0 /\ TLCSet(1, 1)

TReset == /\ l <= Len(Log) /\ Log[l].ev = "reset" /\ AllDone
          /\ cur' = [i \in Inst |-> "None"] /\ delivered' = [i \in Inst |-> <<>>]
          /\ pc' = [g \in 1..Len(Log[l].progs) |-> 1]
          /\ base' = l /\ l' = l + 1

TStep(g) == /\ base > 0 /\ pc[g] <= NOps(g)
            /\ LET i == Progs[g][2 * pc[g] - 1]
                   w == Progs[g][2 * pc[g]]
                   o == Outcome(i, w)
               IN /\ Report(i, w)
                  /\ IF o = "none" THEN l' = l
                     ELSE /\ l <= Len(Log) /\ Log[l].ev = "event"
                          /\ Log[l].inst = i /\ Log[l].st = o
                          /\ l' = l + 1
            /\ pc' = [pc EXCEPT ![g] = @ + 1]
            /\ base' = base

TEnd == /\ l <= Len(Log) /\ Log[l].ev = "end" /\ AllDone
        /\ l' = l + 1 /\ UNCHANGED <<cur, delivered, pc, base>>

TNext == TReset \/ TEnd \/ \E g \in DOMAIN pc : TStep(g)
TSpec == TInit /\ [][TNext]_tvars

HighWater == IF l > TLCGet(1) THEN TLCSet(1, l) ELSE TRUE
Accepted == IF TLCGet(1) = Len(Log) + 1 THEN TRUE
            ELSE PrintT(<<"REJECTED_AT", TLCGet(1), Len(Log)>>) /\ FALSE
=============================================================================
