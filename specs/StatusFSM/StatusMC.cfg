SPECIFICATION Spec
CONSTANTS
  Inst = {"i1", "i2"}
  MaxLen = 6
CONSTRAINT Bound
INVARIANT FsmInvariant
PROPERTIES OKIfStartingOnlyFromStarting IllegalIsNoop Independent
CHECK_DEADLOCK FALSE
