------------------------------ MODULE StatusFSM ------------------------------
(* C11 -- component status reporting (service/internal/status/status.go).

   One finite state machine per component instance.  A report is one of the eight
   componentstatus values ("None" included: it can be passed to ReportStatus, it is never a
   legal target) or the service's automatic "okIfStarting".  The reporter serialises all reports
   with one mutex, so one report = one atomic action.

   Transition relation = the documented diagram (docs/component-status.md) as implemented.
   Named deviations of the implementation from the picture, kept because the property's clauses
   hold for both readings:
     * Starting -> Stopping is allowed (a component may be stopped before it reported OK);
     * Stopping -> RecoverableError / PermanentError / FatalError is allowed (shutdown failed);
     * PermanentError -> FatalError is refused (PermanentError leaves only to Stopping).
*)
EXTENDS Naturals, Sequences, FiniteSets

CONSTANTS
  \* @type: Set(Str);
  Inst           \* set of instance ids

Status == {"None", "Starting", "OK", "RecoverableError", "PermanentError",
           "FatalError", "Stopping", "Stopped"}
ReportKinds == Status \cup {"okIfStarting"}

Allowed(from) ==
  CASE from = "None"             -> {"Starting"}
    [] from = "Starting"         -> {"OK", "RecoverableError", "PermanentError", "FatalError", "Stopping"}
    [] from = "OK"               -> {"RecoverableError", "PermanentError", "FatalError", "Stopping"}
    [] from = "RecoverableError" -> {"OK", "PermanentError", "FatalError", "Stopping"}
    [] from = "PermanentError"   -> {"Stopping"}
    [] from = "FatalError"       -> {}
    [] from = "Stopping"         -> {"RecoverableError", "PermanentError", "FatalError", "Stopped"}
    [] from = "Stopped"          -> {}

VARIABLES
  \* @type: Str -> Str;
  cur,        \* [Inst -> Status]   current status per instance
  \* @type: Str -> Seq(Str);
  delivered   \* [Inst -> Seq(Status)] events delivered to watchers, per instance

fsmVars == <<cur, delivered>>

FsmInit == /\ cur = [i \in Inst |-> "None"]
           /\ delivered = [i \in Inst |-> <<>>]

\* Effective status a report kind asks for in the current state ("none" = nothing requested)
Target(i, what) == IF what = "okIfStarting"
                     THEN (IF cur[i] = "Starting" THEN "OK" ELSE "none")
                     ELSE what

\* The event (or "none") a report produces
Outcome(i, what) == LET t == Target(i, what) IN
                    IF t # "none" /\ t \in Allowed(cur[i]) THEN t ELSE "none"

Report(i, what) ==
  LET o == Outcome(i, what) IN
  IF o # "none"
    THEN /\ cur' = [cur EXCEPT ![i] = o]
         /\ delivered' = [delivered EXCEPT ![i] = Append(@, o)]
    ELSE UNCHANGED fsmVars

FsmNext == \E i \in Inst, w \in ReportKinds : Report(i, w)

-----------------------------------------------------------------------------
(* The property, clause by clause, over the delivered events only. *)

\* @type: Seq(Str) => Set(<<Str, Str>>);
Pairs(s) == { <<s[k], s[k+1]>> : k \in {j \in DOMAIN s : j + 1 \in DOMAIN s} }

BeginsWithStarting  == \A i \in Inst : delivered[i] # <<>> => Head(delivered[i]) = "Starting"
NeverRepeats        == \A i \in Inst : \A p \in Pairs(delivered[i]) : p[1] # p[2]
PermanentOnlyToStop == \A i \in Inst : \A p \in Pairs(delivered[i]) :
                          p[1] = "PermanentError" => p[2] = "Stopping"
NothingAfterFinal   == \A i \in Inst : \A p \in Pairs(delivered[i]) :
                          p[1] \notin {"FatalError", "Stopped"}
StartingOnlyFirst   == \A i \in Inst : \A p \in Pairs(delivered[i]) : p[2] # "Starting"
NoneNeverDelivered  == \A i \in Inst : \A k \in DOMAIN delivered[i] : delivered[i][k] # "None"
PathOfDiagram       == \A i \in Inst :
                          /\ \A p \in Pairs(delivered[i]) : p[2] \in Allowed(p[1])
                          /\ delivered[i] # <<>> => Head(delivered[i]) \in Allowed("None")
CurIsLast           == \A i \in Inst :
                          cur[i] = IF delivered[i] = <<>> THEN "None" ELSE delivered[i][Len(delivered[i])]

\* OK is the only thing the automatic report can produce, and only out of Starting
OKIfStartingOnlyFromStarting ==
  [][\A i \in Inst : cur[i] # "Starting" => (Report(i, "okIfStarting") => UNCHANGED fsmVars)]_fsmVars
\* an illegal report changes nothing (action property: the state is untouched, no event)
IllegalIsNoop ==
  [][\A i \in Inst : delivered'[i] # delivered[i] =>
        /\ Len(delivered'[i]) = Len(delivered[i]) + 1
        /\ cur'[i] \in Allowed(cur[i])
        /\ delivered'[i][Len(delivered'[i])] = cur'[i]]_fsmVars
\* instances are independent: a step changes at most one instance
Independent ==
  [][Cardinality({i \in Inst : cur'[i] # cur[i] \/ delivered'[i] # delivered[i]}) <= 1]_fsmVars

FsmInvariant == /\ BeginsWithStarting /\ NeverRepeats /\ PermanentOnlyToStop /\ NothingAfterFinal
                /\ StartingOnlyFirst /\ NoneNeverDelivered /\ PathOfDiagram /\ CurIsLast
=============================================================================
