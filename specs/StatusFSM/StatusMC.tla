------------------------------ MODULE StatusMC ------------------------------
(* Exhaustive design check of StatusFSM: every report sequence, delivered history bounded. *)
EXTENDS StatusFSM, TLC
CONSTANT MaxLen
Bound == \A i \in Inst : Len(delivered[i]) <= MaxLen
Spec == FsmInit /\ [][FsmNext]_fsmVars
=============================================================================
