---------------------------- MODULE SizedQueueAbs ----------------------------
(* C02 -- API-level specification of an exporter sending queue (in-memory or persistent), written
   from the statement.  One atomic step per linearisation point:

     Enq(r)      the enqueue takes effect: only if size + Sz(r) <= Cap           (accepted)
     Refuse(r)   a non-blocking enqueue is refused: only if size + Sz(r) > Cap
     Deq         the head of the queue is handed to a consumer                  (FIFO)
     Done(r)     the consumer finished r: its size is released

   The in-memory queue reports exactly the summed size of accepted-but-unfinished requests.  The
   persistent queue (requests sizer) resets the reported size to 0 whenever its stored range is
   drained and clamps at 0 (the statement only bounds its size and ties refusal to the REPORTED size).

   Used by SQSeqGen (generator of sequential histories with specified observations, replayed into
   the real queue) and by SQLin (linearisability validation of concurrent real executions). *)
EXTENDS Integers, Sequences, FiniteSets

CONSTANTS Cap,            \* configured capacity
          Persistent      \* TRUE: size semantics of the persistent queue

VARIABLES size,           \* reported size
          q,              \* accepted, not yet handed over (FIFO)
          inflight,       \* handed over, not finished
          szOf            \* request -> size (filled when the request is offered)

absVars == <<size, q, inflight, szOf>>

AbsInit == size = 0 /\ q = <<>> /\ inflight = {} /\ szOf = <<>>

Fits(s) == size + s <= Cap

Enq(r, s) == /\ s > 0 /\ s <= Cap /\ Fits(s)
             /\ size' = size + s /\ q' = Append(q, r)
             /\ szOf' = [x \in DOMAIN szOf \cup {r} |-> IF x = r THEN s ELSE szOf[x]]
             /\ UNCHANGED inflight

\* refusal: exactly when it does not fit (this also covers a request larger than the capacity)
CanRefuse(s) == ~Fits(s)

Deq == /\ q # <<>>
       /\ inflight' = inflight \cup {Head(q)} /\ q' = Tail(q)
       /\ size' = IF Persistent /\ Tail(q) = <<>> THEN 0 ELSE size
       /\ UNCHANGED szOf

Done(r) == /\ r \in inflight
           /\ inflight' = inflight \ {r}
           /\ size' = IF Persistent THEN (IF size - szOf[r] < 0 THEN 0 ELSE size - szOf[r]) ELSE size - szOf[r]
           /\ UNCHANGED <<q, szOf>>

----------------------------------------------------------------------------
\* clauses of the statement about the reported size
SetOfSeq(s) == {s[i] : i \in 1..Len(s)}
RECURSIVE SumSz(_)
SumSz(S) == IF S = {} THEN 0 ELSE LET x == CHOOSE y \in S : TRUE IN szOf[x] + SumSz(S \ {x})

SizeBounds == size >= 0 /\ size <= Cap
SizeExact  == ~Persistent => size = SumSz(SetOfSeq(q) \cup inflight)
ZeroAtEnd  == (q = <<>> /\ inflight = {}) => size = 0
=============================================================================
