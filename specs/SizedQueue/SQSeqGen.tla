------------------------------ MODULE SQSeqGen ------------------------------
(* Sequential histories for C02: one producer thread and ONE consumer whose export function is
   gated by the driver.  Ops: offer(r, s) and complete(r).  The consumer is eager: whenever it is
   idle and the queue is not empty it takes the head and calls the export function (r sits "at the
   gate").  Every step is annotated with what the statement determines: the enqueue result, the
   request at the gate (hand-off order), the reported size.  harness/exporter/mq seq replays them
   into the real queue (memory and persistent, all three sizers) and compares step by step. *)
EXTENDS SizedQueueAbs, TLC, Json

CONSTANTS N,          \* number of operations
          Sizes       \* request sizes to choose from (requests sizer: {1})

VARIABLES hist, nreq, gate

gvars == <<absVars, hist, nreq, gate>>

GInit == AbsInit /\ hist = <<>> /\ nreq = 0 /\ gate = ""

Name(k) == "r" \o ToString(k)

\* eager consumer step folded into the operation: after the op, if nobody is at the gate, take the head
AfterOp(sz2, q2, fl2, g2) ==
  IF g2 = "" /\ q2 # <<>>
    THEN /\ gate' = Head(q2) /\ q' = Tail(q2) /\ inflight' = fl2 \cup {Head(q2)}
         /\ size' = IF Persistent /\ Tail(q2) = <<>> THEN 0 ELSE sz2
    ELSE /\ gate' = g2 /\ q' = q2 /\ inflight' = fl2 /\ size' = sz2

Offer(s) ==
  LET r == Name(nreq + 1) IN
  /\ nreq' = nreq + 1
  /\ IF s = 0 /\ ~Persistent
       THEN \* empty request: accepted, never queued (hand-off of empty requests is not constrained)
            /\ UNCHANGED <<absVars, gate>>
            /\ hist' = Append(hist, [op |-> "offer", req |-> r, size |-> s, res |-> "ok", gate |-> gate, qsz |-> size])
       ELSE IF s > Cap /\ ~Persistent
         THEN /\ UNCHANGED <<absVars, gate>>
              /\ hist' = Append(hist, [op |-> "offer", req |-> r, size |-> s, res |-> "toolarge", gate |-> gate, qsz |-> size])
         ELSE IF Fits(s)
           THEN /\ szOf' = [x \in DOMAIN szOf \cup {r} |-> IF x = r THEN s ELSE szOf[x]]
                /\ AfterOp(size + s, Append(q, r), inflight, gate)
                /\ hist' = Append(hist, [op |-> "offer", req |-> r, size |-> s, res |-> "ok", gate |-> gate', qsz |-> size'])
           ELSE /\ UNCHANGED <<absVars, gate>>
                /\ hist' = Append(hist, [op |-> "offer", req |-> r, size |-> s, res |-> "full", gate |-> gate, qsz |-> size])

Complete ==
  /\ gate # ""
  /\ LET r == gate
         s2 == IF Persistent THEN (IF size - szOf[r] < 0 THEN 0 ELSE size - szOf[r]) ELSE size - szOf[r]
     IN /\ AfterOp(s2, q, inflight \ {r}, "")
        /\ hist' = Append(hist, [op |-> "complete", req |-> r, size |-> 0, res |-> "", gate |-> gate', qsz |-> size'])
  /\ UNCHANGED <<szOf, nreq>>

GNext == /\ Len(hist) < N
         /\ \/ \E s \in Sizes : Offer(s)
            \/ Complete
GSpec == GInit /\ [][GNext]_gvars

Emit == Len(hist) = N => PrintT(<<"BEH", ToJson(hist)>>)
\* the statement's size clauses hold on every generated history
GenInv == SizeBounds /\ SizeExact /\ ZeroAtEnd
=============================================================================
