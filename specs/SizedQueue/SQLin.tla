------------------------------ MODULE SQLin ------------------------------
(* C02 -- linearisability validation of concurrent executions of the REAL sending queue against
   SizedQueueAbs.  harness/exporter/mq stress records, under one mutex:

     reset{cfg:{sizer,cap,block,wfr,persistent,consumers},reqs,sizes}
     offer_start{p,req,size,cancel}   offer_end{req,res}        res: ok full ctx toolarge fail err:..
     push_start{req}                  push_end{req,out}         out: ok fail
     size{value+1}   shutdown_start   shutdown_end   final_size{value+1}   end

   The linearisation points are NOT logged (they are inside the queue, under its mutex): Enq / Refuse
   somewhere between offer_start and offer_end, Deq before push_start, Done after push_end.  TLC
   searches for positions of these silent steps that make the whole history a behaviour of
   SizedQueueAbs.  Rejected = no explanation exists: a request handed over twice or never, a
   refused request handed over, hand-off out of acceptance order with one consumer, an enqueue
   accepted although it did not fit (or refused although it did), a wait-for-result answer that is
   not the outcome of the producer's own request, a reported size outside 0..Cap or non-zero at the end. *)
EXTENDS SizedQueueAbs, TLC, Json

Log == ndJsonDeserialize("observed.ndjson")

VARIABLES l,
          Block, WFR, NCons,   \* configuration of the current round (Cap/Persistent are per TLC run)
          pend,      \* request -> [size, cancel, st]  st: "called" | "enq" | "refused" | "zero"    (offer in progress)
          popped,    \* dequeued by a consumer, export function not yet seen
          outcome,   \* request -> outcome of its export call (after push_end)
          finished,  \* requests whose Done step has happened
          ended      \* requests whose offer has returned, with the returned result

lvars == <<absVars, l, Block, WFR, NCons, pend, popped, outcome, finished, ended>>

E == Log[l]
Is(e) == l <= Len(Log) /\ E.ev = e /\ l' = l + 1

LInit == AbsInit /\ l = 1 /\ Block = FALSE /\ WFR = FALSE /\ NCons = 1
         /\ pend = <<>> /\ popped = {} /\ outcome = <<>> /\ finished = {} /\ ended = <<>> /\ TLCSet(1, 1)

Put(f, k, v) == [x \in DOMAIN f \cup {k} |-> IF x = k THEN v ELSE f[x]]
Del(f, k)    == [x \in DOMAIN f \ {k} |-> f[x]]

Quiet == q = <<>> /\ inflight = {} /\ popped = {} /\ DOMAIN pend = {}

LReset == /\ Is("reset")
          /\ E.cfg.cap = Cap /\ E.cfg.persistent = Persistent
          /\ (Persistent \/ Quiet)       \* the previous round ended drained (a stopped persistent queue may keep requests)
          /\ size' = 0 /\ q' = <<>> /\ inflight' = {} /\ szOf' = <<>>
          /\ Block' = E.cfg.block /\ WFR' = E.cfg.wfr /\ NCons' = E.cfg.consumers
          /\ pend' = <<>> /\ popped' = {} /\ outcome' = <<>> /\ finished' = {} /\ ended' = <<>>

LOfferStart == /\ Is("offer_start")
               /\ pend' = Put(pend, E.req, [size |-> E.size, cancel |-> E.cancel, st |-> "called"])
               /\ UNCHANGED <<absVars, Block, WFR, NCons, popped, outcome, finished, ended>>

\* ---- silent linearisation points of a pending offer
LEnq(r) == /\ r \in DOMAIN pend /\ pend[r].st = "called"
           /\ Enq(r, pend[r].size)
           /\ pend' = [pend EXCEPT ![r].st = "enq"]
           /\ UNCHANGED <<l, Block, WFR, NCons, popped, outcome, finished, ended>>

LRefuse(r) == /\ r \in DOMAIN pend /\ pend[r].st = "called"
              /\ pend[r].size > 0
              /\ CanRefuse(pend[r].size)
              /\ (Block => pend[r].size > Cap)          \* a blocking enqueue waits instead (unless it can never fit)
              /\ pend' = [pend EXCEPT ![r].st = "refused"]
              /\ UNCHANGED <<absVars, l, Block, WFR, NCons, popped, outcome, finished, ended>>

\* ---- offer returns
LOfferEnd ==
  /\ Is("offer_end")
  /\ E.req \in DOMAIN pend
  /\ LET r == E.req  p == pend[r] IN
     /\ \/ \* accepted
           /\ E.res = "ok"
           /\ \/ p.size = 0 /\ p.st = "called" /\ ~Persistent          \* empty request: accepted, not queued
              \/ p.st = "enq" /\ ~WFR
              \/ p.st = "enq" /\ WFR /\ r \in finished /\ outcome[r] = "ok"
        \/ \* wait_for_result: the producer receives the outcome of ITS OWN request
           /\ E.res \notin {"ok", "full", "ctx", "toolarge"} /\ WFR
           /\ p.st = "enq" /\ r \in finished /\ outcome[r] = E.res
        \/ \* refused: it did not fit at its linearisation point
           /\ E.res \in {"full", "toolarge"} /\ p.st = "refused"
           /\ (E.res = "full" => ~Block)
        \/ \* the producer's context ended first: blocked waiting for space, or (wait_for_result) waiting for the result
           /\ E.res = "ctx" /\ p.cancel
           /\ \/ p.st = "called" /\ p.size > 0
              \/ p.st = "enq" /\ WFR
     /\ pend' = Del(pend, r)
     /\ ended' = Put(ended, r, E.res)
  /\ UNCHANGED <<absVars, Block, WFR, NCons, popped, outcome, finished>>

\* ---- consumers
LDeq == /\ q # <<>>
        /\ Cardinality(inflight) < NCons          \* every consumer holds at most one request
        /\ popped' = popped \cup {Head(q)}
        /\ Deq
        /\ UNCHANGED <<l, Block, WFR, NCons, pend, outcome, finished, ended>>

LPushStart == /\ Is("push_start")
              /\ E.req \in popped
              /\ popped' = popped \ {E.req}
              /\ UNCHANGED <<absVars, Block, WFR, NCons, pend, outcome, finished, ended>>

LPushEnd == /\ Is("push_end")
            /\ E.req \in inflight /\ E.req \notin popped /\ E.req \notin DOMAIN outcome
            /\ outcome' = Put(outcome, E.req, E.out)
            /\ UNCHANGED <<absVars, Block, WFR, NCons, pend, popped, finished, ended>>

LDone(r) == /\ r \in DOMAIN outcome /\ r \notin finished
            /\ Done(r)
            /\ finished' = finished \cup {r}
            /\ UNCHANGED <<l, Block, WFR, NCons, pend, popped, outcome, ended>>

\* ---- reported size
LSize == /\ Is("size")
         /\ E.value - 1 >= 0 /\ E.value - 1 <= Cap
         /\ UNCHANGED <<absVars, Block, WFR, NCons, pend, popped, outcome, finished, ended>>

LShutdownStart == Is("shutdown_start") /\ DOMAIN pend = {}
                  /\ UNCHANGED <<absVars, Block, WFR, NCons, pend, popped, outcome, finished, ended>>

\* Shutdown returned: an in-memory queue is drained, every accepted request finished
LShutdownEnd == /\ Is("shutdown_end")
                /\ popped = {} /\ inflight = {}
                /\ (~Persistent => q = <<>>)
                /\ UNCHANGED <<absVars, Block, WFR, NCons, pend, popped, outcome, finished, ended>>

\* read after every accepted request's export call returned (and the completion had time to run): zero
LFinalSize == /\ Is("final_size")
              /\ E.value - 1 = 0
              /\ E.value - 1 >= 0 /\ E.value - 1 <= Cap
              /\ UNCHANGED <<absVars, Block, WFR, NCons, pend, popped, outcome, finished, ended>>

LEnd == Is("end") /\ UNCHANGED <<absVars, Block, WFR, NCons, pend, popped, outcome, finished, ended>>

LNext == \/ LReset \/ LOfferStart \/ LOfferEnd \/ LPushStart \/ LPushEnd \/ LSize
         \/ LShutdownStart \/ LShutdownEnd \/ LFinalSize \/ LEnd
         \/ LDeq
         \/ \E r \in DOMAIN pend : LEnq(r) \/ LRefuse(r)
         \/ \E r \in DOMAIN outcome : LDone(r)
LSpec == LInit /\ [][LNext]_lvars

HighWater == IF l > TLCGet(1) THEN TLCSet(1, l) ELSE TRUE
Accepted == IF TLCGet(1) = Len(Log) + 1 THEN TRUE
            ELSE PrintT(<<"REJECTED_AT", TLCGet(1), Len(Log)>>) /\ FALSE
LinInv == SizeBounds /\ SizeExact
=============================================================================
