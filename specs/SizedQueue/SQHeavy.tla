------------------------------ MODULE SQHeavy ------------------------------
(* C02 -- monitor for the HEAVY stress rounds of harness/exporter/mq (hundreds of requests per round, too many pending
   operations for a linearisation search).  Only the clauses that need no search are decided here, from the same
   recorded events: exactly-once hand-off of every accepted request, nothing refused handed over, the reported size
   always within 0..capacity and back to zero once every accepted request has finished (this is where size-accounting
   drift under concurrency shows up).  One verdict line per violated clause and round; the run continues.

   lines: reset{round,cfg,heavy,fifo}  offer_end{req,res} (cancelled enqueues are not logged)  push_start{req}
          size{value+1}  shutdown_end  final_size{value+1}  hang{...} *)
EXTENDS Integers, Sequences, FiniteSets, TLC, Json

Log == ndJsonDeserialize("observed.ndjson")

VARIABLES l, round, cap, accepted, refused, pushed, dup, sizeBad,
          fifo, accSeq, pushSeq    \* rounds with ONE producer and ONE consumer (reset.fifo): acceptance order / hand-off order

hvars == <<l, round, cap, accepted, refused, pushed, dup, sizeBad, fifo, accSeq, pushSeq>>
E == Log[l]
Is(e) == l <= Len(Log) /\ E.ev = e /\ l' = l + 1
Report(clause, detail) == PrintT(<<"BEH", ToJson([round |-> round, clause |-> clause, detail |-> detail])>>)
Brief(S) == [n |-> Cardinality(S), example |-> CHOOSE x \in S : TRUE]     \* sets can hold hundreds of requests

HInit == l = 1 /\ round = 0 /\ cap = 0 /\ accepted = {} /\ refused = {} /\ pushed = {} /\ dup = {} /\ sizeBad = {}
         /\ fifo = FALSE /\ accSeq = <<>> /\ pushSeq = <<>>

HReset == /\ Is("reset") /\ round' = E.round /\ cap' = E.cfg.cap
          /\ accepted' = {} /\ refused' = {} /\ pushed' = {} /\ dup' = {} /\ sizeBad' = {}
          /\ fifo' = E.fifo /\ accSeq' = <<>> /\ pushSeq' = <<>>

HOfferEnd == /\ Is("offer_end")
             /\ accepted' = IF E.res = "ok" /\ E.size > 0 THEN accepted \cup {E.req} ELSE accepted
             /\ refused' = IF E.res \in {"full", "toolarge"} THEN refused \cup {E.req} ELSE refused
             /\ accSeq' = IF fifo /\ E.res = "ok" /\ E.size > 0 THEN Append(accSeq, E.req) ELSE accSeq
             /\ UNCHANGED <<round, cap, pushed, dup, sizeBad, fifo, pushSeq>>

HPush == /\ Is("push_start")
         /\ dup' = IF E.req \in pushed THEN dup \cup {E.req} ELSE dup
         /\ pushed' = pushed \cup {E.req}
         /\ pushSeq' = IF fifo THEN Append(pushSeq, E.req) ELSE pushSeq
         /\ UNCHANGED <<round, cap, accepted, refused, sizeBad, fifo, accSeq>>

HSize == /\ Is("size")
         /\ sizeBad' = IF E.value - 1 < 0 \/ E.value - 1 > cap THEN sizeBad \cup {E.value - 1} ELSE sizeBad
         /\ UNCHANGED <<round, cap, accepted, refused, pushed, dup, fifo, accSeq, pushSeq>>

\* Shutdown of an in-memory queue returned: every accepted request was handed over exactly once, no refused one
HShutEnd == /\ Is("shutdown_end")
            /\ (dup # {} => Report("ExactlyOnce: handed over twice", Brief(dup)))
            /\ (accepted \ pushed # {} => Report("ExactlyOnce: accepted but never handed over", Brief(accepted \ pushed)))
            /\ (refused \cap pushed # {} => Report("RefusedNeverHanded", Brief(refused \cap pushed)))
            /\ (sizeBad # {} => Report("SizeBounds: reported size outside 0..capacity", Brief(sizeBad)))
            /\ ((fifo /\ pushSeq # accSeq) =>
                  LET k == CHOOSE i \in 1..(Len(accSeq) + 1) : i > Len(accSeq) \/ i > Len(pushSeq) \/ accSeq[i] # pushSeq[i]
                  IN Report("Fifo: single consumer, hand-off order differs from the acceptance order",
                            [position |-> k, accepted |-> Len(accSeq), handed |-> Len(pushSeq),
                             wanted |-> IF k <= Len(accSeq) THEN accSeq[k] ELSE "-", got |-> IF k <= Len(pushSeq) THEN pushSeq[k] ELSE "-"]))
            /\ UNCHANGED <<round, cap, accepted, refused, pushed, dup, sizeBad, fifo, accSeq, pushSeq>>

HFinal == /\ Is("final_size")
          /\ (E.value - 1 # 0 => Report("ZeroAtEnd: every accepted request finished but the reported size is not 0", E.value - 1))
          /\ UNCHANGED <<round, cap, accepted, refused, pushed, dup, sizeBad, fifo, accSeq, pushSeq>>

HSkip == /\ l <= Len(Log) /\ E.ev \in {"shutdown_start", "hang", "note", "end", "offer_start", "push_end"} /\ l' = l + 1
         /\ UNCHANGED <<round, cap, accepted, refused, pushed, dup, sizeBad, fifo, accSeq, pushSeq>>

HNext == HReset \/ HOfferEnd \/ HPush \/ HSize \/ HShutEnd \/ HFinal \/ HSkip
HSpec == HInit /\ [][HNext]_hvars
AllConsumed == TLCGet("stats").diameter - 1 = Len(Log)
=============================================================================
