------------------------------ MODULE SizedQueue ------------------------------
(* C02 -- implementation-shaped model of the in-memory sending queue
   (exporterhelper/internal/queuebatch/memory_queue.go + cond.go + async_queue.go) at the level of
   Go's mutex / channel / select semantics.

   Producers offer one request each (size Sz[p]); consumers loop Read -> export -> onDone; one
   Shutdown.  Every producer context in CanCancel may end at any time.

   The context-aware condition variable `hasMoreSpace` (cond.go) is modelled in both designs:
     CondImpl = "token"  the pinned design: a 1-slot channel of wake-up tokens + a `waiting`
                         counter; Signal sends while HOLDING the queue mutex.  TLC finds the
                         deadlock of DESIGN.md 9.2 (two waiters woken by their contexts and not yet
                         re-locked, two Signals: the second send blocks forever on the full slot).
     CondImpl = "close"  the repaired design (fix: commit in /repo): waiters wait for the current
                         channel to be closed; a wake-up closes and replaces it (never blocks).

   producer pcs: start -> check -> (done | unlocked -> relock_sig|relock_ctx -> check|ctx_locked -> done)
                 wait_for_result adds: enq -> wait_res -> done
   consumer pcs: idle -> pop -> (cparked -> cwoken -> pop |) exporting -> ondone_lock -> ondone -> (send_blocked ->)
                 sig_done -> idle | exited

   The consumer side uses a plain sync.Cond (`hasMoreElements`): Read() is `for !hasElements && !stopped { Wait() }`,
   add()/putInternal() Signal after every push, Shutdown Broadcasts.  Wait() puts the goroutine on the notify list
   BEFORE it unlocks, so "parked" begins atomically with the unlock (CPop); Signal moves ONE parked consumer to
   `cwoken` (it still has to re-take the mutex).  ConsSignal = "always" is the design of the tree; "onempty" is the
   classic mistaken optimisation (signal only on the empty -> non-empty transition), kept as the negative control of
   the clause WorkConserving (seeded change C02-5). *)
EXTENDS Integers, Sequences, FiniteSets, TLC

CONSTANTS Producers, NumConsumers, Cap, Sz, CanCancel, Nobody,
          Block,       \* block_on_overflow
          WFR,         \* wait_for_result
          CondImpl,    \* "token" | "close"
          ConsSignal   \* "always" | "onempty"  (consumer-side wake-up on push)

Consumers == 1..NumConsumers
C(i) == "c" \o ToString(i)

VARIABLES mu,          \* lock owner or Nobody
          size, items, stopped,
          waiting,     \* cond.waiting
          buf,         \* token design: tokens buffered in cond.ch (0..1)
          gen, wgen,   \* close design: generation of cond.ch; generation captured by each waiter
          ppc, cancelled, result,
          cpc, chold,
          resch,       \* wait_for_result: producer -> outcome delivered on its own channel ("none" if not yet)
          handed,      \* history: sequence of producers in hand-off order
          acceptedSeq, \* history: sequence of producers in acceptance order
          sdpc         \* shutdown process: "idle" | "locked" | "done"
vars == <<mu, size, items, stopped, waiting, buf, gen, wgen, ppc, cancelled, result, cpc, chold, resch, handed, acceptedSeq, sdpc>>

Init ==
  /\ mu = Nobody /\ size = 0 /\ items = <<>> /\ stopped = FALSE
  /\ waiting = 0 /\ buf = 0 /\ gen = 0 /\ wgen = [p \in Producers |-> 0]
  /\ ppc = [p \in Producers |-> "start"] /\ cancelled = {} /\ result = [p \in Producers |-> "none"]
  /\ cpc = [c \in Consumers |-> "idle"] /\ chold = [c \in Consumers |-> Nobody]
  /\ resch = [p \in Producers |-> "none"] /\ handed = <<>> /\ acceptedSeq = <<>> /\ sdpc = "idle"

Parked        == {p \in Producers : ppc[p] = "parked"}
CParked       == {c \in Consumers : cpc[c] = "cparked"}
SenderBlocked == {c \in Consumers : cpc[c] = "send_blocked"}

Cancel(p) == /\ p \in CanCancel /\ p \notin cancelled /\ result[p] = "none"
             /\ cancelled' = cancelled \cup {p}
             /\ UNCHANGED <<mu, size, items, stopped, waiting, buf, gen, wgen, ppc, result, cpc, chold, resch, handed, acceptedSeq, sdpc>>

----------------------------------------------------------------------------
\* producer: Offer -> add()
PEarly(p) == \* size checks before taking the lock: empty / larger than the capacity
  /\ ppc[p] = "start" /\ (Sz[p] = 0 \/ Sz[p] > Cap)
  /\ ppc' = [ppc EXCEPT ![p] = "done"]
  /\ result' = [result EXCEPT ![p] = IF Sz[p] = 0 THEN "ok" ELSE "toolarge"]
  /\ UNCHANGED <<mu, size, items, stopped, waiting, buf, gen, wgen, cancelled, cpc, chold, resch, handed, acceptedSeq, sdpc>>

PLock(p) == /\ ppc[p] \in {"start", "relock_sig", "relock_ctx"} /\ mu = Nobody
            /\ (ppc[p] = "start" => Sz[p] > 0 /\ Sz[p] <= Cap)
            /\ mu' = p
            /\ ppc' = [ppc EXCEPT ![p] = IF @ = "relock_ctx" THEN "ctx_locked" ELSE "check"]
            /\ UNCHANGED <<size, items, stopped, waiting, buf, gen, wgen, cancelled, result, cpc, chold, resch, handed, acceptedSeq, sdpc>>

PCheck(p) ==
  /\ ppc[p] = "check" /\ mu = p
  /\ IF size + Sz[p] > Cap
       THEN IF ~Block
              THEN /\ mu' = Nobody /\ ppc' = [ppc EXCEPT ![p] = "done"] /\ result' = [result EXCEPT ![p] = "full"]
                   /\ UNCHANGED <<size, items, waiting, wgen, acceptedSeq, cpc>>
              ELSE \* cond.Wait: (capture the channel,) waiting++, Unlock
                   /\ waiting' = waiting + 1 /\ wgen' = [wgen EXCEPT ![p] = gen] /\ mu' = Nobody
                   /\ ppc' = [ppc EXCEPT ![p] = "unlocked"]
                   /\ UNCHANGED <<size, items, result, acceptedSeq, cpc>>
       ELSE /\ size' = size + Sz[p] /\ items' = Append(items, p) /\ acceptedSeq' = Append(acceptedSeq, p)
            /\ mu' = Nobody
            \* hasMoreElements.Signal(): one parked consumer (if any) is taken off the notify list
            /\ IF CParked # {} /\ (ConsSignal = "always" \/ Len(items) = 0)
                 THEN \E w \in CParked : cpc' = [cpc EXCEPT ![w] = "cwoken"]
                 ELSE UNCHANGED cpc
            /\ IF WFR THEN ppc' = [ppc EXCEPT ![p] = "wait_res"] /\ UNCHANGED result
                      ELSE ppc' = [ppc EXCEPT ![p] = "done"] /\ result' = [result EXCEPT ![p] = "ok"]
            /\ UNCHANGED <<waiting, wgen>>
  /\ UNCHANGED <<stopped, buf, gen, cancelled, chold, resch, handed, sdpc>>

\* select { <-ctx.Done() ; <-ch }
PSelect(p) ==
  /\ ppc[p] = "unlocked"
  /\ IF CondImpl = "token"
       THEN \/ /\ buf = 1       \* token in the buffer (a sender blocked on the full slot then completes its send)
               /\ IF SenderBlocked # {}
                    THEN \E s \in SenderBlocked : cpc' = [cpc EXCEPT ![s] = "sig_done"] /\ buf' = 1
                    ELSE UNCHANGED cpc /\ buf' = 0
               /\ ppc' = [ppc EXCEPT ![p] = "relock_sig"]
            \/ /\ p \in cancelled /\ ppc' = [ppc EXCEPT ![p] = "relock_ctx"] /\ UNCHANGED <<buf, cpc>>
            \/ /\ buf = 0 /\ p \notin cancelled /\ ppc' = [ppc EXCEPT ![p] = "parked"] /\ UNCHANGED <<buf, cpc>>
       ELSE /\ UNCHANGED <<buf, cpc>>
            /\ \/ /\ wgen[p] < gen /\ ppc' = [ppc EXCEPT ![p] = "relock_sig"]      \* captured channel was closed
               \/ /\ p \in cancelled /\ ppc' = [ppc EXCEPT ![p] = "relock_ctx"]
  /\ UNCHANGED <<mu, size, items, stopped, waiting, gen, wgen, cancelled, result, chold, resch, handed, acceptedSeq, sdpc>>

\* token design: a goroutine parked in the select is woken by its context
PWakeCtx(p) == /\ ppc[p] = "parked" /\ p \in cancelled
               /\ ppc' = [ppc EXCEPT ![p] = "relock_ctx"]
               /\ UNCHANGED <<mu, size, items, stopped, waiting, buf, gen, wgen, cancelled, result, cpc, chold, resch, handed, acceptedSeq, sdpc>>

PCtxLocked(p) ==
  /\ ppc[p] = "ctx_locked" /\ mu = p
  /\ IF CondImpl = "token"
       THEN IF waiting = 0
              THEN \* <-c.ch: a signal was sent for us; consume it (blocks, HOLDING the lock, until a token is there)
                   /\ buf = 1
                   /\ IF SenderBlocked # {}
                        THEN \E s \in SenderBlocked : cpc' = [cpc EXCEPT ![s] = "sig_done"] /\ buf' = 1
                        ELSE UNCHANGED cpc /\ buf' = 0
                   /\ UNCHANGED waiting
              ELSE waiting' = waiting - 1 /\ UNCHANGED <<buf, cpc>>
       ELSE /\ waiting' = IF wgen[p] = gen THEN waiting - 1 ELSE waiting
            /\ UNCHANGED <<buf, cpc>>
  /\ mu' = Nobody /\ ppc' = [ppc EXCEPT ![p] = "done"] /\ result' = [result EXCEPT ![p] = "ctx"]
  /\ UNCHANGED <<size, items, stopped, gen, wgen, cancelled, chold, resch, handed, acceptedSeq, sdpc>>

\* wait_for_result: select { <-done.ch ; <-ctx.Done() }
PWaitRes(p) ==
  /\ ppc[p] = "wait_res"
  /\ \/ /\ resch[p] # "none" /\ result' = [result EXCEPT ![p] = resch[p]]
     \/ /\ p \in cancelled /\ result' = [result EXCEPT ![p] = "ctx"]
  /\ ppc' = [ppc EXCEPT ![p] = "done"]
  /\ UNCHANGED <<mu, size, items, stopped, waiting, buf, gen, wgen, cancelled, cpc, chold, resch, handed, acceptedSeq, sdpc>>

----------------------------------------------------------------------------
\* consumer: Read (lock; while nothing queued and not stopped: sync.Cond.Wait), export, onDone
CLock(c) == /\ cpc[c] \in {"idle", "cwoken", "ondone_lock"} /\ mu = Nobody
            /\ mu' = C(c)
            /\ cpc' = [cpc EXCEPT ![c] = IF @ = "ondone_lock" THEN "ondone" ELSE "pop"]
            /\ UNCHANGED <<size, items, stopped, waiting, buf, gen, wgen, ppc, cancelled, result, chold, resch, handed, acceptedSeq, sdpc>>

CPop(c) == /\ cpc[c] = "pop" /\ mu = C(c)
           /\ IF Len(items) > 0
                THEN /\ chold' = [chold EXCEPT ![c] = Head(items)] /\ items' = Tail(items)
                     /\ cpc' = [cpc EXCEPT ![c] = "exporting"] /\ handed' = Append(handed, Head(items))
                ELSE /\ UNCHANGED <<chold, items, handed>>
                     /\ cpc' = [cpc EXCEPT ![c] = IF stopped THEN "exited" ELSE "cparked"]   \* Wait(): on the notify list, unlock
           /\ mu' = Nobody
           /\ UNCHANGED <<size, stopped, waiting, buf, gen, wgen, ppc, cancelled, result, resch, acceptedSeq, sdpc>>

CExport(c) == /\ cpc[c] = "exporting"
              /\ cpc' = [cpc EXCEPT ![c] = "ondone_lock"]
              /\ UNCHANGED <<mu, size, items, stopped, waiting, buf, gen, wgen, ppc, cancelled, result, chold, resch, handed, acceptedSeq, sdpc>>

\* onDone: size -= elSize; hasMoreSpace.Signal(); (wait_for_result: bd.ch <- err, buffered, never blocks)
COnDone(c) ==
  /\ cpc[c] = "ondone" /\ mu = C(c)
  /\ size' = size - Sz[chold[c]]
  /\ resch' = IF WFR THEN [resch EXCEPT ![chold[c]] = "exported"] ELSE resch
  /\ IF waiting = 0
       THEN /\ cpc' = [cpc EXCEPT ![c] = "sig_done"] /\ UNCHANGED <<waiting, buf, gen, ppc>>
       ELSE IF CondImpl = "token"
              THEN /\ waiting' = waiting - 1 /\ UNCHANGED gen
                   /\ IF Parked # {}
                        THEN \E w \in Parked : ppc' = [ppc EXCEPT ![w] = "relock_sig"] /\ UNCHANGED buf
                                               /\ cpc' = [cpc EXCEPT ![c] = "sig_done"]
                        ELSE IF buf = 0
                               THEN buf' = 1 /\ cpc' = [cpc EXCEPT ![c] = "sig_done"] /\ UNCHANGED ppc
                               ELSE cpc' = [cpc EXCEPT ![c] = "send_blocked"] /\ UNCHANGED <<buf, ppc>>
              ELSE /\ waiting' = 0 /\ gen' = gen + 1          \* close(ch); ch = make(chan)
                   /\ cpc' = [cpc EXCEPT ![c] = "sig_done"] /\ UNCHANGED <<buf, ppc>>
  /\ UNCHANGED <<mu, items, stopped, wgen, cancelled, result, chold, handed, acceptedSeq, sdpc>>

CUnlock(c) == /\ cpc[c] = "sig_done" /\ mu = C(c)
              /\ mu' = Nobody /\ cpc' = [cpc EXCEPT ![c] = "idle"] /\ chold' = [chold EXCEPT ![c] = Nobody]
              /\ UNCHANGED <<size, items, stopped, waiting, buf, gen, wgen, ppc, cancelled, result, resch, handed, acceptedSeq, sdpc>>

\* Shutdown after every producer returned (async_queue.Shutdown: stopped := TRUE, broadcast, join consumers)
AllProducersDone == \A p \in Producers : ppc[p] = "done"
SLock == /\ sdpc = "idle" /\ AllProducersDone /\ mu = Nobody
         /\ mu' = "shutdown" /\ sdpc' = "locked"
         /\ UNCHANGED <<size, items, stopped, waiting, buf, gen, wgen, ppc, cancelled, result, cpc, chold, resch, handed, acceptedSeq>>
SStop == /\ sdpc = "locked" /\ mu = "shutdown"
         /\ stopped' = TRUE /\ mu' = Nobody /\ sdpc' = "done"
         /\ cpc' = [c \in Consumers |-> IF cpc[c] = "cparked" THEN "cwoken" ELSE cpc[c]]      \* hasMoreElements.Broadcast()
         /\ UNCHANGED <<size, items, waiting, buf, gen, wgen, ppc, cancelled, result, chold, resch, handed, acceptedSeq>>

Next == \/ \E p \in Producers : \/ Cancel(p) \/ PEarly(p) \/ PLock(p) \/ PCheck(p) \/ PSelect(p)
                                \/ PWakeCtx(p) \/ PCtxLocked(p) \/ PWaitRes(p)
        \/ \E c \in Consumers : CLock(c) \/ CPop(c) \/ CExport(c) \/ COnDone(c) \/ CUnlock(c)
        \/ SLock \/ SStop

Spec == Init /\ [][Next]_vars
FairSpec == Spec /\ WF_vars(Next)

----------------------------------------------------------------------------
\* the clauses of the statement
Range(s) == {s[i] : i \in 1..Len(s)}
Count(s, x) == Cardinality({i \in 1..Len(s) : s[i] = x})
AllDone == /\ AllProducersDone /\ sdpc = "done" /\ \A c \in Consumers : cpc[c] = "exited"

\* exactly once: nothing is handed over twice; refused/uncalled requests never; at the end every accepted one
ExactlyOnce == /\ \A p \in Producers : Count(handed, p) <= 1
               /\ Range(handed) \subseteq Range(acceptedSeq)
               /\ AllDone => Range(handed) = Range(acceptedSeq)
Refused(p) == result[p] \in {"full", "toolarge"} \/ (result[p] = "ctx" /\ p \notin Range(acceptedSeq))
RefusedNeverHanded == \A p \in Producers : Refused(p) => p \notin Range(handed)
Fifo == NumConsumers = 1 => \A i \in 1..Len(handed) : handed[i] = acceptedSeq[i]
SizeBounds == size >= 0 /\ size <= Cap
RECURSIVE Sum(_)
Sum(S) == IF S = {} THEN 0 ELSE LET x == CHOOSE y \in S : TRUE IN Sz[x] + Sum(S \ {x})
\* accepted and not finished = queued or held by a consumer whose onDone has not released it yet
Unfinished == Range(items) \cup {chold[c] : c \in {d \in Consumers : cpc[d] \in {"exporting", "ondone_lock", "ondone"}}}
SizeExact == size = Sum(Unfinished)
ZeroAtEnd == AllDone => size = 0
\* wait_for_result: a producer gets the outcome of its own request unless its context ended first
ResultIsOwn == WFR => \A p \in Producers : (ppc[p] = "done" /\ p \in Range(acceptedSeq))
                                             => (result[p] = resch[p] \/ (result[p] = "ctx" /\ p \in cancelled))
\* no state in which nothing can move although work is left (this is where the pinned cond design fails)
NoDeadlock == (~ENABLED Next) => AllDone
\* safety form of "a blocked producer is released once space is free": nobody stays parked on the condition
\* variable while its request fits, no wake-up is in flight and no other process can still produce one
NoLostWakeup ==
  \A p \in Producers :
     (ppc[p] \in {"parked", "unlocked"} /\ p \notin cancelled /\ size + Sz[p] <= Cap)
     => \/ (CondImpl = "token" /\ buf = 1) \/ (CondImpl = "close" /\ wgen[p] < gen)       \* a wake-up is in flight
        \/ \E o \in Producers \ {p} : ppc[o] \in {"start", "check", "relock_sig", "relock_ctx", "ctx_locked"}
        \/ \E c \in Consumers : cpc[c] \notin {"cparked", "exited"}
        \/ Len(items) > 0
\* consumer side of "no lost wake-ups" (safety form of "every accepted request is handed to a consumer" while consumers
\* are idle): whenever a consumer is parked on hasMoreElements, every queued request has a consumer that is on its way
\* to pop it WITHOUT needing a further signal (woken, about to lock, popping, or finishing a completion and looping).
\* A consumer busy in the export function does not count: it may stay there arbitrarily long.
CActive == {c \in Consumers : cpc[c] \in {"idle", "cwoken", "pop", "ondone_lock", "ondone", "sig_done"}}
WorkConserving == (CParked # {} /\ ~stopped) => Len(items) <= Cardinality(CActive)
\* liveness (FairSpec): every producer returns, and everything accepted is handed over
EventuallyAllDone == <>AllDone
=============================================================================
