SPECIFICATION HSpec
POSTCONDITION AllConsumed
CHECK_DEADLOCK FALSE
