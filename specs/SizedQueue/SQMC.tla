------------------------------ MODULE SQMC ------------------------------
EXTENDS SizedQueue
\* size assignments (producers are named p1..p4)
SzOnes  == [p \in Producers |-> 1]
SzMixed == [p \in Producers |-> CASE p = "p1" -> 1 [] p = "p2" -> 2 [] p = "p3" -> 1 [] OTHER -> 2]
SzEdge  == [p \in Producers |-> CASE p = "p1" -> 0 [] p = "p2" -> Cap + 1 [] p = "p3" -> Cap [] OTHER -> 1]
\* history variables do not influence behaviour
View == <<mu, size, items, stopped, waiting, buf, gen - 0, wgen, ppc, cancelled, result, cpc, chold, resch, sdpc,
          {<<i, handed[i]>> : i \in 1..Len(handed)}, {<<i, acceptedSeq[i]>> : i \in 1..Len(acceptedSeq)}>>
=========================================================================
