--------------------------- MODULE ExportContextGen ---------------------------
(* E03 -- script generator: behaviours of ExportContext.tla (run with TLC -simulate, seeded) projected to what the
   driver harness/exportctx controls:
     steps  send r with its attributes (items, span context kind -- "chain": the context of an upstream merged batch
            with links up --, caller deadline class, cancellation "pre"/"post"/"no")
            cancel r   the producer's context is cancelled after its call returned
            wait       a pause that lets the flush timer fire (taken only at a quiet moment: everything handed in
                       has been consumed, no export in progress)
     outs   the outcome of the k-th call of the export function ("transient" only while another attempt will follow,
            so that the real retry loop ends where the behaviour ends)
   The configuration is one of ParamCfgs.  A behaviour is printed when the exporter has been shut down and is
   quiescent (Emit), or -- directed generation, exhaustive -- only if it exhibits the known defect (EmitDefect).  Nothing is expected from the run here: the recorded trace is validated by ExportContextTrace.tla. *)
EXTENDS ExportContext, ExportContextParams, Json

VARIABLES steps, outs
gvars == <<vars, steps, outs>>

AttrOK(a) == /\ a.cancel = "post" => cfg.queue \in {"memory", "persistent"}
             /\ a.cancel = "pre"  => cfg.queue \in {"memory", "persistent", "none"}
             /\ a.sc = "chain"    => ~cfg.enq /\ cfg.queue # "persistent"
NextReq == ParamReqs[Cardinality(DOMAIN sent) + 1]
Quiet == queue = <<>> /\ cfl = <<>> /\ tfl = <<>> /\ infl = <<>>

GInit == (\E c \in ParamCfgs : InitWith(c)) /\ steps = <<>> /\ outs = <<>>

GNext ==
  \/ \E a \in ParamAttrs :
        /\ Cardinality(DOMAIN sent) < Len(ParamReqs) /\ AttrOK(a)
        /\ SendCore(NextReq, a, 0, IF a.dl = 0 THEN NoTime ELSE a.dl)
        /\ steps' = Append(steps, [op |-> "send", r |-> NextReq, n |-> a.n, sc |-> a.sc, dl |-> a.dl, cancel |-> a.cancel, up |-> a.up])
        /\ UNCHANGED outs
  \/ \E r \in DOMAIN sent : Cancel(r) /\ steps' = Append(steps, [op |-> "cancel", r |-> r]) /\ UNCHANGED outs
  \/ (\E i \in DOMAIN queue : ConsumeAt(i)) /\ UNCHANGED <<steps, outs>>
  \/ /\ stopping \/ Quiet
     /\ TimerFire
     /\ steps' = (IF stopping THEN steps ELSE Append(steps, [op |-> "wait"])) /\ UNCHANGED outs
  \/ (\E who \in {"c", "t"} : Pending(who) # <<>> /\ StartFirst(who, ModelCall(Head(Pending(who)), 0, 1))) /\ UNCHANGED <<steps, outs>>
  \/ infl # <<>> /\ StartRetry(ModelCall(infl[1].b, 0, infl[1].att + 1)) /\ UNCHANGED <<steps, outs>>
  \/ \E out \in ParamOuts :
        /\ infl # <<>>
        /\ out = "transient" => (~cfg.retry \/ (infl[1].att < MaxAttempts /\ ~stopping))
        /\ End(Len(calls), out, 0, infl[1].b.ctx.inh \in cancelled)
        /\ outs' = Append(outs, out) /\ UNCHANGED steps
  \/ Shutdown /\ (cfg.queue = "none" => Quiet) /\ UNCHANGED <<steps, outs>>

GSpec == GInit /\ [][GNext]_gvars
\* directed generation (exhaustive, Variant = "alias"): only the behaviours in which the model of the tree as it is breaks
\* LinksComplete -- counterexamples of the design, replayed on the real code
EmitDefect == (Quiescent /\ ~InvLinksComplete) =>
                PrintT(<<"BEH", ToJson([cfg |-> cfg, steps |-> steps, outs |-> outs, ncalls |-> Len(calls)])>>)
Emit == Quiescent => PrintT(<<"BEH", ToJson([cfg |-> cfg, steps |-> steps, outs |-> outs, ncalls |-> Len(calls)])>>)
=============================================================================
