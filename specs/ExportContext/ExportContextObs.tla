-------------------------- MODULE ExportContextObs --------------------------
(* E03 (extra specification) -- observable layer: WHICH CONTEXT the export function of an exporter built
   with exporterhelper sees, and the clauses of the statement.

   {"id": "E03", "title": "The context handed to an exporter's export function: batch links, per-attempt timeout,
                           no cancellation through the sending queue",
    "statement": "Every batch handed to the export function is connected (as the parent span context or through a
       trace link) to the span context of every request whose data it holds -- a batch merged from several requests
       carries a link to each of them -- and is connected to nothing but span contexts of requests that were handed
       to the exporter.  With timeout T > 0 every export ATTEMPT (the first one and every retry) gets a context whose
       deadline is at most T after the start of that attempt and not earlier than T after the end of the previous
       attempt (a fresh timeout per attempt), never later than the caller's own deadline when the export runs in the
       caller's context (no queue); with timeout 0 no deadline is added.  With a sending queue (not wait_for_result)
       neither the cancellation nor the deadline of the producer's context reaches the export: a context cancelled
       before or after the enqueue does not cancel the export.  TimeoutConfig.Validate rejects exactly the negative timeouts.",
    "quantifier": "for every sequence of requests (each with its own trace/span context: sampled, unsampled or none;
       optional caller deadline; optional cancellation before / after the enqueue), every configuration (queue none /
       memory / memory+wait_for_result / persistent, batching off / on with sizes that merge, split, merge+split,
       timeout 0 / T, retry on / off with failing attempts, no-op or recording tracer), every export attempt",
    "anchors": {"files": ["exporter/exporterhelper/internal/queuebatch/batch_context.go",
                          "exporter/exporterhelper/internal/queuebatch/default_batcher.go",
                          "exporter/exporterhelper/internal/queuebatch/memory_queue.go",
                          "exporter/exporterhelper/internal/timeout_sender.go",
                          "exporter/exporterhelper/internal/retry_sender.go",
                          "exporter/exporterhelper/internal/obs_report_sender.go",
                          "exporter/exporterhelper/internal/base_exporter.go"],
                "mechanisms": ["contextWithMergedLinks / LinksFromContext", "defaultBatcher.Consume / flush ctx",
                               "context.WithoutCancel in memoryQueue.add", "timeoutSender.Send inside retrySender.Send",
                               "trace.WithLinks in obsReportSender.startOp"]}}

   Written from the documentation, not from the code's incidental behaviour:
     CHANGELOG "exporterhelper: Link batcher context to all batched request's span contexts (#12212)";
     batch_context.go "LinksFromContext returns a list of trace links registered in the context", TestBatchContextLink;
     TimeoutConfig "The timeout applies to individual attempts to send data to the backend" / "Timeout is the timeout
       for every attempt to send data to the backend. A zero timeout means no timeout." / README "timeout: Time to wait
       per individual attempt to send data to a backend";
     timeoutSender.Send "Intentionally don't overwrite the context inside the request, because in case of retries
       deadline will not be updated ...";
     memoryQueue.add "Prevent cancellation and deadline to propagate to the context stored in the queue. The grpc/http
       based receivers will cancel the request context after this function returns.", TestQueueBatchDoNotPreserveCancellation.

   Where the documentation is SILENT the clauses allow every behaviour (the implementation-shaped model
   ExportContext.tla says what the code does there; a deviation from it with the clauses intact is model drift):
     S1  whether a batch made of ONE request keeps that request's span context as the PARENT or as a link
         (clauses speak of "origins" = parent or link);
     S2  whether a batch may be linked to a request that was merged into it but none of whose data it holds
         (cannot happen with the items sizer; bytes sizer, see C04) -- LinksSound only demands that every origin
         is the span context of SOME request handed in before;
     S3  order and multiplicity of the links;
     S4  wait_for_result: whether deadline / cancellation of a producer reaches the export (the producer is still
         waiting); the deadline may be bounded by the deadline of any producer whose data is in the batch;
     S5  persistent queue: nothing is documented about context propagation through the storage (the code hands out
         context.Background()): the link clauses do not apply there;
     S6  no queue: whether a cancelled caller context is passed on as such (it is: the export runs in it).

   FINDING E03-links-alias: for requests whose context already carries links (sc = "chain" below) the tree breaks
   LinksComplete, see ExportContext.tla, Variant "alias".

   Vocabulary
     request   what a producer hands in with ITS context: attr[r] = [n items, sc in {"span","unsampled","none","chain"},
               up, dl (0 = no caller deadline), cancel in {"no","pre","post"}];  sc = "chain": the context is the one an
               UPSTREAM exporter helper handed to its export function for a merged batch (an exporter that feeds other
               exporters, service::telemetry::traces::level none): no span context of its own, but the trace links to
               the upstream requests up = <<u1, u2, ..>> registered in it; up = <<>> otherwise.
               sent[r] = [t, D]: time just before the call and the absolute caller deadline (-1 = none)
     call      one ATTEMPT = one call of the export function:
               [items  sequence of <<request, index>> found in the payload,
                parent request whose trace the context's current span belongs to ("none": no valid span context),
                links  requests named by LinksFromContext(ctx), sl  those named by the links of the exporter span,
                hasdl, d  the context's deadline,  e  time at entry (read AFTER the context existed),
                x  time at return (-1 while open),  err  ctx.Err() # nil seen at entry or return,  out  outcome]
     times     integers (model: logical clock; real runs: microseconds since the script began)          *)
EXTENDS Integers, Sequences, FiniteSets, TLC

VARIABLES
  cfg,     \* [queue: "none"|"memory"|"wfr"|"persistent", batch: BOOLEAN, min, max, timeout (0 = none), retry: BOOLEAN,
           \*  enq: BOOLEAN  the queue records a span of its own per request (recording tracer), see LinksSound]
  attr,    \* request -> what the producer does with it
  sent,    \* request -> [t, D], for the requests handed in so far
  calls    \* sequence of export attempts in the order the export function was entered

obsVars == <<cfg, attr, sent, calls>>

NoTime == -1
SetOf(s) == {s[i] : i \in DOMAIN s}
MaxOf(S) == CHOOSE x \in S : \A y \in S : y <= x
MinOf(S) == CHOOSE x \in S : \A y \in S : x <= y

---------------------------------------------------------------------------
Contrib(c)     == {c.items[i][1] : i \in DOMAIN c.items}                 \* requests whose data the batch holds
\* the span contexts a request's context carries: its own, or (chain) the links registered in it -- TestBatchContextLink:
\* merging a context that carries links keeps all of them
Spans(r)       == IF r \notin DOMAIN attr \/ attr[r].sc = "none" THEN {}
                  ELSE IF attr[r].sc = "chain" THEN SetOf(attr[r].up) ELSE {r}
Known          == DOMAIN sent \cup UNION {SetOf(attr[r].up) : r \in DOMAIN sent}
Origins(c)     == ({c.parent} \ {"none"}) \cup SetOf(c.links)             \* what the context is connected to
SpanOrigins(c) == ({c.parent} \ {"none"}) \cup SetOf(c.sl)                \* what the exporter span is connected to

\* "Link batcher context to all batched request's span contexts"
LinksComplete(cs, k) ==
  LET c == cs[k] IN
  cfg.queue # "persistent" => UNION {Spans(r) : r \in Contrib(c)} \subseteq (Origins(c) \cap SpanOrigins(c))

\* connected to nothing but span contexts of requests that were handed in (S2: not necessarily contributors).
\* A request handed in WITHOUT a span context can still be an origin: with a recording tracer the queue starts a span
\* ("exporter/enqueue") for it, which is then the request's span context; the driver attributes that span to the request.
LinksSound(cs, k) ==
  LET c == cs[k] IN (Origins(c) \cup SpanOrigins(c)) \subseteq Known

---------------------------------------------------------------------------
(* The deadline of an attempt.  lo = a moment at which the attempt's context cannot have existed yet: the
   latest hand-in of a request whose data it holds, and the return of the previous attempt on the same batch. *)
Earlier(cs, k) == {j \in 1..(k - 1) : cs[j].items = cs[k].items}
Lo(cs, k) == MaxOf({0} \cup {sent[r].t : r \in Contrib(cs[k]) \cap DOMAIN sent} \cup {cs[j].x : j \in Earlier(cs, k)})

DLs(S) == {sent[r].D : r \in {q \in S \cap DOMAIN sent : sent[q].D >= 0}}
\* producers whose own deadline MUST bound the attempt (the export runs inside their call) / MAY bound it (S4)
MustBound(c) == IF cfg.queue = "none" THEN Contrib(c) ELSE {}
MayBound(c)  == IF cfg.queue \in {"none", "wfr"} THEN Contrib(c) ELSE {}

DeadlineOK(cs, k) ==
  LET c    == cs[k]
      T    == cfg.timeout
      must == DLs(MustBound(c))
      may  == DLs(MayBound(c))
  IN IF T > 0
       THEN /\ c.hasdl
            /\ c.d <= c.e + T                                  \* at most T after the start of the attempt
            /\ \A D \in must : c.d <= D                        \* never later than the caller's own deadline
            /\ c.d >= MinOf({Lo(cs, k) + T} \cup may)          \* fresh: a full T, counted from no earlier than lo
       ELSE /\ c.hasdl => c.d \in may                          \* timeout 0: no deadline is added
            /\ must # {} => c.hasdl /\ c.d = MinOf(must)

\* "Prevent cancellation ... to propagate to the context stored in the queue"
NotCancelled(cs, k) == cfg.queue \in {"memory", "persistent"} => ~cs[k].err

\* TimeoutConfig.Validate: "Negative timeouts are not acceptable, since all sends will fail"; zero = no timeout is valid
ValidTimeout(t) == t >= 0

Clauses == {"LinksComplete", "LinksSound", "DeadlineOK", "NotCancelled"}
Holds(clause, cs, k) == CASE clause = "LinksComplete" -> LinksComplete(cs, k)
                          [] clause = "LinksSound"    -> LinksSound(cs, k)
                          [] clause = "DeadlineOK"    -> DeadlineOK(cs, k)
                          [] clause = "NotCancelled"  -> NotCancelled(cs, k)

\* state forms (invariants of the model), one per clause so that a refutation names it
InvLinksComplete == \A k \in DOMAIN calls : LinksComplete(calls, k)
InvLinksSound    == \A k \in DOMAIN calls : LinksSound(calls, k)
InvDeadlineOK    == \A k \in DOMAIN calls : DeadlineOK(calls, k)
InvNotCancelled  == \A k \in DOMAIN calls : NotCancelled(calls, k)
Statement == InvLinksComplete /\ InvLinksSound /\ InvDeadlineOK /\ InvNotCancelled
=============================================================================
