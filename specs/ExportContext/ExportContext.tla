----------------------------- MODULE ExportContext -----------------------------
(* E03 (extra specification) -- implementation-shaped model of the CONTEXT that travels with a request through
   the exporter helper, from the producer's ConsumeLogs call to every call of the export function:

     exporterhelper/internal/base_exporter.go      sender chain  queue/batch -> obsreport -> retry -> timeout -> export
     exporterhelper/internal/queuebatch/memory_queue.go   add(): ctx = context.WithoutCancel(ctx) unless wait_for_result
     exporterhelper/internal/queuebatch/persistent_queue.go   Read(): context.Background()
     exporterhelper/internal/queuebatch/default_batcher.go    which ctx a flushed batch gets
     exporterhelper/internal/queuebatch/batch_context.go      parentsFromContext / contextWithMergedLinks
     exporterhelper/internal/retry_sender.go, timeout_sender.go   one context.WithTimeout per attempt

   A context is modelled by what the statement can see of it:
     [parent  request whose span context is the context's current span ("none": no valid span context),
      links   sequence of requests registered as trace links (LinksFromContext),
      inh     request whose caller context it still inherits cancellation and deadline from ("none": detached),
      la      0, or the identity of the Go ARRAY behind the links slice when that array is also reachable from other
              contexts (1 = the array of the upstream context handed in with "chain" requests; it has room for
              UpCap links)]

   One action per critical section of the Go code:
     SendCore(r, a, t, D)  the producer calls ConsumeLogs(ctx_r): no queue -> the export pipeline runs in the caller's
                           context inside the call; queue -> memoryQueue.add stores the request with the context
                           (detached unless wait_for_result; the persistent queue keeps no context at all)
     Cancel(r)             the producer's context is cancelled after the call returned ("pre": before the call,
                           folded into SendCore)
     ConsumeAt(i)          asyncQueue consumer: disabledBatcher.Consume (export with the stored context) or
                           defaultBatcher.Consume under currentBatchMu: MergeSplit with the current batch; the parts
                           made of the request alone are flushed with the REQUEST's context, the first part of a
                           merge with contextWithMergedLinks(currentBatch.ctx, ctx); the held-back last part becomes
                           the current batch with the request's context
     TimerFire             flushCurrentBatchIfNecessary (timer goroutine, and Shutdown): the batch's own context
     StartFirst / StartRetry   retrySender loop -> timeoutSender.Send: context.WithTimeout(ctx, T) -> export function
     End                   the export function returns (outcome chosen by the environment)
     GiveUp                the retry loop ends without another attempt (shutdown, elapsed time)
     Shutdown, Tick        the exporter is shut down; the clock advances

   MergeSplit is BatcherSplit!SplitP of specs/Batcher (items sizer).  NumConsumers = 1 and one flush worker (the
   helper forces num_consumers = 1 when batching is configured), so export calls do not overlap.

   Variant = "code": what the documentation needs and what the tree does for every request context that carries no
   links of its own.  Variant = "alias" is the tree AS IT IS also for "chain" contexts (finding E03-links-alias):
   contextWithMergedLinks appends to the slice returned by parentsFromContext(ctx1), i.e. -- when ctx1 has no span
   context -- to the very slice stored in ctx1; if its array has room the new links are written INTO THAT ARRAY, which
   every other context derived from the same upstream context shares: a second merge starting from the same
   upstream context overwrites the links the first one registered (also in a batch that is already on its way).
   Deviation, named: real traces are validated against "code" (the repaired behaviour); "alias" is used by the design
   check to exhibit the defect (TLC must refute InvLinksComplete) and to show that nothing else goes wrong.
   The remaining variants are deliberately WRONG models used to show that the clauses bite (checks/E03.py expects
   TLC to refute them):
     "nodetach"          the queue stores the caller's context as it is
     "shared_deadline"   the timeout is applied once, outside the retry loop
     "drop_first"        a merge registers only the links of the incoming request *)
EXTENDS ExportContextObs, BatcherSplit

CONSTANTS MaxAttempts, Variant

UpCap == 4     \* capacity of the links array of the upstream context: three links, appended one by one (1 -> 2 -> 4)

VARIABLES
  queue,      \* the sending queue: sequence of [req, n, ctx]
  cur,        \* currentBatch: [none, items, ctx]
  cfl, tfl,   \* batches whose flush() was called by the consumer / by the timer goroutine, export not begun
  infl,       \* <<>> or <<[b, att, phase]>>: the batch in the retry loop, attempt number, "run" | "wait"
  cancelled,  \* requests whose producer context has been cancelled
  stopping,   \* Shutdown was called
  now         \* clock (advances only in the exhaustive configuration; real runs carry their own times)

implVars == <<queue, cur, cfl, tfl, infl, cancelled, stopping, now>>
vars == <<obsVars, implVars>>

---------------------------------------------------------------------------
Background      == [parent |-> "none", links |-> <<>>, inh |-> "none", la |-> 0]
CallerCtx(r, a) == IF a.sc = "chain" THEN [parent |-> "none", links |-> a.up, inh |-> r, la |-> 1]
                   ELSE [parent |-> IF a.sc # "none" THEN r ELSE "none", links |-> <<>>, inh |-> r, la |-> 0]
\* context.WithoutCancel: values (span context, links) stay, cancellation and deadline do not
Detach(c)       == IF Variant = "nodetach" THEN c ELSE [c EXCEPT !.inh = "none"]
\* parentsFromContext: the span context if there is a valid one, otherwise the registered links
Parents(c)      == IF c.parent # "none" THEN <<c.parent>> ELSE c.links
\* contextWithMergedLinks: a NEW context on context.Background() with the links of both.
\* append(parentsFromContext(c1), parentsFromContext(c2)...) writes into c1's array when c1 has no span context and
\* the array has room (InPlace); otherwise the result lives in a new array nobody else knows.
InPlace(c1, c2) == /\ Variant = "alias" /\ c1.parent = "none" /\ c1.la # 0
                   /\ Parents(c2) # <<>> /\ Len(c1.links) + Len(Parents(c2)) <= UpCap
Merged(c1, c2)  == [parent |-> "none", inh |-> "none",
                    links |-> IF Variant = "drop_first" THEN Parents(c2) ELSE Parents(c1) \o Parents(c2),
                    la |-> IF InPlace(c1, c2) THEN c1.la ELSE 0]
\* the effect of that in-place append on ANOTHER context x whose links live in the same array
Clobber(x, c1, c2) == IF InPlace(c1, c2) /\ x.la = c1.la
                        THEN [x EXCEPT !.links = [j \in DOMAIN x.links |->
                                 IF j > Len(c1.links) /\ j <= Len(c1.links) + Len(Parents(c2))
                                   THEN Parents(c2)[j - Len(c1.links)] ELSE x.links[j]]]
                        ELSE x
ClobberB(b, c1, c2) == [b EXCEPT !.ctx = Clobber(b.ctx, c1, c2)]
\* obsQueue.Offer starts the span "exporter/enqueue" before the request is stored: with a recording tracer (cfg.enq)
\* the stored context has a valid span context even if the producer's context had none
EnqCtx(r, a)    == [CallerCtx(r, a) EXCEPT !.parent = IF cfg.enq THEN r ELSE @]
QueueCtx(r, a)  == CASE cfg.queue = "memory" -> Detach(EnqCtx(r, a))
                     [] cfg.queue = "wfr"    -> EnqCtx(r, a)
                     [] OTHER                -> Background

NoBatch       == [none |-> TRUE, items |-> <<>>, ctx |-> Background]
B(items, ctx) == [none |-> FALSE, items |-> items, ctx |-> ctx]
ItemsN(r, n)  == [i \in 1..n |-> <<r, i>>]

InitWith(c) ==
  /\ cfg = c /\ attr = <<>> /\ sent = <<>> /\ calls = <<>>
  /\ queue = <<>> /\ cur = NoBatch /\ cfl = <<>> /\ tfl = <<>> /\ infl = <<>>
  /\ cancelled = {} /\ stopping = FALSE /\ now = 0
\* the same as a step (the trace module starts every script from it)
ResetTo(c) ==
  /\ cfg' = c /\ attr' = <<>> /\ sent' = <<>> /\ calls' = <<>>
  /\ queue' = <<>> /\ cur' = NoBatch /\ cfl' = <<>> /\ tfl' = <<>> /\ infl' = <<>>
  /\ cancelled' = {} /\ stopping' = FALSE /\ now' = 0

---------------------------------------------------------------------------
\* ConsumeLogs(ctx_r, payload of a.n items) called at time t; D = the caller's absolute deadline (NoTime: none)
SendCore(r, a, t, D) ==
  /\ r \notin DOMAIN sent /\ ~stopping
  /\ attr' = attr @@ (r :> a)
  /\ sent' = sent @@ (r :> [t |-> t, D |-> D])
  /\ cancelled' = IF a.cancel = "pre" THEN cancelled \cup {r} ELSE cancelled
  /\ IF cfg.queue = "none"
       THEN \* no queue: the sender chain runs in the caller's goroutine and context; the call returns after it
            /\ cfl = <<>> /\ infl = <<>>
            /\ cfl' = <<B(ItemsN(r, a.n), CallerCtx(r, a))>>
            /\ UNCHANGED queue
       ELSE /\ queue' = Append(queue, [req |-> r, n |-> a.n, ctx |-> QueueCtx(r, a)])
            /\ UNCHANGED cfl
  /\ UNCHANGED <<cfg, calls, cur, tfl, infl, stopping, now>>

Cancel(r) ==
  /\ r \in DOMAIN sent /\ attr[r].cancel = "post" /\ r \notin cancelled
  /\ cancelled' = cancelled \cup {r}
  /\ UNCHANGED <<obsVars, queue, cur, cfl, tfl, infl, stopping, now>>

\* the queue consumer takes an element (FIFO; with wait_for_result the producers run concurrently and the
\* order in which they got into the queue is not observable: any element)
ConsumeAt(i) ==
  /\ i \in DOMAIN queue /\ cfl = <<>>
  /\ cfg.queue # "wfr" => i = 1
  /\ LET q     == queue[i]
         items == ItemsN(q.req, q.n)
     IN
     /\ queue' = [j \in 1..(Len(queue) - 1) |-> IF j < i THEN queue[j] ELSE queue[j + 1]]
     /\ IF ~cfg.batch
          THEN \* disabledBatcher.Consume: the export is called from the consumer goroutine
               /\ infl = <<>>
               /\ cfl' = <<B(items, q.ctx)>>
               /\ UNCHANGED cur
          ELSE LET parts == SplitP(cur.items \o items, "items", cfg.max, "alone").parts
                   n     == Len(parts)
               IN IF cur.none
                    THEN LET keepLast == Len(parts[n]) < cfg.min IN
                         /\ cur' = IF keepLast THEN B(parts[n], q.ctx) ELSE NoBatch
                         /\ cfl' = [k \in 1..(IF keepLast THEN n - 1 ELSE n) |-> B(parts[k], q.ctx)]
                    ELSE LET first      == B(parts[1], Merged(cur.ctx, q.ctx))
                             flushFirst == n > 1 \/ Len(parts[1]) >= cfg.min
                             rest       == SubSeq(parts, 2, n)
                             keepLast   == rest # <<>> /\ Len(rest[Len(rest)]) < cfg.min
                             restFl     == [k \in 1..(IF keepLast THEN Len(rest) - 1 ELSE Len(rest)) |-> B(rest[k], q.ctx)]
                         IN /\ cur' = IF keepLast THEN B(rest[Len(rest)], q.ctx)
                                      ELSE IF flushFirst THEN NoBatch ELSE first
                            /\ cfl' = IF flushFirst THEN <<first>> \o restFl ELSE restFl
  \* (alias) batches on their way whose links share the array written by this merge
  /\ IF cfg.batch /\ ~cur.none /\ InPlace(cur.ctx, queue[i].ctx)
       THEN /\ tfl' = [k \in DOMAIN tfl |-> ClobberB(tfl[k], cur.ctx, queue[i].ctx)]
            /\ infl' = [k \in DOMAIN infl |-> [infl[k] EXCEPT !.b = ClobberB(@, cur.ctx, queue[i].ctx)]]
       ELSE UNCHANGED <<tfl, infl>>
  /\ UNCHANGED <<obsVars, cancelled, stopping, now>>

\* flushCurrentBatchIfNecessary: timer goroutine, and defaultBatcher.Shutdown (a second caller: while the timer
\* goroutine still waits for the flush worker, Shutdown may take a batch the consumer has started since)
TimerFire ==
  /\ cfg.batch /\ ~cur.none
  /\ tfl' = Append(tfl, cur) /\ cur' = NoBatch
  /\ UNCHANGED <<obsVars, queue, cfl, infl, cancelled, stopping, now>>

---------------------------------------------------------------------------
Pending(who) == IF who = "c" THEN cfl ELSE tfl
CallerD(ctx) == IF ctx.inh # "none" /\ ctx.inh \in DOMAIN sent THEN sent[ctx.inh].D ELSE NoTime
CapBy(D, t)  == IF D >= 0 /\ D < t THEN D ELSE t

\* the attempt the model performs on batch b when the timeout context is created and the function entered at t
ModelCall(b, t, att) ==
  LET D == CallerD(b.ctx)
      T == cfg.timeout
      shared == Variant = "shared_deadline" /\ att > 1
  IN [items |-> b.items, parent |-> b.ctx.parent, links |-> b.ctx.links, sl |-> b.ctx.links,
      hasdl |-> T > 0 \/ D >= 0,
      d |-> IF shared THEN calls[Len(calls)].d ELSE IF T > 0 THEN CapBy(D, t + T) ELSE D,
      e |-> t, x |-> NoTime, err |-> b.ctx.inh \in cancelled, out |-> "open"]

(* does the attempt record c (possibly observed on the real code) fit batch b?  The timeout context was created
   somewhere in [lo, c.e]: the deadline is predicted as an interval. *)
Match(b, c, lo) ==
  LET D == CallerD(b.ctx)
      T == cfg.timeout
  IN /\ c.items = b.items /\ c.parent = b.ctx.parent /\ c.links = b.ctx.links /\ c.sl = b.ctx.links
     /\ c.hasdl = (T > 0 \/ D >= 0)
     /\ c.hasdl => IF T > 0 THEN CapBy(D, lo + T) <= c.d /\ c.d <= CapBy(D, c.e + T) ELSE c.d = D
     /\ c.err = (b.ctx.inh \in cancelled)

StartFirst(who, c) ==
  /\ infl = <<>> /\ Pending(who) # <<>>
  /\ LET b == Head(Pending(who)) nc == Append(calls, c) IN
       /\ Variant = "code" => Match(b, c, Lo(nc, Len(nc)))
       /\ calls' = nc
       /\ infl' = <<[b |-> b, att |-> 1, phase |-> "run"]>>
  /\ IF who = "c" THEN cfl' = Tail(cfl) /\ UNCHANGED tfl ELSE tfl' = Tail(tfl) /\ UNCHANGED cfl
  /\ UNCHANGED <<cfg, attr, sent, queue, cur, cancelled, stopping, now>>

StartRetry(c) ==
  /\ infl # <<>> /\ infl[1].phase = "wait"
  /\ LET nc == Append(calls, c) IN
       /\ Variant = "code" => Match(infl[1].b, c, Lo(nc, Len(nc)))
       /\ calls' = nc
  /\ infl' = <<[infl[1] EXCEPT !.att = @ + 1, !.phase = "run"]>>
  /\ UNCHANGED <<cfg, attr, sent, queue, cur, cfl, tfl, cancelled, stopping, now>>

\* the export function returns from call k at time x with outcome out; err = ctx.Err() # nil at that moment
End(k, out, x, err) ==
  /\ infl # <<>> /\ infl[1].phase = "run" /\ k = Len(calls)
  /\ err = (infl[1].b.ctx.inh \in cancelled)
  /\ calls' = [calls EXCEPT ![k] = [@ EXCEPT !.x = x, !.out = out, !.err = @ \/ err]]
  /\ infl' = IF out = "transient" /\ cfg.retry /\ infl[1].att < MaxAttempts
               THEN <<[infl[1] EXCEPT !.phase = "wait"]>> ELSE <<>>
  /\ UNCHANGED <<cfg, attr, sent, queue, cur, cfl, tfl, cancelled, stopping, now>>

GiveUp ==
  /\ infl # <<>> /\ infl[1].phase = "wait"
  /\ infl' = <<>>
  /\ UNCHANGED <<obsVars, queue, cur, cfl, tfl, cancelled, stopping, now>>

Shutdown ==
  /\ ~stopping /\ DOMAIN sent # {}
  /\ stopping' = TRUE
  /\ UNCHANGED <<obsVars, queue, cur, cfl, tfl, infl, cancelled, now>>

Tick == now' = now + 1 /\ UNCHANGED <<obsVars, queue, cur, cfl, tfl, infl, cancelled, stopping>>

Quiescent == stopping /\ queue = <<>> /\ cur.none /\ cfl = <<>> /\ tfl = <<>> /\ infl = <<>>

---------------------------------------------------------------------------
(* What the CODE does where the documentation is silent (facts of this model, not clauses of the statement) *)
\* S2/S3: with the items sizer a batch is connected to exactly the requests whose data it holds, each once
OwnSpans(r)  == IF cfg.enq THEN {r} ELSE Spans(r)
ExactOrigins == \A k \in DOMAIN calls :
                   /\ Origins(calls[k]) = IF cfg.queue = "persistent" THEN {} ELSE UNION {OwnSpans(r) : r \in Contrib(calls[k])}
                   /\ (\A r \in Contrib(calls[k]) : attr[r].sc # "chain") => Cardinality(SetOf(calls[k].links)) = Len(calls[k].links)
\* S1: a batch made of one request keeps that request's span context as the parent, a merged batch has no parent
SingleKeepsParent == \A k \in DOMAIN calls :
                   IF Cardinality(Contrib(calls[k])) = 1 /\ cfg.queue # "persistent"
                     THEN \A r \in Contrib(calls[k]) :
                            IF attr[r].sc = "chain" /\ ~cfg.enq THEN calls[k].parent = "none" /\ calls[k].links = attr[r].up
                            ELSE calls[k].links = <<>> /\ (OwnSpans(r) # {} => calls[k].parent = r)
                     ELSE calls[k].parent = "none"

(* Finding E03-links-alias (Variant = "alias", the tree as it is): LinksComplete fails for a batch that holds a "chain"
   request -- the links registered after the upstream ones were overwritten through the shared array.  Everything
   else must still hold: the design check runs "alias" with LinksComplete in the form Inv \/ KnownAlias. *)
KnownAlias(cs, k) == /\ Variant = "alias"
                     /\ \E r \in Contrib(cs[k]) : /\ attr[r].sc = "chain" /\ Len(cs[k].links) >= Len(attr[r].up)
                                                  /\ SubSeq(cs[k].links, 1, Len(attr[r].up)) = attr[r].up
InvLinksCompleteOrKnown == \A k \in DOMAIN calls : LinksComplete(calls, k) \/ KnownAlias(calls, k)
=============================================================================
