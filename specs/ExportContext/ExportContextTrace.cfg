SPECIFICATION TSpec
CONSTANTS
  MaxAttempts = 99
  Variant = "code"
CHECK_DEADLOCK FALSE
