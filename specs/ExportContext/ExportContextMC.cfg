SPECIFICATION MCSpec
CONSTANTS
  MaxAttempts = 2
  Variant = "code"
INVARIANT InvLinksComplete
INVARIANT InvLinksSound
INVARIANT InvDeadlineOK
INVARIANT InvNotCancelled
INVARIANT ExactOrigins
INVARIANT SingleKeepsParent
CHECK_DEADLOCK FALSE
