SPECIFICATION GSpec
CONSTANTS
  MaxAttempts = 3
  Variant = "code"
INVARIANT Emit
CHECK_DEADLOCK FALSE
