--------------------------- MODULE ExportContextMC ---------------------------
(* E03 -- exhaustive design check of ExportContext.tla: every configuration of ParamCfgs, the requests of ParamReqs
   handed in in order, each with every attribute combination of ParamAttrs (items, span context kind, caller
   deadline, cancellation before / after the hand-in), all interleavings of producers, cancellations, the queue
   consumer, the flush timer, export attempts with every outcome, retries, shutdown and clock ticks.
   Invariants: Statement (the four clauses of ExportContextObs) and the two facts ExactOrigins, SingleKeepsParent. *)
EXTENDS ExportContext, ExportContextParams

\* cancellation is only scripted where the driver can perform it meaningfully (see ExportContextGen)
AttrOK(a) == /\ a.cancel = "post" => cfg.queue \in {"memory", "persistent"}
             /\ a.cancel = "pre"  => cfg.queue \in {"memory", "persistent", "none"}
             /\ a.sc = "chain"    => ~cfg.enq /\ cfg.queue # "persistent"

NextReq == ParamReqs[Cardinality(DOMAIN sent) + 1]
Send(a) == /\ Cardinality(DOMAIN sent) < Len(ParamReqs) /\ AttrOK(a)
           /\ SendCore(NextReq, a, now, IF a.dl = 0 THEN NoTime ELSE now + a.dl)

MCInit == \E c \in ParamCfgs : InitWith(c)
MCSend       == \E a \in ParamAttrs : Send(a)
MCCancel     == \E r \in DOMAIN sent : Cancel(r)
MCConsume    == \E i \in DOMAIN queue : ConsumeAt(i)
MCStartFirst == \E who \in {"c", "t"} : Pending(who) # <<>> /\ StartFirst(who, ModelCall(Head(Pending(who)), now, 1))
MCStartRetry == infl # <<>> /\ StartRetry(ModelCall(infl[1].b, now, infl[1].att + 1))
MCEnd        == \E out \in ParamOuts : infl # <<>> /\ End(Len(calls), out, now, infl[1].b.ctx.inh \in cancelled)
MCTick       == now < ParamMaxNow /\ Tick
MCNext == MCSend \/ MCCancel \/ MCConsume \/ TimerFire \/ MCStartFirst \/ MCStartRetry \/ MCEnd \/ GiveUp \/ Shutdown \/ MCTick
MCSpec == MCInit /\ [][MCNext]_vars
=============================================================================
