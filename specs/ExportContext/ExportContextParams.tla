------------------------- MODULE ExportContextParams -------------------------
(* E03 -- parameters of an exhaustive / generator run.  checks/E03.py writes its own copy of this module for every
   run (a .cfg file cannot contain records); this one is the default for running ExportContextMC / ExportContextGen
   by hand.  Times are ticks of the model clock: timeout 3, caller deadlines 2 (earlier than the timeout) and 8. *)
ParamReqs   == <<"r1", "r2">>
ParamCfgs   == {[queue |-> "memory", batch |-> TRUE, min |-> 2, max |-> 3, timeout |-> 3, retry |-> TRUE, enq |-> FALSE],
                [queue |-> "none", batch |-> FALSE, min |-> 0, max |-> 0, timeout |-> 3, retry |-> TRUE, enq |-> FALSE]}
ParamAttrs  == {[n |-> 1, sc |-> "span", dl |-> 0, cancel |-> "post", up |-> <<>>],
                [n |-> 2, sc |-> "none", dl |-> 2, cancel |-> "no", up |-> <<>>],
                [n |-> 3, sc |-> "unsampled", dl |-> 8, cancel |-> "pre", up |-> <<>>]}
ParamMaxNow == 2
ParamOuts   == {"ok", "transient"}
=============================================================================
