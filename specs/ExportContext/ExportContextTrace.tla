-------------------------- MODULE ExportContextTrace --------------------------
(* E03 -- trace validation and monitor in one: logs recorded from the REAL exporter helper (harness/exportctx) are
   (1) judged against the clauses of ExportContextObs.tla -- a false clause is printed as <<"VIOL", json>> and the run
       goes on, so every script of the file gets its verdicts -- and
   (2) explained, if possible, as a behaviour of the implementation-shaped model ExportContext.tla: the logged lines
       (send, cancel, export entered / returned, shutdown) must be produced by the corresponding model actions with
       exactly the observed items, parent, links, deadline (as an interval, see ExportContext!Match) and cancellation
       flag, while the steps the log does not show (queue consumer, flush timer, end of the retry loop) are searched
       by TLC.  A script that has an explanation is printed as <<"EXPL", sid>> when its "stopped" line is reached.
       A script without one is model drift (or a finding if a clause failed as well) -- decided by checks/E03.py.

   observed.ndjson, many scripts per file:
     {"ev":"reset","sid":s,"cfg":{queue,batch,min,max,timeout(us),retry,enq}}
     {"ev":"send","r":r,"t":us,"D":us|-1,"a":{n,sc,up,dl,cancel}}   just before ConsumeLogs
     {"ev":"sent","r":r,"t":us,"res":..}                            ConsumeLogs returned
     {"ev":"cancel","r":r,"t":us}                                   just before the producer's cancel()
     {"ev":"exp","call":k,"c":{items,parent,links,sl,hasdl,d,e,x,err,out}}   export function entered
     {"ev":"expend","call":k,"x":us,"out":o,"err":bool}             export function about to return
     {"ev":"validate","t":ns,"ok":bool}                             TimeoutConfig{t}.Validate() = nil (pseudo-script)
     {"ev":"wait"} {"ev":"shutdown"} {"ev":"stopped"} {"ev":"hang"} {"ev":"note",..}
   The order of the lines is the order in which the recorder's mutex was taken.

   Every script is walked twice from its reset line: mode "ok" (the model must follow; the walk ends where it cannot)
   and mode "skip" (no model, every line is taken and the clauses are evaluated); both modes meet again in the same
   state at the next reset, so the cost is linear. *)
EXTENDS ExportContext, Json

Log == ndJsonDeserialize("observed.ndjson")

VARIABLES l, mode, sid
tvars == <<vars, l, mode, sid>>

E == Log[l]
Is(e) == l <= Len(Log) /\ E.ev = e /\ l' = l + 1
Ok == mode = "ok"
Keep == UNCHANGED <<mode, sid>>

NoCfg == [queue |-> "none", batch |-> FALSE, min |-> 0, max |-> 0, timeout |-> 0, retry |-> FALSE, enq |-> FALSE]
TInit == InitWith(NoCfg) /\ l = 1 /\ mode = "skip" /\ sid = ""

Viol(clause, k, detail) == PrintT(<<"VIOL", ToJson([sid |-> sid, line |-> l, clause |-> clause, call |-> k, detail |-> detail])>>)
\* evaluate every clause on attempt k of cs; never false (the verdict is the printed line)
Judge(cs, k) == \A cl \in Clauses : IF Holds(cl, cs, k) THEN TRUE
                                    ELSE Viol(cl, k, [c |-> cs[k], lo |-> Lo(cs, k), sent |-> sent, timeout |-> cfg.timeout,
                                                      queue |-> cfg.queue])

TReset ==
  /\ Is("reset")
  /\ ResetTo(E.cfg)
  /\ sid' = E.sid /\ mode' \in {"ok", "skip"}

TSend ==
  /\ Is("send") /\ Keep
  /\ IF Ok THEN SendCore(E.r, E.a, E.t, E.D)
     ELSE /\ attr' = attr @@ (E.r :> E.a) /\ sent' = sent @@ (E.r :> [t |-> E.t, D |-> E.D])
          /\ UNCHANGED <<cfg, calls, implVars>>

\* ConsumeLogs returned; without a queue the export has run inside the call
TSent ==
  /\ Is("sent") /\ Keep
  /\ (Ok /\ cfg.queue = "none") => (cfl = <<>> /\ infl = <<>>)
  /\ UNCHANGED vars

TCancel ==
  /\ Is("cancel") /\ Keep
  /\ IF Ok THEN Cancel(E.r) ELSE UNCHANGED vars

TExp ==
  /\ Is("exp") /\ Keep
  /\ Ok \/ Judge(Append(calls, E.c), Len(calls) + 1)
  /\ IF Ok THEN (\E who \in {"c", "t"} : StartFirst(who, E.c)) \/ StartRetry(E.c)
     ELSE calls' = Append(calls, E.c) /\ UNCHANGED <<cfg, attr, sent, implVars>>

TExpEnd ==
  /\ Is("expend") /\ Keep
  /\ LET nc == [calls EXCEPT ![E.call] = [@ EXCEPT !.x = E.x, !.out = E.out, !.err = @ \/ E.err]] IN
       /\ E.call \in DOMAIN calls
       /\ (IF Ok \/ NotCancelled(nc, E.call) THEN TRUE
           ELSE Viol("NotCancelled", E.call, [c |-> nc[E.call], lo |-> 0, sent |-> sent, timeout |-> cfg.timeout, queue |-> cfg.queue]))
       /\ IF Ok THEN End(E.call, E.out, E.x, E.err)
          ELSE calls' = nc /\ UNCHANGED <<cfg, attr, sent, implVars>>

TShutdown ==
  /\ Is("shutdown") /\ Keep
  /\ IF Ok /\ DOMAIN sent # {} THEN Shutdown ELSE UNCHANGED vars

\* Shutdown returned: everything handed in has been exported (the persistent queue may keep requests for the next start)
TStopped ==
  /\ Is("stopped") /\ Keep
  /\ Ok => /\ cfg.queue # "persistent" => queue = <<>>
           /\ cur.none /\ cfl = <<>> /\ tfl = <<>> /\ infl = <<>>
           /\ PrintT(<<"EXPL", sid>>)
  /\ UNCHANGED vars

\* what TimeoutConfig.Validate said about timeout E.t
TValidate ==
  /\ Is("validate") /\ Keep
  /\ (IF Ok \/ E.ok = ValidTimeout(E.t) THEN TRUE
      ELSE Viol("TimeoutValidate", 0, [c |-> [items |-> <<>>, parent |-> "none", links |-> <<>>, sl |-> <<>>, hasdl |-> FALSE, d |-> E.t,
                                              e |-> 0, x |-> 0, err |-> ~E.ok, out |-> "validate"],
                                       lo |-> 0, sent |-> sent, timeout |-> E.t, queue |-> cfg.queue]))
  /\ UNCHANGED vars

TOther ==
  /\ l <= Len(Log) /\ E.ev \in {"wait", "note", "hang"} /\ l' = l + 1 /\ Keep
  /\ UNCHANGED vars

\* steps of the model that the log does not show
TInternal ==
  /\ Ok /\ l <= Len(Log) /\ UNCHANGED <<l, mode, sid>>
  /\ \/ \E i \in DOMAIN queue : ConsumeAt(i)
     \/ TimerFire
     \/ GiveUp

TNext == TReset \/ TSend \/ TSent \/ TCancel \/ TExp \/ TExpEnd \/ TShutdown \/ TStopped \/ TValidate \/ TOther \/ TInternal
TSpec == TInit /\ [][TNext]_tvars
=============================================================================
