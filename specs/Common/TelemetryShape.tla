--------------------------- MODULE TelemetryShape ---------------------------
(* Shapes of telemetry payloads, shared by the BatchProcessor (C17) and Batcher (C04) specs.

   A shape is a nested tuple   payload = << resource, ... >>
                               resource = << scope, ... >>
                               scope    = << n1, n2, ... >>      ni \in Nat
   where ni is the number of items (data points) of the i-th metric of the scope.  For logs,
   traces and profiles the harness ignores the metric level and lays the n1+n2+... items of a
   scope out consecutively.  Empty containers at every level are shapes too.

   The flat projection of a shape is the sequence of the *contexts* of its items in traversal
   order resource -> scope -> metric -> item; the context of an item is its path <<r, s, m>>.
   Both implementations walk the payload in exactly that order when they split, so the flat
   projection is what the models work on; the nesting only matters to the real code (where a
   split falls inside a resource / scope / metric and must re-create the enclosing containers). *)
EXTENDS Integers, Sequences

RECURSIVE Concat(_)
Concat(ss) == IF ss = <<>> THEN <<>> ELSE Head(ss) \o Concat(Tail(ss))

MetricCtxs(r, s, m, n) == [j \in 1..n |-> <<r, s, m>>]
ScopeCtxs(r, s, sc)    == Concat([m \in 1..Len(sc) |-> MetricCtxs(r, s, m, sc[m])])
ResourceCtxs(r, rs)    == Concat([s \in 1..Len(rs) |-> ScopeCtxs(r, s, rs[s])])
Flatten(shape)         == Concat([r \in 1..Len(shape) |-> ResourceCtxs(r, shape[r])])
ItemCount(shape)       == Len(Flatten(shape))

(* The standard library of shapes used by the behaviour generators.  Chosen so that splits fall
   at every level: inside a metric, between metrics, between scopes, between resources, next to
   empty containers, and on payloads without any item. *)
StdShapes == <<
   << << <<1>> >> >>,                                   \*  1: one item
   << << <<3>> >> >>,                                   \*  2: one metric with three items
   << << <<2, 2>> >> >>,                                \*  3: two metrics in one scope
   << << <<1>>, <<2>> >> >>,                            \*  4: two scopes in one resource
   << << <<2>> >>, << <<1>>, <<1, 1>> >> >>,            \*  5: two resources, second with two scopes
   << << <<>>, <<0, 2>> >>, <<>>, << <<1>> >> >>,       \*  6: empty scope, empty metric, empty resource
   <<>>,                                                \*  7: empty payload
   << << <<5>> >> >>,                                   \*  8: one metric with five items
   << << <<1, 3>>, <<2>> >>, << <<1>> >> >>             \*  9: mixed, 7 items
>>
=============================================================================
