------------------------- MODULE TelemetryShapeLib -------------------------
(* Prints the shape library as JSON so that the checks build real payloads from exactly the
   shapes the specifications use.   tlc -config: INIT LibInit / NEXT LibNext *)
EXTENDS TelemetryShape, Json, TLC
VARIABLE done
LibInit == done = FALSE /\ PrintT(<<"LIB", ToJson(StdShapes)>>)
LibNext == done' = TRUE /\ ~done
=============================================================================
