---------------------------- MODULE PipelineXMonitor ----------------------------
(* End-to-end monitor for the composed pipeline of PipelineX.tla run on a REAL service (harness/pipeline/cmdx: test receiver ->
   real memory limiter -> real batch processor -> fan-out -> exporters built with the exporter helper -> scripted backends).
   Events:  reset{script}  inject_end{items,ok}  exp_consume{exp,items,ok}  push_start  push_end{exp,items,out}
            shutdown_start  shutdown_end  late_push{exp,items}
   Clauses (from PipelineX.tla) decided when Service.Shutdown has returned; one verdict line per violated clause. *)
EXTENDS Integers, Sequences, FiniteSets, TLC, Json

Log == ndJsonDeserialize("observed.ndjson")
VARIABLES l, sid, accepted, refused, delivered, failed, failure
mvars == <<l, sid, accepted, refused, delivered, failed, failure>>
E == Log[l]
Is(e) == l <= Len(Log) /\ E.ev = e /\ l' = l + 1
SetOf(s) == {s[i] : i \in 1..Len(s)}
Report(clause, detail) == PrintT(<<"BEH", ToJson([script |-> sid, clause |-> clause, detail |-> detail])>>)
\* delivered: set of <<exporter, item, k>> (k-th delivery); failed: set of <<exporter, item>>; failure: set of exporters
Cnt(x, i) == Cardinality({d \in delivered : d[1] = x /\ d[2] = i})
ExpsSeen == {"e1", "e2"}

MInit == l = 1 /\ sid = "" /\ accepted = {} /\ refused = {} /\ delivered = {} /\ failed = {} /\ failure = {}
MReset == Is("reset") /\ sid' = E.script /\ accepted' = {} /\ refused' = {} /\ delivered' = {} /\ failed' = {} /\ failure' = {}
MInject == /\ Is("inject_end")
           /\ IF E.ok THEN accepted' = accepted \cup SetOf(E.items) /\ UNCHANGED refused
                      ELSE refused' = refused \cup SetOf(E.items) /\ UNCHANGED accepted
           /\ UNCHANGED <<sid, delivered, failed, failure>>
MExpConsume == /\ Is("exp_consume")
               /\ IF E.ok THEN UNCHANGED <<failed, failure>>
                          ELSE failed' = failed \cup {<<E.exp, i>> : i \in SetOf(E.items)} /\ failure' = failure \cup {E.exp}
               /\ UNCHANGED <<sid, accepted, refused, delivered>>
MPushEnd == /\ Is("push_end")
            /\ IF E.out = "ok"
                 THEN delivered' = delivered \cup {<<E.exp, i, Cnt(E.exp, i) + 1>> : i \in SetOf(E.items)} /\ UNCHANGED <<failed, failure>>
                 ELSE failed' = failed \cup {<<E.exp, i>> : i \in SetOf(E.items)} /\ failure' = failure \cup {E.exp} /\ UNCHANGED delivered
            /\ UNCHANGED <<sid, accepted, refused>>
MLate == Is("late_push") /\ Report("NoWorkAfterShutdown", <<E.exp, E.items>>) /\ UNCHANGED <<sid, accepted, refused, delivered, failed, failure>>
MShutEnd == /\ Is("shutdown_end")
            /\ LET lost  == {<<x, i>> \in ExpsSeen \X accepted : Cnt(x, i) = 0 /\ <<x, i>> \notin failed}
                   twice == {<<x, i>> \in ExpsSeen \X accepted : x \notin failure /\ Cnt(x, i) # 1}
                   ghost == {d \in delivered : d[2] \notin accepted}
                   leak  == {d \in delivered : d[2] \in refused}
               IN /\ (lost # {} => Report("NoSilentLoss", lost))
                  /\ ((twice \ lost) # {} => Report("ExactlyOnceIfClean", twice \ lost))
                  /\ ((ghost \ leak) # {} => Report("NothingInvented", ghost \ leak))
                  /\ (leak # {} => Report("RefusedUntouched", leak))
                  /\ ((accepted \cap refused) # {} => Report("AcceptedXorRefused", accepted \cap refused))
            /\ UNCHANGED <<sid, accepted, refused, delivered, failed, failure>>
MSkip == /\ l <= Len(Log) /\ E.ev \in {"push_start", "shutdown_start", "note", "end", "mem"} /\ l' = l + 1
         /\ UNCHANGED <<sid, accepted, refused, delivered, failed, failure>>
MNext == MReset \/ MInject \/ MExpConsume \/ MPushEnd \/ MLate \/ MShutEnd \/ MSkip
MSpec == MInit /\ [][MNext]_mvars
AllConsumed == TLCGet("stats").diameter - 1 = Len(Log)
=============================================================================
