SPECIFICATION Spec
CONSTANTS
  Items = {"a", "b", "c"}
  Exps = {"e1", "e2"}
  BatchSize = 2
  QueueCap = 1
  RetryOn = TRUE
  MaxAttempts = 2
  Limiter = TRUE
  MaxFlips = 2
INVARIANTS NoSilentLoss ExactlyOnceIfClean NothingInvented RefusedUntouched NoDuplicates AcceptedXorRefused
CHECK_DEADLOCK FALSE
