SPECIFICATION MSpec
POSTCONDITION AllConsumed
CHECK_DEADLOCK FALSE
