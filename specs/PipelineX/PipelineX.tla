------------------------------ MODULE PipelineX ------------------------------
(* E05 (extra, beyond the listed properties) -- composition model, second stage.  ONE logs pipeline as the service builds it

     receiver --> memory limiter --> batch processor --> fan-out --> exporter e (sending queue, consumer, retry) --> backend e
                                                                 \-> exporter e' ...

   at item level, with the graceful service shutdown in the order graph.ShutdownAll uses (receivers, processors,
   exporters one after the other).  It extends specs/Pipeline (one exporter, no limiter) by the two places where the
   pipeline tells its caller something or has to keep consumers apart:
     * the memory limiter REFUSES data while it is in refusing mode: the receiver's call returns an error, the caller keeps
       responsibility for the item, and nothing of it may ever reach a backend;
     * the fan-out hands every batch to EVERY exporter; each exporter has its own queue, retries and failures, and what
       happens at one exporter must not cost another exporter its data.
   End-to-end statement (per exporter e):
     every item a receiver was told "accepted" is, when Service.Shutdown has returned, either delivered to backend e or
     dropped at e WITH a recorded failure of e (enqueue refused, permanent failure, retries given up); delivered exactly
     once to e when e recorded no failure -- whatever happened at the other exporters; an item the receiver was told
     "refused" reaches no backend.
   Actions follow the code as in Pipeline.tla; MemFlip is the limiter's periodic check changing its mode. *)
EXTENDS Integers, Sequences, FiniteSets, TLC

CONSTANTS Items, Exps, BatchSize, QueueCap, RetryOn, MaxAttempts,
          Limiter,      \* a memory limiter processor is configured
          MaxFlips      \* bound on mode changes of the limiter

VARIABLES toInject, accepted, refused, refusing, flips,
          pending,      \* batch processor: items received, not yet sent (sequence)
          queue,        \* [Exps -> sequence of batches]
          inflight,     \* [Exps -> [items, attempts, st]]
          delivered,    \* [Exps -> [Items -> count]]
          dropped,      \* [Exps -> set of items dropped with a recorded failure of that exporter]
          failure,      \* [Exps -> BOOLEAN] the exporter recorded a failure
          phase,        \* "run" | "rcv_stopped" | "proc_stopped" | "done"
          xphase        \* [Exps -> "run" | "retry_stopped" | "queue_stopped" | "done"]  (exporters shut down one at a time)
vars == <<toInject, accepted, refused, refusing, flips, pending, queue, inflight, delivered, dropped, failure, phase, xphase>>

None == [items |-> {}, attempts |-> 0, st |-> "none"]
SeqToSet(s) == {s[i] : i \in 1..Len(s)}

Init == /\ toInject = Items /\ accepted = {} /\ refused = {} /\ refusing = FALSE /\ flips = 0 /\ pending = <<>>
        /\ queue = [e \in Exps |-> <<>>] /\ inflight = [e \in Exps |-> None]
        /\ delivered = [e \in Exps |-> [i \in Items |-> 0]] /\ dropped = [e \in Exps |-> {}] /\ failure = [e \in Exps |-> FALSE]
        /\ phase = "run" /\ xphase = [e \in Exps |-> "run"]

MemFlip == /\ Limiter /\ phase = "run" /\ flips < MaxFlips
           /\ refusing' = ~refusing /\ flips' = flips + 1
           /\ UNCHANGED <<toInject, accepted, refused, pending, queue, inflight, delivered, dropped, failure, phase, xphase>>

Inject(i) ==
  /\ phase = "run" /\ i \in toInject /\ toInject' = toInject \ {i}
  /\ IF Limiter /\ refusing
       THEN refused' = refused \cup {i} /\ UNCHANGED <<accepted, pending>>      \* ErrDataRefused goes back to the caller
       ELSE accepted' = accepted \cup {i} /\ pending' = Append(pending, i) /\ UNCHANGED refused
  /\ UNCHANGED <<refusing, flips, queue, inflight, delivered, dropped, failure, phase, xphase>>

Room(e) == Len(queue[e]) + (IF inflight[e].st # "none" THEN 1 ELSE 0) < QueueCap
\* batch processor sends a batch through the fan-out: every exporter is offered it; one that refuses (queue full) records
\* the failure, the others keep it
SendBatch(n) ==
  /\ phase \in {"run", "rcv_stopped"} /\ n \in 1..Len(pending) /\ n <= BatchSize
  /\ LET b == SeqToSet(SubSeq(pending, 1, n)) IN
     /\ pending' = SubSeq(pending, n + 1, Len(pending))
     /\ queue' = [e \in Exps |-> IF Room(e) THEN Append(queue[e], b) ELSE queue[e]]
     /\ dropped' = [e \in Exps |-> IF Room(e) THEN dropped[e] ELSE dropped[e] \cup b]
     /\ failure' = [e \in Exps |-> failure[e] \/ ~Room(e)]
  /\ UNCHANGED <<toInject, accepted, refused, refusing, flips, inflight, delivered, phase, xphase>>

Dequeue(e) ==
  /\ inflight[e].st = "none" /\ queue[e] # <<>> /\ xphase[e] # "done"
  /\ inflight' = [inflight EXCEPT ![e] = [items |-> Head(queue[e]), attempts |-> 0, st |-> "ready"]]
  /\ queue' = [queue EXCEPT ![e] = Tail(@)]
  /\ UNCHANGED <<toInject, accepted, refused, refusing, flips, pending, delivered, dropped, failure, phase, xphase>>

Stopping(e) == xphase[e] \in {"retry_stopped", "queue_stopped"}
Export(e, o) ==
  /\ inflight[e].st = "ready"
  /\ CASE o = "ok" -> /\ delivered' = [delivered EXCEPT ![e] = [i \in Items |-> IF i \in inflight[e].items THEN @[i] + 1 ELSE @[i]]]
                      /\ inflight' = [inflight EXCEPT ![e] = None] /\ UNCHANGED <<dropped, failure>>
       [] o = "perm" -> /\ dropped' = [dropped EXCEPT ![e] = @ \cup inflight[e].items] /\ failure' = [failure EXCEPT ![e] = TRUE]
                        /\ inflight' = [inflight EXCEPT ![e] = None] /\ UNCHANGED delivered
       [] o = "transient" ->
            /\ failure' = [failure EXCEPT ![e] = TRUE] /\ UNCHANGED delivered
            /\ IF RetryOn /\ inflight[e].attempts + 1 < MaxAttempts /\ ~Stopping(e)
                 THEN inflight' = [inflight EXCEPT ![e].attempts = @ + 1, ![e].st = "waiting"] /\ UNCHANGED dropped
                 ELSE inflight' = [inflight EXCEPT ![e] = None] /\ dropped' = [dropped EXCEPT ![e] = @ \cup inflight[e].items]
  /\ UNCHANGED <<toInject, accepted, refused, refusing, flips, pending, queue, phase, xphase>>

RetryWake(e) ==
  /\ inflight[e].st = "waiting"
  /\ IF Stopping(e)
       THEN inflight' = [inflight EXCEPT ![e] = None] /\ dropped' = [dropped EXCEPT ![e] = @ \cup inflight[e].items]
       ELSE inflight' = [inflight EXCEPT ![e].st = "ready"] /\ UNCHANGED dropped
  /\ UNCHANGED <<toInject, accepted, refused, refusing, flips, pending, queue, delivered, failure, phase, xphase>>

\* graceful shutdown: receivers, processors (the batch processor drains), then the exporters one at a time
Step ==
  /\ CASE phase = "run"          -> phase' = "rcv_stopped" /\ UNCHANGED xphase
       [] phase = "rcv_stopped"  -> pending = <<>> /\ phase' = "proc_stopped" /\ UNCHANGED xphase
       [] phase = "proc_stopped" ->
            IF \A e \in Exps : xphase[e] = "done" THEN phase' = "done" /\ UNCHANGED xphase
            ELSE /\ UNCHANGED phase
                 /\ \E e \in Exps :
                      /\ \A f \in Exps : f # e => xphase[f] \in {"run", "done"}        \* one exporter at a time
                      /\ CASE xphase[e] = "run"           -> xphase' = [xphase EXCEPT ![e] = "retry_stopped"]
                           [] xphase[e] = "retry_stopped" -> xphase' = [xphase EXCEPT ![e] = "queue_stopped"]
                           [] xphase[e] = "queue_stopped" -> /\ queue[e] = <<>> /\ inflight[e].st = "none"
                                                             /\ xphase' = [xphase EXCEPT ![e] = "done"]
                           [] OTHER -> FALSE
       [] OTHER -> FALSE
  /\ UNCHANGED <<toInject, accepted, refused, refusing, flips, pending, queue, inflight, delivered, dropped, failure>>

Next == \/ \E i \in Items : Inject(i)
        \/ MemFlip
        \/ \E n \in 1..BatchSize : SendBatch(n)
        \/ \E e \in Exps : Dequeue(e) \/ RetryWake(e) \/ \E o \in {"ok", "perm", "transient"} : Export(e, o)
        \/ Step
Spec == Init /\ [][Next]_vars

----------------------------------------------------------------------------
Done == phase = "done"
NoSilentLoss       == Done => \A e \in Exps : \A i \in accepted : delivered[e][i] >= 1 \/ i \in dropped[e]
\* independence: an exporter that recorded no failure has every accepted item exactly once, whatever the others did
ExactlyOnceIfClean == Done => \A e \in Exps : ~failure[e] => \A i \in accepted : delivered[e][i] = 1
NothingInvented    == \A e \in Exps : \A i \in Items : delivered[e][i] > 0 => i \in accepted
RefusedUntouched   == \A e \in Exps : \A i \in refused : delivered[e][i] = 0 /\ i \notin dropped[e]
NoDuplicates       == \A e \in Exps : \A i \in Items : delivered[e][i] <= 1
AcceptedXorRefused == accepted \cap refused = {}
=============================================================================
