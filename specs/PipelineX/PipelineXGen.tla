------------------------------ MODULE PipelineXGen ------------------------------
(* Script generator: behaviours of PipelineX.tla projected to what the driver (harness/pipeline/cmdx) controls -- the order of
   injections, the memory readings (above / below the limiter's soft limit), the moment Service.Shutdown is requested and,
   per exporter, the outcome of its k-th export call (an export the behaviour places after the shutdown request is
   scripted "slow": the real call blocks until shutdown was requested). *)
EXTENDS PipelineX, Json

VARIABLES steps, outs
gvars == <<vars, steps, outs>>
GInit == Init /\ steps = <<>> /\ outs = [e \in Exps |-> <<>>]
Pause(s) == IF phase = "run" /\ (s = <<>> \/ s[Len(s)].op # "pause") THEN Append(s, [op |-> "pause", item |-> ""]) ELSE s
GNext ==
  \/ \E i \in Items : Inject(i) /\ steps' = Append(steps, [op |-> "inject", item |-> i]) /\ UNCHANGED outs
  \/ MemFlip /\ steps' = Append(steps, [op |-> "mem", item |-> IF refusing THEN "low" ELSE "high"]) /\ UNCHANGED outs
  \/ \E n \in 1..BatchSize : SendBatch(n) /\ UNCHANGED <<steps, outs>>
  \/ \E e \in Exps : (Dequeue(e) \/ RetryWake(e)) /\ UNCHANGED <<steps, outs>>
  \/ \E e \in Exps, o \in {"ok", "perm", "transient"} :
        /\ Export(e, o)
        /\ outs' = [outs EXCEPT ![e] = Append(@, IF phase # "run" /\ o = "ok" /\ inflight[e].attempts = 0 THEN "slow" ELSE o)]
        /\ steps' = Pause(steps)
  \/ Step /\ steps' = (IF phase = "run" THEN Append(steps, [op |-> "shutdown", item |-> ""]) ELSE steps) /\ UNCHANGED outs
GSpec == GInit /\ [][GNext]_gvars
EmitScript == Done => PrintT(<<"BEH", ToJson([steps |-> steps, outcomes |-> outs])>>)
=============================================================================
