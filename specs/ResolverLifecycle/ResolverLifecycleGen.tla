---------------------------- MODULE ResolverLifecycleGen ----------------------------
(* E12 -- script generator.  Explores the model (variant "gen" = the documented behaviour: no Resolve waits for ever) with
   the notifier goroutines scheduled EAGERLY (a watcher call that can move does so before anybody else: that is what
   real goroutines do within microseconds) and prints the configuration and the history of every behaviour that has
   reached the end of a Shutdown and then stopped (notifications and receives after Shutdown included).
   checks/E12.py turns the ENVIRONMENT's events of a history (new, rcall + tree, notify, recv, sdcall) into a script for
   harness/resolverlife: notifications raised inside a Resolve / Shutdown are injected after the same number of provider
   events; a receive waits long iff the model delivers something.  The provider / converter calls are what the real
   Resolver does by itself.  Expected values do NOT come from these histories: every recorded observation is judged by
   ResolverLifecycleMonitor (statement) and ResolverLifecycleTrace (model). *)
EXTENDS ResolverLifecycleMC, Json

VARIABLE fin
gvars == <<vars, fin>>

CanMove(x) == \/ nt[x].st = "new" /\ pc # "slock"
              \/ nt[x].st = "wait" /\ (ch = <<>> \/ TurnedAway(x) \/ (Variant = "prefix" /\ chclosed))
              \/ nt[x].st \in {"leave", "boom"}
NotifierEnabled == \E x \in 1..Len(nt) : CanMove(x)

GInit == Init /\ fin = FALSE
Finish == pc = "down" /\ fin' = TRUE /\ UNCHANGED vars
GNext == /\ ~fin
         /\ IF NotifierEnabled THEN (ANEnter \/ ANWake \/ ANRet) /\ fin' = fin
            ELSE \/ (ANew \/ ARCall \/ AClose \/ ARetr \/ AConv \/ ARRet \/ ASdCall \/ ASLock \/ APShut \/ ASdRet \/ ANotify \/ ARecv) /\ fin' = fin
                 \/ Finish
GSpec == GInit /\ [][GNext]_gvars

Emit == fin => PrintT(<<"BEH", ToJson([cfg |-> cfg, ntop |-> ntop, h |-> hist])>>)
=============================================================================
