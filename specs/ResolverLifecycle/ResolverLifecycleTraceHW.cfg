SPECIFICATION TSpec
CONSTANTS
  Variant = "asis"
CONSTRAINT HighWater
POSTCONDITION Rejected
CHECK_DEADLOCK FALSE
