---------------------------- MODULE ResolverLifecycleTrace ----------------------------
(* E12 -- TRACE VALIDATION (strict conformance): is what a real Resolver did a behaviour of the implementation-shaped
   model ResolverLifecycle.tla (CONSTANT Variant: "asis" for the pinned tree; the repaired tree is a behaviour of "gen")?
   Input: the same observed.ndjson as the monitor's.  For every observation TLC searches for a behaviour of the model whose
   observable events (emit) are the recorded ones, field by field (recorded events have more fields -- times, URIs --
   that the model does not determine; the "long" flag of a receive is the driver's waiting time and "nd", the tree node a Retrieve
   serves, is the model's own bookkeeping: not compared); the
   unobservable steps (SLock, the notifiers inside onChange) may happen anywhere.  The tree and the failing converter of
   a Resolve and the retrieval / error of a notification are taken from the recorded event.  An explained observation
   prints <<"BEH", {acc: id}>>; NextTrace is enabled everywhere, so one rejected observation does not hide the others.
   A rejected observation whose events satisfy the monitor is MODEL DRIFT, not a finding.
   HighWater / Rejected: used on a single rejected observation to locate the first event that cannot be explained. *)
EXTENDS ResolverLifecycle, TLC, Json

Log == ndJsonDeserialize("observed.ndjson")
VARIABLES l, j
tvars == <<mvars, l, j>>

SetOf(s) == {s[i] : i \in 1..Len(s)}
CfgOf(o) == [np |-> o.cfg.np, nc |-> o.cfg.nc, cw |-> o.cfg.cw, provs |-> o.cfg.provs,
             cfail |-> SetOf(o.cfg.cfail), pfail |-> SetOf(o.cfg.pfail)]
T == Log[l].ev
Markers == {"stall", "unfollowed", "hang", "skip", "recvcall", "end"}
Matches(ev, line) == \A f \in DOMAIN ev : f \in {"long", "nd"} \/ (f \in DOMAIN line /\ line[f] = ev[f])

DummyCfg == [np |-> 1, nc |-> 0, cw |-> FALSE, provs |-> <<"pa">>, cfail |-> {}, pfail |-> {}]
TInit == /\ l = 1 /\ j = 1 /\ TLCSet(1, 1)
         /\ MInit(IF Len(Log) > 0 THEN CfgOf(Log[1]) ELSE DummyCfg)

ModelStep == \/ Caller \/ Notifier \/ SdCall \/ Recv
             \/ j <= Len(T) /\ T[j].e = "rcall" /\ RCall(T[j].tree, T[j].cfl)
             \/ j <= Len(T) /\ T[j].e = "notify" /\ Notify(T[j].r, T[j].err)

Step == /\ l <= Len(Log) /\ l' = l
        /\ ModelStep
        /\ IF emit' = Null THEN j' = j
           ELSE j <= Len(T) /\ Matches(emit', T[j]) /\ j' = j + 1

Skip == /\ l <= Len(Log) /\ j <= Len(T) /\ T[j].e \in Markers
        /\ j' = j + 1 /\ l' = l /\ UNCHANGED mvars

NextTrace ==
  /\ l <= Len(Log) /\ l' = l + 1 /\ j' = 1
  /\ cfg' = IF l < Len(Log) THEN CfgOf(Log[l + 1]) ELSE cfg
  /\ pc' = "new" /\ incall' = NoCall /\ tree' = NoTree /\ cfl' = 0 /\ todo' = <<>> /\ pend' = {}
  /\ convi' = 1 /\ closers' = <<>> /\ rets' = <<>> /\ nres' = 0 /\ nmade' = 0 /\ failed' = FALSE /\ pdown' = {}
  /\ ch' = <<>> /\ done' = FALSE /\ chclosed' = FALSE /\ retired' = 0 /\ nt' = <<>> /\ emit' = Null

TNext == Step \/ Skip \/ NextTrace
TSpec == TInit /\ [][TNext]_tvars

Explained == (l <= Len(Log) /\ j = Len(T) + 1) => PrintT(<<"BEH", ToJson([acc |-> Log[l].id])>>)

HighWater == IF l = 1 /\ j > TLCGet(1) THEN TLCSet(1, j) ELSE TRUE
Rejected == PrintT(<<"BEH", ToJson([hw |-> TLCGet(1)])>>)
=============================================================================
