------------------------------ MODULE RLShapes ------------------------------
(* E12 -- the pool of reference trees ("what the world shows to a Resolve") and of Resolver configurations.
   A tree: tops = the nodes of the configured URIs (in order); for every node (1..N, tuples indexed by node)
   kids = the references its value contains, prov = the provider that serves it, nm = its name (the URI is prov:nm; two
   nodes with the same URI = a repeated reference), out = ok / fail (Retrieve returns an error) / bad (retrieved, but
   the value cannot be used where it stands).  checks/E12.py renders a tree into provider documents. *)
EXTENDS Integers, Sequences, FiniteSets

P2(np) == IF np = 1 THEN "pa" ELSE "pb"

\* one configured URI
Leaf(np)  == [tops |-> <<1>>, kids |-> << <<>> >>, prov |-> <<"pa">>, nm |-> <<"t1">>, out |-> <<"ok">>]
One(np)   == [tops |-> <<1>>, kids |-> << <<2>>, <<>> >>, prov |-> <<"pa", P2(np)>>, nm |-> <<"t1", "n2">>, out |-> <<"ok", "ok">>]
Two(np)   == [tops |-> <<1>>, kids |-> << <<2, 3>>, <<>>, <<>> >>, prov |-> <<"pa", P2(np), "pa">>,
              nm |-> <<"t1", "n2", "n3">>, out |-> <<"ok", "ok", "ok">>]
Chain(np) == [tops |-> <<1>>, kids |-> << <<2>>, <<3>>, <<>> >>, prov |-> <<"pa", P2(np), "pa">>,
              nm |-> <<"t1", "n2", "n3">>, out |-> <<"ok", "ok", "ok">>]
Twice(np) == [tops |-> <<1>>, kids |-> << <<2, 3>>, <<>>, <<>> >>, prov |-> <<"pa", P2(np), P2(np)>>,
              nm |-> <<"t1", "n2", "n2">>, out |-> <<"ok", "ok", "ok">>]
\* two configured URIs
Leaf2(np) == [tops |-> <<1, 2>>, kids |-> << <<>>, <<>> >>, prov |-> <<"pa", P2(np)>>, nm |-> <<"t1", "t2">>, out |-> <<"ok", "ok">>]
Refs2(np) == [tops |-> <<1, 2>>, kids |-> << <<3>>, <<4>>, <<>>, <<>> >>, prov |-> <<"pa", P2(np), P2(np), "pa">>,
              nm |-> <<"t1", "t2", "n3", "n4">>, out |-> <<"ok", "ok", "ok", "ok">>]

Base(ntop, np) == IF ntop = 1 THEN {Leaf(np), One(np), Two(np), Chain(np), Twice(np)} ELSE {Leaf2(np), Refs2(np)}
BaseSmall(ntop, np) == IF ntop = 1 THEN {One(np)} ELSE {Refs2(np)}
BaseMid(ntop, np) == IF ntop = 1 THEN {Leaf(np), One(np), Chain(np)} ELSE {Leaf2(np), Refs2(np)}

\* the tree itself and every variant with ONE node failing
WithFailure(t) == {t} \cup {[t EXCEPT !.out[nd] = o] : nd \in 1..Len(t.out), o \in {"fail", "bad"}}
Variants(S) == UNION {WithFailure(t) : t \in S}
=============================================================================
