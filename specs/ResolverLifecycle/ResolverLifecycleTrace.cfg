SPECIFICATION TSpec
CONSTANTS
  Variant = "asis"
INVARIANT Explained
CHECK_DEADLOCK FALSE
