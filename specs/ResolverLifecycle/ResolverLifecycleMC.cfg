SPECIFICATION Spec
CONSTANTS
  Variant = "gen"
  NPs = {2}
  NCs = {1}
  NTops = {1}
  CWs = {TRUE}
  Pool = "small"
  Failures = FALSE
  MaxRes = 2
  MaxNt = 2
  MaxRecv = 1
  MaxLen = 40
CONSTRAINT Bound
INVARIANT TypeOK
INVARIANT NoStuck
INVARIANT NoPanic
INVARIANT LeakFree
INVARIANT StatementHolds
CHECK_DEADLOCK FALSE
