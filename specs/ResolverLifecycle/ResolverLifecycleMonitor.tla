---------------------------- MODULE ResolverLifecycleMonitor ----------------------------
(* E12 -- MONITOR: the clauses of ResolverObs.tla (the statement) evaluated by TLC on what REAL confmap.Resolvers did.

   observed.ndjson is written by harness/resolverlife, one line per executed script:
     {"id": n, "cfg": {"np", "provs": [schemes], "nc", "cw", "ntop"}, "ev": [events in the order of the recorder's mutex]}
   (events: see ResolverObs.tla; "skip" / "unfollowed" / "recvcall" / "end" are markers no clause offends at).  Nothing here
   refers to the implementation-shaped model: any behaviour the statement allows is accepted.  An offending event does
   not stop the run, it is printed as <<"BEH", {id, at, clauses}>>; the verdicts of checks/E12.py come from these lines. *)
EXTENDS ResolverObs, TLC, Json

Log == ndJsonDeserialize("observed.ndjson")
VARIABLE l

Judge(o) ==
  \A j \in 1..Len(o.ev) :
     LET bad == OffendedAt(o.cfg, o.ev, j)
     IN IF bad = {} THEN TRUE ELSE PrintT(<<"BEH", ToJson([id |-> o.id, at |-> j, clauses |-> bad])>>)

MonInit == l = 1
MonNext == l <= Len(Log) /\ Judge(Log[l]) = TRUE /\ l' = l + 1
MonSpec == MonInit /\ [][MonNext]_l
AllJudged == TLCGet("stats").diameter - 1 = Len(Log)
=============================================================================
