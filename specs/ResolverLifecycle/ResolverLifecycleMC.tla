---------------------------- MODULE ResolverLifecycleMC ----------------------------
(* E12 -- exhaustive design check: every behaviour of the implementation-shaped model inside the bounds (every
   interleaving of the caller, the notifier goroutines and the watch reader; notifications raised at every point by
   every retrieval made so far; every tree of the pool with every single failure) keeps
     * the HISTORY of emitted events inside the statement: StatementHolds = every clause of ResolverObs.tla evaluated
       on the newest event of the history (the clauses only look backwards);
     * the state inside the structural invariants TypeOK, NoStuck (Resolve cannot wait for ever), NoPanic, LeakFree.
   Configuration "hist": the history is part of the state (complete for the clauses, small bounds);  configuration
   "view": VIEW hides the history (bigger bounds: complete for the state invariants, the clauses are evaluated on one
   history per state).  Variant "asis" must violate NoStuck (open finding), "prefix" must violate NoPanic (negative
   variant: the code before b2e5190c1), "gen" (the proposed repair) passes everything. *)
EXTENDS ResolverLifecycle, ResolverObs, RLShapes, TLC

CONSTANTS NPs, NCs, NTops, CWs,        \* configurations explored
          Pool,                        \* "small" / "mid" / "full"
          Failures,                    \* failing Close / Provider.Shutdown / converter explored
          MaxRes, MaxNt, MaxRecv, MaxLen

VARIABLES hist, nrecv, ntop
vars == <<mvars, hist, nrecv, ntop>>
View == <<cfg, pc, incall, tree, cfl, todo, pend, convi, closers, rets, nres, nmade, failed, pdown, ch, done, chclosed,
          retired, nt, nrecv, ntop>>

Provs(np) == IF np = 1 THEN <<"pa">> ELSE <<"pa", "pb">>
Cfgs == {[np |-> np, nc |-> nc, cw |-> cw, provs |-> Provs(np), cfail |-> cf, pfail |-> pf] :
           np \in NPs, nc \in NCs, cw \in CWs,
           cf \in (IF Failures THEN {{}, {1}, {2}} ELSE {{}}),
           pf \in (IF Failures THEN {{}, {"pa"}} ELSE {{}})}
Trees(nt_, np) == Variants(IF Pool = "small" THEN BaseSmall(nt_, np) ELSE IF Pool = "mid" THEN BaseMid(nt_, np) ELSE Base(nt_, np))

Init == /\ \E c \in Cfgs : MInit(c)
        /\ ntop \in NTops
        /\ hist = <<>> /\ nrecv = 0

Rec == /\ hist' = IF emit' = Null THEN hist ELSE Append(hist, emit')
       /\ nrecv' = IF emit'.e = "recv" THEN nrecv + 1 ELSE nrecv
       /\ ntop' = ntop
ANew      == (PCreate \/ CCreate \/ NewRet) /\ Rec
ARCall    == /\ nres < MaxRes
             /\ \E t \in Trees(ntop, cfg.np), f \in (IF Failures THEN 0..cfg.nc ELSE {0}) : RCall(t, f)
             /\ Rec
AClose    == (CloseEnter \/ CloseRet) /\ Rec
ARetr     == (RetrEnter \/ RetrRet) /\ Rec
AConv     == (ConvEnter \/ ConvRet) /\ Rec
ARRet     == RRet /\ Rec
ASdCall   == SdCall /\ Rec
ASLock    == SLock /\ Rec
APShut    == (PShutEnter \/ PShutRet) /\ Rec
ASdRet    == SdRet /\ Rec
ANotify   == /\ Len(nt) < MaxNt
             /\ \E r \in 1..Len(rets), er \in {0, Len(nt) + 1} : Notify(r, er)
             /\ Rec
ANEnter   == (\E x \in 1..Len(nt) : NEnter(x)) /\ Rec
ANWake    == (\E x \in 1..Len(nt) : NWake(x)) /\ Rec
ANRet     == (\E x \in 1..Len(nt) : NRet(x)) /\ Rec
ARecv     == nrecv < MaxRecv /\ Recv /\ Rec
Next == ANew \/ ARCall \/ AClose \/ ARetr \/ AConv \/ ARRet \/ ASdCall \/ ASLock \/ APShut \/ ASdRet
        \/ ANotify \/ ANEnter \/ ANWake \/ ANRet \/ ARecv
Spec == Init /\ [][Next]_vars

Bound == Len(hist) <= MaxLen

StatementHolds == hist = <<>> \/ OffendedAt(cfg, hist, Len(hist)) = {}
\* the clauses that do not depend on Resolve making progress (for the variant "asis", whose only defect is Stuck)
=============================================================================
