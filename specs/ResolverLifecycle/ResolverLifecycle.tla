---------------------------- MODULE ResolverLifecycle ----------------------------
(* E12 -- IMPLEMENTATION-SHAPED MODEL of confmap.Resolver (confmap/resolver.go + expand.go) at the level of the calls it
   makes to providers / converters and of the watch channel.  The statement it is checked against is in ResolverObs.tla
   (clauses over the history of emitted events).

   One action per step of the Go code that another party can observe or interleave with:

     caller (otelcol)     PCreate, CCreate, NewRet            NewResolver: factory.Create for every factory
                          RCall(t, cfl)                       Resolve is called with the world showing reference tree t
                          CloseEnter, CloseRet                closeIfNeeded: ret(ctx) for every registered closer, in order
                          RetrEnter, RetrRet                  retrieveValue: the configured URIs in order, then every
                                                              reference that expansion meets (order of siblings free);
                                                              mr.closers = append(mr.closers, ret.Close) on success
                          ConvEnter, ConvRet                  confConv.Convert in the configured order
                          RRet                                Resolve returns
                          SdCall                              Shutdown: close(mr.done)
                          SLock                               mr.watcherMu.Lock(); close(mr.watcher); Unlock()  [unobservable]
                          PShutEnter, PShutRet, SdRet         closeIfNeeded, then p.Shutdown for every provider (map order)
     provider goroutines  Notify(r, err)                      the watcher handed to retrieval r is called
       (onChange)         NEnter(x)                           RLock; <-done? return; channel has room? send : block
                          NWake(x)                            a blocked sender is released (room / done / [gen] retired)
                          NRet(x)                             the watcher call returns (or panics)
     watch reader         Recv                                one receive on Watch() while no Resolve / Shutdown runs

   `emit` is the event the step makes observable (ResolverObs.tla lists them); SLock and the steps of a notifier inside onChange are
   unobservable (emit = Null).

   Variant  "asis"    the code as it is: a notifier blocked on the full 1-slot channel is released only by a receive or by
                      Shutdown.  With a provider whose Close waits for its in-flight watcher calls (cfg.cw, what the
                      documentation of Retrieved.Close asks for) Resolve can wait for ever (Stuck) -- finding
                      E12-resolve-blocks-on-blocked-notifier.
            "gen"     the proposed repair (extras/fixes/E12-*.patch): every resolution has a generation channel, Resolve
                      closes the previous one before it closes the retrieved values: blocked notifiers of superseded
                      resolutions return.  Satisfies every clause.
            "prefix"  NEGATIVE variant, the code before commit b2e5190c1: no done channel, Shutdown closes the watcher
                      channel first, onChange is a plain send: a notification during / after Shutdown panics.

   Named abstractions: values are not modelled (C12 does the values): a reference tree says which references a retrieved
   value contains; a node is "ok", "fail" (Retrieve returns an error) or "bad" (retrieved, but unusable where it stands:
   a non-map top-level document, a list inside a string -- Resolve fails right after the Retrieve); the RWMutex is
   modelled by its effect (Shutdown waits for the notifiers inside onChange; notifiers arriving meanwhile wait). *)
EXTENDS Integers, Sequences, FiniteSets

CONSTANTS Variant

VARIABLES cfg,      \* [np, nc, cw, provs, cfail]: providers, converters, Close waits, schemes, retrievals whose Close fails
          pc,       \* caller: new, idle, rclose, rtop, rref, rconv, rdone, rfail, slock, sclose, spshut, sdone, down
          incall,   \* the provider / converter call in progress, or NoCall
          tree,     \* reference tree of the Resolve in progress
          cfl,      \* converter scripted to fail in this Resolve (0 none)
          todo,     \* configured URIs not yet retrieved (sequence of nodes)
          pend,     \* references met and not yet retrieved (set of nodes)
          convi,    \* next converter
          closers,  \* mr.closers: retrieval ids
          rets,     \* all retrievals so far: [p, res, ok]
          nres,     \* Resolve calls so far
          nmade,    \* factories used so far
          failed,   \* a Close / Shutdown call of the current closeIfNeeded / Shutdown failed
          pdown,    \* providers whose Shutdown was called
          ch,       \* the watcher channel (capacity 1)
          done, chclosed, retired,   \* done closed / watcher closed / [gen] resolutions 1..retired are superseded
          nt,       \* notifications: [r, err, st]  st: new, wait (blocked on the send), leave, boom, ret, panic
          emit

mvars == <<cfg, pc, incall, tree, cfl, todo, pend, convi, closers, rets, nres, nmade, failed, pdown, ch, done, chclosed,
           retired, nt, emit>>

Null   == [e |-> "none"]
NoCall == [k |-> "none"]
NoTree == [tops |-> <<>>]

MInit(c) == /\ cfg = c /\ pc = "new" /\ incall = NoCall /\ tree = NoTree /\ cfl = 0 /\ todo = <<>> /\ pend = {}
            /\ convi = 1 /\ closers = <<>> /\ rets = <<>> /\ nres = 0 /\ nmade = 0 /\ failed = FALSE /\ pdown = {}
            /\ ch = <<>> /\ done = FALSE /\ chclosed = FALSE /\ retired = 0 /\ nt = <<>> /\ emit = Null

Range(s) == {s[i] : i \in 1..Len(s)}

\* ------------------------------------------------------------------ NewResolver
PCreate == /\ pc = "new" /\ nmade < cfg.np
           /\ nmade' = nmade + 1 /\ emit' = [e |-> "pcreate", p |-> cfg.provs[nmade + 1]]
           /\ UNCHANGED <<cfg, pc, incall, tree, cfl, todo, pend, convi, closers, rets, nres, failed, pdown, ch, done, chclosed, retired, nt>>
CCreate == /\ pc = "new" /\ nmade >= cfg.np /\ nmade < cfg.np + cfg.nc
           /\ nmade' = nmade + 1 /\ emit' = [e |-> "ccreate", c |-> nmade + 1 - cfg.np]
           /\ UNCHANGED <<cfg, pc, incall, tree, cfl, todo, pend, convi, closers, rets, nres, failed, pdown, ch, done, chclosed, retired, nt>>
NewRet  == /\ pc = "new" /\ nmade = cfg.np + cfg.nc
           /\ pc' = "idle" /\ emit' = [e |-> "newret", ok |-> TRUE]
           /\ UNCHANGED <<cfg, incall, tree, cfl, todo, pend, convi, closers, rets, nres, nmade, failed, pdown, ch, done, chclosed, retired, nt>>

\* ------------------------------------------------------------------ Resolve
AfterRetr(pd) == IF pd # {} THEN "rref" ELSE IF cfg.nc = 0 THEN "rdone" ELSE "rconv"

RCall(t, f) ==
  /\ pc = "idle"
  /\ nres' = nres + 1 /\ tree' = t /\ cfl' = f /\ todo' = t.tops /\ pend' = {} /\ convi' = 1 /\ failed' = FALSE
  /\ retired' = IF Variant = "gen" THEN nres ELSE retired
  /\ pc' = IF closers = <<>> THEN "rtop" ELSE "rclose"
  /\ emit' = [e |-> "rcall", n |-> nres + 1, tree |-> t, cfl |-> f]
  /\ UNCHANGED <<cfg, incall, closers, rets, nmade, pdown, ch, done, chclosed, nt>>

\* closeIfNeeded (Resolve and Shutdown)
CloseEnter ==
  /\ pc \in {"rclose", "sclose"} /\ incall = NoCall /\ closers # <<>>
  /\ incall' = [k |-> "close", r |-> Head(closers)]
  /\ emit' = [e |-> "close", r |-> Head(closers)]
  /\ UNCHANGED <<cfg, pc, tree, cfl, todo, pend, convi, closers, rets, nres, nmade, failed, pdown, ch, done, chclosed, retired, nt>>

InFlight(r) == \E x \in 1..Len(nt) : nt[x].r = r /\ nt[x].st \in {"new", "wait", "leave", "boom"}

CloseRet ==
  /\ incall.k = "close"
  /\ cfg.cw => ~InFlight(incall.r)          \* the provider's Close waits for its watcher calls in flight
  /\ LET ok == incall.r \notin cfg.cfail
         rest == Tail(closers)
         fl == failed \/ ~ok
     IN /\ emit' = [e |-> "closeret", r |-> incall.r, ok |-> ok]
        /\ closers' = rest /\ failed' = fl
        /\ pc' = IF rest # <<>> THEN pc
                 ELSE IF pc = "sclose" THEN (IF pdown = Range(cfg.provs) THEN "sdone" ELSE "spshut")
                 ELSE IF fl THEN "rfail" ELSE "rtop"
  /\ incall' = NoCall
  /\ UNCHANGED <<cfg, tree, cfl, todo, pend, convi, rets, nres, nmade, pdown, ch, done, chclosed, retired, nt>>

RetrEnter ==
  /\ incall = NoCall
  /\ \E nd \in (IF pc = "rtop" THEN {Head(todo)} ELSE IF pc = "rref" THEN pend ELSE {}) :
       /\ incall' = [k |-> "retr", nd |-> nd, r |-> Len(rets) + 1]
       /\ rets' = Append(rets, [p |-> tree.prov[nd], res |-> nres, ok |-> FALSE])
       /\ emit' = [e |-> "retr", r |-> Len(rets) + 1, p |-> tree.prov[nd], res |-> nres, top |-> pc = "rtop", nd |-> nd]
  /\ UNCHANGED <<cfg, pc, tree, cfl, todo, pend, convi, closers, nres, nmade, failed, pdown, ch, done, chclosed, retired, nt>>

RetrRet ==
  /\ incall.k = "retr"
  /\ LET nd == incall.nd
         out == tree.out[nd]
         kids == Range(tree.kids[nd])
     IN IF out = "fail"
        THEN /\ emit' = [e |-> "retrret", r |-> incall.r, ok |-> FALSE]
             /\ pc' = "rfail" /\ UNCHANGED <<closers, rets, todo, pend>>
        ELSE /\ emit' = [e |-> "retrret", r |-> incall.r, ok |-> TRUE]
             /\ closers' = Append(closers, incall.r)
             /\ rets' = [rets EXCEPT ![incall.r].ok = TRUE]
             /\ IF out = "bad" THEN pc' = "rfail" /\ UNCHANGED <<todo, pend>>
                ELSE IF pc = "rtop"
                THEN /\ todo' = Tail(todo) /\ pend' = pend \cup kids
                     /\ pc' = IF Tail(todo) # <<>> THEN "rtop" ELSE AfterRetr(pend \cup kids)
                ELSE /\ pend' = (pend \ {nd}) \cup kids /\ todo' = todo
                     /\ pc' = AfterRetr((pend \ {nd}) \cup kids)
  /\ incall' = NoCall
  /\ UNCHANGED <<cfg, tree, cfl, convi, nres, nmade, failed, pdown, ch, done, chclosed, retired, nt>>

ConvEnter ==
  /\ pc = "rconv" /\ incall = NoCall
  /\ incall' = [k |-> "conv", c |-> convi] /\ emit' = [e |-> "conv", c |-> convi]
  /\ UNCHANGED <<cfg, pc, tree, cfl, todo, pend, convi, closers, rets, nres, nmade, failed, pdown, ch, done, chclosed, retired, nt>>

ConvRet ==
  /\ incall.k = "conv"
  /\ LET ok == incall.c # cfl
     IN /\ emit' = [e |-> "convret", c |-> incall.c, ok |-> ok]
        /\ pc' = IF ~ok THEN "rfail" ELSE IF incall.c = cfg.nc THEN "rdone" ELSE "rconv"
  /\ convi' = convi + 1 /\ incall' = NoCall
  /\ UNCHANGED <<cfg, tree, cfl, todo, pend, closers, rets, nres, nmade, failed, pdown, ch, done, chclosed, retired, nt>>

RRet ==
  /\ pc \in {"rdone", "rfail"}
  /\ emit' = [e |-> "rret", n |-> nres, ok |-> pc = "rdone", panic |-> FALSE]
  /\ pc' = "idle" /\ tree' = NoTree /\ todo' = <<>> /\ pend' = {} /\ cfl' = 0
  /\ UNCHANGED <<cfg, incall, convi, closers, rets, nres, nmade, failed, pdown, ch, done, chclosed, retired, nt>>

\* ------------------------------------------------------------------ Shutdown
Holding == \E x \in 1..Len(nt) : nt[x].st = "wait"        \* a notifier is inside onChange (holds the read lock)

SdCall ==
  /\ pc = "idle"
  /\ emit' = [e |-> "sdcall"] /\ failed' = FALSE
  /\ IF Variant = "prefix"
     THEN /\ chclosed' = TRUE /\ done' = done
          /\ pc' = IF closers # <<>> THEN "sclose" ELSE "spshut"
     ELSE /\ done' = TRUE /\ chclosed' = chclosed /\ pc' = "slock"
  /\ UNCHANGED <<cfg, incall, tree, cfl, todo, pend, convi, closers, rets, nres, nmade, pdown, ch, retired, nt>>

SLock ==
  /\ pc = "slock" /\ ~Holding
  /\ chclosed' = TRUE /\ emit' = Null
  /\ pc' = IF closers # <<>> THEN "sclose" ELSE "spshut"
  /\ UNCHANGED <<cfg, incall, tree, cfl, todo, pend, convi, closers, rets, nres, nmade, failed, pdown, ch, done, retired, nt>>

PShutEnter ==
  /\ pc = "spshut" /\ incall = NoCall
  /\ \E p \in Range(cfg.provs) \ pdown :
       /\ incall' = [k |-> "pshut", p |-> p] /\ pdown' = pdown \cup {p} /\ emit' = [e |-> "pshut", p |-> p]
  /\ UNCHANGED <<cfg, pc, tree, cfl, todo, pend, convi, closers, rets, nres, nmade, failed, ch, done, chclosed, retired, nt>>

PShutRet ==
  /\ incall.k = "pshut"
  /\ LET ok == incall.p \notin cfg.pfail
     IN emit' = [e |-> "pshutret", p |-> incall.p, ok |-> ok] /\ failed' = (failed \/ ~ok)
  /\ pc' = IF pdown = Range(cfg.provs) THEN "sdone" ELSE "spshut"
  /\ incall' = NoCall
  /\ UNCHANGED <<cfg, tree, cfl, todo, pend, convi, closers, rets, nres, nmade, pdown, ch, done, chclosed, retired, nt>>

SdRet ==
  /\ pc = "sdone"
  /\ emit' = [e |-> "sdret", ok |-> ~failed, panic |-> FALSE] /\ pc' = "down"
  /\ UNCHANGED <<cfg, incall, tree, cfl, todo, pend, convi, closers, rets, nres, nmade, failed, pdown, ch, done, chclosed, retired, nt>>

\* ------------------------------------------------------------------ provider goroutines: onChange
Notify(r, err) ==
  /\ r \in 1..Len(rets) /\ rets[r].ok
  /\ nt' = Append(nt, [r |-> r, err |-> err, st |-> "new"])
  /\ emit' = [e |-> "notify", x |-> Len(nt) + 1, r |-> r, err |-> err]
  /\ UNCHANGED <<cfg, pc, incall, tree, cfl, todo, pend, convi, closers, rets, nres, nmade, failed, pdown, ch, done, chclosed, retired>>

TurnedAway(x) == done \/ (Variant = "gen" /\ rets[nt[x].r].res <= retired)

\* the body of onChange: turned away / sent / blocked; "leave" = the call is about to return, "boom" = it panics
NStep(x, from) ==
  /\ x \in 1..Len(nt) /\ nt[x].st = from
  /\ IF Variant = "prefix" /\ chclosed
     THEN nt' = [nt EXCEPT ![x].st = "boom"] /\ ch' = ch
     ELSE IF TurnedAway(x)
     THEN nt' = [nt EXCEPT ![x].st = "leave"] /\ ch' = ch
     ELSE IF ch = <<>>
     THEN nt' = [nt EXCEPT ![x].st = "leave"] /\ ch' = <<nt[x].err>>
     ELSE from = "new" /\ nt' = [nt EXCEPT ![x].st = "wait"] /\ ch' = ch
  /\ emit' = Null
  /\ UNCHANGED <<cfg, pc, incall, tree, cfl, todo, pend, convi, closers, rets, nres, nmade, failed, pdown, done, chclosed, retired>>

NEnter(x) == pc # "slock" /\ NStep(x, "new")       \* a writer is waiting for the lock: readers queue up behind it
NWake(x)  == NStep(x, "wait")
NRet(x) ==
  /\ x \in 1..Len(nt) /\ nt[x].st \in {"leave", "boom"}
  /\ nt' = [nt EXCEPT ![x].st = IF nt[x].st = "boom" THEN "panic" ELSE "ret"]
  /\ emit' = [e |-> "notifyret", x |-> x, panic |-> nt[x].st = "boom"]
  /\ UNCHANGED <<cfg, pc, incall, tree, cfl, todo, pend, convi, closers, rets, nres, nmade, failed, pdown, ch, done, chclosed, retired>>

\* ------------------------------------------------------------------ watch reader
Recv ==
  /\ pc \in {"idle", "down"}
  /\ IF ch # <<>> THEN emit' = [e |-> "recv", got |-> Head(ch), long |-> TRUE] /\ ch' = <<>>
     ELSE IF chclosed THEN emit' = [e |-> "recv", got |-> -2, long |-> TRUE] /\ ch' = ch
     ELSE emit' = [e |-> "recv", got |-> -1, long |-> ~\E x \in 1..Len(nt) : nt[x].st \in {"new", "wait"}] /\ ch' = ch
  /\ UNCHANGED <<cfg, pc, incall, tree, cfl, todo, pend, convi, closers, rets, nres, nmade, failed, pdown, done, chclosed, retired, nt>>

\* ------------------------------------------------------------------ composition
Caller   == PCreate \/ CCreate \/ NewRet \/ CloseEnter \/ CloseRet \/ RetrEnter \/ RetrRet \/ ConvEnter \/ ConvRet \/ RRet
            \/ SLock \/ PShutEnter \/ PShutRet \/ SdRet
Notifier == \E x \in 1..Len(nt) : NEnter(x) \/ NWake(x) \/ NRet(x)

\* ------------------------------------------------------------------ structural invariants (state predicates)
TypeOK ==
  /\ pc \in {"new", "idle", "rclose", "rtop", "rref", "rconv", "rdone", "rfail", "slock", "sclose", "spshut", "sdone", "down"}
  /\ Len(ch) <= 1 /\ done \in BOOLEAN /\ chclosed \in BOOLEAN /\ retired <= nres
  /\ \A i \in 1..Len(closers) : closers[i] \in 1..Len(rets) /\ rets[closers[i]].ok
  /\ \A i, k \in 1..Len(closers) : i # k => closers[i] # closers[k]

\* the caller waits for a Close that waits for a notifier that nobody can release: Resolve never returns
Stuck ==
  /\ incall.k = "close" /\ cfg.cw /\ pc = "rclose"
  /\ \E x \in 1..Len(nt) : nt[x].r = incall.r /\ nt[x].st = "wait" /\ ch # <<>> /\ ~TurnedAway(x)
NoStuck == ~Stuck
NoPanic == \A x \in 1..Len(nt) : nt[x].st # "panic"
\* nothing registered is forgotten: when Shutdown has returned no closer is left
LeakFree == pc = "down" => closers = <<>> /\ pdown = Range(cfg.provs)
=============================================================================
