------------------------------ MODULE ResolverObs ------------------------------
(* E12 -- ResolverLifecycle: statement-level OBSERVABLE LAYER and the clauses of the statement.

   Extra specification (no entry in properties.jsonl).  Record, in the form of properties.jsonl:

   title      confmap.Resolver: resource lifecycle of retrieved values, providers, converters and watch notifications
   statement  Across any history of Resolve / watcher notifications / Watch receives / Shutdown on a confmap.Resolver built
              from provider and converter factories: every factory is used once; every Retrieved value a provider hands
              out during a Resolve -- for the configured URIs and for every ${scheme:...} reference expanded anywhere in
              the tree, nested, repeated or found inside another provider's result -- has its Close function called
              exactly once: never during the time it is (part of) the current configuration, i.e. only inside the next
              Resolve, before that Resolve's first Retrieve, or inside Resolver.Shutdown; all of them have been closed
              when Shutdown returns, also those of a Resolve that failed half-way (failing Retrieve, unusable value,
              failing converter) and also when a Close or a Provider.Shutdown fails; Shutdown calls every provider's
              Shutdown exactly once, after the Close calls of that provider's values (Provider: "retrieve / close cycle
              ... provider.Shutdown()"); the Resolver never has two provider / converter calls in progress at once
              ("Should never be called concurrently with itself").  A Resolve that returns a configuration has called
              every converter exactly once, in the configured order, after its last Retrieve, none of them (and no
              retrieval of a configured URI) having failed.  Every change notification (watcher call, with or without
              error) raised by a retrieval of the current resolution is captured: a receive on Watch() obtains it (at
              least one event is obtainable as long as one such notification has not been followed by a receive --
              whatever Resolve calls came in between; all of them as long as no Resolve was called since), every event
              received was raised (an error exactly once, by the notification that carried it), Shutdown terminates the
              Watch channel.  A watcher call never panics and has returned at the latest when Shutdown has returned --
              whichever retrieval it belongs to (current, closed by an earlier Resolve, after Shutdown); Resolve and
              Shutdown return (they do not wait for anything but the provider / converter calls they make).
   quantifier 1..2 providers, 0..2 converters, 1..2 configured URIs; per Resolve a reference tree (no reference, one,
              siblings, chain through provider results, the same URI twice, two top-level documents with references),
              one node failing (Retrieve error / value unusable where it stands), a failing converter, failing Close
              functions, failing Provider.Shutdown; 1..3 Resolves; 0..3 notifications with / without error raised by
              any retrieval made so far (current, closed, during a Resolve or Shutdown at every provider-call boundary,
              after Shutdown); receives on Watch() at every idle point; providers whose Close waits for their
              in-flight watcher calls (cw) and providers whose Close does not
   anchors    confmap/resolver.go (NewResolver, Resolve, Watch, Shutdown, onChange, closeIfNeeded, retrieveValue),
              confmap/expand.go (expandValueRecursively, expandValue, findAndExpandURI, expandURI),
              confmap/provider.go (Provider, Retrieved.Close, WithRetrievedClose, WatcherFunc, ChangeEvent),
              confmap/converter.go, confmap/README.md (Configuration Resolving steps 1-5, Watching for Updates),
              docs/rfcs/configuring-confmap-providers.md

   OPEN (documentation silent; every behaviour admitted by the clauses, the model does what the code does):
     O1 whether the values obtained by a Resolve that FAILS are closed before it returns, by the next Resolve or by
        Shutdown (the code: next Resolve / Shutdown);
     O2 whether converters after a failing one are called, whether converters run when a retrieval failed;
     O3 what Resolve returns when closing the previous resolution's values fails (the code: an error, nothing retrieved);
        what error Resolve / Shutdown return in general (only "a Resolve that returns a configuration" is constrained);
     O4 Resolve, Shutdown or a receive after Shutdown (a second Shutdown panics: close of closed channel; a Resolve
        after Shutdown calls Provider.Retrieve after Provider.Shutdown) -- not scripted;
     O5 order of the Provider.Shutdown calls, order of the Close calls, order of the retrievals of sibling references;
     O6 whether a notification of a retrieval that is no longer current (its Resolve was superseded) is delivered or
        dropped; whether a failing nested retrieval fails the Resolve (expandValue ignores the failure when it re-expands
        the original text of a non-string value).

   AN OBSERVATION h is the sequence of events recorded around one Resolver, in the order they happened:
     [e |-> "pcreate", p] [e |-> "ccreate", c] [e |-> "newret", ok]      NewResolver: factory calls, return
     [e |-> "rcall", n] ... [e |-> "rret", n, ok, panic]                 the n-th Resolve is called / returns
     [e |-> "retr", r, p, res, top] [e |-> "retrret", r, ok]             provider p's Retrieve is entered for the r-th time
                                                                         overall (res = number of the Resolve, top = for a
                                                                         configured URI) / returns a value (ok) or an error
     [e |-> "close", r] [e |-> "closeret", r, ok]                        the Close function of retrieval r is entered / returns
     [e |-> "conv", c] [e |-> "convret", c, ok]                          converter c's Convert
     [e |-> "sdcall"] [e |-> "pshut", p] [e |-> "pshutret", p, ok] [e |-> "sdret", ok, panic]     Shutdown
     [e |-> "notify", x, r, err] [e |-> "notifyret", x, panic]           notification x: the watcher handed to retrieval r is
                                                                         called with error err (0 = nil) / returns
     [e |-> "recvcall"] [e |-> "recv", got, long]                        one receive on Watch(): got = the error id, 0 = nil,
                                                                         -1 nothing (within 10 s if long), -2 closed, -3 alien
     [e |-> "stall", what] [e |-> "hang", x]                             Resolve / Shutdown did not come back within 10 s;
                                                                         watcher call x had not returned 10 s after Shutdown
   Every clause is a predicate on a POSITION of h ("this event offends") that looks at h[1..j] only. *)
EXTENDS Integers, Sequences, FiniteSets

Before(h, k, j) == {x \in 1..(j - 1) : h[x].e = k}
MaxOf(S)        == CHOOSE x \in S : \A y \in S : x >= y

RetrAt(h, r, j)     == CHOOSE k \in Before(h, "retr", j) : h[k].r = r
Known(h, r, j)      == \E k \in Before(h, "retr", j) : h[k].r = r
Obtained(h, r, j)   == \E k \in Before(h, "retrret", j) : h[k].r = r /\ h[k].ok
CloseBegun(h, r, j) == \E k \in Before(h, "close", j) : h[k].r = r
CloseDone(h, r, j)  == \E k \in Before(h, "closeret", j) : h[k].r = r
ObtainedSet(h, j)   == {h[k].r : k \in {x \in Before(h, "retrret", j) : h[x].ok}}

InResolve(h, j)  == LET C == Before(h, "rcall", j) IN C # {} /\ ~\E k \in Before(h, "rret", j) : k > MaxOf(C)
RStart(h, j)     == MaxOf(Before(h, "rcall", j))
CurRes(h, j)     == h[RStart(h, j)].n
InShutdown(h, j) == Before(h, "sdcall", j) # {} /\ Before(h, "sdret", j) = {}
Since(h, k, from, j) == {x \in Before(h, k, j) : x > from}

\* ------------------------------------------------------------------ factories
CreateOnceAt(cf, h, j) ==
  \/ h[j].e = "pcreate" /\ (Before(h, "newret", j) # {} \/ \E k \in Before(h, "pcreate", j) : h[k].p = h[j].p)
  \/ h[j].e = "ccreate" /\ (Before(h, "newret", j) # {} \/ \E k \in Before(h, "ccreate", j) : h[k].c = h[j].c)

\* ------------------------------------------------------------------ Close of retrieved values
\* exactly once: never twice, never of something that was not obtained
CloseOnceAt(cf, h, j) ==
  h[j].e = "close" /\ (CloseBegun(h, h[j].r, j) \/ ~Obtained(h, h[j].r, j))

\* never while current: only inside Shutdown, or inside a Resolve before its first Retrieve (values of earlier
\* resolutions), or -- O1 -- inside the Resolve that obtained it, which then must not return a configuration
CloseTimeAt(cf, h, j) ==
  \/ /\ h[j].e = "close" /\ Known(h, h[j].r, j)
     /\ ~InShutdown(h, j)
     /\ \/ ~InResolve(h, j)
        \/ /\ h[RetrAt(h, h[j].r, j)].res < CurRes(h, j)
           /\ \E k \in Since(h, "retr", RStart(h, j), j) : TRUE
  \/ /\ h[j].e = "rret" /\ h[j].ok
     /\ \E k \in Before(h, "close", j) : Known(h, h[k].r, j) /\ h[RetrAt(h, h[k].r, j)].res = h[j].n

\* closed before the retrievals of the next Resolve begin
ClosedBeforeNextAt(cf, h, j) ==
  /\ h[j].e = "retr"
  /\ \E r \in ObtainedSet(h, j) : h[RetrAt(h, r, j)].res < h[j].res /\ ~CloseDone(h, r, j)

\* everything is closed when Shutdown returns
ShutdownClosesAllAt(cf, h, j) ==
  h[j].e = "sdret" /\ ~h[j].panic /\ \E r \in ObtainedSet(h, j) : ~CloseDone(h, r, j)

\* ------------------------------------------------------------------ providers
ProviderShutdownAt(cf, h, j) ==
  \/ h[j].e = "pshut" /\ (~InShutdown(h, j) \/ \E k \in Before(h, "pshut", j) : h[k].p = h[j].p)
  \/ h[j].e = "sdret" /\ ~h[j].panic
       /\ \E i \in 1..Len(cf.provs) : ~\E k \in Before(h, "pshutret", j) : h[k].p = cf.provs[i]

CloseBeforeProviderShutdownAt(cf, h, j) ==
  /\ h[j].e = "close" /\ Known(h, h[j].r, j)
  /\ \E k \in Before(h, "pshut", j) : h[k].p = h[RetrAt(h, h[j].r, j)].p

\* no two provider / converter calls of the Resolver in progress at once
Entry == {"retr", "close", "conv", "pshut"}
OpenCall(h, j) ==
  \/ \E k \in Before(h, "retr", j)  : ~\E m \in Before(h, "retrret", j)  : m > k /\ h[m].r = h[k].r
  \/ \E k \in Before(h, "close", j) : ~\E m \in Before(h, "closeret", j) : m > k /\ h[m].r = h[k].r
  \/ \E k \in Before(h, "conv", j)  : ~\E m \in Before(h, "convret", j)  : m > k /\ h[m].c = h[k].c
  \/ \E k \in Before(h, "pshut", j) : ~\E m \in Before(h, "pshutret", j) : m > k /\ h[m].p = h[k].p
SequentialAt(cf, h, j) == h[j].e \in Entry /\ OpenCall(h, j)

\* ------------------------------------------------------------------ converters
ConvertersAt(cf, h, j) ==
  \/ /\ h[j].e = "conv"
     /\ \/ ~InResolve(h, j)
        \/ h[j].c # 1 + Cardinality(Since(h, "conv", RStart(h, j), j))
  \/ h[j].e = "retr" /\ InResolve(h, j) /\ Since(h, "conv", RStart(h, j), j) # {}
  \/ /\ h[j].e = "rret" /\ h[j].ok /\ InResolve(h, j)
     /\ \/ Cardinality(Since(h, "conv", RStart(h, j), j)) # cf.nc
        \/ \E k \in Since(h, "convret", RStart(h, j), j) : ~h[k].ok
        \/ \E k \in Since(h, "retrret", RStart(h, j), j) : ~h[k].ok /\ h[RetrAt(h, h[k].r, j)].top

\* ------------------------------------------------------------------ notifications
NoPanicAt(cf, h, j) ==
  \/ h[j].e \in {"notifyret", "rret", "sdret"} /\ h[j].panic
  \/ h[j].e = "hang"

ProgressAt(cf, h, j) == h[j].e = "stall"

\* notification at position k comes from a retrieval of the current resolution: not closed when it is raised, and its
\* Resolve not superseded (no later Resolve called) before the watcher call returned (before j, if it has not returned)
NotifyEnd(h, k, j) == LET R == {m \in Before(h, "notifyret", j) : h[m].x = h[k].x}
                      IN IF R = {} THEN j ELSE CHOOSE m \in R : TRUE
CurrentAt(h, k, j) ==
  /\ ~CloseBegun(h, h[k].r, k)
  /\ ~\E c \in Before(h, "rcall", NotifyEnd(h, k, j)) : h[c].n > h[RetrAt(h, h[k].r, k)].res
RecvStart(h, j) == LET C == Before(h, "recvcall", j) IN IF C = {} THEN j ELSE MaxOf(C)
Received(h, j)  == {k \in Before(h, "recv", j) : h[k].got >= 0}
TimedOut(h, j)  == h[j].e = "recv" /\ h[j].got = -1 /\ h[j].long /\ Before(h, "sdcall", j) = {}

\* at least one event: some current notification has not been followed by any receive, and the receive finds nothing
DeliveryAt(cf, h, j) ==
  /\ TimedOut(h, j)
  /\ \E k \in Before(h, "notify", RecvStart(h, j)) : CurrentAt(h, k, j) /\ ~\E m \in Received(h, j) : m > k

\* all events, as long as no Resolve was called since
AllDeliveredAt(cf, h, j) ==
  /\ TimedOut(h, j)
  /\ LET N == {k \in Before(h, "notify", RecvStart(h, j)) : CurrentAt(h, k, j) /\ ~\E c \in Before(h, "rcall", j) : c > k}
     IN Cardinality(Received(h, j)) < Cardinality(N)

NoSpuriousAt(cf, h, j) ==
  /\ h[j].e = "recv"
  /\ \/ h[j].got = -3
     \/ h[j].got > 0 /\ (~(\E k \in Before(h, "notify", j) : h[k].err = h[j].got)
                          \/ \E k \in Before(h, "recv", j) : h[k].got = h[j].got)
     \/ h[j].got = 0 /\ Cardinality({k \in Before(h, "recv", j) : h[k].got = 0}) + 1 >
                          Cardinality({k \in Before(h, "notify", j) : h[k].err = 0})
     \/ h[j].got = -2 /\ Before(h, "sdcall", j) = {}

WatchTerminatedAt(cf, h, j) ==
  h[j].e = "recv" /\ h[j].got = -1 /\ \E k \in Before(h, "sdret", RecvStart(h, j)) : ~h[k].panic

\* ------------------------------------------------------------------ all clauses
ClauseNames == {"CreateOnce", "CloseOnce", "CloseTime", "ClosedBeforeNext", "ShutdownClosesAll", "ProviderShutdown",
                "CloseBeforeProviderShutdown", "Sequential", "Converters", "NoPanic", "Progress", "Delivery",
                "AllDelivered", "NoSpurious", "WatchTerminated"}
OffendsAt(name, cf, h, j) ==
  CASE name = "CreateOnce" -> CreateOnceAt(cf, h, j)
    [] name = "CloseOnce" -> CloseOnceAt(cf, h, j)
    [] name = "CloseTime" -> CloseTimeAt(cf, h, j)
    [] name = "ClosedBeforeNext" -> ClosedBeforeNextAt(cf, h, j)
    [] name = "ShutdownClosesAll" -> ShutdownClosesAllAt(cf, h, j)
    [] name = "ProviderShutdown" -> ProviderShutdownAt(cf, h, j)
    [] name = "CloseBeforeProviderShutdown" -> CloseBeforeProviderShutdownAt(cf, h, j)
    [] name = "Sequential" -> SequentialAt(cf, h, j)
    [] name = "Converters" -> ConvertersAt(cf, h, j)
    [] name = "NoPanic" -> NoPanicAt(cf, h, j)
    [] name = "Progress" -> ProgressAt(cf, h, j)
    [] name = "Delivery" -> DeliveryAt(cf, h, j)
    [] name = "AllDelivered" -> AllDeliveredAt(cf, h, j)
    [] name = "NoSpurious" -> NoSpuriousAt(cf, h, j)
    [] name = "WatchTerminated" -> WatchTerminatedAt(cf, h, j)
OffendedAt(cf, h, j) == {name \in ClauseNames : OffendsAt(name, cf, h, j)}
Holds(cf, h) == \A j \in 1..Len(h) : OffendedAt(cf, h, j) = {}
=============================================================================
