------------------------------ MODULE FGImpl ------------------------------
(* E02 -- implementation-shaped model of /repo/featuregate: one action per atomic step of the Go code, several
   goroutines, and the refinement check "every step of the implementation is a step of FeatureGate.tla (or changes
   nothing), every answer is an answer FeatureGate!Outcomes admits at the step where the call takes effect".

     Registry.gates  sync.Map id -> *Gate            gates: id -> object key <<id, registering goroutine>>
     Gate.enabled    *atomic.Bool, Gate.stage        objs: object key -> [stage, en]
     Register        r1 validateID | r2 options, stage switch, removal-version checks (goroutine local)
                     | r3 gates.LoadOrStore  (ONE atomic step; AtomicLoadOrStore = FALSE models the tempting
                       Load-then-Store: r3 Load, r3b Store -- TLC then refutes Refines, which shows that the
                       property is sensitive to exactly this step)
     Set             s1 gates.Load (miss: error) | s2 switch on the immutable stage: error / warning / enabled.Store
     Gate.IsEnabled  g1 enabled.Load through the *Gate the successful Register returned
     VisitAll        v1 gates.Range: with the sync.Map of the pinned toolchain (go1.23: Range promotes the dirty map and
                     walks an immutable read map) the KEY SET is a snapshot; | v2 one step per gate in sorted order:
                     the callback runs, IsEnabled is an atomic load at THAT moment (VisitAll as a whole is not atomic)
     flagValue.Set   per entry the two steps of Set (f1 Load, f2 Store), errors collected (multierr), all entries tried
   Deviations from the code, named: descriptions / URLs / version parsing are goroutine-local and folded into r2 with the
   classification of FeatureGate.tla (the code is stricter than the documentation in O1/O2: Deprecated without ToVersion and
   ToVersion < FromVersion are refused; ImplStrict says so); the unknown-id error message of Set calls VisitAll (no effect). *)
EXTENDS FeatureGate

CONSTANTS Procs, MaxOps, AtomicLoadOrStore, OpPool

VARIABLES gates, objs, pc, cur, loc, nops, handle, lin

ivars == <<gates, objs, pc, cur, loc, nops, handle, lin>>

NoLin == [o |-> [op |-> "none"], r |-> "none"]
Abs == [id \in DOMAIN gates |-> objs[gates[id]]]

IInit == /\ gates = <<>> /\ objs = <<>>
         /\ pc = [p \in Procs |-> "idle"] /\ cur = [p \in Procs |-> [op |-> "none"]]
         /\ loc = [p \in Procs |-> [k |-> 0, bad |-> FALSE, ids |-> <<>>, seen |-> <<>>, res |-> "none"]]
         /\ nops = [p \in Procs |-> 0] /\ handle = [p \in Procs |-> <<>>] /\ lin = NoLin

Goto(p, where) == pc' = [pc EXCEPT ![p] = where]
Answer(p, r)   == loc' = [loc EXCEPT ![p].res = r]
Same(vs)       == UNCHANGED vs

Call(p) == /\ pc[p] = "idle" /\ nops[p] < MaxOps
           /\ \E o \in OpPool :
                /\ (o.op = "get" => o.id \in DOMAIN handle[p])
                /\ cur' = [cur EXCEPT ![p] = o]
                /\ Goto(p, CASE o.op = "reg" -> "r1" [] o.op = "set" -> "s1" [] o.op = "get" -> "g1"
                                [] o.op = "visit" -> "v1" [] o.op = "flag" -> "f1")
           /\ loc' = [loc EXCEPT ![p] = [k |-> 0, bad |-> FALSE, ids |-> <<>>, seen |-> <<>>, res |-> "none"]]
           /\ nops' = [nops EXCEPT ![p] = @ + 1]
           /\ lin' = NoLin /\ Same(<<gates, objs, handle>>)

Return(p) == /\ pc[p] = "ret" /\ Goto(p, "idle")
             /\ lin' = NoLin /\ Same(<<gates, objs, cur, loc, nops, handle>>)

\* ---- Register
ImplStrict(o) == \/ (o.stage \in {"Stable", "Deprecated"} /\ ~o.to.set)
                 \/ RegOpen(o) # {}                 \* the code refuses what O1 / O2 leave open (O3 is not in the pool)
R1(p) == /\ pc[p] = "r1"
         /\ IF IdOK(cur[p].id) THEN Goto(p, "r2") /\ lin' = NoLin /\ Same(<<loc>>)
            ELSE Goto(p, "ret") /\ Answer(p, "err") /\ lin' = [o |-> cur[p], r |-> "err"]
         /\ Same(<<gates, objs, cur, nops, handle>>)
R2(p) == /\ pc[p] = "r2"
         /\ IF (RegDefects(Abs, cur[p]) \ {"dup"}) # {} \/ ImplStrict(cur[p])
            THEN Goto(p, "ret") /\ Answer(p, "err") /\ lin' = [o |-> cur[p], r |-> "err"]
            ELSE Goto(p, "r3") /\ lin' = NoLin /\ Same(<<loc>>)
         /\ Same(<<gates, objs, cur, nops, handle>>)
Store(p) == LET key == <<cur[p].id, p, nops[p]>>
            IN /\ objs' = Put(objs, key, [stage |-> cur[p].stage, en |-> Default(cur[p].stage)])
               /\ gates' = Put(gates, cur[p].id, key)
               /\ handle' = [handle EXCEPT ![p] = Put(@, cur[p].id, key)]
               /\ Goto(p, "ret") /\ Answer(p, "ok") /\ lin' = [o |-> cur[p], r |-> "ok"]
R3(p) == /\ pc[p] = "r3"
         /\ IF cur[p].id \in DOMAIN gates
            THEN /\ Goto(p, "ret") /\ Answer(p, "dup") /\ lin' = [o |-> cur[p], r |-> "dup"]
                 /\ Same(<<gates, objs, handle>>)
            ELSE IF AtomicLoadOrStore THEN Store(p)
                 ELSE Goto(p, "r3b") /\ lin' = NoLin /\ Same(<<gates, objs, handle, loc>>)
         /\ Same(<<cur, nops>>)
R3b(p) == pc[p] = "r3b" /\ Store(p) /\ Same(<<cur, nops>>)

\* ---- Set (also the body of one flag entry: id, v, where to continue)
SetLoad(p, id, v, found, missing) ==
  IF id \in DOMAIN gates THEN Goto(p, found) /\ lin' = NoLin /\ Same(<<loc>>)
  ELSE missing /\ lin' = [o |-> [op |-> "set", id |-> id, v |-> v], r |-> "err"]
SetStore(p, id, v, r) ==
  /\ r = SetRes(Abs, id, v)
  /\ objs' = IF objs[gates[id]].stage \in Settable THEN [objs EXCEPT ![gates[id]].en = v] ELSE objs
  /\ lin' = [o |-> [op |-> "set", id |-> id, v |-> v], r |-> r]
S1(p) == /\ pc[p] = "s1"
         /\ SetLoad(p, cur[p].id, cur[p].v, "s2", Goto(p, "ret") /\ Answer(p, "err"))
         /\ Same(<<gates, objs, cur, nops, handle>>)
S2(p) == /\ pc[p] = "s2"
         /\ \E r \in {"ok", "err"} : SetStore(p, cur[p].id, cur[p].v, r) /\ Answer(p, r)
         /\ Goto(p, "ret") /\ Same(<<gates, cur, nops, handle>>)

\* ---- Gate.IsEnabled through the returned gate
G1(p) == /\ pc[p] = "g1"
         /\ Answer(p, IF objs[handle[p][cur[p].id]].en THEN "true" ELSE "false")
         /\ lin' = [o |-> cur[p], r |-> IF objs[handle[p][cur[p].id]].en THEN "true" ELSE "false"]
         /\ Goto(p, "ret") /\ Same(<<gates, objs, cur, nops, handle>>)

\* ---- VisitAll
V1(p) == /\ pc[p] = "v1"
         /\ loc' = [loc EXCEPT ![p].ids = SortStr(DOMAIN gates)]
         /\ lin' = [o |-> cur[p], r |-> "keys"]
         /\ Goto(p, "v2") /\ Same(<<gates, objs, cur, nops, handle>>)
V2(p) == /\ pc[p] = "v2"
         /\ IF loc[p].k < Len(loc[p].ids)
            THEN LET id == loc[p].ids[loc[p].k + 1]
                 IN /\ loc' = [loc EXCEPT ![p].k = @ + 1, ![p].seen = Append(@, [id |-> id, en |-> objs[gates[id]].en])]
                    /\ lin' = [o |-> [op |-> "read", id |-> id], r |-> IF objs[gates[id]].en THEN "true" ELSE "false"]
                    /\ Same(<<pc>>)
            ELSE Goto(p, "ret") /\ Answer(p, "ok") /\ lin' = NoLin
         /\ Same(<<gates, objs, cur, nops, handle>>)

\* ---- flagValue.Set
Entry(p) == FlagEntries(cur[p].s)[loc[p].k + 1]
F1(p) == /\ pc[p] = "f1"
         /\ IF loc[p].k >= Len(FlagEntries(cur[p].s))
            THEN Goto(p, "ret") /\ Answer(p, IF loc[p].bad THEN "err" ELSE "ok") /\ lin' = NoLin
            ELSE SetLoad(p, Entry(p).id, Entry(p).v, "f2",
                         /\ loc' = [loc EXCEPT ![p].k = @ + 1, ![p].bad = TRUE] /\ Same(<<pc>>))
         /\ Same(<<gates, objs, cur, nops, handle>>)
F2(p) == /\ pc[p] = "f2"
         /\ \E r \in {"ok", "err"} :
               /\ SetStore(p, Entry(p).id, Entry(p).v, r)
               /\ loc' = [loc EXCEPT ![p].k = @ + 1, ![p].bad = @ \/ r = "err"]
         /\ Goto(p, "f1") /\ Same(<<gates, cur, nops, handle>>)

INext == \E p \in Procs : \/ Call(p) \/ Return(p) \/ R1(p) \/ R2(p) \/ R3(p) \/ R3b(p) \/ S1(p) \/ S2(p)
                          \/ G1(p) \/ V1(p) \/ V2(p) \/ F1(p) \/ F2(p)
ISpec == IInit /\ [][INext]_ivars

\* ---------------------------------------------------------------- refinement
\* the step that just happened (lin) is a step of the specification with that answer; any other step changes nothing
StepRefines ==
  LET a == Abs  b == Abs'  s == lin'
  IN CASE s.o.op \in {"reg", "set"} -> [res |-> s.r, reg |-> b] \in Outcomes(a, s.o)
       [] s.o.op = "get"            -> b = a /\ s.o.id \in DOMAIN a /\ s.r = (IF a[s.o.id].en THEN "true" ELSE "false")
       [] s.o.op = "read"           -> b = a /\ s.o.id \in DOMAIN a /\ s.r = (IF a[s.o.id].en THEN "true" ELSE "false")
       [] OTHER                     -> b = a
Refines == [][StepRefines]_ivars

\* state clauses of the statement on the implementation state
ImplInv == /\ TypeOK(Abs) /\ IdsWellFormed(Abs) /\ StableEnabled(Abs) /\ DeprecatedDisabled(Abs)
           \* a finished VisitAll saw every gate of its snapshot once, ascending
           /\ \A p \in Procs : (pc[p] = "ret" /\ cur[p].op = "visit") =>
                 /\ Len(loc[p].seen) = Len(loc[p].ids)
                 /\ \A i \in 1..Len(loc[p].seen) : loc[p].seen[i].id = loc[p].ids[i]
                 /\ \A i \in 1..(Len(loc[p].ids) - 1) : StrLess(loc[p].ids[i], loc[p].ids[i + 1])
           \* the gate a goroutine was handed is the registered gate (never replaced)
           /\ \A p \in Procs : \A id \in DOMAIN handle[p] : gates[id] = handle[p][id]
Bound == \A p \in Procs : nops[p] <= MaxOps
=============================================================================
