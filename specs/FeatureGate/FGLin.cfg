SPECIFICATION LSpec
CONSTANTS
  Snapshot = TRUE
CONSTRAINT HighWater
INVARIANT LinInv
POSTCONDITION Accepted
CHECK_DEADLOCK FALSE
