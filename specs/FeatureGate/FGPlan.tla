------------------------------ MODULE FGPlan ------------------------------
(* E02 -- the pools of one exploration plan: which ids, stages, version / URL options, Set arguments and flag values
   the design check (FGMC) and the behaviour generator (FGGen) quantify over, and the operations every generated
   behaviour starts with (PPrefix).  checks/E02.py REPLACES this file per plan (same operator names, values from
   its PLANS table); this copy is the default plan, so that the modules can be run by hand. *)
NoVer == [set |-> FALSE, s |-> <<>>]
V(s)  == [set |-> TRUE, s |-> s]
PIds    == {<<"a">>, <<"b", ".", "1">>, <<>>, <<"a", "-">>}
PStages == {"Alpha", "Beta", "Stable", "Deprecated"}
PFroms  == {NoVer}
PTos    == {NoVer, V(<<"v", "1", ".", "0", ".", "0">>)}
PUrls   == {"none"}
PSetIds == {<<"a">>, <<"b", ".", "1">>, <<"z">>}
PFlags  == {<<>>, <<"a">>, <<"-", "a">>, <<"+", "a", ",", "-", "b", ".", "1">>, <<"a", ",", "-", "a">>, <<"z">>, <<"a", ",">>}
PRt     == TRUE
PPrefix == <<>>
=============================================================================
