SPECIFICATION GenSpec
CONSTANTS
  N = 2
INVARIANT Emit
INVARIANT Clauses
CHECK_DEADLOCK FALSE
