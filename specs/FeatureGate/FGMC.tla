------------------------------ MODULE FGMC ------------------------------
(* E02 -- exhaustive design check of the statement-level specification FeatureGate.tla: every registry reachable with
   the operations of the plan (FGPlan) after the plan's prefix, every admissible outcome of every operation; the clauses of the statement as
   invariants (per registry) and as step clauses (AllStepsOK: quantified over every operation and outcome from every
   reachable registry). *)
EXTENDS FeatureGate, FGPlan

VARIABLE reg

Ops ==   {[op |-> "reg", id |-> i, stage |-> s, from |-> f, to |-> t, url |-> u] :
              i \in PIds, s \in PStages, f \in PFroms, t \in PTos, u \in PUrls}
    \cup {[op |-> "set", id |-> i, v |-> b] : i \in PSetIds, b \in BOOLEAN}
    \cup {[op |-> "flag", s |-> x] : x \in PFlags}
    \cup (IF PRt THEN {[op |-> "rt"]} ELSE {})

ASSUME PrefixDetermined(EmptyReg, PPrefix)
Init == reg = RunPrefix(EmptyReg, <<>>, PPrefix).reg
Step(o) == \E out \in Outcomes(reg, o) : reg' = out.reg
Register == \E o \in Ops : o.op = "reg"  /\ Step(o)
Set      == \E o \in Ops : o.op = "set"  /\ Step(o)
Flag     == \E o \in Ops : o.op = "flag" /\ Step(o)
Next == Register \/ Set \/ Flag
Spec == Init /\ [][Next]_reg

Types          == TypeOK(reg)
WellFormedIds  == IdsWellFormed(reg)
StableOn       == StableEnabled(reg)
DeprecatedOff  == DeprecatedDisabled(reg)
VisitInOrder   == VisitOrdered(reg)
StringRoundTrips == RoundTrip(reg)
LaterWins      == \A x \in PFlags : LaterOverrides(reg, x)
AllStepsOK     == \A o \in Ops : \A out \in Outcomes(reg, o) : StepOK(reg, o, out)
\* the outcome set is never empty (every call is answered) and determined wherever the documentation speaks
Answered       == \A o \in Ops : Outcomes(reg, o) # {}
Determined     == \A o \in Ops :
                    (o.op = "set" \/ (o.op = "reg" /\ RegOpen(o) = {} /\ (o.id \notin DOMAIN reg \/ RegDefects(reg, o) = {"dup"})))
                      => Cardinality(Outcomes(reg, o)) = 1
=============================================================================
