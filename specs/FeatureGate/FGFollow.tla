------------------------------ MODULE FGFollow ------------------------------
(* E02 -- admissible observations of GIVEN inputs: scripts.ndjson holds operation sequences ({"id":n,"ops":[...]}, the
   operation records of FeatureGate.tla as JSON; written by checks/E02.py: random long sequences, and the input of a
   --replay); TLC follows every script through FeatureGate!Outcomes, taking EVERY admissible outcome at every step, and
   prints each complete behaviour.  The behaviours printed for one id are the admissible observation sequences of that
   input; harness/featuregate replays the input into the real registry. *)
EXTENDS FeatureGate, Json

Scripts == ndJsonDeserialize("scripts.ndjson")

VARIABLES i, reg, hist

FInit == i \in 1..Len(Scripts) /\ reg = EmptyReg /\ hist = <<>>
FNext == /\ Len(hist) < Len(Scripts[i].ops)
         /\ LET o == Scripts[i].ops[Len(hist) + 1]
            IN \E out \in Outcomes(reg, o) : reg' = out.reg /\ hist' = Append(hist, Obs(reg, o, out))
         /\ i' = i
FSpec == FInit /\ [][FNext]_<<i, reg, hist>>

Emit == Len(hist) = Len(Scripts[i].ops) => PrintT(<<"BEH", ToJson(hist)>>)
Clauses == /\ TypeOK(reg) /\ IdsWellFormed(reg) /\ StableEnabled(reg) /\ DeprecatedDisabled(reg)
           /\ VisitOrdered(reg) /\ RoundTrip(reg)
=============================================================================
