------------------------------ MODULE FGImplMC ------------------------------
(* E02 -- model-checking configuration of FGImpl: the operation pool the goroutines draw from. *)
EXTENDS FGImpl
NoV == [set |-> FALSE, s |-> <<>>]
Ver1 == [set |-> TRUE, s |-> <<"v", "1", ".", "0", ".", "0">>]
RegOp(id, stage, to) == [op |-> "reg", id |-> id, stage |-> stage, from |-> NoV, to |-> to, url |-> "none"]
Pool == {RegOp(<<"a">>, "Alpha", NoV), RegOp(<<"a">>, "Beta", NoV), RegOp(<<"a">>, "Stable", Ver1), RegOp(<<"a">>, "Stable", NoV),
         RegOp(<<"b">>, "Deprecated", Ver1), RegOp(<<"a", "-">>, "Alpha", NoV),
         [op |-> "set", id |-> <<"a">>, v |-> TRUE], [op |-> "set", id |-> <<"a">>, v |-> FALSE],
         [op |-> "set", id |-> <<"b">>, v |-> TRUE],
         [op |-> "get", id |-> <<"a">>], [op |-> "visit"],
         [op |-> "flag", s |-> <<"a", ",", "-", "a", ",", "b">>]}
=============================================================================
