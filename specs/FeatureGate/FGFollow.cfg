SPECIFICATION FSpec
INVARIANT Emit
INVARIANT Clauses
CHECK_DEADLOCK FALSE
