------------------------------ MODULE FeatureGate ------------------------------
(* E02 -- statement-level (sequential) specification of the collector's feature gate registry,
   /repo/featuregate (registry.go, gate.go, stage.go, flag.go, README.md).

   STATEMENT (in the form of a properties.jsonl record; written from README.md and the doc comments):
     title      Feature gate registry: registration, stage defaults, settability, flag value, visiting order
     statement  A Registry holds gates identified by a unique id that is a nonempty string of ASCII letters, digits
                and dots.  Register (MustRegister: panics instead of returning the error) fails and leaves the
                registry unchanged if the id is malformed, if a gate with that id is already registered
                (ErrAlreadyRegistered), if a version option is not a version string, if the reference URL is not
                parseable, or if a Stable gate has no removal version (ToVersion); otherwise the gate is added with
                the enabled value of its stage: Alpha disabled, Beta enabled, Stable enabled, Deprecated disabled.
                Set(id, v): unknown id -> error; Stable gate: v=false -> error, v=true accepted (a warning, no
                error); Deprecated gate: v=true -> error, v=false accepted; Alpha/Beta gate: takes the value v.
                A failing Set changes nothing.  Gates are never removed and never change stage; a Stable gate is
                always enabled, a Deprecated gate always disabled.  The flag value (--feature-gates) is a
                comma-delimited list of entries  id | +id (enable)  and  -id (disable), applied left to right with
                Set (a later entry for the same gate overrides an earlier one); the flag Set reports an error iff an
                entry is refused by Set.  String() of the flag value, given back to Set, is accepted and reproduces
                the state.  VisitAll calls the function once for every registered gate, in lexicographical order
                of the ids.
     quantifier every sequence of Register / MustRegister (all four stages; well-formed, malformed and duplicate
                ids; version and URL options), Set, flag-value Set / String and VisitAll / IsEnabled calls on a
                fresh NewRegistry(); concurrently: every recorded history of such calls issued by several
                goroutines must be linearisable with respect to this module (FGLin.tla).
     anchors    featuregate/registry.go (Register, validateID, Set, VisitAll, With...Version), featuregate/gate.go
                (IsEnabled), featuregate/stage.go (stage documentation), featuregate/flag.go (flagValue.Set/String),
                featuregate/README.md ("Controlling Gates", "Feature Lifecycle").

   WHERE THE DOCUMENTATION IS SILENT this module admits every behaviour (an outcome SET per operation):
     O1  a Deprecated gate registered without ToVersion (README demands a removal version for Stable only);
     O2  ToVersion numerically before FromVersion; equal Major.Minor.Patch when a pre-release part is involved;
     O3  version strings that are neither of the documented form  [v]Major.Minor.Patch[-PreRelease]  nor plainly
         no version at all ("1.2", "1.2.3.4", "1.2.3+meta", "1.2.3-rc.1", "1.2.3-", ...): accepted or refused;
     O4  which error is returned when a duplicate registration has a second defect as well;
     O5  flag value with a refused entry: WHICH of the acceptable entries of the same value still take effect
         (any sub-list, applied in order); the error itself is determined;
     O6  flag value with an EMPTY entry ("a,,b", "a,", ","): ignored or reported as an error -- but answered
         (a crash is not an answer);
     O7  Stage values other than the four constants, descriptions, getters of the versions: not modelled.

   Strings are sequences of one-character strings (<<"a", ".", "b">>), so that the id syntax, the version syntax and
   the flag syntax are defined HERE, character by character, and evaluated by TLC.  *)
EXTENDS Integers, Sequences, FiniteSets, TLC

\* ---------------------------------------------------------------- characters
\* ASCII order of the characters a registered id can contain (Go compares strings bytewise)
CharOrder == <<".", "0", "1", "2", "3", "4", "5", "6", "7", "8", "9",
               "A", "B", "C", "D", "E", "F", "G", "H", "I", "J", "K", "L", "M",
               "N", "O", "P", "Q", "R", "S", "T", "U", "V", "W", "X", "Y", "Z",
               "a", "b", "c", "d", "e", "f", "g", "h", "i", "j", "k", "l", "m",
               "n", "o", "p", "q", "r", "s", "t", "u", "v", "w", "x", "y", "z">>
Digits   == {CharOrder[i] : i \in 2..11}
Alnum    == {CharOrder[i] : i \in 2..Len(CharOrder)}
IdChars  == Alnum \cup {"."}
PreChars == Alnum \cup {"-", "~"}                \* "PreRelease ... may have dashes, tildes and ASCII alphanumeric characters"
VersionChars == Alnum \cup {".", "-", "~", "+"}  \* anything else cannot be part of a version in any reading
Ord(ch)  == CHOOSE i \in 1..Len(CharOrder) : CharOrder[i] = ch

\* ---------------------------------------------------------------- strings as character sequences
RECURSIVE StrLess(_, _)
StrLess(a, b) == IF a = <<>> THEN b # <<>>
                 ELSE IF b = <<>> THEN FALSE
                 ELSE IF Head(a) = Head(b) THEN StrLess(Tail(a), Tail(b))
                 ELSE Ord(Head(a)) < Ord(Head(b))

RECURSIVE SortStr(_)
SortStr(S) == IF S = {} THEN <<>>
              ELSE LET m == CHOOSE x \in S : \A y \in S \ {x} : StrLess(x, y)
                   IN <<m>> \o SortStr(S \ {m})

IndexOf(cs, ch) == IF \E i \in 1..Len(cs) : cs[i] = ch
                   THEN CHOOSE i \in 1..Len(cs) : cs[i] = ch /\ \A j \in 1..(i - 1) : cs[j] # ch
                   ELSE 0

RECURSIVE SplitOn(_, _)          \* SplitOn(<<>>, ",") = << <<>> >>  like strings.Split
SplitOn(cs, ch) == LET k == IndexOf(cs, ch)
                   IN IF k = 0 THEN <<cs>>
                      ELSE <<SubSeq(cs, 1, k - 1)>> \o SplitOn(SubSeq(cs, k + 1, Len(cs)), ch)

RECURSIVE Join(_, _)
Join(ss, ch) == IF ss = <<>> THEN <<>>
                ELSE IF Len(ss) = 1 THEN ss[1]
                ELSE ss[1] \o <<ch>> \o Join(Tail(ss), ch)

\* ---------------------------------------------------------------- documented syntaxes
\* "id must be an ASCII alphanumeric nonempty string. Dots are allowed for namespacing."
IdOK(id) == id # <<>> /\ \A i \in 1..Len(id) : id[i] \in IdChars

\* "it may start with 'v' and must be in the format Major.Minor.Patch[-PreRelease]"
StripV(cs)  == IF cs # <<>> /\ Head(cs) = "v" THEN Tail(cs) ELSE cs
IsNumber(s) == s # <<>> /\ \A i \in 1..Len(s) : s[i] \in Digits
NumPart(b)  == LET d == IndexOf(b, "-") IN IF d = 0 THEN b ELSE SubSeq(b, 1, d - 1)
HasPre(b)   == IndexOf(b, "-") # 0
PrePart(b)  == SubSeq(b, IndexOf(b, "-") + 1, Len(b))
VersionOK(cs) == LET b == StripV(cs)  segs == SplitOn(NumPart(b), ".")
                 IN /\ Len(segs) = 3 /\ \A i \in 1..3 : IsNumber(segs[i])
                    /\ HasPre(b) => (PrePart(b) # <<>> /\ \A i \in 1..Len(PrePart(b)) : PrePart(b)[i] \in PreChars)
\* plainly no version: nothing there, does not begin with a number, or has a character no version reading allows
VersionBad(cs) == LET b == StripV(cs)
                  IN b = <<>> \/ Head(b) \notin Digits \/ \E i \in 1..Len(cs) : cs[i] \notin VersionChars
VersionClass(cs) == IF VersionOK(cs) THEN "ok" ELSE IF VersionBad(cs) THEN "bad" ELSE "gray"      \* gray = O3

RECURSIVE NumVal(_)
NumVal(s) == IF s = <<>> THEN 0 ELSE 10 * NumVal(SubSeq(s, 1, Len(s) - 1)) + (Ord(s[Len(s)]) - 2)
Triple(cs) == LET segs == SplitOn(NumPart(StripV(cs)), ".") IN <<NumVal(segs[1]), NumVal(segs[2]), NumVal(segs[3])>>
TripleLess(a, b) == \/ a[1] < b[1]
                    \/ a[1] = b[1] /\ a[2] < b[2]
                    \/ a[1] = b[1] /\ a[2] = b[2] /\ a[3] < b[3]

\* ---------------------------------------------------------------- the registry
Stages   == {"Alpha", "Beta", "Stable", "Deprecated"}
Settable == {"Alpha", "Beta"}
Default(stage) == stage \in {"Beta", "Stable"}       \* Alpha: disabled, Beta: enabled, Stable: enabled, Deprecated: disabled

\* reg: id -> [stage, en].  Operations are records:
\*   [op |-> "reg", id, stage, from |-> [set, s], to |-> [set, s], url |-> "none" | "good" | "bad"]
\*   [op |-> "set", id, v]      [op |-> "flag", s]      [op |-> "rt"]  (String() given back to Set on a fresh copy)
\*   [op |-> "get", id]  [op |-> "visit"]   (concurrent histories only; sequentially every step is followed by a visit)
EmptyReg == <<>>
Put(f, k, v) == [x \in DOMAIN f \cup {k} |-> IF x = k THEN v ELSE f[x]]

\* VisitAll: every gate once, ascending ids
Visit(reg) == LET s == SortStr(DOMAIN reg)
              IN [i \in 1..Len(s) |-> [id |-> s[i], stage |-> reg[s[i]].stage, en |-> reg[s[i]].en]]

\* ---- Register
VerGiven(o)  == {v.s : v \in {w \in {o.from, o.to} : w.set}}
RegDefects(reg, o) ==                                   \* documented reasons to fail
     (IF ~IdOK(o.id) THEN {"id"} ELSE {})
  \cup (IF o.id \in DOMAIN reg THEN {"dup"} ELSE {})
  \cup (IF \E v \in VerGiven(o) : VersionClass(v) = "bad" THEN {"version"} ELSE {})
  \cup (IF o.url = "bad" THEN {"url"} ELSE {})
  \cup (IF o.stage = "Stable" /\ ~o.to.set THEN {"stable-without-removal-version"} ELSE {})
RegOpen(o) ==                                           \* documentation silent: O1, O2, O3
     (IF \E v \in VerGiven(o) : VersionClass(v) = "gray" THEN {"O3"} ELSE {})
  \cup (IF o.stage = "Deprecated" /\ ~o.to.set THEN {"O1"} ELSE {})
  \cup (IF /\ o.from.set /\ o.to.set /\ VersionOK(o.from.s) /\ VersionOK(o.to.s)
           /\ \/ TripleLess(Triple(o.to.s), Triple(o.from.s))
              \/ Triple(o.to.s) = Triple(o.from.s) /\ (HasPre(StripV(o.from.s)) \/ HasPre(StripV(o.to.s)))
        THEN {"O2"} ELSE {})
\* results: "ok", "err" (an error that is not ErrAlreadyRegistered), "dup" (errors.Is(err, ErrAlreadyRegistered))
RegResults(reg, o) ==
  LET d == RegDefects(reg, o)  open == RegOpen(o)
  IN IF d = {"dup"} /\ open = {} THEN {"dup"}
     ELSE IF "dup" \in d THEN {"dup", "err"}            \* O4
     ELSE IF d # {} THEN {"err"}
     ELSE IF open # {} THEN {"ok", "err"}
     ELSE {"ok"}
RegApply(reg, o) == Put(reg, o.id, [stage |-> o.stage, en |-> Default(o.stage)])
RegOutcomes(reg, o) == {[res |-> r, reg |-> IF r = "ok" THEN RegApply(reg, o) ELSE reg] : r \in RegResults(reg, o)}

\* ---- Set
SetRes(reg, id, v) == IF id \notin DOMAIN reg THEN "err"
                      ELSE IF reg[id].stage = "Stable" THEN (IF v THEN "ok" ELSE "err")
                      ELSE IF reg[id].stage = "Deprecated" THEN (IF v THEN "err" ELSE "ok")
                      ELSE "ok"
SetReg(reg, id, v) == IF id \in DOMAIN reg /\ reg[id].stage \in Settable THEN [reg EXCEPT ![id].en = v] ELSE reg
SetOutcomes(reg, o) == {[res |-> SetRes(reg, o.id, o.v), reg |-> SetReg(reg, o.id, o.v)]}

\* ---- flag value
ParseEntry(e) == IF e = <<>> THEN [kind |-> "empty", id |-> <<>>, v |-> TRUE]
                 ELSE IF Head(e) = "-" THEN [kind |-> "set", id |-> Tail(e), v |-> FALSE]
                 ELSE IF Head(e) = "+" THEN [kind |-> "set", id |-> Tail(e), v |-> TRUE]
                 ELSE [kind |-> "set", id |-> e, v |-> TRUE]
FlagEntries(cs) == IF cs = <<>> THEN <<>>                    \* the empty value is the empty list
                   ELSE LET es == SplitOn(cs, ",") IN [i \in 1..Len(es) |-> ParseEntry(es[i])]
\* stage and membership never change, so whether Set accepts an entry does not depend on the entries before it
Acceptable(reg, e) == e.kind = "set" /\ SetRes(reg, e.id, e.v) = "ok"
RECURSIVE ApplySub(_, _, _, _)
ApplySub(reg, es, S, i) == IF i > Len(es) THEN reg
                           ELSE ApplySub(IF i \in S THEN SetReg(reg, es[i].id, es[i].v) ELSE reg, es, S, i + 1)
FlagOutcomes(reg, cs) ==
  LET es      == FlagEntries(cs)
      good    == {i \in 1..Len(es) : Acceptable(reg, es[i])}
      refused == {i \in 1..Len(es) : es[i].kind = "set" /\ ~Acceptable(reg, es[i])}
      empties == {i \in 1..Len(es) : es[i].kind = "empty"}
  IN IF refused = {} /\ empties = {} THEN {[res |-> "ok", reg |-> ApplySub(reg, es, good, 1)]}
     ELSE   {[res |-> "err", reg |-> ApplySub(reg, es, S, 1)] : S \in SUBSET good}                    \* O5
       \cup (IF refused = {} THEN {[res |-> "ok", reg |-> ApplySub(reg, es, good, 1)]} ELSE {})       \* O6

\* String(): ids in VisitAll order, "-" in front of the disabled ones (the FORMAT is the implementation's; the statement
\* only demands that it is understood by Set and reproduces the state: RoundTrip below)
FlagString(reg) == LET v == Visit(reg)
                   IN Join([i \in 1..Len(v) |-> IF v[i].en THEN v[i].id ELSE <<"-">> \o v[i].id], ",")
Fresh(reg) == [id \in DOMAIN reg |-> [stage |-> reg[id].stage, en |-> Default(reg[id].stage)]]
\* "rt": the observation is the outcome of Set(String()) on a fresh registry with the same gates; the registry itself stays
RtOutcomes(reg) == {[res |-> "ok", reg |-> reg]}

Outcomes(reg, o) == CASE o.op = "reg"  -> RegOutcomes(reg, o)
                      [] o.op = "set"  -> SetOutcomes(reg, o)
                      [] o.op = "flag" -> FlagOutcomes(reg, o.s)
                      [] o.op = "rt"   -> RtOutcomes(reg)

\* what one step shows: the answer, and what VisitAll + IsEnabled show afterwards (for "rt": on the fresh copy; str = predicted text)
Obs(r, o, out) == IF o.op = "rt" THEN [op |-> o, res |-> out.res, st |-> Visit(out.reg), str |-> FlagString(r)]
                  ELSE [op |-> o, res |-> out.res, st |-> Visit(out.reg)]

\* the prefix must consist of operations with one admissible outcome
RECURSIVE RunPrefix(_, _, _)
RunPrefix(r, h, ops) == IF ops = <<>> THEN [reg |-> r, hist |-> h]
                        ELSE LET out == CHOOSE x \in Outcomes(r, Head(ops)) : TRUE
                             IN RunPrefix(out.reg, Append(h, Obs(r, Head(ops), out)), Tail(ops))
RECURSIVE PrefixDetermined(_, _)
PrefixDetermined(r, ops) == ops = <<>> \/ (/\ Cardinality(Outcomes(r, Head(ops))) = 1
                                            /\ PrefixDetermined((CHOOSE x \in Outcomes(r, Head(ops)) : TRUE).reg, Tail(ops)))

\* ---------------------------------------------------------------- clauses (checked by FGMC over all reachable registries)
TypeOK(reg) == \A id \in DOMAIN reg : reg[id].stage \in Stages /\ reg[id].en \in BOOLEAN
IdsWellFormed(reg) == \A id \in DOMAIN reg : IdOK(id)
StableEnabled(reg) == \A id \in DOMAIN reg : reg[id].stage = "Stable" => reg[id].en
DeprecatedDisabled(reg) == \A id \in DOMAIN reg : reg[id].stage = "Deprecated" => ~reg[id].en
VisitOrdered(reg) == LET v == Visit(reg)
                     IN /\ {v[i].id : i \in 1..Len(v)} = DOMAIN reg /\ Len(v) = Cardinality(DOMAIN reg)
                        /\ \A i \in 1..(Len(v) - 1) : StrLess(v[i].id, v[i + 1].id)
\* String() given back to Set is accepted, changes nothing, and rebuilds the state from the stage defaults
RoundTrip(reg) == /\ FlagOutcomes(reg, FlagString(reg)) = {[res |-> "ok", reg |-> reg]}
                  /\ FlagOutcomes(Fresh(reg), FlagString(reg)) = {[res |-> "ok", reg |-> reg]}
\* a later entry for the same gate overrides an earlier one (flag values without refused / empty entries)
LaterOverrides(reg, cs) ==
  LET es == FlagEntries(cs)
  IN (\A i \in 1..Len(es) : Acceptable(reg, es[i])) =>
       \A o \in FlagOutcomes(reg, cs) : \A id \in DOMAIN reg :
          LET idx == {i \in 1..Len(es) : es[i].id = id}
          IN o.reg[id].en = IF idx = {} \/ reg[id].stage \notin Settable THEN reg[id].en
                            ELSE es[CHOOSE i \in idx : \A j \in idx : j <= i].v
\* step clauses: a failing operation changes nothing; gates are never removed and never change stage; only Set / flag
\* change an enabled value, and only of an Alpha or Beta gate
StepOK(reg, o, out) ==
  /\ (out.res # "ok" /\ o.op \in {"reg", "set"}) => out.reg = reg
  /\ DOMAIN reg \subseteq DOMAIN out.reg
  /\ \A id \in DOMAIN reg : /\ out.reg[id].stage = reg[id].stage
                            /\ out.reg[id].en # reg[id].en => (o.op \in {"set", "flag"} /\ reg[id].stage \in Settable)
  /\ \A id \in DOMAIN out.reg \ DOMAIN reg :
        o.op = "reg" /\ out.res = "ok" /\ id = o.id /\ out.reg[id] = [stage |-> o.stage, en |-> Default(o.stage)]
=============================================================================
