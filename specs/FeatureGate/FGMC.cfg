SPECIFICATION Spec
INVARIANT Types
INVARIANT WellFormedIds
INVARIANT StableOn
INVARIANT DeprecatedOff
INVARIANT VisitInOrder
INVARIANT StringRoundTrips
INVARIANT LaterWins
INVARIANT AllStepsOK
INVARIANT Answered
INVARIANT Determined
CHECK_DEADLOCK FALSE
