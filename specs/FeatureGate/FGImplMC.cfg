SPECIFICATION ISpec
CONSTANTS
  Procs = {1, 2}
  MaxOps = 2
  AtomicLoadOrStore = TRUE
  OpPool <- Pool
INVARIANT ImplInv
PROPERTY Refines
CHECK_DEADLOCK FALSE
