------------------------------ MODULE FGLin ------------------------------
(* E02 -- linearisability validation of concurrent histories of the REAL featuregate.Registry against the sequential
   specification FeatureGate.tla.  harness/featuregate `conc` runs rounds of several goroutines on a fresh registry
   and records, ordered by one atomic counter read before the call (inv) and after it (ret):

     {"ev":"reset","round":r,"n":goroutines}
     {"ev":"inv","p":g,"op":{...},"res":"ok|err|dup","en":bool (get),"vis":{"ids":[..],"ens":[..],"stages":[..]} (visit)}
     {"ev":"ret","p":g}
     {"ev":"end"}

   (the answer of a call is written on its inv record, so that TLC can prune; the POSITION of inv is the moment before the
   call, the position of ret the moment after it).  The points at which the calls take effect are not logged: TLC
   searches for them.  Register, Set and Gate.IsEnabled ("get") take effect at ONE point between inv and ret, with the
   answer FeatureGate!Outcomes gives in the registry of that point.  Two calls are not atomic by their documentation
   and are specified as sequences of points between inv and ret:
     flag Set   one point per list entry, left to right (each entry is a Set);
     VisitAll   one point where the set of gates is taken (Snapshot = TRUE: exactly the gates registered at that point;
                Snapshot = FALSE, what the documentation and sync.Map.Range promise at least: every gate registered
                before the call, none that is not registered when it is visited), then one point per visited gate, in
                visiting order, where its IsEnabled is read by the callback.  In both modes: every gate once, ids ascending.
   Rejected = no choice of points explains the history: e.g. two successful registrations of one id, a Set that
   succeeded but whose value is never seen, a value read that no Set wrote, a visit that misses an older gate. *)
EXTENDS FeatureGate, Json

CONSTANT Snapshot

Log == ndJsonDeserialize("observed.ndjson")

VARIABLES l,       \* next line of Log
          reg,     \* the registry of the sequential specification
          pend     \* goroutine -> [e: its inv record, k: points passed, bad: a flag entry was refused, base: ids registered at inv]

lvars == <<l, reg, pend>>

E == Log[l]
Is(e) == l <= Len(Log) /\ E.ev = e /\ l' = l + 1
Del(f, k) == [x \in DOMAIN f \ {k} |-> f[x]]

LInit == l = 1 /\ reg = EmptyReg /\ pend = <<>> /\ TLCSet(1, 1)

LReset == /\ Is("reset") /\ DOMAIN pend = {}
          /\ reg' = EmptyReg /\ pend' = <<>>

\* the visiting order itself is checked where the call is invoked: every gate once, ids ascending
VisitShapeOK(v) == /\ Len(v.ens) = Len(v.ids) /\ Len(v.stages) = Len(v.ids)
                   /\ \A i \in 1..(Len(v.ids) - 1) : StrLess(v.ids[i], v.ids[i + 1])

LInv == /\ Is("inv") /\ E.p \notin DOMAIN pend
        /\ (E.op.op = "visit" => VisitShapeOK(E.vis))
        /\ pend' = Put(pend, E.p, [e |-> E, k |-> 0, bad |-> FALSE, base |-> DOMAIN reg])
        /\ reg' = reg

\* ---- one point: Register, Set, IsEnabled
LPoint(p) == /\ pend[p].k = 0 /\ pend[p].e.op.op \in {"reg", "set", "get"}
             /\ LET e == pend[p].e  o == e.op
                IN IF o.op = "get" THEN o.id \in DOMAIN reg /\ reg[o.id].en = e.en /\ reg' = reg
                   ELSE \E out \in Outcomes(reg, o) : out.res = e.res /\ reg' = out.reg
             /\ pend' = [pend EXCEPT ![p].k = 1]
             /\ l' = l

\* ---- flag Set: entry k+1 takes effect.  A refused entry makes the answer an error; where the answer is an error the
\*      documentation does not say whether the acceptable entries still take effect (O5): both admitted
LFlag(p) == /\ pend[p].e.op.op = "flag"
            /\ LET e == pend[p].e  es == FlagEntries(e.op.s)  k == pend[p].k
               IN /\ k < Len(es)
                  /\ LET x == es[k + 1]
                     IN \/ /\ Acceptable(reg, x)
                           /\ reg' = SetReg(reg, x.id, x.v)
                           /\ pend' = [pend EXCEPT ![p].k = k + 1]
                        \/ /\ Acceptable(reg, x) /\ e.res = "err"
                           /\ reg' = reg
                           /\ pend' = [pend EXCEPT ![p].k = k + 1]
                        \/ /\ ~Acceptable(reg, x) /\ e.res = "err"
                           /\ reg' = reg
                           /\ pend' = [pend EXCEPT ![p].k = k + 1, ![p].bad = TRUE]
                        \/ /\ x.kind = "empty" /\ e.res = "ok"                      \* O6: ignored
                           /\ reg' = reg
                           /\ pend' = [pend EXCEPT ![p].k = k + 1]
            /\ l' = l

\* ---- VisitAll
LSnap(p) == /\ Snapshot /\ pend[p].e.op.op = "visit" /\ pend[p].k = 0
            /\ pend[p].e.vis.ids = SortStr(DOMAIN reg)
            /\ pend' = [pend EXCEPT ![p].k = 1]
            /\ UNCHANGED <<l, reg>>
LRead(p) == /\ pend[p].e.op.op = "visit"
            /\ LET v == pend[p].e.vis  i == IF Snapshot THEN pend[p].k ELSE pend[p].k + 1
               IN /\ i >= 1 /\ i <= Len(v.ids)
                  /\ v.ids[i] \in DOMAIN reg
                  /\ reg[v.ids[i]].stage = v.stages[i] /\ reg[v.ids[i]].en = v.ens[i]
            /\ pend' = [pend EXCEPT ![p].k = @ + 1]
            /\ UNCHANGED <<l, reg>>

Complete(p) == LET e == pend[p].e  k == pend[p].k
               IN CASE e.op.op = "flag"  -> /\ k = Len(FlagEntries(e.op.s))
                                            /\ (e.res = "err") = pend[p].bad
                    [] e.op.op = "visit" -> /\ e.res = "ok"
                                            /\ k = Len(e.vis.ids) + (IF Snapshot THEN 1 ELSE 0)
                                            /\ pend[p].base \subseteq {e.vis.ids[i] : i \in 1..Len(e.vis.ids)}
                    [] OTHER             -> k = 1
LRet == /\ Is("ret") /\ E.p \in DOMAIN pend /\ Complete(E.p)
        /\ pend' = Del(pend, E.p)
        /\ reg' = reg

LEnd == Is("end") /\ DOMAIN pend = {} /\ UNCHANGED <<reg, pend>>

LNext == \/ LReset \/ LInv \/ LRet \/ LEnd
         \/ \E p \in DOMAIN pend : LPoint(p) \/ LFlag(p) \/ LSnap(p) \/ LRead(p)
LSpec == LInit /\ [][LNext]_lvars

HighWater == IF l > TLCGet(1) THEN TLCSet(1, l) ELSE TRUE
Accepted == IF TLCGet(1) = Len(Log) + 1 THEN TRUE
            ELSE PrintT(<<"REJECTED_AT", TLCGet(1), Len(Log)>>) /\ FALSE
\* the clauses of the statement hold in every registry the explanation passes through
LinInv == TypeOK(reg) /\ IdsWellFormed(reg) /\ StableEnabled(reg) /\ DeprecatedDisabled(reg)
=============================================================================
