------------------------------ MODULE FGGen ------------------------------
(* E02 -- behaviour generator: every operation sequence of exactly N operations of the plan (FGPlan) after the plan's
   prefix, on a fresh registry, with EVERY admissible outcome (where the documentation is silent an operation has several:
   one behaviour per choice).  Each step carries what the statement makes observable: the result of the call and what
   VisitAll + IsEnabled show afterwards (ids in order, stage, enabled); for "rt" the state of a fresh copy of the registry
   after Set(String()) and the predicted text.  Printed as JSON from an invariant (-workers 1, or -simulate for long random
   behaviours); checks/E02.py groups the behaviours by their operation sequence (= the set of admissible observation
   sequences of that input) and harness/featuregate replays the input into the real registry. *)
EXTENDS FeatureGate, FGPlan, Json
CONSTANT N

VARIABLES reg, hist

Ops ==   {[op |-> "reg", id |-> i, stage |-> s, from |-> f, to |-> t, url |-> u] :
              i \in PIds, s \in PStages, f \in PFroms, t \in PTos, u \in PUrls}
    \cup {[op |-> "set", id |-> i, v |-> b] : i \in PSetIds, b \in BOOLEAN}
    \cup {[op |-> "flag", s |-> x] : x \in PFlags}
    \cup (IF PRt THEN {[op |-> "rt"]} ELSE {})

ASSUME PrefixDetermined(EmptyReg, PPrefix)

GenInit == LET p == RunPrefix(EmptyReg, <<>>, PPrefix) IN reg = p.reg /\ hist = p.hist
GenNext == /\ Len(hist) < Len(PPrefix) + N
           /\ \E o \in Ops : \E out \in Outcomes(reg, o) :
                 /\ reg' = out.reg
                 /\ hist' = Append(hist, Obs(reg, o, out))
GenSpec == GenInit /\ [][GenNext]_<<reg, hist>>

Emit == Len(hist) = Len(PPrefix) + N => PrintT(<<"BEH", ToJson(hist)>>)
\* the clauses hold along every generated behaviour
Clauses == /\ TypeOK(reg) /\ IdsWellFormed(reg) /\ StableEnabled(reg) /\ DeprecatedDisabled(reg)
           /\ VisitOrdered(reg) /\ RoundTrip(reg)
=============================================================================
