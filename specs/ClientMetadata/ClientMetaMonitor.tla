--------------------------- MODULE ClientMetaMonitor ---------------------------
(* E08: monitor.  Evaluates the clauses of the statement (ClientMetaObs.tla) on what harness/clientmeta recorded
   from the REAL receiver / batch processor.  observed.ndjson, one object per script:
     {"id": k,
      "conf": {"include": b, "keys": [names], "limit": n, "size": n, "max": n},
      "reqs": [{"tr": "grpc"|"http/proto"|"http/json", "hdrs": [{"n": name, "v": value}, ...], "items": n}, ...],
      "obs":  {"seen":    [{"addr": b, "keys": [..], "get": [[..] per probe], "again": [[..] per probe]} per request],
               "resp":    ["ok"|"fail" per request],
               "batches": [{"items": [[i, j], ...], "keys": [..], "get": [[..] per probe], "again": [[..] per probe]}, ...],
               "late": n}}
   For every line TLC prints <<"VERDICT", json>> with the set of failed clauses: every script gets its own
   verdict.  This is the only source of an EXTRA-FINDING of E08.  A line that is not an observation of the
   script it names (wrong lengths, unknown words) gets the verdict "MalformedLine": the check turns that into
   INCONCLUSIVE, never into a finding. *)
EXTENDS ClientMetaObs, Json

Log == ndJsonDeserialize("observed.ndjson")

SeqRange(s) == { s[i] : i \in DOMAIN s }
IsStrSeq(s) == \A i \in DOMAIN s : s[i] \in STRING
ConfOf(l) == [include |-> l.conf.include, keys |-> SeqRange(l.conf.keys), limit |-> l.conf.limit,
              size |-> l.conf.size, max |-> l.conf.max]

CtxOK(c) == /\ IsStrSeq(c.keys)
            /\ DOMAIN c.get = DOMAIN Probes /\ DOMAIN c.again = DOMAIN Probes
            /\ \A j \in DOMAIN Probes : IsStrSeq(c.get[j]) /\ IsStrSeq(c.again[j])
WellFormedLine(l) ==
    /\ l.conf.include \in BOOLEAN /\ l.conf.limit \in Nat /\ l.conf.size \in Nat /\ l.conf.max \in Nat
    /\ \A k \in SeqRange(l.conf.keys) : k \in AllNames
    /\ ValidConf(ConfOf(l))
    /\ Len(l.reqs) >= 1
    /\ \A i \in DOMAIN l.reqs :
          /\ l.reqs[i].tr \in {"grpc", "http/proto", "http/json"} /\ l.reqs[i].items \in 1..16
          /\ \A h \in DOMAIN l.reqs[i].hdrs : l.reqs[i].hdrs[h].n \in SentNames /\ l.reqs[i].hdrs[h].v \in STRING
    /\ Len(l.obs.seen) = Len(l.reqs) /\ Len(l.obs.resp) = Len(l.reqs)
    /\ \A i \in DOMAIN l.obs.seen : l.obs.seen[i].addr \in BOOLEAN /\ CtxOK(l.obs.seen[i])
    /\ \A i \in DOMAIN l.obs.resp : l.obs.resp[i] \in {"ok", "fail"}
    /\ \A b \in DOMAIN l.obs.batches :
          /\ CtxOK(l.obs.batches[b])
          /\ \A p \in DOMAIN l.obs.batches[b].items : Len(l.obs.batches[b].items[p]) = 2
    /\ l.obs.late \in Nat

Verdict(l) == [ id |-> l.id,
                failed |-> IF WellFormedLine(l) THEN Failed(ConfOf(l), l.reqs, l.obs) ELSE { "MalformedLine" } ]

VARIABLE i
MInit == i = 1
MNext == /\ i <= Len(Log)
         /\ PrintT(<<"VERDICT", ToJson(Verdict(Log[i]))>>)
         /\ i' = i + 1
MSpec == MInit /\ [][MNext]_i
=============================================================================
