----------------------------- MODULE ClientMetaGen -----------------------------
(* E08: script generator.  The behaviours are those of ClientMetadata.tla (Variant "real") under a deterministic
   schedule -- the client sends the next request only when every shard goroutine is quiescent, after the shutdown
   signal the shards finish in the order of their creation -- so that every script (configuration + request
   sequence) has exactly one behaviour.  A request is composed in two steps (Draft: tenant and env part, Send: the
   rest) to keep the branching small for TLC's simulation mode.

   Every finished script is printed once as
       [conf, reqs, exp |-> [resp |-> <<"ok" | "fail", ...>>,
                             batches |-> << [g |-> index of the shard in creation order, items |-> <<<<i, j>>, ...>>], ... >>]]
   harness/clientmeta realises it over loopback against the real receiver + batch processor.  `exp` is what the
   IMPLEMENTATION-SHAPED model does; the verdict on the real observation comes from the clauses of ClientMetaObs.tla
   (ClientMetaMonitor.tla), exp is only compared for model drift (answers; per shard, the sequence of batches).

   Exhaustive mode (TLC breadth first): every script over the parameter sets.  Simulation mode (-simulate): random
   scripts over (much larger) parameter sets. *)
EXTENDS ClientMetadata, ClientMetaGenParams, Json

VARIABLE draft
gvars == <<vars, draft>>

Line(p)   == [n |-> p[1], v |-> p[2]]
Lines(ps) == [i \in DOMAIN ps |-> Line(ps[i])]
Assemble(ord, t, e, o) ==
    IF ord = "teo" THEN Lines(t \o e \o o)
    ELSE IF ord = "oet" THEN Lines(o \o e \o t)
    ELSE IF t = <<>> THEN Lines(e \o o) ELSE Lines(<<Head(t)>> \o e \o o \o Tail(t))

GConfigs == {[include |-> c[1], keys |-> c[2], limit |-> c[3], size |-> c[4], max |-> c[5]] : c \in ParamConfigs}
ASSUME \A c \in GConfigs : ValidConf(c)
ASSUME TablesWellFormed
ASSUME \A t \in ParamT \cup ParamE \cup ParamO : \A i \in DOMAIN t : t[i][1] \in SentNames /\ t[i][2] \in Values

NoDraft == [set |-> FALSE, t |-> <<>>, e |-> <<>>]
Quiescent == \A g \in DOMAIN shards : shards[g].chan = <<>> /\ shards[g].pc \in {"idle", "done"}
Rank(g) == CHOOSE i \in DOMAIN order : order[i] = g
Turn(g) == phase = "shutting" => \A h \in DOMAIN shards : Rank(h) < Rank(g) => shards[h].pc = "done"
TrOK(tr) == (ParamSameTr /\ reqs # <<>>) => tr = reqs[1].tr

GenInit == Init /\ draft = NoDraft
GenNext ==
    \/ /\ phase = "running" /\ stage = "idle" /\ Quiescent /\ ~draft.set /\ Len(reqs) < MaxReqs
       /\ \E t \in ParamT, e \in ParamE : draft' = [set |-> TRUE, t |-> t, e |-> e]
       /\ UNCHANGED vars
    \/ /\ draft.set
       /\ \E o \in ParamO, ord \in ParamOrd, tr \in ParamTr, n \in ParamItems :
             TrOK(tr) /\ Arrive([tr |-> tr, hdrs |-> Assemble(ord, draft.t, draft.e, o), items |-> n])
       /\ draft' = NoDraft
    \/ Deliver /\ UNCHANGED draft
    \/ \E g \in DOMAIN shards : Turn(g) /\ (ShardRecv(g) \/ ShardExport(g) \/ ShardFinal(g)) /\ UNCHANGED draft
    \/ Quiescent /\ ~draft.set /\ ShutdownSignal /\ UNCHANGED draft
    \/ ShutdownReturn /\ UNCHANGED draft
GenSpec == GenInit /\ [][GenNext]_gvars

ConfJson == [include |-> conf.include, keys |-> SetToSeq(conf.keys), limit |-> conf.limit, size |-> conf.size, max |-> conf.max]
Emit == phase = "stopped" =>
          PrintT(<<"BEH", ToJson([conf |-> ConfJson, reqs |-> reqs,
                                  exp |-> [resp |-> resp,
                                           batches |-> [i \in DOMAIN emitted |-> [g |-> Rank(emitted[i].g), items |-> emitted[i].items]]]])>>)
\* the generated behaviours satisfy the statement (the generator cannot emit an expectation that contradicts it)
GenStatement == Statement
=============================================================================
