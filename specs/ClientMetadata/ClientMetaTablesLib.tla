-------------------------- MODULE ClientMetaTablesLib --------------------------
(* E08: prints the tables of ClientMetaTables.tla as JSON (one line, tag LIB) so that checks/E08.py can have the
   real driver evaluate strings.ToLower / textproto.CanonicalMIMEHeaderKey on every name and compare, and can
   hand the probe list to the driver.  Not a specification of anything. *)
EXTENDS ClientMetaTables, Json
VARIABLE x
RECURSIVE SetSeq(_)
SetSeq(S) == IF S = {} THEN <<>> ELSE LET e == CHOOSE e \in S : TRUE IN <<e>> \o SetSeq(S \ {e})
LibInit == x = 0
LibNext == FALSE /\ x' = x
LibEmit == PrintT(<<"LIB", ToJson([fold |-> FoldT, canon |-> CanonT, probes |-> Probes, sent |-> SetSeq(SentNames),
                                   values |-> SetSeq(Values), wellformed |-> TablesWellFormed])>>)
=============================================================================
