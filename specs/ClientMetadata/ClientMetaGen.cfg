SPECIFICATION GenSpec
CONSTANTS
  Configs <- GConfigs
  ReqPool = {}
  MinReqs <- ParamMinReqs
  MaxReqs <- ParamMaxReqs
  Variant = "real"
INVARIANT Emit
INVARIANT GenStatement
CHECK_DEADLOCK FALSE
