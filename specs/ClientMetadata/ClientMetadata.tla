---------------------------- MODULE ClientMetadata ----------------------------
(* E08 -- client metadata end to end: IMPLEMENTATION-SHAPED MODEL of the path
       client library -> wire -> server library -> client-information interceptor -> next consumer
                      -> batch processor (multiShardBatcher / singleShardBatcher) -> shard goroutines -> next consumer
   One action per critical section of the Go code; the statement (ClientMetaObs.tla) is evaluated on the
   observation record the model produces (ObsRec), in every state.

     Arrive(r)        the client writes request r (gRPC: metadata.AppendToOutgoingContext lower-cases the keys, HTTP/2
                      field names are lower case; HTTP/1.1: the header lines as written), the server library builds its
                      header map (net/http: canonical MIME names, Host taken out; grpc-go: metadata.MD) and
                      confighttp.clientInfoHandler / configgrpc.enhanceWithClientInformation (contextWithClient) put a
                      client.Info into the context: Addr from the peer, Metadata = client.NewMetadata(copy of the map
                      + "Host") iff include_metadata
     Deliver          the otlpreceiver calls its next consumer: the capturing consumer records the client.Info it finds (seen),
                      then batchprocessor consume(): look the configured keys up (Metadata.Get), build the attribute
                      set (attribute.String for one value, attribute.StringSlice otherwise), Load / refuse
                      (errTooManyBatchers when metadata_cardinality_limit # 0 and reached) / LoadOrStore + newShard
                      (exportCtx = client.NewContext(Background, Info{Metadata: NewMetadata(md)})), send on newItem;
                      the request is answered
     ShardRecv(g)     shard.startLoop receives an item: batch.add
     ShardExport(g)   shard.processItem loop: while itemCount >= send_batch_size (or no timer): sendItems = split
                      (send_batch_max_size) + export with exportCtx
     ShutdownSignal   Shutdown: close(shutdownC) (the receiver has been shut down before: no request in flight)
     ShardFinal(g)    the shard saw shutdownC: drained newItem (ShardRecv / ShardExport stay enabled), one last
                      sendItems if something is pending, goroutine ends
     ShutdownReturn   goroutines.Wait() returned

   Deviations, named:
     * time: the batch timeout never expires (the driver configures 10 minutes); C17 covers the timer;
     * the newItem channel is unbounded here (capacity NumCPU in the code; requests are sequential, so at most
       one item waits per shard between two requests -- the handler never blocks for long);
     * the transports' own header lines are three symbolic ones per transport (AutoWire);
     * client.NewMetadata is given as the SET of its possible results (Go map iteration order decides when two keys
       of its input collide after lower-casing); HopNormalises shows the set is a singleton on this path.
   Variant (model-only deviations used to show that the clauses bite, and to produce directed scripts):
     "real"    the code as it is
     "joined"  the shard key is built from strings.Join(values, ",")   (seeded change C17-4)
     "nofold"  client.NewMetadata keeps the spelling of the keys *)
EXTENDS ClientMetaObs

CONSTANTS Configs,      \* set of configurations (records conf as in ClientMetaObs)
          ReqPool,      \* set of requests a client may send
          MinReqs, MaxReqs,
          Variant

VARIABLES conf, reqs, stage, info, seen, resp, shards, order, emitted, phase
vars == <<conf, reqs, stage, info, seen, resp, shards, order, emitted, phase>>

(* ---- the hop ---------------------------------------------------------------------------------- *)
IsGrpc(r) == r.tr = "grpc"
ClientEncode(r) == IF IsGrpc(r) THEN [i \in DOMAIN r.hdrs |-> [n |-> Fold(r.hdrs[i].n), v |-> r.hdrs[i].v]]
                   ELSE r.hdrs
AutoWire(r) == IF IsGrpc(r)
               THEN << [n |-> ":authority", v |-> "peer"], [n |-> "content-type", v |-> "auto"], [n |-> "user-agent", v |-> "auto"] >>
               ELSE << [n |-> "Host", v |-> "peer"], [n |-> "Content-Type", v |-> "auto"], [n |-> "Content-Length", v |-> "auto"] >>
Wire(r) == AutoWire(r) \o ClientEncode(r)

\* net/http keeps the Host line out of Request.Header; names are canonicalised, values appended in wire order
ServerKey(r, n) == IF IsGrpc(r) THEN n ELSE CanonT[n]
ServerLines(r)  == SelectSeq(Wire(r), LAMBDA h : IsGrpc(r) \/ Fold(h.n) # "host")
ServerMap(r) ==
    LET lines == ServerLines(r)
        ks == {ServerKey(r, lines[i].n) : i \in DOMAIN lines}
    IN [k \in ks |-> LET s == SelectSeq(lines, LAMBDA h : ServerKey(r, h.n) = k) IN [i \in 1..Len(s) |-> s[i].v]]
\* contextWithClient of both packages: a "Host" entry (that spelling) from Request.Host / :authority when there is none
WithHost(r) == LET m == ServerMap(r) IN IF "Host" \in DOMAIN m THEN m ELSE m @@ ("Host" :> <<"peer">>)

\* client.NewMetadata: keys lower-cased; one of the colliding entries survives
Pre(m, f) == {k \in DOMAIN m : Fold(k) = f}
NewMetadataSet(m) ==
    IF Variant = "nofold" THEN {m}
    ELSE LET fs == {Fold(k) : k \in DOMAIN m} IN
         IF \A f \in fs : Cardinality(Pre(m, f)) = 1
         THEN {[f \in fs |-> m[CHOOSE k \in Pre(m, f) : TRUE]]}                 \* no collision: determined
         ELSE LET cs == {c \in [fs -> DOMAIN m] : \A f \in fs : Fold(c[f]) = f}
              IN {[f \in fs |-> m[c[f]]] : c \in cs}
NoMD == [k \in {} |-> <<>>]
\* Metadata.Get: lower-cased lookup, nil for nothing, a copy otherwise
Get(md, k) == IF Fold(k) \in DOMAIN md THEN md[Fold(k)] ELSE <<>>
InfoSet(r) == {[addr |-> TRUE, md |-> md] : md \in IF conf.include THEN NewMetadataSet(WithHost(r)) ELSE {NoMD}}

RECURSIVE SetToSeq(_)
SetToSeq(S) == IF S = {} THEN <<>> ELSE LET x == CHOOSE x \in S : TRUE IN <<x>> \o SetToSeq(S \ {x})
ProbeAll(md) == [j \in DOMAIN Probes |-> Get(md, Probes[j])]
CtxRecord(md) == [keys |-> SetToSeq(DOMAIN md), get |-> ProbeAll(md), again |-> ProbeAll(md)]
TapRecord(i)  == [addr |-> i.addr] @@ CtxRecord(i.md)

(* ---- the batch processor ---------------------------------------------------------------------- *)
Mks == CfgKeys(conf)                    \* "use lower-case, to be consistent with http/2 headers"
OutMD(i) == [k \in Mks |-> Get(i.md, k)]
RECURSIVE JoinC(_)
JoinC(vs) == IF vs = <<>> THEN "" ELSE IF Len(vs) = 1 THEN vs[1] ELSE vs[1] \o "," \o JoinC(Tail(vs))
AttrOf(vs) == IF Variant = "joined" THEN <<"S", JoinC(vs)>>
              ELSE IF Len(vs) = 1 THEN <<"S", vs[1]>> ELSE <<"L", vs>>     \* attribute.String / attribute.StringSlice
ShardId(i) == [k \in Mks |-> AttrOf(OutMD(i)[k])]      \* attribute.NewSet(...): the sync.Map key (<<>> without keys)
NewShard(md) == [md |-> md, pending |-> <<>>, chan |-> <<>>, pc |-> "idle"]
SingleShard == (<<>> :> NewShard(NoMD))                \* singleShardBatcher: newShard(nil), created with the processor

HasTimer == conf.size # 0                              \* timeout # 0 throughout
ShouldSend(s) == Len(s.pending) > 0 /\ (~HasTimer \/ Len(s.pending) >= conf.size)
SplitAt(s) == IF conf.max > 0 /\ Len(s.pending) > conf.max THEN conf.max ELSE Len(s.pending)

Init == /\ conf \in Configs
        /\ reqs = <<>> /\ stage = "idle" /\ info = [addr |-> FALSE, md |-> NoMD]
        /\ seen = <<>> /\ resp = <<>> /\ emitted = <<>> /\ phase = "running"
        /\ shards = IF Keyed(conf) THEN [g \in {} |-> NewShard(NoMD)] ELSE SingleShard
        /\ order = IF Keyed(conf) THEN <<>> ELSE << <<>> >>

CanArrive == phase = "running" /\ stage = "idle" /\ Len(reqs) < MaxReqs
Arrive(r) == /\ CanArrive
             /\ reqs' = Append(reqs, r)
             /\ info' \in InfoSet(r)
             /\ stage' = "arrived"
             /\ UNCHANGED <<conf, seen, resp, shards, order, emitted, phase>>

Enqueue(g, its) == [shards EXCEPT ![g].chan = Append(@, its)]
Deliver ==
    /\ stage = "arrived"
    /\ seen' = Append(seen, info)          \* what the capturing consumer finds; ObsRec turns it into the record
    /\ LET g == ShardId(info)
           its == [j \in 1..reqs[Len(reqs)].items |-> <<Len(reqs), j>>]
       IN IF g \in DOMAIN shards
          THEN shards' = Enqueue(g, its) /\ resp' = Append(resp, "ok") /\ order' = order
          ELSE IF conf.limit # 0 /\ Cardinality(DOMAIN shards) >= conf.limit
          THEN /\ resp' = Append(resp, "fail")                       \* errTooManyBatchers
               /\ UNCHANGED <<shards, order>>
          ELSE \E md \in NewMetadataSet(OutMD(info)) :
                 /\ shards' = [h \in DOMAIN shards \cup {g} |->
                                  IF h = g THEN [NewShard(md) EXCEPT !.chan = <<its>>] ELSE shards[h]]
                 /\ order' = Append(order, g)
                 /\ resp' = Append(resp, "ok")
    /\ stage' = "idle"
    /\ UNCHANGED <<conf, reqs, info, emitted, phase>>

ShardRecv(g) == /\ shards[g].pc = "idle" /\ shards[g].chan # <<>>
                /\ shards' = [shards EXCEPT ![g].pending = @ \o Head(shards[g].chan), ![g].chan = Tail(@), ![g].pc = "busy"]
                /\ UNCHANGED <<conf, reqs, stage, info, seen, resp, order, emitted, phase>>

ShardExport(g) ==
    /\ shards[g].pc = "busy"
    /\ IF ShouldSend(shards[g])
       THEN LET n == SplitAt(shards[g]) IN
            /\ emitted' = Append(emitted, [items |-> SubSeq(shards[g].pending, 1, n), md |-> shards[g].md, g |-> g])
            /\ shards' = [shards EXCEPT ![g].pending = SubSeq(@, n + 1, Len(@))]
       ELSE /\ shards' = [shards EXCEPT ![g].pc = "idle"]
            /\ UNCHANGED emitted
    /\ UNCHANGED <<conf, reqs, stage, info, seen, resp, order, phase>>

ShutdownSignal == /\ phase = "running" /\ stage = "idle" /\ Len(reqs) >= MinReqs
                  /\ phase' = "shutting"
                  /\ UNCHANGED <<conf, reqs, stage, info, seen, resp, shards, order, emitted>>

ShardFinal(g) ==
    /\ phase = "shutting" /\ shards[g].pc = "idle" /\ shards[g].chan = <<>>
    /\ IF shards[g].pending # <<>>
       THEN LET n == SplitAt(shards[g]) IN
            /\ emitted' = Append(emitted, [items |-> SubSeq(shards[g].pending, 1, n), md |-> shards[g].md, g |-> g])
            /\ shards' = [shards EXCEPT ![g].pending = SubSeq(@, n + 1, Len(@)), ![g].pc = "done"]
       ELSE /\ shards' = [shards EXCEPT ![g].pc = "done"]
            /\ UNCHANGED emitted
    /\ UNCHANGED <<conf, reqs, stage, info, seen, resp, order, phase>>

ShutdownReturn == /\ phase = "shutting" /\ \A g \in DOMAIN shards : shards[g].pc = "done"
                  /\ phase' = "stopped"
                  /\ UNCHANGED <<conf, reqs, stage, info, seen, resp, shards, order, emitted>>

Done == phase = "stopped" /\ UNCHANGED vars

Next == \/ CanArrive /\ \E r \in ReqPool : Arrive(r)        \* (guard first: ReqPool is large)
        \/ Deliver
        \/ \E g \in DOMAIN shards : ShardRecv(g) \/ ShardExport(g) \/ ShardFinal(g)
        \/ ShutdownSignal \/ ShutdownReturn \/ Done
Spec == Init /\ [][Next]_vars

(* ---- the observation the model produces ------------------------------------------------------- *)
BatchRec(b) == [items |-> b.items] @@ CtxRecord(b.md)
ObsRec == [seen |-> [i \in DOMAIN seen |-> TapRecord(seen[i])], resp |-> resp, batches |-> [i \in DOMAIN emitted |-> BatchRec(emitted[i])], late |-> 0]

(* ---- what is checked -------------------------------------------------------------------------- *)
\* Every clause of the statement, on the observation of a finished script.  The safety clauses are universally
\* quantified over records that are only ever appended to, so a prefix violating one is violated at the end too,
\* and every state can reach the end (CHECK_DEADLOCK: the only state without a proper successor is "stopped").
Statement == phase = "stopped" => Failed(conf, reqs, ObsRec) = {}
\* the same, in every state (slower; used with small bounds)
StatementSafety == FailedSafety(conf, reqs, ObsRec) = {}
\* the hop normalises the spelling before NewMetadata: no two keys collide, the result is determined (O6 never arises)
HopNormalises   == \A r \in ReqPool : Cardinality(NewMetadataSet(WithHost(r))) = 1
\* implementation facts
ShardsWithinLimit == (Keyed(conf) /\ conf.limit # 0) => Cardinality(DOMAIN shards) <= conf.limit
QuiescentBelowSize == \A g \in DOMAIN shards : shards[g].pc \in {"idle", "done"} =>
                          IF HasTimer THEN Len(shards[g].pending) < conf.size ELSE shards[g].pending = <<>>
NothingLeftBehind == phase = "stopped" => \A g \in DOMAIN shards : shards[g].pending = <<>> /\ shards[g].chan = <<>>
OrderListsShards  == {order[i] : i \in DOMAIN order} = DOMAIN shards /\ Len(order) = Cardinality(DOMAIN shards)
=============================================================================
