-------------------------- MODULE ClientMetaTables --------------------------
(* E08 (extra specification "client metadata end to end"): the finite universe of header names / values
   used by the specification, with the two case mappings the statement and the transports talk about,
   written out as explicit tables over that universe (TLC has no character-level string operations):

     FoldT[n]    n with ASCII letters lower-cased.  "Keys are case-insensitive" (client.Metadata.Get, HTTP field
                 names RFC 9110 5.1, batchprocessor metadata_keys "Entries are case-insensitive") means:
                 two names denote the same key iff their FoldT images are equal.
     CanonT[n]   the canonical MIME form of n (net/textproto.CanonicalMIMEHeaderKey): what Go's HTTP/1.1
                 server uses as the key of http.Request.Header.  Only the implementation-shaped model uses it.

   checks/E08.py has the real driver evaluate strings.ToLower and textproto.CanonicalMIMEHeaderKey on every
   name of the universe and compares with these tables as printed by TLC (TablesJson), so that the tables
   cannot drift from the functions they stand for. *)
EXTENDS TLC, Sequences

\* names a client may put on the wire (three spellings of the tenant key, two of the env key, one other)
SentNames  == {"x-tenant", "X-Tenant", "X-TENANT", "x-env", "X-Env", "x-other"}
\* names only ever used to ASK (probes): never sent
ProbeOnly  == {"X-ENV", "X-Other", "x-absent", "X-Absent"}
\* keys added by the transports / by the servers' client-information interceptors (model only)
AutoNames  == {"Content-Type", "content-type", "Content-Length", "content-length", "Host", "host",
               ":authority", "user-agent", "User-Agent"}

FoldT ==
     "x-tenant" :> "x-tenant" @@ "X-Tenant" :> "x-tenant" @@ "X-TENANT" :> "x-tenant"
  @@ "x-env"    :> "x-env"    @@ "X-Env"    :> "x-env"    @@ "X-ENV"    :> "x-env"
  @@ "x-other"  :> "x-other"  @@ "X-Other"  :> "x-other"
  @@ "x-absent" :> "x-absent" @@ "X-Absent" :> "x-absent"
  @@ "Content-Type" :> "content-type" @@ "content-type" :> "content-type"
  @@ "Content-Length" :> "content-length" @@ "content-length" :> "content-length"
  @@ "Host" :> "host" @@ "host" :> "host"
  @@ ":authority" :> ":authority"
  @@ "user-agent" :> "user-agent" @@ "User-Agent" :> "user-agent"

CanonT ==
     "x-tenant" :> "X-Tenant" @@ "X-Tenant" :> "X-Tenant" @@ "X-TENANT" :> "X-Tenant"
  @@ "x-env"    :> "X-Env"    @@ "X-Env"    :> "X-Env"    @@ "X-ENV"    :> "X-Env"
  @@ "x-other"  :> "X-Other"  @@ "X-Other"  :> "X-Other"
  @@ "x-absent" :> "X-Absent" @@ "X-Absent" :> "X-Absent"
  @@ "Content-Type" :> "Content-Type" @@ "content-type" :> "Content-Type"
  @@ "Content-Length" :> "Content-Length" @@ "content-length" :> "Content-Length"
  @@ "Host" :> "Host" @@ "host" :> "Host"
  @@ "user-agent" :> "User-Agent" @@ "User-Agent" :> "User-Agent"

AllNames == DOMAIN FoldT

\* header values: empty, plain, the same letter in the other case (values ARE case-sensitive), a second
\* one, and one containing a comma (a single value, not a list)
Values == {"", "a", "A", "b", "a,b"}

\* the names the capturing consumer asks for (in this order); every sent name, every key a batch processor
\* may be configured with in another spelling, and names nobody sends
Probes == <<"x-tenant", "X-Tenant", "X-TENANT", "x-env", "X-Env", "X-ENV", "x-other", "X-Other", "x-absent", "X-Absent">>

TablesWellFormed ==
  /\ SentNames \subseteq AllNames /\ ProbeOnly \subseteq AllNames /\ AutoNames \subseteq AllNames
  /\ \A i \in DOMAIN Probes : Probes[i] \in AllNames
  /\ \A n \in AllNames : FoldT[n] \in AllNames /\ FoldT[FoldT[n]] = FoldT[n]
  /\ \A n \in DOMAIN CanonT : CanonT[n] \in AllNames /\ FoldT[CanonT[n]] = FoldT[n] /\ CanonT[CanonT[n]] = CanonT[n]
=============================================================================
