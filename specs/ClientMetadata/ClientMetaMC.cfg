SPECIFICATION Spec
CONSTANTS
  Shape = "batch"
  Depth = "quick"
  HopLen = 2
  ConfSel = "all"
  MinReqs = 1
  MaxReqs = 2
  Variant = "real"
  Configs <- MCConfigs
  ReqPool <- MCPool
INVARIANTS Statement ShardsWithinLimit QuiescentBelowSize NothingLeftBehind OrderListsShards
CHECK_DEADLOCK TRUE
