------------------------- MODULE ClientMetaGenParams -------------------------
(* E08: parameters of one generator run (ClientMetaGen.tla).  checks/E08.py writes its own copy of this module for
   every run (a .cfg file cannot contain tuples or records); this one is the default for running the generator by
   hand.  A request's header list is assembled from a tenant part, an env part and an "other" part in one of the
   orders of ParamOrd ("teo" tenant-env-other, "oet" other-env-tenant, "split" first tenant line, env, other, rest of
   the tenant lines).  Parts are sequences of <<name, value>> pairs. *)
ParamT       == { <<>>, << <<"x-tenant", "a">> >>, << <<"X-Tenant", "a">>, <<"x-tenant", "b">> >>, << <<"X-TENANT", "a,b">> >> }
ParamE       == { <<>>, << <<"X-Env", "">> >> }
ParamO       == { <<>>, << <<"x-other", "b">> >> }
ParamOrd     == { "teo", "split" }
ParamTr      == { "grpc", "http/proto", "http/json" }
ParamItems   == { 1, 2 }
\* <<include_metadata, metadata_keys, metadata_cardinality_limit, send_batch_size, send_batch_max_size>>
ParamConfigs == { <<TRUE, {"X-Tenant"}, 2, 4, 0>> }
ParamMinReqs == 2
ParamMaxReqs == 2
ParamSameTr  == TRUE       \* every request of a script uses the transport of the first one
=============================================================================
