---------------------------- MODULE ClientMetaObs ----------------------------
(* E08 -- client metadata end to end (EXTRA specification; no listed property is concerned).
   STATEMENT LEVEL: the clauses of the statement over what can be observed from outside.

   statement   (a) for export requests sent over real loopback HTTP (protobuf / JSON) and gRPC to an otlpreceiver with
               include_metadata = true, the receiver's next consumer finds in client.FromContext(ctx).Metadata, for every
               key the client sent, exactly the values sent under it (names case-insensitive, repeated values in the order
               written, an empty value is a value, a value with a comma is one value, values keep their case), nothing for
               keys nobody sent, Keys() covers the keys sent, Get returns a copy; with include_metadata = false it finds no
               metadata; client.Info.Addr is set in both cases.  (b) behind a batch processor with metadata_keys: no exported
               batch mixes requests whose value lists for the configured keys differ; every batch's context carries exactly
               the configured keys with the values of its group and nothing else; every accepted item is exported exactly
               once by the time Shutdown returns, nothing afterwards; with metadata_cardinality_limit L > 0 the request that
               would create the (L+1)-th distinct combination is answered with a failure and never exported, combinations
               that own a batcher keep being accepted; without metadata_keys everything is accepted and the batches'
               context carries no metadata.
   quantifier  scripts = configuration (include_metadata, metadata_keys none / one / two keys in any spelling, limit 0 / 2,
               send_batch_size / send_batch_max_size) x 1-4 sequential requests (transport, header list over SentNames x
               Values of ClientMetaTables.tla incl. repeated / empty / comma / other-case values and keys the processor is
               not configured for, 1-3 items)
   anchors     client/client.go; config/confighttp (clientInfoHandler, contextWithClient, ServerConfig.IncludeMetadata);
               config/configgrpc (enhanceWithClientInformation, contextWithClient, ServerConfig.IncludeMetadata);
               receiver/otlpreceiver; processor/batchprocessor (multiShardBatcher.consume, newShard, Config, README)
   (the full record, with the reasons for every open point: checks/E08.py)

   Written from the documentation only:
     client/client.go          "Metadata is an immutable map, meant to contain request metadata";  Get: "gets the value
                               of the key from metadata, returning a copy.  The key lookup is case-insensitive";
                               Info.Addr "generally reliable for receivers making use of confighttp.ToServer and
                               configgrpc.ToServerOption";  FromContext / NewContext
     config/confighttp         ServerConfig.IncludeMetadata "propagates the client metadata from the incoming requests
                               to the downstream consumers";  README: "append any http header ... You also need to
                               enable the include_metadata"
     config/configgrpc         ServerConfig.IncludeMetadata "propagates the incoming connection's metadata to
                               downstream consumers"
     processor/batchprocessor  Config.MetadataKeys "one batcher will be used per distinct combination of values for the
                               listed metadata keys.  Empty value and unset metadata are treated as distinct cases.
                               Entries are case-insensitive";  MetadataCardinalityLimit "the maximum number of batcher
                               instances that will be created through a distinct combination of MetadataKeys";
                               README "limit to 10 batcher processes before raising errors", "Receivers should be
                               configured with include_metadata: true so that metadata keys are available to the
                               processor";  shard.exportCtx "a context with the metadata key-values corresponding
                               with this shard set";  client package doc: the batch processor discards / rewrites
                               the context

   A SCRIPT is a configuration and a sequence of export requests, sent one after the other (every request is
   answered before the next one is sent), followed by the shutdown of the receiver and then of the processor:
       conf  = [include |-> BOOLEAN,        include_metadata of BOTH protocols of the receiver
                keys    |-> set of names,   metadata_keys of the batch processor as the user wrote them
                limit   |-> Nat,            metadata_cardinality_limit
                size, max |-> Nat]          send_batch_size / send_batch_max_size (timeout: never expires)
       reqs  = sequence of [tr    |-> "grpc" | "http/proto" | "http/json",
                            hdrs  |-> sequence of [n |-> name, v |-> value]: the header lines (HTTP) / metadata
                                      pairs (gRPC) in the order the client wrote them,
                            items |-> number of log records, item j of request i is identified by <<i, j>>]
   An OBSERVATION o of a script is
       seen    for every request, what the consumer directly behind the receiver found in client.FromContext(ctx):
                 [addr |-> Info.Addr # nil, keys |-> the names Metadata.Keys() yields,
                  get |-> Metadata.Get(Probes[j]) for every j, again |-> the same calls repeated after every element
                  of every slice returned by the first round had been overwritten]
       resp    for every request "ok" (HTTP 2xx / gRPC OK) or "fail" (anything else that is an answer of the server)
       batches every ConsumeLogs call the batch processor made on ITS next consumer until its Shutdown returned:
                 [items |-> the identities of the log records, keys / get / again |-> as above for that call's ctx]
       late    the number of such calls that began after Shutdown had returned

   Points the documentation does not settle are left OPEN (every behaviour passes):
     O1  which other keys the receiver-side metadata holds (transport headers such as content-type, user-agent,
         :authority, the undocumented "Host" entry) and the spelling Keys() reports;
     O2  metadata_cardinality_limit = 0 with metadata_keys set ("maximum number of batcher instances" = 0 read
         literally refuses everything, the implementation treats 0 as "no limit"): accepting and refusing both pass;
     O3  the status / code by which a refusal is reported (only: not a success);
     O4  how the items of one group are cut into batches, the order of batches of different groups, empty batches
         (C17 specifies the batching itself);
     O5  whether the context of an exported batch has an Addr / Auth, and whether Keys() lists a configured key
         that is unset in the group;
     O6  the metadata under keys that collide after case folding inside ONE map handed to client.NewMetadata
         (not reachable through the transports: both normalise the spelling first);
     O7  whether NewMetadata copies the value slices of its input (it copies the map only). *)
EXTENDS Naturals, Sequences, FiniteSets, ClientMetaTables

Fold(n)  == FoldT[n]
SameKey(a, b) == Fold(a) = Fold(b)

(* ---- what the client sent ------------------------------------------------------------------ *)
\* the values sent under key k, in the order written: "order of repeated values kept", names compared
\* case-insensitively; an empty value is a value, no line = no value
ValuesOf(hdrs, k) ==
    LET s == SelectSeq(hdrs, LAMBDA h : SameKey(h.n, k)) IN [i \in 1..Len(s) |-> s[i].v]

\* what a consumer behind the receiver may find under k
Propagated(conf, r, k) == IF conf.include THEN ValuesOf(r.hdrs, k) ELSE <<>>

Keyed(conf)   == conf.keys # {}
CfgKeys(conf) == {Fold(k) : k \in conf.keys}
\* the combination of values of the configured keys: value LISTS, so <<"a","b">>, <<"a,b">>, <<"">>, <<>> all differ
GroupKey(conf, r) == [k \in CfgKeys(conf) |-> Propagated(conf, r, k)]

(* ---- admission under metadata_cardinality_limit (limit > 0) ---------------------------------- *)
RECURSIVE Admitted(_, _, _)
Admitted(conf, reqs, i) ==      \* the combinations that own a batcher after the first i requests
    IF i = 0 THEN {}
    ELSE LET A == Admitted(conf, reqs, i - 1)
             g == GroupKey(conf, reqs[i])
         IN IF g \in A \/ Cardinality(A) < conf.limit THEN A \cup {g} ELSE A
MustAccept(conf, reqs, i) ==
    LET A == Admitted(conf, reqs, i - 1) IN GroupKey(conf, reqs[i]) \in A \/ Cardinality(A) < conf.limit
AcceptanceDetermined(conf) == ~Keyed(conf) \/ conf.limit > 0             \* O2
Specified(conf, reqs, i) == IF Keyed(conf) THEN MustAccept(conf, reqs, i) ELSE TRUE

(* ---- helpers over an observation ------------------------------------------------------------- *)
ValidItem(reqs, it) == it[1] \in DOMAIN reqs /\ it[2] \in 1..reqs[it[1]].items
Positions(o) == UNION {{<<b, p>> : p \in DOMAIN o.batches[b].items} : b \in DOMAIN o.batches}
Occ(o, it)   == Cardinality({bp \in Positions(o) : o.batches[bp[1]].items[bp[2]] = it})
AllEmpty(get) == \A j \in DOMAIN get : get[j] = <<>>
KnownKey(k)  == k \in AllNames

(* ---- (a) behind the receiver ----------------------------------------------------------------- *)
AddrSet(conf, reqs, o) == \A i \in DOMAIN o.seen : o.seen[i].addr
MetadataExact(conf, reqs, o) ==
    conf.include => \A i \in DOMAIN o.seen : \A j \in DOMAIN Probes :
                        o.seen[i].get[j] = ValuesOf(reqs[i].hdrs, Probes[j])
KeysCoverSent(conf, reqs, o) ==
    conf.include => \A i \in DOMAIN o.seen : \A h \in DOMAIN reqs[i].hdrs :
                        \E x \in DOMAIN o.seen[i].keys :
                            KnownKey(o.seen[i].keys[x]) /\ SameKey(o.seen[i].keys[x], reqs[i].hdrs[h].n)
NoMetadataWhenOff(conf, reqs, o) ==
    ~conf.include => \A i \in DOMAIN o.seen : o.seen[i].keys = <<>> /\ AllEmpty(o.seen[i].get)
GetReturnsCopy(conf, reqs, o) == \A i \in DOMAIN o.seen : o.seen[i].again = o.seen[i].get

(* ---- (b) behind the batch processor ---------------------------------------------------------- *)
NoForeignItem(conf, reqs, o) ==
    \A b \in DOMAIN o.batches : \A p \in DOMAIN o.batches[b].items : ValidItem(reqs, o.batches[b].items[p])
GroupIsolation(conf, reqs, o) ==
    \A b \in DOMAIN o.batches : \A p, q \in DOMAIN o.batches[b].items :
        LET x == o.batches[b].items[p]  y == o.batches[b].items[q] IN
        (ValidItem(reqs, x) /\ ValidItem(reqs, y)) => GroupKey(conf, reqs[x[1]]) = GroupKey(conf, reqs[y[1]])
ContextExact(conf, reqs, o) ==
    \A b \in DOMAIN o.batches :
        LET B == o.batches[b] IN
        (B.items # <<>> /\ ValidItem(reqs, B.items[1])) =>
            LET g == GroupKey(conf, reqs[B.items[1][1]]) IN
            /\ \A j \in DOMAIN Probes :
                  B.get[j] = IF Fold(Probes[j]) \in CfgKeys(conf) THEN g[Fold(Probes[j])] ELSE <<>>
            /\ \A x \in DOMAIN B.keys : KnownKey(B.keys[x]) /\ Fold(B.keys[x]) \in CfgKeys(conf)   \* nothing else
ContextGetCopy(conf, reqs, o) == \A b \in DOMAIN o.batches : o.batches[b].again = o.batches[b].get
AtMostOnce(conf, reqs, o) ==
    \A i \in DOMAIN reqs : \A j \in 1..reqs[i].items : Occ(o, <<i, j>>) <= 1
CardinalityLimit(conf, reqs, o) ==
    AcceptanceDetermined(conf) =>
        \A i \in DOMAIN o.resp : (o.resp[i] = "ok") = Specified(conf, reqs, i)
\* whole scripts only (the processor's Shutdown has returned):
ExactlyOnce(conf, reqs, o) ==
    \A i \in DOMAIN o.resp : o.resp[i] = "ok" => \A j \in 1..reqs[i].items : Occ(o, <<i, j>>) = 1
RefusedNotExported(conf, reqs, o) ==
    \A i \in DOMAIN o.resp : o.resp[i] = "fail" => \A j \in 1..reqs[i].items : Occ(o, <<i, j>>) = 0
NothingAfterShutdown(conf, reqs, o) == o.late = 0

Pick(name, holds) == IF holds THEN {} ELSE {name}

\* clauses that hold in every prefix of a script
FailedSafety(conf, reqs, o) ==
    Pick("AddrSet", AddrSet(conf, reqs, o)) \cup Pick("MetadataExact", MetadataExact(conf, reqs, o))
    \cup Pick("KeysCoverSent", KeysCoverSent(conf, reqs, o))
    \cup Pick("NoMetadataWhenOff", NoMetadataWhenOff(conf, reqs, o))
    \cup Pick("GetReturnsCopy", GetReturnsCopy(conf, reqs, o))
    \cup Pick("NoForeignItem", NoForeignItem(conf, reqs, o))
    \cup Pick("GroupIsolation", GroupIsolation(conf, reqs, o))
    \cup Pick("ContextExact", ContextExact(conf, reqs, o))
    \cup Pick("ContextGetCopy", ContextGetCopy(conf, reqs, o))
    \cup Pick("AtMostOnce", AtMostOnce(conf, reqs, o))
    \cup Pick("CardinalityLimit", CardinalityLimit(conf, reqs, o))
\* clauses of a finished script
FailedFinal(conf, reqs, o) ==
    Pick("ExactlyOnce", ExactlyOnce(conf, reqs, o))
    \cup Pick("RefusedNotExported", RefusedNotExported(conf, reqs, o))
    \cup Pick("NothingAfterShutdown", NothingAfterShutdown(conf, reqs, o))
Failed(conf, reqs, o) == FailedSafety(conf, reqs, o) \cup FailedFinal(conf, reqs, o)

\* Config.Validate (batchprocessor/config.go): "Duplicated entries will trigger a validation error" (case-insensitively),
\* send_batch_max_size "must be greater or equal to send_batch_size" (0 = no maximum)
ValidConf(conf) == /\ \A a, b \in conf.keys : SameKey(a, b) => a = b
                   /\ conf.max = 0 \/ conf.max >= conf.size
=============================================================================
