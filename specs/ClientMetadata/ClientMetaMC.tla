----------------------------- MODULE ClientMetaMC -----------------------------
(* E08: exhaustive design check of ClientMetadata.tla.  Two shapes of bounds, selected by the constant Shape
   (checks/E08.py writes the .cfg):
     "hop"    ONE request per script, every transport x every header list of up to HopLen lines over the sent
              names x values (HopNames x HopValues), include_metadata on / off, three key sets: the clauses
              about what the consumer behind the receiver sees, and HopNormalises;
     "batch"  up to MaxReqs requests per script over a pool of header lists chosen for the way they group
              (single / repeated / empty / comma / other-case values of the tenant key, the env key, a key the
              processor is not configured for), every interleaving of the request handler with the shard
              goroutines and the shutdown, all batch configurations of BatchConfigs: every clause.
   Variant # "real" is used for NEGATIVE runs only (the check expects TLC to report StatementSafety). *)
EXTENDS ClientMetadata

CONSTANTS Shape, HopLen, Depth, ConfSel

H(n, v) == [n |-> n, v |-> v]

(* ---- hop shape ---- *)
HopNames  == IF Depth = "quick" THEN {"x-tenant", "X-Tenant", "X-Env"} ELSE {"x-tenant", "X-Tenant", "X-TENANT", "X-Env", "x-other"}
HopValues == IF Depth = "quick" THEN {"", "a", "a,b"} ELSE {"", "a", "A", "a,b"}
HopLines  == {H(n, v) : n \in HopNames, v \in HopValues}
RECURSIVE SeqsUpTo(_, _)
SeqsUpTo(S, n) == IF n = 0 THEN {<<>>} ELSE LET P == SeqsUpTo(S, n - 1) IN P \cup {Append(p, x) : p \in {q \in P : Len(q) = n - 1}, x \in S}
Transports == {"grpc", "http/proto", "http/json"}
HopPool    == {[tr |-> t, hdrs |-> h, items |-> 1] : t \in Transports, h \in SeqsUpTo(HopLines, HopLen)}
KeySets    == {{}, {"X-Tenant"}, {"x-env", "X-TENANT"}}
HopConfigs == {[include |-> i, keys |-> k, limit |-> 0, size |-> 2, max |-> 0] : i \in BOOLEAN, k \in KeySets}

(* ---- batch shape ---- *)
BatchHdrs == { <<>>,
               <<H("x-tenant", "a")>>,
               <<H("X-Tenant", "a"), H("x-tenant", "b")>>,          \* two values, two spellings
               <<H("X-TENANT", "a,b")>>,                            \* ONE value with a comma
               <<H("x-tenant", "")>>,                               \* empty value # unset
               <<H("x-tenant", "a"), H("x-other", "b")>> }          \* same group as the second one
             \cup (IF Depth # "full" THEN {} ELSE
             { <<H("x-tenant", "b"), H("x-tenant", "a")>>,          \* the order of the values counts
               <<H("x-tenant", "a"), H("X-Env", "a")>>,
               <<H("x-env", "a")>> })
DeepHdrs  == { <<>>, <<H("x-tenant", "a")>>, <<H("X-Tenant", "a"), H("x-tenant", "b")>>, <<H("X-TENANT", "a,b")>> }
BatchTrs   == IF Depth = "quick" THEN {"grpc", "http/proto"} ELSE IF Depth = "deep" THEN {"http/json"} ELSE Transports
BatchItems == {1, 3}
\* the transport does not influence what follows the hop (checked by the hop shape): vary it with the header list
BatchPool  == {[tr |-> t, hdrs |-> h, items |-> n] : t \in BatchTrs, h \in (IF Depth = "deep" THEN DeepHdrs ELSE BatchHdrs), n \in BatchItems}
Sizes      == { <<4, 0>>, <<2, 2>>, <<0, 0>> } \cup (IF Depth # "full" THEN {} ELSE { <<3, 4>>, <<0, 2>>, <<1, 1>> })
BatchConfigs == {c \in {[include |-> i, keys |-> k, limit |-> l, size |-> s[1], max |-> s[2]] :
                            i \in BOOLEAN, k \in KeySets, l \in {0, 2}, s \in Sizes} :
                     /\ ValidConf(c)
                     /\ ~Keyed(c) => c.limit = 0
                     /\ ~c.include => c.size = 4}

\* ConfSel = "limit": only the configurations in which the cardinality limit can bite (used for the longest scripts)
LimitConfigs == {c \in BatchConfigs : c.include /\ Keyed(c) /\ c.limit > 0}
MCConfigs == IF Shape = "hop" THEN HopConfigs ELSE IF ConfSel = "limit" THEN LimitConfigs ELSE BatchConfigs
MCPool    == IF Shape = "hop" THEN HopPool ELSE BatchPool

ASSUME TablesWellFormed
ASSUME HopNormalises
ASSUME \A c \in MCConfigs : ValidConf(c)
ASSUME \A r \in MCPool : \A i \in DOMAIN r.hdrs : r.hdrs[i].n \in SentNames /\ r.hdrs[i].v \in Values
=============================================================================
