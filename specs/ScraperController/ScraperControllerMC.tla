---------------------------- MODULE ScraperControllerMC ----------------------------
(* E01 -- exhaustive design check: every behaviour of the implementation-shaped model ScraperController.tla inside the
   bounds (all interleavings of the caller, the scraping goroutine, the scrapers / consumer and the ticker; Shutdown
   requested at every moment; every outcome of every call) keeps the HISTORY of emitted events inside the statement:
   StatementHolds = every untimed clause of ScraperObs.tla evaluated on the history (on its newest event in every state:
   the clauses only look backwards).  The history is part of the state (no VIEW), so the bounds are on its length, the
   ticks and the scrapes. *)
EXTENDS ScraperController, ScraperObs, TLC

CONSTANTS NRange,        \* numbers of scrapers explored
          MaxTicks, MaxCyc, MaxLen, WithSecond   \* bounds; WithSecond: explore a second Shutdown

VARIABLE hist
vars == <<mvars, hist>>

MCConfigs == [n : NRange, to : BOOLEAN, dly : BOOLEAN]
OutcomesOne   == {<<"ok", 1>>}
OutcomesSmall == {<<"ok", 1>>, <<"partial", 1>>, <<"fail", 1>>}
OutcomesMid   == {<<"ok", 1>>, <<"ok", 0>>, <<"partial", 1>>, <<"fail", 1>>, <<"slow", 1>>}
OutcomesFull  == {"ok", "partial", "fail", "slow"} \X {0, 1, 2}

Init == /\ \E c \in MCConfigs : MInit(c)
        /\ hist = <<>>
\* one named action per action of the model (so that TLC's coverage shows that every one of them is taken), each
\* recording what it makes observable
Rec == hist' = IF emit' = Null THEN hist ELSE Append(hist, emit')
AStartCall    == StartCall /\ Rec
ASStart       == (\E ok \in BOOLEAN : SStart(ok)) /\ Rec
AStartRet     == StartRet /\ Rec
ADelayElapsed == DelayElapsed /\ Rec
ACall         == Call /\ Rec
AAccept       == Accept /\ Rec
AExit         == Exit /\ Rec
ARel          == (\E o \in Outcomes : Rel(o)) /\ Rec
AConsRet      == (\E ok \in BOOLEAN : ConsRet(ok)) /\ Rec
ATick         == Tick /\ Rec
ASdCall       == SdCall /\ Rec
ASShut        == (\E ok \in BOOLEAN : SShut(ok)) /\ Rec
ASdRet        == SdRet /\ Rec
ASdCall2      == SdCall2 /\ Rec
ASShut2       == (\E ok \in BOOLEAN : SShut2(ok)) /\ Rec
ASdRet2       == (\E p \in BOOLEAN : SdRet2(p)) /\ Rec
Next == \/ AStartCall \/ ASStart \/ AStartRet \/ ADelayElapsed \/ ACall \/ AAccept \/ AExit \/ ARel \/ AConsRet
        \/ ATick \/ ASdCall \/ ASShut \/ ASdRet \/ ASdCall2 \/ ASShut2 \/ ASdRet2
Spec == Init /\ [][Next]_vars

NTicks == Cardinality(Pos(hist, "tick"))
Bound == /\ Len(hist) <= MaxLen /\ NTicks <= MaxTicks /\ cyc <= MaxCyc
         /\ (~WithSecond => phase \notin {"stopping2", "stopped2"})

\* optional restrictions of the environment (ACTION_CONSTRAINT), used to spend the bounds on one aspect at a time
NoLifecycleFailure == emit'.e \in {"sstart", "sshut"} => emit'.ok           \* every scraper's Start / Shutdown succeeds
TicksWhileRunning  == emit'.e = "tick" => phase \in {"started", "stopping"}   \* no tick before Start returned / after Shutdown

\* THE STATEMENT (untimed clauses) on every reachable history
StatementHolds == hist = <<>> \/ OffendedAt([n |-> cfg.n], hist, Len(hist)) = {}

\* implementation behaviour beyond the statement (named): a scrape that has begun is completed -- every scraper is
\* called and the consumer gets the payload -- before Shutdown returns (the statement would also allow aborting it)
ScrapesCompleted ==
  phase \in {"stopped", "stopping2", "stopped2"} =>
     \A c \in 1..cyc : /\ \E j \in Pos(hist, "consret") : hist[j].c = c
                       /\ \A i \in 1..cfg.n : \E j \in Pos(hist, "rel") : hist[j].i = i /\ hist[j].c = c
=============================================================================
