---------------------------- MODULE ScraperControllerMonitor ----------------------------
(* E01 -- MONITOR: the clauses of ScraperObs.tla (the statement) evaluated by TLC on what REAL scraper controllers did.

   observed.ndjson is written by harness/scraperctl, one line per executed script:
     {"id": n, "cfg": {"n": scrapers, "to": timeout_us, "dly": initial_delay_us, "ci": interval_us, "sig": signal},
      "ev": [ events in the order the recorder's mutex was taken, each with "t" = microseconds since the script began ]}
   (events: see ScraperObs.tla; "unfollowed" marks a script whose next step did not fit what the controller did -- no
   clause refers to it).  Nothing here refers to the implementation-shaped model: any behaviour the statement allows is
   accepted.  An offending event does not stop the run, it is printed as <<"BEH", {id, at, clauses}>> so that every
   observation gets its verdict; verdicts of checks/E01.py come from these lines only. *)
EXTENDS ScraperObs, TLC, Json

Log == ndJsonDeserialize("observed.ndjson")
VARIABLE l

Judge(o) ==
  \A j \in 1..Len(o.ev) :
     LET bad == OffendedAt(o.cfg, o.ev, j) \cup TimedOffendedAt(o.cfg, o.ev, j)
     IN IF bad = {} THEN TRUE ELSE PrintT(<<"BEH", ToJson([id |-> o.id, at |-> j, clauses |-> bad])>>)

MonInit == l = 1
MonNext == l <= Len(Log) /\ Judge(Log[l]) = TRUE /\ l' = l + 1
MonSpec == MonInit /\ [][MonNext]_l
AllJudged == TLCGet("stats").diameter - 1 = Len(Log)
=============================================================================
