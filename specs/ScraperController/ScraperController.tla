---------------------------- MODULE ScraperController ----------------------------
(* E01 -- IMPLEMENTATION-SHAPED MODEL of the scraper controller, scraper/scraperhelper/controller.go
   (the same code serves metrics and logs: controller[T], scrapeMetrics / scrapeLogs differ in the payload type only).
   The statement it is checked against is in ScraperObs.tla (clauses over the history of emitted events).

   One action per step of the Go code that another party can observe or interleave with:

     caller (service)          StartCall, SStart(ok) [one per scraper, controller.Start's loop, stops at the first error],
                               StartRet, SdCall [close(done)], SShut(ok) [the loop after wg.Wait()], SdRet,
                               SdCall2 .. SdRet2(p) [a second Shutdown]
     scraping goroutine        DelayElapsed [time.After(initialDelay)], Call [the next scraper's Scrape / the consumer],
       (startScraping)         Accept [case <-tickerCh], Exit [case <-done]
     scrapers / consumer       Rel(o) [the scraper being called returns], ConsRet(ok) [the consumer returns]
     ticker                    Tick [a tick is offered to the channel, capacity 1 like time.Ticker: kept or dropped]

   `emit` is the event the step makes observable (ScraperObs.tla lists them); DelayElapsed, Accept and Exit are
   unobservable (emit = Null).  pc = "blk" means the goroutine is inside a call of a scraper (nxt <= n) or of the
   consumer (nxt = n + 1) and only Rel / ConsRet lets it go on: a scrape in progress is not interrupted by Shutdown,
   its context descends from context.Background().

   Named deviations / abstractions:
     * time: initial_delay and timeout are only > 0 or not; the deadline and cancellation of the scrape context are not
       modelled (a "slow" release stands for a call that returns once its context is cancelled, possible only with a
       timeout) -- the timed clauses of ScraperObs.tla are evaluated on real observations only;
     * the select between a pending tick and the closed done channel is a free choice (Go chooses at random);
     * SdCall stands for logging the request and close(done) together (what lies between is covered by Exit being
       asynchronous);
     * the second Shutdown: the code panics (close of closed channel) -- with AllowPanic = FALSE the model is the
       documented behaviour (returns; the scrapers may be shut down again), with TRUE it also has the panic;
     * self-telemetry (obsreport, the obs wrappers' counters and spans) is not modelled (C19 does the counters). *)
EXTENDS Integers, Sequences, FiniteSets

CONSTANTS Outcomes,      \* set of <<out, pts>> a scraper call may return with: out \in {"ok","partial","fail","slow"}
          AllowPanic     \* BOOLEAN, see above

VARIABLES cfg,       \* [n |-> number of scrapers, to |-> timeout > 0, dly |-> initial_delay > 0]
          phase,     \* the caller's view: new, starting, started, failed, stopping, stopped, stopping2, stopped2
          sidx,      \* next scraper to start (phase starting) / to shut down (stopping, stopping2)
          failedAt,  \* 0, or the scraper whose Start failed
          pc,        \* scraping goroutine: none, delay, run, blk, idle, exit
          nxt,       \* pc \in {run, blk}: 1..n the scraper (to be) called, n + 1 the consumer
          cyc,       \* scrapes begun
          acc,       \* items taken over from the scrapers called so far in this scrape, one entry per scraper
          buf,       \* ticks in the ticker channel (0..1)
          done,      \* the done channel is closed
          emit       \* the observable event of the last step

mvars == <<cfg, phase, sidx, failedAt, pc, nxt, cyc, acc, buf, done, emit>>

Null == [e |-> "none"]

MInit(c) == /\ cfg = c /\ phase = "new" /\ sidx = 1 /\ failedAt = 0 /\ pc = "none" /\ nxt = 1 /\ cyc = 0
            /\ acc = <<>> /\ buf = 0 /\ done = FALSE /\ emit = Null

\* ------------------------------------------------------------------ caller: Start
StartCall ==
  /\ phase = "new"
  /\ phase' = "starting" /\ sidx' = 1
  /\ emit' = [e |-> "startcall"]
  /\ UNCHANGED <<cfg, failedAt, pc, nxt, cyc, acc, buf, done>>

\* for _, scrp := range sc.scrapers { if err := scrp.Start(ctx, host); err != nil { return err } };  sc.startScraping()
SStart(ok) ==
  /\ phase = "starting" /\ failedAt = 0 /\ sidx <= cfg.n
  /\ emit' = [e |-> "sstart", i |-> sidx, ok |-> ok]
  /\ IF ok THEN /\ sidx' = sidx + 1 /\ failedAt' = 0
                /\ pc' = IF sidx = cfg.n THEN (IF cfg.dly THEN "delay" ELSE "run") ELSE pc    \* go func() {...}
           ELSE /\ sidx' = sidx /\ failedAt' = sidx /\ pc' = pc
  /\ UNCHANGED <<cfg, phase, nxt, cyc, acc, buf, done>>

StartRet ==
  /\ phase = "starting" /\ (failedAt # 0 \/ sidx = cfg.n + 1)
  /\ emit' = [e |-> "startret", err |-> failedAt]
  /\ phase' = IF failedAt = 0 THEN "started" ELSE "failed"
  /\ UNCHANGED <<cfg, sidx, failedAt, pc, nxt, cyc, acc, buf, done>>

\* ------------------------------------------------------------------ scraping goroutine
DelayElapsed ==                                   \* case <-time.After(sc.initialDelay)
  /\ pc = "delay" /\ pc' = "run" /\ nxt' = 1 /\ emit' = Null
  /\ UNCHANGED <<cfg, phase, sidx, failedAt, cyc, acc, buf, done>>

Call ==                                           \* scrapeFunc: the next scraper, then the consumer
  /\ pc = "run" /\ pc' = "blk"
  /\ IF nxt <= cfg.n
     THEN /\ cyc' = IF nxt = 1 THEN cyc + 1 ELSE cyc
          /\ acc' = IF nxt = 1 THEN <<>> ELSE acc
          /\ emit' = [e |-> "scrape", i |-> nxt, c |-> cyc']
     ELSE /\ emit' = [e |-> "consume", c |-> cyc, pl |-> acc, alien |-> 0, dup |-> 0]
          /\ UNCHANGED <<cyc, acc>>
  /\ UNCHANGED <<cfg, phase, sidx, failedAt, nxt, buf, done>>

Accept ==                                         \* case <-sc.tickerCh
  /\ pc = "idle" /\ buf = 1
  /\ buf' = 0 /\ pc' = "run" /\ nxt' = 1 /\ emit' = Null
  /\ UNCHANGED <<cfg, phase, sidx, failedAt, cyc, acc, done>>

Exit ==                                           \* case <-sc.done (both selects)
  /\ pc \in {"idle", "delay"} /\ done
  /\ pc' = "exit" /\ emit' = Null
  /\ UNCHANGED <<cfg, phase, sidx, failedAt, nxt, cyc, acc, buf, done>>

\* ------------------------------------------------------------------ scrapers, consumer, ticker
\* md, err := scrapers[i].Scrape(ctx); if err != nil && !IsPartialScrapeError(err) { continue }; md.MoveAndAppendTo(..)
Rel(o) ==
  /\ pc = "blk" /\ nxt <= cfg.n
  /\ o[1] = "slow" => cfg.to
  /\ emit' = [e |-> "rel", i |-> nxt, c |-> cyc, out |-> o[1], pts |-> o[2]]
  /\ acc' = Append(acc, IF o[1] \in {"ok", "partial"} THEN o[2] ELSE 0)
  /\ pc' = "run" /\ nxt' = nxt + 1
  /\ UNCHANGED <<cfg, phase, sidx, failedAt, cyc, buf, done>>

ConsRet(ok) ==                                    \* the consumer's error is only reported to obsreport
  /\ pc = "blk" /\ nxt = cfg.n + 1
  /\ emit' = [e |-> "consret", c |-> cyc, ok |-> ok]
  /\ pc' = "idle"
  /\ UNCHANGED <<cfg, phase, sidx, failedAt, nxt, cyc, acc, buf, done>>

Tick ==
  /\ emit' = [e |-> "tick", res |-> IF buf = 0 THEN "buf" ELSE "drop"]
  /\ buf' = 1
  /\ UNCHANGED <<cfg, phase, sidx, failedAt, pc, nxt, cyc, acc, done>>

\* ------------------------------------------------------------------ caller: Shutdown
SdCall ==                                         \* close(sc.done); sc.wg.Wait()
  /\ phase \in {"new", "started", "failed"}
  /\ phase' = "stopping" /\ done' = TRUE /\ sidx' = 1
  /\ emit' = [e |-> "sdcall"]
  /\ UNCHANGED <<cfg, failedAt, pc, nxt, cyc, acc, buf>>

SShut(ok) ==                                      \* errs = multierr.Append(errs, scrp.Shutdown(ctx)) for every scraper
  /\ phase = "stopping" /\ pc \in {"none", "exit"} /\ sidx <= cfg.n
  /\ emit' = [e |-> "sshut", i |-> sidx, ok |-> ok]
  /\ sidx' = sidx + 1
  /\ UNCHANGED <<cfg, phase, failedAt, pc, nxt, cyc, acc, buf, done>>

SdRet ==
  /\ phase = "stopping" /\ pc \in {"none", "exit"} /\ sidx = cfg.n + 1
  /\ emit' = [e |-> "sdret", panic |-> FALSE]
  /\ phase' = "stopped"
  /\ UNCHANGED <<cfg, sidx, failedAt, pc, nxt, cyc, acc, buf, done>>

SdCall2 ==
  /\ phase = "stopped"
  /\ phase' = "stopping2" /\ sidx' = 1
  /\ emit' = [e |-> "sdcall2"]
  /\ UNCHANGED <<cfg, failedAt, pc, nxt, cyc, acc, buf, done>>

SShut2(ok) ==
  /\ phase = "stopping2" /\ sidx <= cfg.n
  /\ emit' = [e |-> "sshut", i |-> sidx, ok |-> ok]
  /\ sidx' = sidx + 1
  /\ UNCHANGED <<cfg, phase, failedAt, pc, nxt, cyc, acc, buf, done>>

SdRet2(p) ==
  /\ phase = "stopping2"
  /\ IF p THEN AllowPanic /\ sidx = 1 ELSE sidx \in {1, cfg.n + 1}
  /\ emit' = [e |-> "sdret2", panic |-> p]
  /\ phase' = "stopped2"
  /\ UNCHANGED <<cfg, sidx, failedAt, pc, nxt, cyc, acc, buf, done>>

\* ------------------------------------------------------------------ composition
Ctl == Call \/ Accept \/ Exit
Env == \/ StartCall \/ StartRet \/ DelayElapsed \/ Tick \/ SdCall \/ SdRet \/ SdCall2
       \/ \E ok \in BOOLEAN : SStart(ok) \/ ConsRet(ok) \/ SShut(ok) \/ SShut2(ok) \/ SdRet2(ok)
       \/ \E o \in Outcomes : Rel(o)
MNext == Ctl \/ Env

\* ------------------------------------------------------------------ structural invariants of the model
TypeOK ==
  /\ phase \in {"new", "starting", "started", "failed", "stopping", "stopped", "stopping2", "stopped2"}
  /\ pc \in {"none", "delay", "run", "blk", "idle", "exit"}
  /\ sidx \in 1..cfg.n + 1 /\ failedAt \in 0..cfg.n /\ nxt \in 1..cfg.n + 1 /\ buf \in 0..1 /\ cyc \in Nat
  /\ done \in BOOLEAN /\ Len(acc) <= cfg.n
\* the goroutine exists only after a successful Start, and is gone when Shutdown has returned
GoroutineLifetime ==
  /\ pc # "none" => failedAt = 0 /\ phase \notin {"new"}
  /\ phase \in {"stopped", "stopping2", "stopped2"} => pc \in {"none", "exit"}
  /\ pc = "exit" => done
=============================================================================
