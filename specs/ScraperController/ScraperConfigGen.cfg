SPECIFICATION CSpec
CHECK_DEADLOCK FALSE
