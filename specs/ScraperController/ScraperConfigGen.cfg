SPECIFICATION CSpec
CONSTANTS
  Range = {-2, -1, 0, 1, 2}
CHECK_DEADLOCK FALSE
