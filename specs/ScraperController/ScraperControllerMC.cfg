SPECIFICATION Spec
CONSTANTS
  Outcomes <- OutcomesSmall
  AllowPanic = FALSE
  NRange = {1, 2}
  MaxTicks = 1
  MaxCyc = 1
  MaxLen = 14
  WithSecond = TRUE
CONSTRAINT Bound
ACTION_CONSTRAINT TicksWhileRunning
INVARIANT TypeOK
INVARIANT GoroutineLifetime
INVARIANT StatementHolds
INVARIANT ScrapesCompleted
CHECK_DEADLOCK FALSE
