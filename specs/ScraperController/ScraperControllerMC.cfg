SPECIFICATION Spec
CONSTANTS
  Outcomes <- OutcomesSmall
  AllowPanic = FALSE
  NRange = {1, 2}
  MaxTicks = 1
  MaxCyc = 2
  MaxLen = 16
  WithSecond = FALSE
CONSTRAINT Bound
INVARIANT TypeOK
INVARIANT GoroutineLifetime
INVARIANT StatementHolds
INVARIANT ScrapesCompleted
CHECK_DEADLOCK FALSE
