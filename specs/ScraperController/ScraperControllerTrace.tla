---------------------------- MODULE ScraperControllerTrace ----------------------------
(* E01 -- TRACE VALIDATION (strict conformance): is what a real controller did a behaviour of the implementation-shaped
   model ScraperController.tla?  Input: the same observed.ndjson as the monitor's.  For every observation TLC searches
   for a behaviour of the model whose observable events (emit) are exactly the recorded ones, field by field (the
   recorded events have more fields -- times -- that the model does not determine); the goroutine's unobservable steps
   (delay elapsed, tick accepted, exit) may happen anywhere.  An observation that is explained prints <<"BEH", {acc: id}>>;
   the search then goes on with the next observation (NextTrace is enabled everywhere, so one rejected observation does
   not hide the others).  A rejected observation whose events satisfy the monitor is MODEL DRIFT, not a finding.
   HighWater / Rejected: used on a single rejected observation to locate the first event that cannot be explained. *)
EXTENDS ScraperController, TLC, Json

Log == ndJsonDeserialize("observed.ndjson")
VARIABLES l,    \* observation being explained
          j     \* its next event
tvars == <<mvars, l, j>>

TraceOutcomes == {"ok", "partial", "fail", "slow"} \X (0..3)
CfgOf(o) == [n |-> o.cfg.n, to |-> o.cfg.to > 0, dly |-> o.cfg.dly > 0]
T == Log[l].ev
Markers == {"stall", "unfollowed", "sdhang"}
Matches(ev, line) == \A f \in DOMAIN ev : f \in DOMAIN line /\ line[f] = ev[f]

TInit == /\ l = 1 /\ j = 1 /\ TLCSet(1, 1)
         /\ MInit(IF Len(Log) > 0 THEN CfgOf(Log[1]) ELSE [n |-> 1, to |-> FALSE, dly |-> FALSE])

Step == /\ l <= Len(Log) /\ l' = l
        /\ MNext
        /\ IF emit' = Null THEN j' = j
           ELSE j <= Len(T) /\ Matches(emit', T[j]) /\ j' = j + 1

Skip == /\ l <= Len(Log) /\ j <= Len(T) /\ T[j].e \in Markers
        /\ j' = j + 1 /\ l' = l /\ UNCHANGED mvars

NextTrace ==
  /\ l <= Len(Log) /\ l' = l + 1 /\ j' = 1
  /\ cfg' = IF l < Len(Log) THEN CfgOf(Log[l + 1]) ELSE cfg
  /\ phase' = "new" /\ sidx' = 1 /\ failedAt' = 0 /\ pc' = "none" /\ nxt' = 1 /\ cyc' = 0
  /\ acc' = <<>> /\ buf' = 0 /\ done' = FALSE /\ emit' = Null

TNext == Step \/ Skip \/ NextTrace
TSpec == TInit /\ [][TNext]_tvars

Explained == (l <= Len(Log) /\ j = Len(T) + 1) => PrintT(<<"BEH", ToJson([acc |-> Log[l].id])>>)

HighWater == IF l = 1 /\ j > TLCGet(1) THEN TLCSet(1, j) ELSE TRUE
Rejected == PrintT(<<"BEH", ToJson([hw |-> TLCGet(1)])>>)
=============================================================================
