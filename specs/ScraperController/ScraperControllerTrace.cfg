SPECIFICATION TSpec
CONSTANTS
  Outcomes <- TraceOutcomes
  AllowPanic = TRUE
INVARIANT Explained
CHECK_DEADLOCK FALSE
