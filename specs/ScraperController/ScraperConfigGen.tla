---------------------------- MODULE ScraperConfigGen ----------------------------
(* E01 -- Config.Validate: prints every (collection_interval, timeout, initial_delay) of the bounded space with the
   verdict of ScraperObs!ConfigValid (valid = Validate must return nil).  checks/E01.py feeds the table to the real
   ControllerConfig.Validate (harness/scraperctl validate) in two units (nanoseconds and seconds). *)
EXTENDS ScraperObs, TLC, Json
Range == -2..2
VARIABLE x
CInit == x = 0
CNext == /\ x = 0 /\ x' = 1
         /\ \A ci \in Range, to \in Range, dly \in Range :
               PrintT(<<"BEH", ToJson([ci |-> ci, to |-> to, dly |-> dly, valid |-> ConfigValid(ci, to, dly)])>>)
CSpec == CInit /\ [][CNext]_x
=============================================================================
