---------------------------- MODULE ScraperControllerGen ----------------------------
(* E01 -- script generator.  Explores ScraperController.tla with the scraping goroutine scheduled EAGERLY (whenever it
   can take a step it does, the environment acts only when it is blocked in a call, idle, waiting for the delay or
   gone) and prints, for every behaviour that has reached the end of a Shutdown, the configuration and the history of
   events.  checks/E01.py turns the environment's events of a history (startcall + sstart outcomes, tick, rel, consret,
   sdcall + sshut outcomes, sdcall2) into a script for harness/scraperctl; the goroutine's events (scrape, consume) are
   what the driver waits for.  The points at which the environment acts are exactly the points the driver can reach
   deterministically in the real code; in addition Shutdown may be requested right after a tick was offered to an idle
   controller (RacyPoint: the select between the tick and done is then the scheduler's in the real code, and both
   outcomes are explored here).  Exhaustive for small bounds, `-simulate` for bigger ones.
   The expected values do NOT come from these histories: every recorded observation is judged by
   ScraperControllerMonitor (statement) and ScraperControllerTrace (model). *)
EXTENDS ScraperController, TLC, Json

CONSTANTS NRange, TimeoutRange, DelayRange,   \* configurations: n, timeout > 0 ?, initial_delay > 0 ?
          MaxTicks, MaxCyc,                   \* at most so many ticks offered / scrapes begun
          WithSecond,                         \* end every script with a second Shutdown
          Failures                            \* scrapers' Start / Shutdown may fail

VARIABLES hist, nticks
gvars == <<mvars, hist, nticks>>

OutcomesOne   == {<<"ok", 1>>}
OutcomesSmall == {<<"ok", 1>>, <<"partial", 1>>, <<"fail", 1>>}
OutcomesMid   == {<<"ok", 2>>, <<"ok", 0>>, <<"partial", 1>>, <<"fail", 1>>, <<"slow", 1>>}
OutcomesFull  == {"ok", "partial", "fail", "slow"} \X {0, 1, 2}

GInit == /\ \E c \in [n : NRange, to : TimeoutRange, dly : DelayRange] : MInit(c)
         /\ hist = <<>> /\ nticks = 0

CtlEager  == pc = "run" \/ (pc = "idle" /\ buf = 1) \/ (done /\ pc \in {"idle", "delay"})
RacyPoint == pc = "idle" /\ buf = 1 /\ ~done /\ phase = "started"

GTick == /\ nticks < MaxTicks
         /\ phase # "starting"               \* the driver's Start is one synchronous call
         /\ cyc + buf < MaxCyc \/ done
         /\ Tick
GEnv == \/ StartCall \/ StartRet \/ GTick \/ SdCall \/ SdRet
        \/ phase # "starting" /\ DelayElapsed
        \/ WithSecond /\ SdCall2
        \/ \E ok \in (IF Failures THEN BOOLEAN ELSE {TRUE}) : SStart(ok) \/ SShut(ok) \/ SShut2(ok)
        \/ \E ok \in BOOLEAN : ConsRet(ok)
        \/ SdRet2(FALSE) /\ sidx = cfg.n + 1
        \/ \E o \in Outcomes : Rel(o)

GNext == /\ IF CtlEager THEN Ctl \/ (RacyPoint /\ SdCall) ELSE GEnv
         /\ hist' = IF emit' = Null THEN hist ELSE Append(hist, emit')
         /\ nticks' = IF emit'.e = "tick" THEN nticks + 1 ELSE nticks
GSpec == GInit /\ [][GNext]_gvars

Terminal == phase = (IF WithSecond THEN "stopped2" ELSE "stopped")
Emit == Terminal => PrintT(<<"BEH", ToJson([cfg |-> cfg, h |-> hist])>>)
=============================================================================
