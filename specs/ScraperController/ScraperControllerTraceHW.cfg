SPECIFICATION TSpec
CONSTANTS
  Outcomes <- TraceOutcomes
  AllowPanic = TRUE
CONSTRAINT HighWater
POSTCONDITION Rejected
CHECK_DEADLOCK FALSE
