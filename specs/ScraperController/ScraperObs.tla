------------------------------ MODULE ScraperObs ------------------------------
(* E01 -- scraper controller: statement-level OBSERVABLE LAYER and the clauses of the statement.

   Extra specification (no entry in properties.jsonl).  Record, in the form of properties.jsonl:

   title      Scraper controller: lifecycle, one scrape per tick, one merged payload per scrape
   statement  A scraper controller (scraperhelper.NewMetricsController / NewLogsController) starts every scraper once on
              Start and returns the Start error of a scraper that fails; on Shutdown it shuts every scraper down exactly
              once (also when a scraper's Shutdown fails), returns only when no scraper / consumer call is in progress,
              makes no call after it returned, and is safe to call again on a controller that is already shut down and
              on one that was never started (component.Component).  After a successful Start the first scrape begins
              once initial_delay has elapsed (immediately for a non-positive delay) and afterwards one scrape begins per
              tick of the collection-interval ticker; scrapes never overlap (a tick that arrives during a scrape is not
              served before that scrape has ended).  Every scrape calls every scraper, merges what they return into ONE
              payload and hands it to the next consumer once: a scraper that returns a PartialScrapeError contributes
              the data it returned, a scraper that returns any other error contributes nothing, the other scrapers
              still contribute; an error of the consumer does not stop later scrapes.  With timeout > 0 the context of
              every scraper call carries a deadline `timeout` after the beginning of the scrape / of the call and is
              cancelled then; with timeout = 0 the context is not cancelled while the scrape runs.  Config.Validate
              rejects a non-positive collection_interval and a negative timeout and accepts everything else (in
              particular any initial_delay).
   quantifier for every number of scrapers 1..3, signal (metrics, logs), outcome of every scraper call (ok / partial /
              failed / blocked beyond the timeout, with 0..2 items returned), consumer outcome (ok / error), Start and
              Shutdown outcome of every scraper, tick sequence (injected with WithTickerChannel, capacity 1 like
              time.Ticker), initial_delay negative / 0 / small, timeout 0 / small, Shutdown requested at every point
              (during the delay, during every scraper call, during the consumer call, idle, with a tick pending)
   anchors    scraper/scraperhelper/controller.go (Start, Shutdown, startScraping, scrapeMetrics, scrapeLogs,
              withScrapeContext, WithTickerChannel), scraper/scraperhelper/config.go (ControllerConfig, Validate),
              scraper/scraperhelper/obs_metrics.go + obs_logs.go (the wrappers every scraper call goes through),
              scraper/scrapererror/partialscrapeerror.go (IsPartialScrapeError), scraper/{scraper,metrics,logs}.go,
              component/component.go (Start / Shutdown contract)

   Where the documentation is silent the clauses below leave the behaviour open (see checks/E01.py for the list):
   order and parallelism of the scraper calls inside one scrape, order of the items in the payload, whether the consumer
   is called for a scrape that collected nothing, whether scrapers after a failed one are started, what Shutdown does to
   scrapers after a failed Start, the error returned by Shutdown, per-call or per-scrape deadline, deadline for timeout = 0
   (the comment on CollectionInterval says the interval is the context timeout, withScrapeContext says there is none).

   AN OBSERVATION h is the sequence of events recorded around one controller, in the order they happened:
     [e |-> "startcall"]                         Start is about to be called
     [e |-> "sstart", i, ok]                     scraper i's Start function runs and returns nil (ok) / an error
     [e |-> "startret", err]                     Start returned: 0 = nil, i = the error of scraper i, -1 = another error
     [e |-> "tick", res]                         a tick was offered to the ticker channel: "buf" (taken by the channel) / "drop"
     [e |-> "scrape", i, c]                      scraper i's Scrape function is entered for the c-th time
     [e |-> "rel", i, c, out, pts]               ... and returns: out = ok / partial / fail / slow, pts = items it returns
     [e |-> "consume", c, pl, alien, dup]        the consumer is entered during scrape c; pl[i] = items of scraper i's c-th
                                                 call in the payload, alien = items of other calls, dup = repeated items
     [e |-> "consret", c, ok]                    the consumer returns nil / an error
     [e |-> "sdcall"] [e |-> "sshut", i, ok] [e |-> "sdret", panic]            Shutdown
     [e |-> "sdcall2"] ... [e |-> "sdret2", panic]                             Shutdown once more
     [e |-> "stall"] [e |-> "sdhang"]            the driver waited in vain (10 s) for the next call / for Shutdown to return
   Real observations carry times as well (t, dl, ce, cd: see the timed clauses at the end).
   cf = [n |-> number of scrapers, to |-> timeout, dly |-> initial delay, ci |-> collection interval] (microseconds in real
   observations; the model only distinguishes > 0 from 0).

   Every clause is a predicate on a POSITION of h ("this event offends"); the same operators are an invariant of the
   model's history (ScraperControllerMC) and a monitor of real observations (ScraperControllerMonitor). *)
EXTENDS Integers, Sequences, FiniteSets

Pos(h, k)       == {j \in 1..Len(h) : h[j].e = k}
Before(h, k, j) == {x \in 1..(j - 1) : h[x].e = k}
MinOf(S)        == CHOOSE x \in S : \A y \in S : x <= y
MaxOf(S)        == CHOOSE x \in S : \A y \in S : x >= y

(* Every clause is a predicate "position j of h offends", and it looks at h[1..j] ONLY: what is wrong stays wrong whatever
   follows.  So an observation satisfies a clause iff no position offends, and for a history that grows step by step
   (the model's) it is enough to evaluate the newest position in every state. *)

Contributes(ev) == IF ev.out \in {"ok", "partial"} THEN ev.pts ELSE 0

\* the data scraper i's c-th call contributes, as far as known before position j (0 if it has not returned)
Contribution(h, i, c, j) ==
  LET R == {k \in Before(h, "rel", j) : h[k].i = i /\ h[k].c = c}
  IN IF R = {} THEN 0 ELSE Contributes(h[MinOf(R)])

Returned(h, n, c, j) == \A i \in 1..n : \E k \in Before(h, "rel", j) : h[k].i = i /\ h[k].c = c
EmptyScrape(h, n, c, j) == Returned(h, n, c, j) /\ \A i \in 1..n : Contribution(h, i, c, j) = 0

\* ------------------------------------------------------------------ Start
\* every scraper is started at most once, only while Start runs; Start returns nil only if every scraper was started and
\* none failed; an error it returns is the error of a scraper that failed
StartAt(cf, h, j) ==
  \/ /\ h[j].e = "sstart"
     /\ \/ Before(h, "startcall", j) = {}
        \/ Before(h, "startret", j) # {}
        \/ \E k \in Before(h, "sstart", j) : h[k].i = h[j].i
  \/ /\ h[j].e = "startret"
     /\ LET failed == {k \in Before(h, "sstart", j) : ~h[k].ok} IN
          \/ h[j].err = 0 /\ failed # {}
          \/ h[j].err = 0 /\ \E i \in 1..cf.n : ~\E k \in Before(h, "sstart", j) : h[k].i = i
          \/ h[j].err # 0 /\ ~\E k \in failed : h[k].i = h[j].err

\* ------------------------------------------------------------------ Shutdown
\* scrapers are shut down only inside a Shutdown call, at most once per call, and every one of them by the time the
\* (first) Shutdown of a successfully started controller returns
ShutdownAt(cf, h, j) ==
  \/ /\ h[j].e = "sshut"
     /\ LET inFirst  == Before(h, "sdcall", j) # {} /\ Before(h, "sdret", j) = {}
            inSecond == Before(h, "sdcall2", j) # {} /\ Before(h, "sdret2", j) = {}
        IN \/ ~inFirst /\ ~inSecond
           \/ \E k \in Before(h, "sshut", j) : /\ h[k].i = h[j].i
                                               /\ (inFirst \/ \E m \in Before(h, "sdcall2", k) : TRUE)
  \/ /\ h[j].e = "sdret"
     /\ \E s \in Before(h, "startret", j) : h[s].err = 0
     /\ \E i \in 1..cf.n : ~\E k \in Before(h, "sshut", j) : h[k].i = i

\* when Shutdown returns no scraper / consumer call is in progress, and none is made afterwards
AfterShutdownAt(cf, h, j) ==
  \/ h[j].e \in {"scrape", "consume"} /\ Before(h, "sdret", j) # {}
  \/ /\ h[j].e = "sdret"
     /\ \/ \E k \in Before(h, "scrape", j) : ~\E m \in Before(h, "rel", j) : h[m].i = h[k].i /\ h[m].c = h[k].c
        \/ \E k \in Before(h, "consume", j) : ~\E m \in Before(h, "consret", j) : h[m].c = h[k].c

\* Shutdown never panics: not the first call (with or without a Start before it), not a second one
ShutdownSafeAt(cf, h, j) == h[j].e \in {"sdret", "sdret2"} /\ h[j].panic

\* ------------------------------------------------------------------ scrapes
\* scrape c is over (before position j): its consumer call returned -- or it collected nothing and no consumer call was made
Closed(h, n, c, j) == \/ \E k \in Before(h, "consret", j) : h[k].c = c
                      \/ EmptyScrape(h, n, c, j) /\ ~\E k \in Before(h, "consume", j) : h[k].c = c

\* scrapes do not overlap; a scraper is only called after its Start succeeded
OverlapAt(cf, h, j) ==
  /\ h[j].e = "scrape"
  /\ \/ h[j].c > 1 /\ ~Closed(h, cf.n, h[j].c - 1, j)
     \/ ~\E k \in Before(h, "sstart", j) : h[k].i = h[j].i /\ h[k].ok

\* ONE consumer call per scrape, after every scraper returned and before the next scrape begins, with exactly what the
\* scrapers contributed
PayloadAt(cf, h, j) ==
  /\ h[j].e = "consume"
  /\ \/ ~Returned(h, cf.n, h[j].c, j)
     \/ \E k \in Before(h, "consume", j) : h[k].c = h[j].c
     \/ \E k \in Before(h, "scrape", j) : h[k].c > h[j].c
     \/ h[j].alien # 0 \/ h[j].dup # 0
     \/ Len(h[j].pl) # cf.n
     \/ \E i \in 1..cf.n : i <= Len(h[j].pl) /\ h[j].pl[i] # Contribution(h, i, h[j].c, j)

\* never more scrapes than the initial one plus one per tick the channel took
Ticks(h, j) == Cardinality({k \in Before(h, "tick", j) : h[k].res = "buf"})
TickBoundAt(cf, h, j) == h[j].e = "scrape" /\ h[j].c > 1 + Ticks(h, j)

\* the driver waited in vain for a call although the statement requires one: the controller was started, Shutdown had not
\* been requested, every call made so far had been answered, and either a scrape was due (the initial one / one per tick)
\* or the current scrape had not called every scraper and (unless it collected nothing) the consumer
AllAnswered(h, j) ==
  /\ \A k \in Before(h, "scrape", j) : \E m \in Before(h, "rel", j) : h[m].i = h[k].i /\ h[m].c = h[k].c
  /\ \A k \in Before(h, "consume", j) : \E m \in Before(h, "consret", j) : h[m].c = h[k].c
Begun(h, j) == IF Before(h, "scrape", j) = {} THEN 0 ELSE MaxOf({h[k].c : k \in Before(h, "scrape", j)})
Finished(h, n, c, j) == /\ \A i \in 1..n : \E k \in Before(h, "scrape", j) : h[k].i = i /\ h[k].c = c
                        /\ \/ \E k \in Before(h, "consume", j) : h[k].c = c
                           \/ EmptyScrape(h, n, c, j)
ProgressDue(cf, h, j) ==
  /\ \E r \in Before(h, "startret", j) : h[r].err = 0
  /\ Before(h, "sdcall", j) = {}
  /\ AllAnswered(h, j)
  /\ \/ Begun(h, j) < 1 + Ticks(h, j)
     \/ Begun(h, j) > 0 /\ ~Finished(h, cf.n, Begun(h, j), j)
ProgressAt(cf, h, j) == (h[j].e = "stall" /\ ProgressDue(cf, h, j)) \/ h[j].e = "sdhang"

\* ------------------------------------------------------------------ all untimed clauses
ClauseNames == {"Start", "Shutdown", "AfterShutdown", "ShutdownSafe", "Overlap", "Payload", "TickBound", "Progress"}
OffendsAt(name, cf, h, j) ==
  CASE name = "Start" -> StartAt(cf, h, j)
    [] name = "Shutdown" -> ShutdownAt(cf, h, j)
    [] name = "AfterShutdown" -> AfterShutdownAt(cf, h, j)
    [] name = "ShutdownSafe" -> ShutdownSafeAt(cf, h, j)
    [] name = "Overlap" -> OverlapAt(cf, h, j)
    [] name = "Payload" -> PayloadAt(cf, h, j)
    [] name = "TickBound" -> TickBoundAt(cf, h, j)
    [] name = "Progress" -> ProgressAt(cf, h, j)
OffendedAt(cf, h, j) == {name \in ClauseNames : OffendsAt(name, cf, h, j)}
Holds(cf, h) == \A j \in 1..Len(h) : OffendedAt(cf, h, j) = {}

\* ------------------------------------------------------------------ timed clauses (real observations only)
\* "scrape" carries t = time of the call, dl = the deadline of its context (-1: none), ce = context already cancelled;
\* "rel" carries ce = context cancelled when the call returns, cd = "fired" / "never" / "na": whether a call that blocks on
\* the context (out = "slow") saw it cancelled within 10 s.  All times in microseconds since the observation began.
Slack == 1000
TStart(h) == h[MinOf(Pos(h, "startcall"))].t
\* an instant known to lie before the beginning of the scrape position j belongs to
TPrev(h, j) == LET P == {k \in Before(h, "consret", j) : h[k].c < h[j].c}
               IN IF P = {} THEN TStart(h) ELSE h[MaxOf(P)].t

\* timeout > 0: every call's context has a deadline, not later than `timeout` after the call and not earlier than `timeout`
\* after the scrape began (so both a per-scrape and a per-call deadline are accepted), and it is cancelled in the end;
\* timeout = 0: the context is not cancelled during the scrape (a deadline, if any, lies a collection interval ahead)
TimeoutAt(cf, h, j) ==
  IF cf.to > 0
  THEN \/ /\ h[j].e = "scrape"
          /\ \/ h[j].dl = -1
             \/ h[j].dl > h[j].t + cf.to + Slack
             \/ h[j].dl < TPrev(h, j) + cf.to - Slack
       \/ h[j].e = "rel" /\ h[j].out = "slow" /\ h[j].cd # "fired"
  ELSE \/ h[j].e = "scrape" /\ (h[j].ce \/ (h[j].dl # -1 /\ h[j].dl < TPrev(h, j) + cf.ci - Slack))
       \/ h[j].e = "rel" /\ h[j].ce

\* the first scrape does not begin before initial_delay has elapsed since Start was called
InitialDelayAt(cf, h, j) == cf.dly > 0 /\ h[j].e = "scrape" /\ h[j].t < TStart(h) + cf.dly - Slack

TimedOffendedAt(cf, h, j) == {name \in {"Timeout", "InitialDelay"} :
                                 IF name = "Timeout" THEN TimeoutAt(cf, h, j) ELSE InitialDelayAt(cf, h, j)}

\* ------------------------------------------------------------------ Config.Validate (units: any integer durations)
ConfigValid(ci, to, dly) == ci > 0 /\ to >= 0
=============================================================================
