------------------------------ MODULE ObsHelpers ------------------------------
(* C19 -- item ledgers of the receiver, scraper and processor helpers.
   The ledger is written from the statement:
     receiver / scraper-controller operation of signal s offering n items with downstream result r:
         accepted[s] += n if r = ok, refused[s] += n otherwise       (always under the counters of ITS OWN signal)
     scraper call (obs wrapper):  ok(n): scraped += n;  failed: nothing;  partial(n, k): scraped += n, errored += k
     processor of signal s given n items that forwards m (or drops everything on error / skip):
         incoming[s] += n, outgoing[s] += m
   ObsGen enumerates all operation sequences up to N with the ledger after every step; harness/obsreport replays them
   into the real helpers (receiverhelper.ObsReport, scraperhelper controllers and wrappers, processorhelper New-functions) and
   reads the real counters from a manual metric reader after every step. *)
EXTENDS Integers, Sequences, TLC, Json

CONSTANTS N, Signals

Counters == {"accepted", "refused", "incoming", "outgoing"}
VARIABLES led,     \* [counter -> [signal -> Int]]
          scraped, errored,
          hist

vars == <<led, scraped, errored, hist>>

Init == /\ led = [c \in Counters |-> [s \in Signals |-> 0]]
        /\ scraped = 0 /\ errored = 0 /\ hist = <<>>

Add(c, s, n) == [led EXCEPT ![c][s] = @ + n]
Snap(l2, sc, er) == [led |-> l2, scraped |-> sc, errored |-> er]

\* receiver helper operation
Recv(s, n, ok) ==
  LET l2 == IF ok THEN Add("accepted", s, n) ELSE Add("refused", s, n) IN
  /\ led' = l2 /\ UNCHANGED <<scraped, errored>>
  /\ hist' = Append(hist, [op |-> "recv", sig |-> s, n |-> n, ok |-> ok, m |-> 0, mode |-> "", after |-> Snap(l2, scraped, errored)])

\* one tick of a scraper controller of signal s (a receiver of its own signal): the scraper returns n items (mode ok),
\* fails (nothing forwarded) or fails partially (n items forwarded, k reported as errored); the scraper's own
\* wrapper keeps the scraped / errored ledger (tracked here for metrics scrapers)
Ctl(s, mode, n, k, ok) ==
  LET fwd == IF mode = "fail" THEN 0 ELSE n
      l2 == IF ok THEN Add("accepted", s, fwd) ELSE Add("refused", s, fwd)
      sc == IF s = "metrics" /\ mode # "fail" THEN scraped + n ELSE scraped
      er == IF s = "metrics" /\ mode = "partial" THEN errored + k ELSE errored IN
  /\ led' = l2 /\ scraped' = sc /\ errored' = er
  /\ hist' = Append(hist, [op |-> "ctl", sig |-> s, n |-> n, ok |-> ok, m |-> k, mode |-> mode, after |-> Snap(l2, sc, er)])

Proc(s, n, mode, nextOk) ==
  LET m == CASE mode = "pass" -> n [] mode = "drop1" -> n - 1 [] OTHER -> 0
      l2 == [led EXCEPT !["incoming"][s] = @ + n, !["outgoing"][s] = @ + m] IN
  /\ led' = l2 /\ UNCHANGED <<scraped, errored>>
  /\ hist' = Append(hist, [op |-> "proc", sig |-> s, n |-> n, ok |-> nextOk, m |-> m, mode |-> mode, after |-> Snap(l2, scraped, errored)])

Next == /\ Len(hist) < N
        /\ \/ \E s \in Signals, n \in {0, 2}, ok \in BOOLEAN : Recv(s, n, ok)
           \/ \E s \in Signals \ {"traces"}, mode \in {"ok", "fail", "partial"}, ok \in BOOLEAN : Ctl(s, mode, 3, 1, ok)
           \/ \E s \in Signals, mode \in {"pass", "drop1", "err", "skip"}, nextOk \in BOOLEAN : Proc(s, 2, mode, nextOk)
Spec == Init /\ [][Next]_vars

\* the statement's balance, as an invariant of the ledger itself
RECURSIVE Sum(_, _)
Sum(f, S) == IF S = {} THEN 0 ELSE LET x == CHOOSE y \in S : TRUE IN f[x] + Sum(f, S \ {x})
Offered(s) == LET idx == {i \in 1..Len(hist) : hist[i].op \in {"recv", "ctl"} /\ hist[i].sig = s} IN
              Sum([i \in idx |-> IF hist[i].op = "ctl" /\ hist[i].mode = "fail" THEN 0 ELSE hist[i].n], idx)
ReceiverBalance == \A s \in Signals : led["accepted"][s] + led["refused"][s] = Offered(s)
ProcessorInOut == \A s \in Signals : led["outgoing"][s] <= led["incoming"][s]
Emit == Len(hist) = N => PrintT(<<"BEH", ToJson(hist)>>)
=============================================================================
