SPECIFICATION Spec
CONSTANTS
  N = 2
  Signals = {"traces", "metrics", "logs"}
INVARIANT Emit
INVARIANT ReceiverBalance
INVARIANT ProcessorInOut
CHECK_DEADLOCK FALSE
