----------------------------- MODULE BatcherObs -----------------------------
(* C04 -- observable layer of exporter-side batching and the clauses of the property.

   Written from the STATEMENT.  Used as invariants of the implementation-shaped model (Batcher.tla,
   BatcherMC) and by the monitor (BatcherTrace.tla) on what the real code did.

   Vocabulary
     item     [id, ctx]   id: identity of one log record / span / data point / profile sample
                          ctx: opaque tag for everything the statement says an item keeps (resource,
                               scope, schema URLs, metric name/unit/description/type/temporality/
                               monotonicity/metadata)
                          (an item left at its defaults has no identity of its own: the recorder lends it the id of an
                           indistinguishable item that entered -- such items are counted, not tracked; PayloadFill.tla)
     request  what a producer hands to the batching layer: a sequence of items
     batch    [items, reqs, size, state, ok]  one call of the export function: the items as found in
              it, the requests whose containers (resources) are present in it, its size in the
              configured unit MEASURED INDEPENDENTLY by the observer, whether the call has returned
              ("open"/"closed") and with which result
     done     the completion callback of a request: observed as the list of its firings, each with
              the error flag it carried                                                        *)
EXTENDS Integers, Sequences, FiniteSets, TLC

VARIABLES
  entered,   \* function request -> sequence of items, for every request handed in so far
  batches,   \* sequence of batches in the order the export function was called
  dones      \* function request -> sequence of [err, after, iff]: the firings of its callback

obsVars == <<entered, batches, dones>>
ObsInit == entered = <<>> /\ batches = <<>> /\ dones = <<>>

---------------------------------------------------------------------------
ItemIds(s)     == {s[i].id : i \in DOMAIN s}
EnteredIds     == UNION {ItemIds(entered[r]) : r \in DOMAIN entered}
BatchIdsUpTo(k) == UNION {ItemIds(batches[j].items) : j \in 1..k}
AllBatchIds    == BatchIdsUpTo(Len(batches))
CtxOf(id)      == LET r == CHOOSE r \in DOMAIN entered : id \in ItemIds(entered[r])
                      i == CHOOSE i \in DOMAIN entered[r] : entered[r][i].id = id
                  IN entered[r][i].ctx
\* the batches (of the sequence bs) that hold items of request r ...
PartsIn(bs, r) == {k \in DOMAIN bs : ItemIds(bs[k].items) \cap ItemIds(entered[r]) # {}}
\* ... and those that hold items of r or (real payloads only) one of its containers although no item
\* of it came along.  Whether an empty container counts as "part of the request" is not determined by
\* the statement (it speaks of telemetry items), so for such batches both answers are accepted below.
PartsLooseIn(bs, r) == PartsIn(bs, r) \cup {k \in DOMAIN bs : r \in bs[k].reqs}

---------------------------------------------------------------------------
(* Clauses about ONE batch b, given the ids in the batches before it *)

\* "the multiset leaving equals the multiset that entered": nothing twice, nothing invented
BatchFresh(b, prevIds) == /\ Cardinality(ItemIds(b.items)) = Len(b.items)
                          /\ ItemIds(b.items) \cap prevIds = {}
                          /\ ItemIds(b.items) \subseteq EnteredIds
\* "each item keeps its full context"
BatchIdentity(b) == \A i \in DOMAIN b.items : b.items[i].id \in EnteredIds => b.items[i].ctx = CtxOf(b.items[i].id)
\* "every emitted batch is no larger than the configured maximum in the configured unit unless it
\*  holds a single indivisible item".  A part that holds no item at all (empty containers only, bytes
\*  sizer) is not judged: the statement's unit is the item.
BatchSize(b, max) == max = 0 \/ b.size <= max \/ Len(b.items) <= 1

---------------------------------------------------------------------------
(* Clauses about the callbacks; a firing is recorded as [err, after, iff] with the two verdicts
   below evaluated at the moment it fires (bs = the batches as they are after that step,
   held = ids that have not reached the export function yet) *)

\* "fires exactly once": never more than once ...
DoneAtMostOnce == \A r \in DOMAIN dones : Len(dones[r]) <= 1
\* "... only after every batch containing part of it has finished"
FiredAfterPartsIn(bs, r, held) ==
    /\ held \cap ItemIds(entered[r]) = {}
    /\ \A k \in PartsIn(bs, r) : bs[k].state = "closed"
\* "... and reports an error if and only if one of those batches failed"
Failed(bs, k) == bs[k].state = "closed" /\ ~bs[k].ok
FiredErrIffIn(bs, r, err) == /\ (\E k \in PartsIn(bs, r) : Failed(bs, k)) => err
                             /\ err => \E k \in PartsLooseIn(bs, r) : Failed(bs, k)

---------------------------------------------------------------------------
(* Clauses at quiescence (everything handed in was consumed, every export returned, shutdown done) *)
Conserved  == AllBatchIds = EnteredIds
AllDone    == \A r \in DOMAIN entered : r \in DOMAIN dones /\ Len(dones[r]) = 1

---------------------------------------------------------------------------
(* State forms (BatcherMC) *)
Conservation == \A k \in DOMAIN batches : BatchFresh(batches[k], BatchIdsUpTo(k - 1))
Identity     == \A k \in DOMAIN batches : BatchIdentity(batches[k])
SizeBound(max) == \A k \in DOMAIN batches : BatchSize(batches[k], max)
=============================================================================
