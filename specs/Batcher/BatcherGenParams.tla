-------------------------- MODULE BatcherGenParams --------------------------
(* Parameters of a generator run; checks/C04.py writes its own copy for every run (a .cfg file
   cannot contain tuples).  This one is the default for running BatcherGen by hand. *)
ParamN        == 2
ParamShapeSel == {2, 5, 6}
ParamFillSel  == {1, 4}   \* fills (indices into PayloadFill!StdFills) a request may have
\* <<sizer, max>>; for the bytes sizer max is a class index (0 = no limit) that the check maps to bytes
ParamConfs    == {<<"items", 2>>, <<"bytes", 1>>}
ParamBigMax   == 2        \* a big item may sit at flat position 1..ParamBigMax of a request (bytes only)
=============================================================================
