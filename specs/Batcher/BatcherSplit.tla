---------------------------- MODULE BatcherSplit ----------------------------
(* C04 -- model of Request.MergeSplit on the flat projection of the payloads (TelemetryShape.tla).
   The code appends the new request's resources to the current one (mergeTo) and then extracts
   repeatedly (split, extractLogs and friends), walking resource -> scope -> (metric) -> item in order:

     items sizer: consecutive chunks of exactly max items, the remainder last (deterministic);
     bytes sizer: modelled with abstract item weights as "the longest prefix that fits"; the real
                  split points depend on protobuf framing, so for bytes this is only one admissible
                  refinement and nothing but the monitor clauses is compared with the code.

   oversized = what happens when not even the first item fits into max:
     "alone"  it is emitted alone (what the statement allows; the repaired code)
     "hang"   the extraction makes no progress and the loop never ends (the pinned code)

   tail = what split() does with the remainder of the request once no item is left in it:
     "dropped"  nothing is returned for it (a part is made of items; the repaired code)
     "kept"     it is returned as a last part WITHOUT items (the pinned code returns the remainder whenever it
                still has a resource entry; with metrics and the bytes sizer the extraction moves the data points
                and leaves resource, scope and metric descriptors behind, so this happens all the time there).
                The model has no container overhead, so here the remainder is empty only after a last item that
                was sent alone: a narrower trigger than the code's, the same consequence for the batcher.

   An item is a record with at least the field w (abstract byte weight). *)
EXTENDS Integers, Sequences

RECURSIVE Weight(_)
Weight(s) == IF s = <<>> THEN 0 ELSE Head(s).w + Weight(Tail(s))
SizeOfP(s, sizer) == IF sizer = "items" THEN Len(s) ELSE Weight(s)

\* number of leading items of s that fit into room (bytes)
RECURSIVE Fit(_, _)
Fit(s, room) == IF s = <<>> \/ Head(s).w > room THEN 0 ELSE 1 + Fit(Tail(s), room - Head(s).w)

\* result of a split: [ok |-> FALSE] = the loop never ends; otherwise the parts
Diverges  == [ok |-> FALSE, parts |-> <<>>]
Parts(ps) == [ok |-> TRUE, parts |-> ps]

\* req.split(maxSize, sz): extract while size > max, then the remainder
RECURSIVE SplitTP(_, _, _, _, _)
SplitTP(s, sizer, max, oversized, tail) ==
  IF max = 0 \/ SizeOfP(s, sizer) <= max THEN Parts(<<s>>)
  ELSE LET k0 == IF sizer = "items" THEN max ELSE Fit(s, max)
           k  == IF k0 = 0 /\ oversized = "alone" THEN 1 ELSE k0
       IN IF k = 0 THEN Diverges
          ELSE LET rest == SplitTP(SubSeq(s, k + 1, Len(s)), sizer, max, oversized, tail)
               IN IF ~rest.ok THEN Diverges
                  \* nothing is left after a last item that was sent alone: no empty request is returned ("dropped")
                  ELSE IF rest.parts = << <<>> >> /\ tail = "dropped" THEN Parts(<<SubSeq(s, 1, k)>>)
                  ELSE Parts(<<SubSeq(s, 1, k)>> \o rest.parts)
SplitP(s, sizer, max, oversized) == SplitTP(s, sizer, max, oversized, "dropped")

\* cur.MergeSplit(ctx, max, sizer, new); cur = <<>> stands for "no current request" (or a held remainder without items)
MergeSplitTP(curItems, newItems, sizer, max, oversized, tail) == SplitTP(curItems \o newItems, sizer, max, oversized, tail)
MergeSplitP(curItems, newItems, sizer, max, oversized) == MergeSplitTP(curItems, newItems, sizer, max, oversized, "dropped")

(* The driver's fold: what the batcher does with a sequence of requests when nothing is ever held
   back: every part but the last is emitted, the last becomes the current request; at the end the
   current request is emitted too.  reqs = sequence of item sequences. *)
RECURSIVE FoldP(_, _, _, _, _, _)
FoldP(reqs, cur, out, sizer, max, oversized) ==
  IF reqs = <<>> THEN Parts(Append(out, cur))
  ELSE LET ms == MergeSplitP(cur, Head(reqs), sizer, max, oversized)
       IN IF ~ms.ok THEN Diverges
          ELSE LET n == Len(ms.parts)
               IN FoldP(Tail(reqs), ms.parts[n], out \o SubSeq(ms.parts, 1, n - 1), sizer, max, oversized)
=============================================================================
