SPECIFICATION GenSpec
INVARIANT Emit
CHECK_DEADLOCK FALSE
