---------------------------- MODULE BatcherTrace ----------------------------
(* C04 -- monitor: the clauses of BatcherObs.tla evaluated by TLC on what the REAL code did.

   observed.ndjson is written by harness/batcher; many scripts per file, each starts with "reset":
     {"ev":"reset","sid":n,"kind":"split"|"batch","signal":..,"sizer":"items"|"bytes","max":n,"min":n}
     {"ev":"consume","req":r,"items":[{"id":..,"c":ctx},..]}  the request is handed in (projection of
                                                              the payload it was built from)
     {"ev":"emit","k":n,"items":[..],"reqs":[r,..],"shells":n,"size":n}   (shells: not used by the monitor)
                                                 a part reaches the export function (split scripts: is
                                                 returned by MergeSplit for emission); items as found in
                                                 it, requests whose resources are present in it, size in
                                                 the configured unit measured by the driver (number of
                                                 items found / length of the encoding)
     {"ev":"emit_end","k":n,"ok":bool}           that export call returns
     {"ev":"split","req":r,"merged":bool,"parts":[{"n":items,"reqs":[r,..]},..]}
                                                 batch scripts: the batcher consumed request r, and its MergeSplit
                                                 call returned these parts (merged: with the held batch; per part the
                                                 number of items and the requests whose containers it holds; the order
                                                 of these lines is the order of consumption).  Not judged here -- the
                                                 statement speaks about what reaches the export function and about the
                                                 callbacks; it is recorded so that a callback verdict can be explained
                                                 (a returned part WITHOUT items is invisible when the batcher holds it)
     {"ev":"done","req":r,"err":bool,..}         batch scripts: Send(r) returned = the callback fired
     {"ev":"timeout","what":text}                the script did not finish (10 s / 1 GiB watchdog, confirmed
                                                 by a second run)
     {"ev":"quiesce"}                            everything returned and Shutdown is over
     {"ev":"end"}
   The order of the lines is the order in which the recorder's mutex was taken.

   Items left at their defaults (PayloadFill.tla) have no id of their own.  The recorder gives such an item
   that leaves the id of an indistinguishable item (same content, same context) that entered and has not left
   yet; failing that, of one that differs in the metric descriptor only; failing that, an id nobody entered.
   Indistinguishable items are interchangeable for every clause below, so this reads the clauses on them as
   "as many leave as entered, in the same contexts" -- they are counted, not tracked.

   The monitor is as nondeterministic as the statement: ANY partition into parts that conserves the
   bag, keeps every context and respects max (or holds a single item) is accepted, and any timing of
   the callbacks that is exactly-once, after-parts and error-iff.  A false clause does not stop the
   run: it is printed as <<"VIOL", json>> so that every script of the file gets its verdict. *)
EXTENDS BatcherObs, Json

Log == ndJsonDeserialize("observed.ndjson")

VARIABLES l, sid, kind, max, nchecks
tvars == <<l, sid, kind, max, nchecks, obsVars>>

TInit == ObsInit /\ l = 1 /\ sid = 0 /\ kind = "" /\ max = 0 /\ nchecks = 0
E == Log[l]

Report(clause, holds, detail) ==
  IF holds THEN TRUE
  ELSE PrintT(<<"VIOL", ToJson([sid |-> sid, line |-> l, clause |-> clause, detail |-> detail])>>)

ItemsOf(e) == [i \in DOMAIN e.items |-> [id |-> e.items[i].id, ctx |-> e.items[i].c]]

TReset ==
  /\ E.ev = "reset"
  /\ entered' = <<>> /\ batches' = <<>> /\ dones' = <<>>
  /\ sid' = E.sid /\ kind' = E.kind /\ max' = E.max
  /\ UNCHANGED nchecks

TConsume ==
  /\ E.ev = "consume"
  /\ entered' = entered @@ (E.req :> ItemsOf(E))
  /\ dones' = dones @@ (E.req :> <<>>)
  /\ UNCHANGED <<batches, sid, kind, max, nchecks>>

TEmit ==
  /\ E.ev = "emit"
  /\ LET b == [items |-> ItemsOf(E), reqs |-> {E.reqs[i] : i \in DOMAIN E.reqs}, size |-> E.size,
               state |-> "open", ok |-> TRUE] IN
       /\ Report("Conservation", BatchFresh(b, AllBatchIds),
                 <<ItemIds(b.items) \cap AllBatchIds, ItemIds(b.items) \ EnteredIds>>)
       /\ Report("Identity", BatchIdentity(b),
                 {<<b.items[i].id, b.items[i].ctx, CtxOf(b.items[i].id)>> : i \in {j \in DOMAIN b.items :
                      b.items[j].id \in EnteredIds /\ b.items[j].ctx # CtxOf(b.items[j].id)}})
       /\ Report("SizeBound", BatchSize(b, max), <<b.size, max, Len(b.items)>>)
       /\ batches' = Append(batches, b)
  /\ nchecks' = nchecks + 3
  /\ UNCHANGED <<entered, dones, sid, kind, max>>

TEmitEnd ==
  /\ E.ev = "emit_end"
  /\ batches' = [batches EXCEPT ![E.k] = [@ EXCEPT !.state = "closed", !.ok = E.ok]]
  /\ UNCHANGED <<entered, dones, sid, kind, max, nchecks>>

TDone ==
  /\ E.ev = "done"
  /\ LET r == E.req
         held == EnteredIds \ AllBatchIds
     IN /\ Report("DoneOnce", Len(dones[r]) = 0, <<r, "fired again">>)
        /\ Report("DoneAfterParts", FiredAfterPartsIn(batches, r, held),
                  <<r, held \cap ItemIds(entered[r]), {k \in PartsIn(batches, r) : batches[k].state # "closed"}>>)
        /\ Report("DoneErrIff", FiredErrIffIn(batches, r, E.err),
                  <<r, E.err, {k \in PartsLooseIn(batches, r) : ~batches[k].ok}>>)
        /\ dones' = [dones EXCEPT ![r] = Append(@, [err |-> E.err, after |-> TRUE, iff |-> TRUE])]
  /\ nchecks' = nchecks + 3
  /\ UNCHANGED <<entered, batches, sid, kind, max>>

TSplitInfo ==
  /\ E.ev = "split"
  /\ UNCHANGED <<obsVars, sid, kind, max, nchecks>>

\* "Merging and splitting always terminate" / "the callback fires"
TTimeout ==
  /\ E.ev = "timeout"
  /\ Report("Terminates", FALSE, E.what)
  /\ nchecks' = nchecks + 1
  /\ UNCHANGED <<obsVars, sid, kind, max>>

TQuiesce ==
  /\ E.ev = "quiesce"
  /\ Report("Conservation", Conserved, <<"entered but never emitted", EnteredIds \ AllBatchIds>>)
  /\ Report("DoneOnce", kind # "batch" \/ AllDone,
            <<"never fired", {r \in DOMAIN entered : Len(dones[r]) = 0}>>)
  /\ Report("Terminates", \A k \in DOMAIN batches : batches[k].state = "closed", "export still open")
  /\ nchecks' = nchecks + 3
  /\ UNCHANGED <<obsVars, sid, kind, max>>

TEnd ==
  /\ E.ev = "end"
  /\ PrintT(<<"DONE", ToJson([lines |-> l, checks |-> nchecks])>>)
  /\ UNCHANGED <<obsVars, sid, kind, max, nchecks>>

TNext == /\ l <= Len(Log)
         /\ l' = l + 1
         /\ TReset \/ TConsume \/ TEmit \/ TEmitEnd \/ TSplitInfo \/ TDone \/ TTimeout \/ TQuiesce \/ TEnd
TSpec == TInit /\ [][TNext]_tvars
=============================================================================
