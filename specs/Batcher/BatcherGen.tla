----------------------------- MODULE BatcherGen -----------------------------
(* Behaviour generator for C04: sequences of request payloads (shape x big item x fill) x sizer x max.

   Every behaviour is printed as [sizer, max, reqs, expect]:
     reqs    sequence of <<shape index into BatcherShapes, flat position of the big item (0 = none),
             fill index into StdFills (PayloadFill.tla: which elements are left at their defaults)>>
     expect  items sizer: the parts MergeSplit is specified to return when the requests are folded the
             way the batcher does (BatcherSplit!FoldP), each part a sequence of <<k, j>> (k-th
             request, j-th item of it); bytes sizer: <<>> -- split points are implementation
             freedom there and only the monitor (BatcherTrace.tla) judges the run
   harness/batcher builds real requests of the four signals from the shapes and replays them. *)
EXTENDS BatcherSplit, PayloadFill, BatcherGenParams, Json, TLC

VARIABLES gconf, greqs

\* abstract weights: a big item 9, an ordinary item 1, an item left at its defaults 0 (a big item is never left so)
ItemsFor(idx, kb) ==
  LET ctxs == Flatten(BatcherShapes[kb[1]])
  IN [j \in 1..Len(ctxs) |-> [id |-> <<idx, j>>, ctx |-> ctxs[j],
                              w |-> IF j = kb[2] THEN 9 ELSE IF Chosen(StdFills[kb[3]].item, j) THEN 0 ELSE 1]]

BigChoices(sizer, k) ==
  IF sizer = "bytes"
    THEN 0..(IF ItemCount(BatcherShapes[k]) < ParamBigMax THEN ItemCount(BatcherShapes[k]) ELSE ParamBigMax)
    ELSE {0}

GInit == gconf \in ParamConfs /\ greqs = <<>>
GNext == /\ Len(greqs) < ParamN
         /\ \E k \in ParamShapeSel : \E b \in BigChoices(gconf[1], k) : \E f \in ParamFillSel :
               greqs' = Append(greqs, <<k, b, f>>)
         /\ UNCHANGED gconf
GenSpec == GInit /\ [][GNext]_<<gconf, greqs>>

IdsOf(part) == [i \in DOMAIN part |-> part[i].id]
Expected ==
  IF gconf[1] # "items" THEN <<>>
  ELSE LET f == FoldP([i \in DOMAIN greqs |-> ItemsFor(i, greqs[i])], <<>>, <<>>, "items", gconf[2], "alone")
       IN [i \in DOMAIN f.parts |-> IdsOf(f.parts[i])]

Emit == Len(greqs) = ParamN =>
          PrintT(<<"BEH", ToJson([sizer |-> gconf[1], max |-> gconf[2], reqs |-> greqs, expect |-> Expected])>>)
=============================================================================
