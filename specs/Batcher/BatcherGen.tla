----------------------------- MODULE BatcherGen -----------------------------
(* Behaviour generator for C04: sequences of request shapes x sizer x max.

   Every behaviour is printed as [sizer, max, reqs, expect]:
     reqs    sequence of <<shape index into StdShapes, flat position of the big item (0 = none)>>
     expect  items sizer: the parts MergeSplit is specified to return when the requests are folded the
             way the batcher does (BatcherSplit!FoldP), each part a sequence of <<k, j>> (k-th
             request, j-th item of it); bytes sizer: <<>> -- split points are implementation
             freedom there and only the monitor (BatcherTrace.tla) judges the run
   harness/batcher builds real requests of the four signals from the shapes and replays them. *)
EXTENDS BatcherSplit, TelemetryShape, BatcherGenParams, Json, TLC

VARIABLES gconf, greqs

ItemsFor(idx, kb) ==
  LET ctxs == Flatten(StdShapes[kb[1]])
  IN [j \in 1..Len(ctxs) |-> [id |-> <<idx, j>>, ctx |-> ctxs[j], w |-> IF j = kb[2] THEN 9 ELSE 1]]

BigChoices(sizer, k) ==
  IF sizer = "bytes"
    THEN 0..(IF ItemCount(StdShapes[k]) < ParamBigMax THEN ItemCount(StdShapes[k]) ELSE ParamBigMax)
    ELSE {0}

GInit == gconf \in ParamConfs /\ greqs = <<>>
GNext == /\ Len(greqs) < ParamN
         /\ \E k \in ParamShapeSel : \E b \in BigChoices(gconf[1], k) : greqs' = Append(greqs, <<k, b>>)
         /\ UNCHANGED gconf
GenSpec == GInit /\ [][GNext]_<<gconf, greqs>>

IdsOf(part) == [i \in DOMAIN part |-> part[i].id]
Expected ==
  IF gconf[1] # "items" THEN <<>>
  ELSE LET f == FoldP([i \in DOMAIN greqs |-> ItemsFor(i, greqs[i])], <<>>, <<>>, "items", gconf[2], "alone")
       IN [i \in DOMAIN f.parts |-> IdsOf(f.parts[i])]

Emit == Len(greqs) = ParamN =>
          PrintT(<<"BEH", ToJson([sizer |-> gconf[1], max |-> gconf[2], reqs |-> greqs, expect |-> Expected])>>)
=============================================================================
