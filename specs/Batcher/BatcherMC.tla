------------------------------ MODULE BatcherMC ------------------------------
(* Exhaustive design check of Batcher: three requests, all interleavings of producers, the consumer,
   the timer, export completions (with failures) and shutdown. *)
EXTENDS Batcher

I(id, ctx, w) == [id |-> id, ctx |-> ctx, w |-> w]
\* r1: 3 items, r2: 1 item, r3: 5 items with one heavy item (weight 4), r4: empty, r5: heavy item first,
\* r6: heavy item last (with max 3 in bytes it is sent alone and nothing is left: the remainder without items)
MCItems == ("r1" :> <<I(11, "a", 1), I(12, "a", 1), I(13, "b", 1)>>) @@
           ("r2" :> <<I(21, "c", 1)>>) @@
           ("r3" :> <<I(31, "d", 1), I(32, "d", 4), I(33, "e", 1), I(34, "e", 1), I(35, "e", 1)>>) @@
           ("r4" :> <<>>) @@
           ("r5" :> <<I(51, "f", 3), I(52, "f", 1)>>) @@
           ("r6" :> <<I(61, "g", 1), I(62, "g", 4)>>)
=============================================================================
