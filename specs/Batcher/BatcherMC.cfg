SPECIFICATION Spec
CONSTANTS
  Reqs = {"r1", "r2", "r3"}
  ItemsOf <- MCItems
  Sizer = "items"
  MaxSize = 2
  MinSize = 2
  CanFail = TRUE
  Oversized = "alone"
  AttachFirst = "always"
  Remainder = "kept"
INVARIANT PropertyKnown
CHECK_DEADLOCK FALSE
