--------------------------- MODULE PayloadFillLib ---------------------------
(* Prints the payload universe of C04 as JSON (shapes, fills, and for every shape x fill the mask of the
   elements left at their defaults), so that the check builds real payloads from exactly what the
   specifications use.   tlc -config: INIT LibInit / NEXT LibNext *)
EXTENDS PayloadFill, Json, TLC
VARIABLE done
LibInit == done = FALSE
\* printed from the step, not from Init: TLC wraps long values printed while it computes the initial states
LibNext == /\ ~done /\ done' = TRUE
           /\ PrintT(<<"LIB", ToJson([shapes |-> BatcherShapes, fills |-> StdFills, masks |-> Masks,
                                      attributable |-> [f \in DOMAIN StdFills |-> Attributable(StdFills[f])]])>>)
=============================================================================
