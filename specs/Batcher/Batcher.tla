------------------------------- MODULE Batcher -------------------------------
(* C04 -- implementation-shaped model of exporter-side batching:
     exporterhelper/{logs,traces,metrics}_batch.go, xexporterhelper/profiles_batch.go  (MergeSplit)
     exporterhelper/internal/queuebatch/default_batcher.go                              (defaultBatcher)
   behind a memory queue with wait_for_result (how the callbacks are observable from outside).

   One action per critical section of the Go code:
     Send(r)         memoryQueue.Offer: the producer hands the request in and blocks for the result
                     (requests of size 0 are acknowledged at once and never reach the batcher)
     Consume         defaultBatcher.Consume under currentBatchMu: MergeSplit with the current batch,
                     both branches (no current batch / current batch), min_size test on the last
                     part, refCountDone when the request is spread over several parts; the parts to
                     flush are remembered and flushed after the lock is released
     FlushStart(w)   defaultBatcher.flush: take a worker token (blocks while none is free), start the
                     export goroutine = the export function is called
     ExportDone(ok)  the export function returns; multiDone / refCountDone fire; token returned
     TimerFire       flushCurrentBatchIfNecessary from the timer goroutine
     Shutdown        QueueBatch.Shutdown after the queue is drained: last flush, wait for exports

   MergeSplit(cur, new, max) works on the flat projection of the payloads (TelemetryShape.tla): the code
   appends the new request's resources to the current one and extracts repeatedly walking
   resource -> scope -> (metric) -> item in order.
     items sizer: consecutive chunks of exactly max items, remainder last (deterministic)
     bytes sizer: modelled with abstract item weights as "longest prefix that fits"; the real split
                  points depend on protobuf framing, so for bytes the model is only one admissible
                  refinement and nothing but the monitor clauses is compared with the code.
   Oversized = what MergeSplit does when not even the first item fits into max (bytes):
     "alone"  the item is emitted alone (what the statement allows; the repaired code)
     "hang"   the extraction makes no progress and the loop never ends (the pinned code)

   Remainder = what split() does with a remainder that holds no item any more (BatcherSplit.tla): "dropped" / "kept".
   With "kept" (the pinned code) Consume counts the request's completion on that part too and, as it is smaller
   than min_size, keeps it as the current batch: the callback then rides on whatever is merged into it.

   Deviations from the code, named: contexts/links merging of batch contexts is not modelled; the
   byte overhead of containers is not modelled; the worker pool has one token (NumConsumers is
   forced to 1 when batching is configured). *)
EXTENDS BatcherObs, BatcherSplit, SequencesExt

CONSTANTS
  Reqs,        \* set of request names
  ItemsOf,     \* function request -> sequence of [id, ctx, w]   (w = abstract byte weight)
  Sizer,       \* "items" | "bytes"
  MaxSize, MinSize,
  CanFail,     \* may the export function fail
  Oversized,   \* "alone" | "hang"        (see BatcherSplit.tla)
  AttachFirst, \* "ifgrew": the callback of a request is attached to the first part of a merge only when that
               \*           part holds some of its data (the statement; the repaired code)
               \* "always": it is attached unconditionally (the pinned code)
  Remainder    \* "dropped": a remainder without items is not a part (the statement; the repaired code)
               \* "kept":    split() returns it as a last part without items (the pinned code)

VARIABLES
  tosend,     \* requests not yet handed in
  queue,      \* the memory queue (sequence of requests)
  cur,        \* currentBatch: [items, dones] or NoBatch
  cflush,     \* parts the consumer goroutine still has to flush (after Consume released the lock)
  tflush,     \* same for the timer / shutdown goroutine
  inflight,   \* the export in progress: <<>> or <<[k, dones]>>  (k = index into batches)
  wrapped,    \* request -> its done is a refCountDone
  refc, rerr, \* request -> remaining references / accumulated error of its refCountDone
  hung,       \* MergeSplit did not return
  stopping    \* Shutdown was called

implVars == <<tosend, queue, cur, cflush, tflush, inflight, wrapped, refc, rerr, hung, stopping>>
vars == <<implVars, obsVars>>

\* riders (ghost): requests whose callback is attached to the batch although it holds none of their items
NoBatch == [items |-> <<>>, dones |-> <<>>, none |-> TRUE, riders |-> {}]
B(items, ds) == [items |-> items, dones |-> ds, none |-> FALSE, riders |-> {}]
\* a part MergeSplit returned for request r alone; without items (Remainder = "kept") r rides on it from the start
P(items, r) == [B(items, <<r>>) EXCEPT !.riders = IF items = <<>> THEN {r} ELSE {}]

Strip(s)  == [i \in DOMAIN s |-> [id |-> s[i].id, ctx |-> s[i].ctx]]
SizeOf(s) == SizeOfP(s, Sizer)
MergeSplit(curItems, newItems) == MergeSplitTP(curItems, newItems, Sizer, MaxSize, Oversized, Remainder)

---------------------------------------------------------------------------
Init ==
  /\ ObsInit
  /\ tosend = Reqs /\ queue = <<>> /\ cur = NoBatch /\ cflush = <<>> /\ tflush = <<>> /\ inflight = <<>>
  /\ wrapped = [r \in Reqs |-> FALSE] /\ refc = [r \in Reqs |-> 0] /\ rerr = [r \in Reqs |-> FALSE]
  /\ hung = FALSE /\ stopping = FALSE

\* ids that are still on their way to the export function (for DoneAfterParts)
HeldIn(c, cf, tf, q) ==
  ItemIds(c.items) \cup UNION {ItemIds(cf[i].items) : i \in DOMAIN cf} \cup UNION {ItemIds(tf[i].items) : i \in DOMAIN tf}
  \cup UNION {ItemIds(ItemsOf[q[i]]) : i \in DOMAIN q}

\* callback firings: rs = set of requests whose callback fires in this step, errOf[r] its flag
Fire(rs, errOf, bs, held) ==
  dones' = [r \in DOMAIN dones |->
              IF r \in rs THEN Append(dones[r], [err |-> errOf[r],
                                                 after |-> FiredAfterPartsIn(bs, r, held),
                                                 iff |-> FiredErrIffIn(bs, r, errOf[r])])
              ELSE dones[r]]

Send(r) ==
  /\ r \in tosend /\ ~stopping /\ ~hung
  /\ tosend' = tosend \ {r}
  /\ entered' = entered @@ (r :> Strip(ItemsOf[r]))
  /\ IF SizeOf(ItemsOf[r]) = 0
       THEN \* memoryQueue.Offer ignores empty requests: acknowledged without error, nothing to emit
            /\ dones' = dones @@ (r :> <<[err |-> FALSE, after |-> TRUE, iff |-> TRUE]>>)
            /\ UNCHANGED queue
       ELSE /\ dones' = dones @@ (r :> <<>>)
            /\ queue' = Append(queue, r)
  /\ UNCHANGED <<cur, cflush, tflush, inflight, wrapped, refc, rerr, hung, stopping, batches>>

\* defaultBatcher.Consume (the single consumer goroutine; it is busy while it still has parts to flush)
Consume ==
  /\ queue # <<>> /\ cflush = <<>> /\ ~hung
  /\ LET r   == Head(queue)
         ms  == MergeSplit(cur.items, ItemsOf[r])
         lst == ms.parts
     IN /\ queue' = Tail(queue)
        /\ IF ~ms.ok
             THEN /\ hung' = TRUE
                  /\ UNCHANGED <<cur, cflush, wrapped, refc>>
             ELSE LET n == Len(lst)
                      \* does the first part hold anything of r?  (It does not when r's first item did not
                      \* fit next to the current batch.)  The pinned code attaches r's callback to it anyway.
                      inFirst == AttachFirst = "always" \/ cur.none \/ n = 1 \/ Len(lst[1]) > Len(cur.items)
                      flushes == IF inFirst THEN n ELSE n - 1
                  IN
                  /\ hung' = FALSE
                  /\ wrapped' = [wrapped EXCEPT ![r] = flushes > 1]
                  /\ refc' = [refc EXCEPT ![r] = IF flushes > 1 THEN flushes ELSE 0]
                  /\ IF cur.none
                       THEN LET keepLast == SizeOf(lst[n]) < MinSize IN
                            /\ cur' = IF keepLast THEN P(lst[n], r) ELSE NoBatch
                            /\ cflush' = [i \in 1..(IF keepLast THEN n - 1 ELSE n) |-> P(lst[i], r)]
                       ELSE LET grew       == n = 1 \/ Len(lst[1]) > Len(cur.items)
                                first      == [B(lst[1], IF inFirst THEN Append(cur.dones, r) ELSE cur.dones)
                                                 EXCEPT !.riders = IF inFirst /\ ~grew THEN cur.riders \cup {r} ELSE cur.riders]
                                flushFirst == n > 1 \/ SizeOf(lst[1]) >= MinSize
                                rest       == SubSeq(lst, 2, n)
                                keepLast   == rest # <<>> /\ SizeOf(rest[Len(rest)]) < MinSize
                                restFl     == [i \in 1..(IF keepLast THEN Len(rest) - 1 ELSE Len(rest)) |-> P(rest[i], r)]
                            IN /\ cur' = IF keepLast THEN P(rest[Len(rest)], r)
                                         ELSE IF flushFirst THEN NoBatch ELSE first
                               /\ cflush' = IF flushFirst THEN <<first>> \o restFl ELSE restFl
  /\ UNCHANGED <<tosend, tflush, inflight, rerr, stopping, obsVars>>

\* flush(): blocks until the worker token is free, then the export function is called
FlushStart(who) ==
  /\ inflight = <<>>
  /\ LET lst == IF who = "consumer" THEN cflush ELSE tflush IN
       /\ lst # <<>>
       \* a part without items is what is left of the requests riding on it: it holds their containers
       /\ batches' = Append(batches, [items |-> Strip(Head(lst).items),
                                      reqs |-> IF Head(lst).items = <<>> THEN Head(lst).riders ELSE {},
                                      size |-> SizeOf(Head(lst).items),
                                      state |-> "open", ok |-> TRUE, riders |-> Head(lst).riders])
       /\ inflight' = <<[k |-> Len(batches) + 1, dones |-> Head(lst).dones]>>
       /\ IF who = "consumer" THEN cflush' = Tail(cflush) /\ UNCHANGED tflush
                              ELSE tflush' = Tail(tflush) /\ UNCHANGED cflush
  /\ UNCHANGED <<tosend, queue, cur, wrapped, refc, rerr, hung, stopping, entered, dones>>

\* the export function returns: done.OnDone(err) on the batch's multiDone
ExportDone(ok) ==
  /\ inflight # <<>> /\ (ok \/ CanFail)
  /\ LET f   == inflight[1]
         ds  == ToSet(f.dones)
         bs  == [batches EXCEPT ![f.k] = [@ EXCEPT !.state = "closed", !.ok = ok]]
         nre == [r \in Reqs |-> IF r \in ds /\ wrapped[r] THEN rerr[r] \/ ~ok ELSE rerr[r]]
         nrc == [r \in Reqs |-> IF r \in ds /\ wrapped[r] THEN refc[r] - 1 ELSE refc[r]]
         fired == {r \in ds : ~wrapped[r] \/ nrc[r] = 0}
         errOf == [r \in Reqs |-> IF wrapped[r] THEN nre[r] ELSE ~ok]
     IN /\ batches' = bs /\ rerr' = nre /\ refc' = nrc
        /\ Fire(fired, errOf, bs, HeldIn(cur, cflush, tflush, queue))
  /\ inflight' = <<>>
  /\ UNCHANGED <<tosend, queue, cur, cflush, tflush, wrapped, hung, stopping, entered>>

\* flushCurrentBatchIfNecessary (timer goroutine, and Shutdown)
TakeCurrent ==
  /\ tflush = <<>> /\ ~cur.none /\ ~hung
  /\ tflush' = <<cur>> /\ cur' = NoBatch
  /\ UNCHANGED <<tosend, queue, cflush, inflight, wrapped, refc, rerr, hung, stopping, obsVars>>

\* QueueBatch.Shutdown: the queue is drained first, then the batcher flushes what it holds
Shutdown ==
  /\ ~stopping /\ tosend = {} /\ queue = <<>> /\ cflush = <<>> /\ ~hung
  /\ stopping' = TRUE
  /\ UNCHANGED <<tosend, queue, cur, cflush, tflush, inflight, wrapped, refc, rerr, hung, obsVars>>

Next ==
  \/ \E r \in Reqs : Send(r)
  \/ Consume
  \/ FlushStart("consumer") \/ FlushStart("timer")
  \/ \E ok \in BOOLEAN : ExportDone(ok)
  \/ TakeCurrent
  \/ Shutdown

Spec == Init /\ [][Next]_vars

---------------------------------------------------------------------------
(* The property on the model *)
Quiescent == stopping /\ cur.none /\ cflush = <<>> /\ tflush = <<>> /\ inflight = <<>>

Terminates     == ~hung
DoneOnce       == DoneAtMostOnce /\ (Quiescent => AllDone)
DoneAfterParts == \A r \in DOMAIN dones : \A i \in DOMAIN dones[r] : dones[r][i].after
DoneErrIff     == \A r \in DOMAIN dones : \A i \in DOMAIN dones[r] : dones[r][i].iff
ConservedAtEnd == Quiescent => Conserved

Property == /\ Conservation /\ ConservedAtEnd /\ Identity /\ SizeBound(MaxSize) /\ Terminates
            /\ DoneOnce /\ DoneAfterParts /\ DoneErrIff

(* Open known findings C04-done-first-part (the tree attaches unconditionally, AttachFirst = "always") and
   C04-split-dataless-remainder (the tree returns a remainder without items as a part, Remainder = "kept"):
   a request is reported failed because a failed batch carried its callback without holding any of
   its items.  The model keeps describing what the code does; the invariant is checked in the form
   Inv \/ KnownPredicate: a false "iff" verdict is tolerated exactly when it is an error report that
   such a batch explains.  Every other way of violating DoneErrIff still fails the run. *)
KnownRider(r, i) == /\ AttachFirst = "always" \/ Remainder = "kept"
                    /\ dones[r][i].err
                    /\ \E k \in DOMAIN batches : Failed(batches, k) /\ r \in batches[k].riders
DoneErrIffOrKnown == \A r \in DOMAIN dones : \A i \in DOMAIN dones[r] : dones[r][i].iff \/ KnownRider(r, i)
PropertyKnown == /\ Conservation /\ ConservedAtEnd /\ Identity /\ SizeBound(MaxSize) /\ Terminates
                 /\ DoneOnce /\ DoneAfterParts /\ DoneErrIffOrKnown
=============================================================================
