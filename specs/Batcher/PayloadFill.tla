----------------------------- MODULE PayloadFill -----------------------------
(* C04 -- what a payload of a given shape (TelemetryShape.tla) is FILLED with.

   The statement quantifies over "every telemetry payload ... arbitrary nesting, empty containers".
   A shape fixes the nesting; a fill fixes which of its elements carry content and which are left at
   their protobuf defaults.  An element left at its defaults has an empty or minimal encoding: a data
   point of a gauge / sum / histogram / summary and a Metric entry without name and data encode to
   ZERO bytes (an exponential histogram point, a log record, a span, a scope, a resource to a handful),
   which is where the byte accounting of the splitters (length-prefix deltas) is least forgiving.

   A fill is a record of four selectors, one per level; a selector picks elements by an index:
     item      flat position j of the item in the request                 (TelemetryShape!Flatten)
     metric    r + s + m of the metric's path  (profiles: the Profile; logs / traces have no such level)
     scope     r + s     of the scope's path
     resource  r         of the resource
   What "left at its defaults" means for the harness (harness/batcher/cmd/payload.go):
     item      appended and not touched: no attributes (hence NO "id" attribute: the item is anonymous),
               no value, no timestamps, no body / name / ids; a big item is never left at its defaults
     metric    a metric without data points: an empty Metric entry (no name, no type: 0 bytes);
               a metric with data points: its type and a one-letter name, nothing else (no unit,
               description, metadata; temporality / monotonicity at their defaults).  A metric that holds
               data points is never unnamed: an unnamed metric with a type and no data point is what the
               extraction of the real code leaves behind (open finding C04-metric-shell-overshoots-bytes)
               and must stay recognisable
     scope     no name / version / attributes / dropped count, no scope schema URL
     resource  no attributes / dropped count, no resource schema URL

   Identity of anonymous items.  An item without an id can only be told from another one by what it is
   and where it sits (its context).  Items that agree in all of that are INDISTINGUISHABLE: the
   statement's "multiset of items" counts them, it cannot track them.  The recorder therefore gives an
   anonymous item that leaves the id of an anonymous item that entered with exactly the same content
   and context and has not left yet (any of them: they are interchangeable for every clause); the
   clauses of BatcherObs.tla then read on anonymous items as
     Conservation  as many leave as entered, per class of indistinguishable items
     Identity      an item that leaves with a context no entered item of its content has is paired with
                   an entered item that differs in the metric descriptor only (if there is one: the
                   clause then reports the pair), otherwise it is an item nobody entered (Conservation)
     callbacks     need the request an item belongs to: exact while the resource carries content (the
                   harness tags every resource it fills with the request), which is why fills that blank
                   resources (Attributable = FALSE) are used for MergeSplit folds only, where no callback
                   is observed. *)
EXTENDS TelemetryShape

Chosen(sel, i) == CASE sel = "none" -> FALSE
                    [] sel = "all"  -> TRUE
                    [] sel = "odd"  -> i % 2 = 1
                    [] sel = "even" -> i % 2 = 0
                    [] sel = "rest" -> i > 1           \* all but the first

StdFills == <<
  [item |-> "none", metric |-> "none", scope |-> "none", resource |-> "none"],  \* 1: ordinary, everything carries content
  [item |-> "all",  metric |-> "none", scope |-> "none", resource |-> "none"],  \* 2: default items in ordinary containers
  [item |-> "odd",  metric |-> "none", scope |-> "none", resource |-> "none"],  \* 3: default and ordinary items alternate
  [item |-> "all",  metric |-> "all",  scope |-> "all",  resource |-> "none"],  \* 4: bare below the resource
  [item |-> "rest", metric |-> "even", scope |-> "odd",  resource |-> "none"],  \* 5: mixed, first item ordinary
  [item |-> "all",  metric |-> "all",  scope |-> "all",  resource |-> "all"],   \* 6: everything at its defaults
  [item |-> "even", metric |-> "odd",  scope |-> "even", resource |-> "odd"]    \* 7: mixed at every level
>>
Attributable(f) == f.resource = "none"

(* The shapes of C04: the standard library plus shapes with long runs of items / of empty metrics, so
   that many elements of (nearly) no size share one part and a split falls inside such a run. *)
LongShapes == <<
   << << <<60>> >> >>,                                                      \* 10: one metric with sixty items
   << << <<0, 0, 0, 20, 0, 0, 0, 0, 40, 0>> >> >>,                          \* 11: two long metrics between empty ones
   << << <<0, 0, 0, 0, 0, 0, 0, 0, 0, 0, 0, 0, 0, 0, 0, 2,
            0, 0, 0, 0, 0, 0, 0, 0, 0, 0, 0, 0, 0, 0, 0, 1>>, <<16>> >>,
      << <<>>, <<0, 0, 0>>, <<3>> >> >>                                      \* 12: runs of empty metrics around few items
>>
BatcherShapes == StdShapes \o LongShapes

\* which elements of a payload of the given shape the fill leaves at their defaults (same nesting as the shape)
Mask(shape, f) ==
  [ item     |-> [j \in 1..ItemCount(shape) |-> Chosen(f.item, j)],
    metric   |-> [r \in DOMAIN shape |-> [s \in DOMAIN shape[r] |-> [m \in DOMAIN shape[r][s] |-> Chosen(f.metric, r + s + m)]]],
    scope    |-> [r \in DOMAIN shape |-> [s \in DOMAIN shape[r] |-> Chosen(f.scope, r + s)]],
    resource |-> [r \in DOMAIN shape |-> Chosen(f.resource, r)] ]

Masks == [k \in DOMAIN BatcherShapes |-> [f \in DOMAIN StdFills |-> Mask(BatcherShapes[k], StdFills[f])]]
=============================================================================
