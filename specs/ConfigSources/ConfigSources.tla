---------------------------- MODULE ConfigSources ----------------------------
(* E09 -- ConfigSources: how the collector assembles its effective raw configuration from its command line
   (--config, --set) and the configuration providers (file, env, yaml, http).  STATEMENT-LEVEL SPECIFICATION, written from the
   flag help texts (otelcol/flags.go), service/README.md ("How to provide configuration?", "How to override config
   properties?"), confmap/README.md ("Configuration Resolving"), the doc comments of confmap.ResolverSettings /
   confmap.NewResolver / confmap.Provider / otelcol.NewCommand and of the providers' NewFactory + READMEs.
   Expansion of ${..} references and the merge of two trees are C12's (specs/ConfResolve): the merge operator and the
   tree encoding are REUSED from ConfMerge.tla (instantiated below; checks/E09.py copies the file next to this module
   with the files= argument of c.tlc -- to run this module by hand copy specs/ConfResolve/ConfMerge.tla here).

   Statement (record form, also in checks/E09.py):
     title      effective configuration = merge of the --config sources in order, then the --set entries in order
     statement  (C1) --config is repeatable, one location per entry; --set is repeatable; every --set entry is applied
                     AFTER all --config sources, whatever its position on the command line, and in the order given:
                     the effective raw configuration (Conf.ToStringMap before unmarshalling) is the right-biased
                     key-by-key merge of the documents of the --config locations, in order, followed by the --set
                     entries, in order ("has a higher precedence", "arrays are overridden and maps are joined").
                (C2) --set key=value is the YAML document `key: value`; "." in the key separates nested map keys; the
                     value is YAML (scalar of any type, empty = null, [..] list, {..} map); inside the value "::" in a
                     map key separates nested keys ("name={a::b: c}" == "name.a.b=c"); the first "=" ends the key
                     (a key cannot contain "="); an entry without "=" is an error of the command line.
                (C3) a location is "<scheme>:<opaque>" and is given to the provider of that scheme; a location without
                     a scheme is a file path (also a Windows drive letter: one letter before ":"); a well-formed scheme
                     (letter, then letters / digits / + . -, at least 2 characters) without provider is an error;
                     without any location (no flag, no default URI) configuration resolution is an error; URIs present
                     in the settings are defaults and are overwritten by the --config flags.
                (C4) file:<path> (relative or absolute) = the file's content as YAML, unreadable file = error;
                     env:<NAME> = the variable's value as YAML, a NAME not matching ^[a-zA-Z_][a-zA-Z0-9_]*$ = error,
                     env:<NAME>:-<default> = the default when the variable is not set; yaml:<bytes> = the bytes as
                     YAML, where "::" in a key separates nested keys (yaml:processors::batch::timeout: 2s);
                     http://<host>/<path> = the body of the server's answer as YAML.
                (C5) a source whose content is not a YAML mapping (not valid YAML, a scalar, a list) is an error; an
                     error of any source makes the whole resolution fail (no partial configuration).
                (C6) ${NAME} / ${env:NAME} in a document are expanded with the env provider AFTER all sources are
                     merged (default scheme "env" set by the command): cross-check only, expansion itself is C12.
     quantifier every command line of at most 3 --config (file / env / yaml / scheme-less / unknown scheme) and 3 --set
                entries over small documents with overlapping nested keys, provider faults, default URIs on / off
     anchors    otelcol/flags.go (flags, configFlagValue, getConfigFlag), otelcol/command.go (updateSettingsUsingFlags),
                otelcol/configprovider.go, otelcol/command_print.go, confmap/resolver.go (NewResolver, Resolve),
                confmap/provider.go (NewRetrievedFromYAML, AsConf), confmap/confmap.go (NewFromStringMap, KeyDelimiter),
                confmap/provider/{fileprovider,envprovider,yamlprovider}/provider.go

   Where the documentation is silent the specification admits every behaviour (Effective is a SET of outcomes):
     (S1) only --set flags on a command whose settings carry default URIs: "defaults ... overwritten by config flags":
          whether --set alone counts as a config flag is not said -> defaults kept or dropped, both admitted.
     (S2) env:<NAME>:-<default> when NAME is set to the empty string: README / doc comment only speak of the variable
          that "has not been set" / is "unset" (shell ":-" also covers the empty value) -> empty document or default.
     (S3) a location whose text before the first ":" is neither a well-formed scheme nor one letter ("_:x", "1a:x",
          ":x"): error, or read as a file path (service/README: "accepts either a file path or ... URI").
     (S4) "::" in the KEY part of --set (documented only for the value part and for yaml: URIs): nested, or an error.
     (S5) which failing source an error names, and every error text: not compared (only error vs. configuration).
     (S7) an EMPTY document (empty file, unset / empty variable, "yaml:") as a top-level source: contributes nothing,
          or is an error; both admitted (AsConf's handling of a nil value is not documented).
     (S8) documents in which a "::" key overlaps a sibling key of the same map, empty key segments ("a..b", "=v"),
          white space around the key / "=", values that are not one YAML scalar / flow list / flow map: not generated.
     (S9) an http location answered with a status other than 200: error, or the body is used all the same.

   Encoding.  Texts are sequences of ATOMS; the concrete string is the concatenation of the atoms' texts.  Single
   characters are atoms of their own wherever the syntax is defined character by character (scheme, drive letter,
   environment variable name); ":", ":-", "::", ".", "=" are atoms of their own and no other atom contains ":" or "=";
   an atom starting with "@" names a document / value of the plan's tables (DocTable / ValTable, rendered to YAML text
   by checks/E09.py), "%ABS/" is the absolute path of the scratch directory.
   Trees are ConfMerge trees: function key -> Leaf(name) | MapV(function).                                          *)
EXTENDS Integers, Sequences, FiniteSets, TLC, CSPlan

CM == INSTANCE ConfMerge WITH Keys <- {}, LeafNames <- {}, Depth <- 1, NSrc <- 0, Small <- FALSE,
                              srcs <- <<>>, acc <- <<>>
Leaf(n) == CM!Leaf(n)
MapV(f) == CM!MapV(f)
Merge(l, r) == CM!Merge(l, r)
Empty == CM!Empty

-----------------------------------------------------------------------------
(* Characters and sequences. *)
Lower  == {"a","b","c","d","e","f","g","h","i","j","k","l","m","n","o","p","q","r","s","t","u","v","w","x","y","z"}
Upper  == {"A","B","C","D","E","F","G","H","I","J","K","L","M","N","O","P","Q","R","S","T","U","V","W","X","Y","Z"}
Digit  == {"0","1","2","3","4","5","6","7","8","9"}
Letter == Lower \cup Upper

\* position of the first occurrence of atom a in s, 0 if none
IndexOf(s, a) == IF \E i \in 1..Len(s) : s[i] = a
                 THEN CHOOSE i \in 1..Len(s) : s[i] = a /\ \A j \in 1..(i - 1) : s[j] # a
                 ELSE 0
Before(s, i) == SubSeq(s, 1, i - 1)
After(s, i)  == SubSeq(s, i + 1, Len(s))
Front(s)     == SubSeq(s, 1, Len(s) - 1)
LastOf(s)    == s[Len(s)]
RECURSIVE Cat(_)
Cat(s) == IF s = <<>> THEN "" ELSE Head(s) \o Cat(Tail(s))
\* split s at every occurrence of one of the atoms in seps
RECURSIVE Split(_, _)
Split(s, seps) == IF \E i \in 1..Len(s) : s[i] \in seps
                  THEN LET i == CHOOSE i \in 1..Len(s) : s[i] \in seps /\ \A j \in 1..(i - 1) : s[j] \notin seps
                       IN <<Before(s, i)>> \o Split(After(s, i), seps)
                  ELSE <<s>>
\* product of a sequence of sets = set of sequences
RECURSIVE Prod(_)
Prod(ss) == IF ss = <<>> THEN {<<>>} ELSE {<<x>> \o r : x \in Head(ss), r \in Prod(Tail(ss))}

-----------------------------------------------------------------------------
(* Documents.  A value as written: [t |-> "leaf", n |-> leaf name, e |-> <<>>] or [t |-> "map", n |-> "", e |-> entries];
   an entry is [k |-> key path (more than one element = written with "::"), v |-> value].
   A content (DocTable): [c |-> "doc", e |-> entries] a YAML mapping; "empty" the empty / null document; "leaf" one
   scalar (n = its leaf name); "list" a top-level list; "invalid" not valid YAML.                                   *)
PathTree(p, x) == LET RECURSIVE PT(_)
                      PT(q) == IF Len(q) = 1 THEN (q[1] :> x) ELSE (q[1] :> MapV(PT(Tail(q))))
                  IN PT(p)
\* the tree a sequence of entries denotes: "::" keys are nested maps (C2, C4), at every level
RECURSIVE NormE(_)
NormV(v) == IF v.t = "leaf" THEN Leaf(v.n) ELSE MapV(NormE(v.e))
NormE(es) == IF es = <<>> THEN Empty
             ELSE Merge(NormE(Front(es)), PathTree(LastOf(es).k, NormV(LastOf(es).v)))

Err    == [t |-> "err", c |-> Empty]
Ok(f)  == [t |-> "ok", c |-> f]

\* (C5, S7) what a content is as a top-level source
ConfOf(ct) == CASE ct.c = "doc"   -> {Ok(NormE(ct.e))}
                [] ct.c = "empty" -> {Ok(Empty), Err}
                [] OTHER          -> {Err}
EmptyContent == [c |-> "empty", n |-> "", e |-> <<>>]
\* the content an opaque text denotes: nothing, or one document atom
TextContent(x) == IF x = <<>> THEN EmptyContent ELSE DocTable[x[1]]
IsDocText(x)   == x = <<>> \/ (Len(x) = 1 /\ x[1] \in DOMAIN DocTable)

-----------------------------------------------------------------------------
(* (C3) Locations. *)
SchemeChar == Letter \cup Digit \cup {"+", ".", "-"}
IsSchemeSyntax(p) == Len(p) >= 2 /\ p[1] \in Letter /\ \A i \in 2..Len(p) : p[i] \in SchemeChar
IsDriveLetter(p)  == Len(p) = 1 /\ p[1] \in Letter
Providers == [file |-> <<"f", "i", "l", "e">>, env |-> <<"e", "n", "v">>, yaml |-> <<"y", "a", "m", "l">>,
              http |-> <<"h", "t", "t", "p">>]
\* [k |-> "file" | "env" | "yaml" | "http" | "unsupported" | "open", x |-> path / opaque text]
Classify(u) ==
  LET i == IndexOf(u, ":") IN
  IF i = 0 THEN [k |-> "file", x |-> u]                                   \* no scheme: a file path
  ELSE LET p == Before(u, i) IN
       IF IsDriveLetter(p) THEN [k |-> "file", x |-> u]                   \* drive letter: a file path
       ELSE IF IsSchemeSyntax(p)
            THEN IF \E s \in DOMAIN Providers : Providers[s] = p
                 THEN [k |-> CHOOSE s \in DOMAIN Providers : Providers[s] = p, x |-> After(u, i)]
                 ELSE [k |-> "unsupported", x |-> <<>>]
            ELSE [k |-> "open", x |-> u]                                  \* (S3)

(* (C4) Providers. *)
FileSource(path) == IF path \in DOMAIN Files THEN ConfOf(DocTable[Files[path]]) ELSE {Err}

ValidEnvName(cs) == /\ Len(cs) >= 1
                    /\ cs[1] \in Letter \cup {"_"}
                    /\ \A i \in 2..Len(cs) : cs[i] \in Letter \cup Digit \cup {"_"}
EnvSource(x) ==
  LET j      == IndexOf(x, ":-")
      nm     == IF j = 0 THEN x ELSE Before(x, j)
      hasdef == j # 0
      def    == TextContent(After(x, j))
  IN IF ~ValidEnvName(nm) THEN {Err}
     ELSE IF Cat(nm) \in DOMAIN Env
          THEN LET ct == DocTable[Env[Cat(nm)]] IN
               IF ct.c = "empty" /\ hasdef THEN ConfOf(ct) \cup ConfOf(def)     \* (S2)
               ELSE ConfOf(ct)
          ELSE IF hasdef THEN ConfOf(def) ELSE ConfOf(EmptyContent)

YamlSource(x) == ConfOf(TextContent(x))

\* http:<//host/path>: the body of the answer as YAML.  Http (plan) maps the opaque text to [status, body]; a path the
\* server does not know is answered 404 with a text body.  (S9) a status other than 200: an error, or the body is read
\* all the same (the README only says "reads its contents as YAML").
HttpSource(x) == IF x \in DOMAIN Http
                 THEN IF Http[x].status = 200 THEN ConfOf(DocTable[Http[x].body])
                      ELSE {Err} \cup ConfOf(DocTable[Http[x].body])
                 ELSE {Err}

\* the admissible outcomes of one location
UriSource(u) ==
  LET cl == Classify(u) IN
  CASE cl.k = "file"        -> FileSource(cl.x)
    [] cl.k = "env"         -> EnvSource(cl.x)
    [] cl.k = "yaml"        -> YamlSource(cl.x)
    [] cl.k = "http"        -> HttpSource(cl.x)
    [] cl.k = "unsupported" -> {Err}
    [] cl.k = "open"        -> {Err} \cup FileSource(cl.x)

-----------------------------------------------------------------------------
(* (C2) --set entries. *)
SetHasEq(a) == IndexOf(a, "=") # 0
SetKey(a)   == Before(a, IndexOf(a, "="))
SetVal(a)   == After(a, IndexOf(a, "="))
\* the value text: nothing (null) or one value atom
SetValue(a) == IF SetVal(a) = <<>> THEN [t |-> "leaf", n |-> "nil", e |-> <<>>] ELSE ValTable[SetVal(a)[1]]
\* key path: "." separates; (S4) "::" in the key
SetPath(a)  == LET parts == Split(SetKey(a), {".", "::"}) IN [i \in 1..Len(parts) |-> parts[i][1]]
SetTree(a)  == PathTree(SetPath(a), NormV(SetValue(a)))
SetSource(a) == IF ~SetHasEq(a) THEN {Err}
                ELSE IF \E i \in 1..Len(SetKey(a)) : SetKey(a)[i] = "::" THEN {Ok(SetTree(a)), Err} ELSE {Ok(SetTree(a))}

-----------------------------------------------------------------------------
(* (C6) references to environment variables in the merged tree (whole-value references to variables that are set to a
   scalar or a mapping: everything else about expansion is C12's). *)
RECURSIVE Expand(_)
ExpandV(v) == IF v.t = "map" THEN MapV(Expand(v.m))
              ELSE IF v.v \in DOMAIN RefTable
                   THEN LET ct == DocTable[Env[RefTable[v.v]]] IN
                        IF ct.c = "doc" THEN MapV(NormE(ct.e)) ELSE Leaf(ct.n)
                   ELSE v
Expand(f) == [k \in DOMAIN f |-> ExpandV(f[k])]

-----------------------------------------------------------------------------
(* (C1, C3, C5) The command line.  A case is [args |-> sequence of [f |-> "config" | "set", a |-> text],
   defs |-> sequence of default URIs of the settings]. *)
SelectF(args, f) == LET idx == {i \in 1..Len(args) : args[i].f = f}
                        RECURSIVE Pick(_)
                        Pick(i) == IF i > Len(args) THEN <<>>
                                   ELSE (IF i \in idx THEN <<args[i].a>> ELSE <<>>) \o Pick(i + 1)
                    IN Pick(1)
Configs(cs) == SelectF(cs.args, "config")
Sets(cs)    == SelectF(cs.args, "set")

\* the cases of a plan: every command line of one of the plan's shapes ("c" = --config, "s" = --set) over its pools
RECURSIVE ArgsOf(_)
ArgsOf(sh) == IF sh = <<>> THEN {<<>>}
              ELSE {<<[f |-> IF Head(sh) = "c" THEN "config" ELSE "set", a |-> x]>> \o r :
                       x \in (IF Head(sh) = "c" THEN CfgPool ELSE SetPool), r \in ArgsOf(Tail(sh))}
Cases == {[args |-> as, defs |-> d] : as \in UNION {ArgsOf(sh) : sh \in Shapes}, d \in DefPool}

\* the admissible lists of sources: <<kind, text>>, configs first, then sets (C1); defaults (C3, S1)
SrcList(us, ss) == [i \in 1..(Len(us) + Len(ss)) |-> IF i <= Len(us) THEN <<"uri", us[i]>> ELSE <<"set", ss[i - Len(us)]>>]
SourceLists(cs) ==
  IF Configs(cs) # <<>> THEN {SrcList(Configs(cs), Sets(cs))}
  ELSE IF Sets(cs) = <<>> THEN {SrcList(cs.defs, <<>>)}
  ELSE {SrcList(<<>>, Sets(cs)), SrcList(cs.defs, Sets(cs))}

SourceOutcomes(s) == IF s[1] = "uri" THEN UriSource(s[2]) ELSE SetSource(s[2])

RECURSIVE FoldMerge(_)
FoldMerge(ts) == IF ts = <<>> THEN Empty ELSE Merge(FoldMerge(Front(ts)), LastOf(ts).c)
Combine(os) == IF \E i \in 1..Len(os) : os[i].t = "err" THEN Err ELSE Ok(Expand(FoldMerge(os)))

OutcomesOfList(sl) == IF sl = <<>> THEN {Err}                      \* no location at all
                      ELSE {Combine(os) : os \in Prod([i \in 1..Len(sl) |-> SourceOutcomes(sl[i])])}

\* THE SPECIFIED RESULT: the set of admissible outcomes of a command line
Effective(cs) ==
  IF \E i \in 1..Len(cs.args) : cs.args[i].f = "set" /\ ~SetHasEq(cs.args[i].a) THEN {Err}     \* (C2) no "="
  ELSE UNION {OutcomesOfList(sl) : sl \in SourceLists(cs)}

-----------------------------------------------------------------------------
(* Clauses of the statement as properties of Effective (checked by TLC for every case of a plan). *)
\* (C1) only the order among the --config entries and among the --set entries matters, not how they interleave
PositionClause(cs) ==
  LET norm == [i \in 1..Len(cs.args) |->
                 IF i <= Len(Configs(cs)) THEN [f |-> "config", a |-> Configs(cs)[i]]
                 ELSE [f |-> "set", a |-> Sets(cs)[i - Len(Configs(cs))]]]
  IN Effective(cs) = Effective([cs EXCEPT !.args = norm])
\* (C1) the last --set entry holds in every configuration that results: merging it again changes nothing
LastSetClause(cs) ==
  (Sets(cs) # <<>> /\ \A i \in 1..Len(Sets(cs)) : SetHasEq(Sets(cs)[i]))
    => \A o \in Effective(cs) : o.t = "ok" => Merge(o.c, Expand(SetTree(LastOf(Sets(cs))))) = o.c
\* (C5) a source that can only fail makes the whole resolution fail
ErrorAbortsClause(cs) ==
  (\A sl \in SourceLists(cs) : \E i \in 1..Len(sl) : SourceOutcomes(sl[i]) = {Err}) => Effective(cs) = {Err}
\* (C3) --config flags overwrite the default URIs: the outcome does not depend on them
DefaultsOverwrittenClause(cs) ==
  Configs(cs) # <<>> => Effective(cs) = Effective([cs EXCEPT !.defs = <<>>])
\* well-formedness of the plan's pools (the assumptions of the encoding)
ColonFree(a)  == a \notin {":", ":-", "::", "="}
WellFormedURI(u) ==
  LET i == IndexOf(u, ":") IN
  /\ i # 0 => \A j \in 1..(i - 1) : u[j] \in Letter \cup Digit \cup {"+", ".", "-", "_", "^", "[", "]"}
  /\ LET cl == Classify(u) IN
     /\ cl.k = "yaml" => IsDocText(cl.x)
     /\ cl.k = "env"  => LET j == IndexOf(cl.x, ":-") IN j # 0 => IsDocText(After(cl.x, j))
WellFormedSet(a) ==
  SetHasEq(a) =>
    /\ SetVal(a) = <<>> \/ (Len(SetVal(a)) = 1 /\ SetVal(a)[1] \in DOMAIN ValTable)
    /\ LET parts == Split(SetKey(a), {".", "::"}) IN \A i \in 1..Len(parts) : Len(parts[i]) = 1
WellFormedRefs ==
  \A r \in DOMAIN RefTable : RefTable[r] \in DOMAIN Env /\ DocTable[Env[RefTable[r]]].c \in {"doc", "leaf"}
=============================================================================
