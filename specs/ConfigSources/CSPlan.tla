------------------------------- MODULE CSPlan -------------------------------
(* E09 -- ConfigSources: the pools of ONE exploration plan (plan "merge"): documents, values, files, environment, the
   locations and --set texts command lines are built from, the shapes of the command lines ("c" = --config, "s" = --set),
   the default URI lists of the settings and the variants of the implementation-shaped model.  checks/E09.py REPLACES
   this file per plan (same operator names; values from its PLANS table); the copy in specs/ConfigSources is the quick
   plan "merge", so that the modules can be run by hand (together with a copy of specs/ConfResolve/ConfMerge.tla). *)
EXTENDS TLC
L(n)       == [t |-> "leaf", n |-> n, e |-> <<>>]
M(es)      == [t |-> "map", n |-> "", e |-> es]
E(k, v)    == [k |-> k, v |-> v]
Doc(es)    == [c |-> "doc", n |-> "", e |-> es]
LeafDoc(n) == [c |-> "leaf", n |-> n, e |-> <<>>]
Ct(c)      == [c |-> c, n |-> "", e |-> <<>>]

DocTable ==
       ("@D1" :> Doc(<<E(<<"a">>, M(<<E(<<"b">>, L("i1")), E(<<"d">>, L("i2"))>>)), E(<<"c">>, L("sx"))>>))
    @@ ("@D2" :> Doc(<<E(<<"a">>, M(<<E(<<"b">>, L("i3")), E(<<"e">>, L("l2"))>>))>>))
    @@ ("@D3" :> Doc(<<E(<<"a">>, L("nul")), E(<<"c">>, L("l1"))>>))
    @@ ("@D4" :> Doc(<<E(<<"a", "d">>, L("sy"))>>))
    @@ ("@D5" :> Doc(<<E(<<"c">>, M(<<E(<<"g">>, L("bt"))>>))>>))
    @@ ("@D6" :> Doc(<<E(<<"a">>, M(<<E(<<"d">>, M(<<E(<<"h">>, L("i1"))>>))>>)), E(<<"e">>, L("le"))>>))
ValTable ==
       ("@i2" :> L("i2"))
    @@ ("@l2" :> L("l2"))
    @@ ("@m1" :> M(<<E(<<"e">>, L("f1"))>>))
    @@ ("@sx" :> L("sx"))
Files ==
       (<<"%ABS/", "f1.yaml">> :> "@D1")
    @@ (<<"f1.yaml">> :> "@D1")
    @@ (<<"sub/", "f2.yaml">> :> "@D5")
Env ==
       ("E1" :> "@D3")
    @@ ("E_2" :> "@D6")
RefTable ==
       <<>>
Http ==
       <<>>
CfgPool == {<<"f", "i", "l", "e", ":", "f1.yaml">>,
            <<"sub/", "f2.yaml">>,
            <<"y", "a", "m", "l", ":", "@D2">>,
            <<"y", "a", "m", "l", ":", "@D4">>,
            <<"e", "n", "v", ":", "E", "1">>}
SetPool == {<<"a", ".", "b", "=", "@i2">>,
            <<"a", "=">>,
            <<"a", ".", "d", ".", "h", "=", "@sx">>,
            <<"c", "=", "@l2">>,
            <<"a", "=", "@m1">>}
DefPool == {<<>>}
Shapes  == {<<>>, <<"c">>, <<"s">>, <<"c", "c">>, <<"c", "s">>, <<"s", "c">>, <<"s", "s">>, <<"c", "c", "c">>, <<"c", "c", "s">>, <<"c", "s", "c">>, <<"c", "s", "s">>, <<"s", "c", "c">>, <<"s", "c", "s">>, <<"s", "s", "c">>, <<"s", "s", "s">>, <<"c", "s", "c", "s">>, <<"s", "s", "c", "c">>}
Variants == {"fixed", "pinned"}
=============================================================================
