--------------------------- MODULE ConfigSourcesMC ---------------------------
(* E09 -- ConfigSources: design check AND case generator (one TLC run per plan does both; the pools are CSPlan's).
   For every case of the plan (initial states) and both variants of the implementation-shaped model:
     * Clauses: the clauses of the statement hold for Effective(case) (evaluated once per case, in its initial state);
     * ImplOK / FixedOK: the model's outcome is admissible (pinned: unless KnownCase);
     * Emit: every terminal state prints the case, the variant, the model's outcome and (variant "fixed") the set of
       admissible outcomes Effective(case) as JSON.  checks/E09.py renders the case to a real command line, real files
       and environment variables, runs it through the real otelcol command (harness/cfgsources) and compares the
       effective configuration with the admissible set.
   PlanOK: the well-formedness assumptions of the encoding hold for the plan's pools.                                *)
EXTENDS ConfigSourcesImpl, Json

AtStart == pc = "flags" /\ i = 1 /\ values = <<>> /\ sets = <<>> /\ variant = "fixed"
Clauses == AtStart => /\ PositionClause(case)
                      /\ LastSetClause(case)
                      /\ ErrorAbortsClause(case)
                      /\ DefaultsOverwrittenClause(case)
PlanOK == /\ \A u \in CfgPool : WellFormedURI(u)
          /\ \A d \in DefPool : \A j \in 1..Len(d) : WellFormedURI(d[j])
          /\ \A a \in SetPool : WellFormedSet(a)
          /\ WellFormedRefs
ASSUME PlanOK

Emit == pc = "done" =>
          PrintT(<<"BEH", ToJson([case |-> case, v |-> variant, o |-> out, kn |-> KnownCase,
                                  adm |-> IF variant = "fixed" THEN Effective(case) ELSE {}])>>)
=============================================================================
