SPECIFICATION ImplSpec
INVARIANT TypeOK
INVARIANT Clauses
INVARIANT ImplOK
INVARIANT FixedOK
CHECK_DEADLOCK FALSE
