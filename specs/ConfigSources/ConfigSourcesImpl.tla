-------------------------- MODULE ConfigSourcesImpl --------------------------
(* E09 -- ConfigSources: IMPLEMENTATION-SHAPED MODEL of the path from the command line to the effective configuration,
   one action per step of the Go code, from one case (command line + default URIs) chosen in the initial state:

     ParseFlag    otelcol/flags.go: flag.FlagSet calls configFlagValue.Set for --config (append to values) and the
                  --set function (strings.Index "=", none = error; otherwise append
                  "yaml:" + ReplaceAll(key, ".", "::") + ": " + value to sets) once per argument, in order
     Settings     otelcol/command.go updateSettingsUsingFlags: getConfigFlag = values ++ sets; non-empty replaces
                  ResolverSettings.URIs; no URI = error; DefaultScheme = "env"
     NewResolver  confmap/resolver.go NewResolver: every URI becomes a location BEFORE anything is retrieved:
                  "^[A-z]:" (the range A-z also holds [ \ ] ^ _ `) or no ":" = file; else the scheme regexp
                  [A-Za-z][A-Za-z0-9+.-]+ must match ("invalid uri") and a provider must exist ("unsupported scheme")
     Retrieve     Resolve, one iteration of the loop over the locations: Provider.Retrieve (fileprovider: os.ReadFile;
                  envprovider: name regexp, LookupEnv, default only if NOT set; yamlprovider: the bytes;
                  configurablehttpprovider: GET, status 200 or error, the body) ->
                  NewRetrievedFromYAML -> AsConf (nil = empty Conf, not a map = error) -> retMap.Merge
     Finish       Resolve, second half: every flat key of the merged map is expanded and the result rebuilt with
                  NewFromStringMap (koanf: flatten / unflatten on "::")

   Variant "fixed":  a source's "::" keys are turned into nested maps at EVERY level when the source is loaded (the
                     repaired design, extras/fixes/E09-*.patch): the model then yields an outcome of Effective, always.
   Variant "pinned": as pinned: koanf's confmap.Provider unflattens only the TOP-LEVEL keys of a source; a "::" key
                     inside a map value (--set "name={a::b: c}", service/README.md Limitations 3) stays ONE literal key
                     while the sources are merged, so it neither replaces nor joins what earlier sources define under
                     name::a::b; only the final flatten / unflatten splits it, and where its path meets another entry the
                     survivor depends on Go's map iteration order (Finish is nondeterministic: every insertion order of
                     the flat entries, with maps.Unflatten's treatment of a non-map on the way).  KnownCase = the merged
                     map holds such a literal key below the top level.

   Property (ConfigSourcesMC): when the model is done its outcome is in Effective(case) -- for "fixed" without
   exception, for "pinned" unless KnownCase.  Deviations of the model from the code, on purpose: error texts and the
   closers / watcher of the resolver are not modelled; the YAML parser is the plan's DocTable / ValTable.              *)
EXTENDS ConfigSources

VARIABLES case,      \* [args, defs]: the input, constant along a behaviour
          variant,   \* "fixed" | "pinned"
          pc,        \* "flags" | "settings" | "newresolver" | "retrieve" | "finish" | "done"
          i,         \* next argument / location
          values,    \* configFlagValue.values
          sets,      \* configFlagValue.sets (already "yaml:" URIs)
          uris,      \* ResolverSettings.URIs
          locs,      \* Resolver.uris: [scheme, x]
          acc,       \* retMap
          out        \* None | outcome
ivars == <<case, variant, pc, i, values, sets, uris, locs, acc, out>>

YamlScheme == <<"y", "a", "m", "l", ":">>
\* strings.ReplaceAll(key, ".", "::")
DotsToDelim(k) == [j \in 1..Len(k) |-> IF k[j] = "." THEN "::" ELSE k[j]]

\* a literal "::" key of a tree (pinned) and its parts
RECURSIVE JoinKey(_)
JoinKey(p) == IF Len(p) = 1 THEN p[1] ELSE p[1] \o "::" \o JoinKey(Tail(p))
RECURSIVE EntryPaths(_)
ValuePaths(v) == IF v.t = "map" THEN EntryPaths(v.e) ELSE {}
EntryPaths(es) == IF es = <<>> THEN {} ELSE {LastOf(es).k} \cup ValuePaths(LastOf(es).v) \cup EntryPaths(Front(es))
AllKeyPaths == UNION ({EntryPaths(DocTable[d].e) : d \in DOMAIN DocTable} \cup {ValuePaths(ValTable[v]) : v \in DOMAIN ValTable})
SplitKey(s) == IF \E p \in AllKeyPaths : JoinKey(p) = s THEN CHOOSE p \in AllKeyPaths : JoinKey(p) = s ELSE <<s>>

\* pinned loading: top-level "::" keys are nested (koanf confmap.Provider + maps.Unflatten), deeper ones stay literal
RECURSIVE LitE(_)
LitV(v) == IF v.t = "leaf" THEN Leaf(v.n) ELSE MapV(LitE(v.e))
LitE(es) == IF es = <<>> THEN Empty ELSE Merge(LitE(Front(es)), (JoinKey(LastOf(es).k) :> LitV(LastOf(es).v)))
RECURSIVE LoadTopE(_)
LoadTopE(es) == IF es = <<>> THEN Empty
                ELSE Merge(LoadTopE(Front(es)), PathTree(LastOf(es).k, LitV(LastOf(es).v)))
Load(es) == IF variant = "fixed" THEN NormE(es) ELSE LoadTopE(es)

\* the document of a "yaml:" opaque text: a document atom, nothing, or (from --set) key atoms ": " value atoms
SetYamlEntries(x) == LET j    == IndexOf(x, ": ")
                         key  == Before(x, j)
                         val  == After(x, j)
                         parts == Split(key, {"::"})
                         v    == IF val = <<>> THEN [t |-> "leaf", n |-> "nil", e |-> <<>>] ELSE ValTable[val[1]]
                     IN <<[k |-> [n \in 1..Len(parts) |-> parts[n][1]], v |-> v]>>
YamlContent(x) == IF IsDocText(x) THEN TextContent(x) ELSE [c |-> "doc", n |-> "", e |-> SetYamlEntries(x)]

\* "^[A-z]:"
AzRange == Letter \cup {"[", "\\", "]", "^", "_", "`"}
DriveRegexp(u) == Len(u) >= 2 /\ u[1] \in AzRange /\ u[2] = ":"
\* uriRegexp: [A-Za-z][A-Za-z0-9+.-]+ ":" anything
SchemeRegexp(u) == LET c == IndexOf(u, ":") IN c # 0 /\ IsSchemeSyntax(Before(u, c))
SchemeName(p) == IF \E s \in DOMAIN Providers : Providers[s] = p
                 THEN CHOOSE s \in DOMAIN Providers : Providers[s] = p ELSE "none"

\* Provider.Retrieve + NewRetrievedFromYAML: the content, or "fail"
Fail == [c |-> "fail", n |-> "", e |-> <<>>]
RetrieveLoc(l) ==
  CASE l.scheme = "file" -> IF l.x \in DOMAIN Files THEN DocTable[Files[l.x]] ELSE Fail
    [] l.scheme = "yaml" -> YamlContent(l.x)
    [] l.scheme = "http" -> IF l.x \in DOMAIN Http /\ Http[l.x].status = 200 THEN DocTable[Http[l.x].body] ELSE Fail
    [] l.scheme = "env"  -> LET j  == IndexOf(l.x, ":-")
                                nm == IF j = 0 THEN l.x ELSE Before(l.x, j)
                            IN IF ~ValidEnvName(nm) THEN Fail
                               ELSE IF Cat(nm) \in DOMAIN Env THEN DocTable[Env[Cat(nm)]]
                               ELSE IF j # 0 THEN TextContent(After(l.x, j)) ELSE EmptyContent

\* the flat entries of a tree, literal keys split (koanf maps.Flatten; an empty map is a value)
RECURSIVE FlatPairs(_, _)
FlatPairs(f, pre) == UNION {LET p == pre \o SplitKey(k) IN
                            IF f[k].t = "map" /\ DOMAIN f[k].m # {} THEN FlatPairs(f[k].m, p) ELSE {<<p, f[k]>>}
                            : k \in DOMAIN f}
\* maps.Unflatten, one entry: a non-map on the way is skipped (the entry lands one level higher)
RECURSIVE Ins(_, _, _)
Ins(f, p, v) ==
  LET k == p[1] IN
  IF Len(p) = 1 THEN [x \in DOMAIN f \cup {k} |-> IF x = k THEN v ELSE f[x]]
  ELSE IF k \notin DOMAIN f THEN [x \in DOMAIN f \cup {k} |-> IF x = k THEN MapV(Ins(Empty, Tail(p), v)) ELSE f[x]]
  ELSE IF f[k].t = "map" THEN [f EXCEPT ![k] = MapV(Ins(f[k].m, Tail(p), v))]
  ELSE Ins(f, Tail(p), v)
RECURSIVE Unflat(_, _)
Unflat(f, ps) == IF ps = <<>> THEN f ELSE Unflat(Ins(f, Head(ps)[1], Head(ps)[2]), Tail(ps))
RECURSIVE Perms(_)
Perms(S) == IF S = {} THEN {<<>>} ELSE UNION {{<<x>> \o r : r \in Perms(S \ {x})} : x \in S}
\* a literal "::" key below the top level
RECURSIVE HasLiteral(_)
HasLiteral(f) == \E k \in DOMAIN f : Len(SplitKey(k)) > 1 \/ (f[k].t = "map" /\ HasLiteral(f[k].m))
KnownTree(f) == \E k \in DOMAIN f : f[k].t = "map" /\ HasLiteral(f[k].m)
Finals(f) == IF KnownTree(f) THEN {Unflat(Empty, s) : s \in Perms(FlatPairs(f, <<>>))} ELSE {f}

-----------------------------------------------------------------------------
None == [t |-> "none", c |-> Empty]
Init == /\ case \in Cases
        /\ variant \in Variants
        /\ pc = "flags" /\ i = 1
        /\ values = <<>> /\ sets = <<>> /\ uris = <<>> /\ locs = <<>> /\ acc = Empty /\ out = None

Done(o) == pc' = "done" /\ out' = o

ParseFlag ==
  /\ pc = "flags"
  /\ IF i > Len(case.args)
     THEN pc' = "settings" /\ UNCHANGED <<i, values, sets, out>>
     ELSE LET a == case.args[i] IN
          IF a.f = "config"
          THEN values' = Append(values, a.a) /\ i' = i + 1 /\ UNCHANGED <<pc, sets, out>>
          ELSE LET idx == IndexOf(a.a, "=") IN
               IF idx = 0 THEN Done(Err) /\ UNCHANGED <<i, values, sets>>
               ELSE /\ sets' = Append(sets, YamlScheme \o DotsToDelim(Before(a.a, idx)) \o <<": ">> \o After(a.a, idx))
                    /\ i' = i + 1 /\ UNCHANGED <<pc, values, out>>
  /\ UNCHANGED <<case, variant, uris, locs, acc>>

Settings ==
  /\ pc = "settings"
  /\ LET cf == values \o sets
         us == IF cf # <<>> THEN cf ELSE case.defs
     IN IF us = <<>> THEN Done(Err) /\ UNCHANGED uris
        ELSE uris' = us /\ pc' = "newresolver" /\ UNCHANGED out
  /\ UNCHANGED <<case, variant, i, values, sets, locs, acc>>

Location(u) == IF DriveRegexp(u) \/ IndexOf(u, ":") = 0 THEN [ok |-> TRUE, scheme |-> "file", x |-> u]
               ELSE IF ~SchemeRegexp(u) THEN [ok |-> FALSE, scheme |-> "", x |-> <<>>]
               ELSE LET c == IndexOf(u, ":") IN
                    [ok |-> SchemeName(Before(u, c)) # "none", scheme |-> SchemeName(Before(u, c)), x |-> After(u, c)]
NewResolver ==
  /\ pc = "newresolver"
  /\ LET ls == [j \in 1..Len(uris) |-> Location(uris[j])] IN
     IF \E j \in 1..Len(ls) : ~ls[j].ok THEN Done(Err) /\ UNCHANGED <<locs, i>>
     ELSE locs' = ls /\ i' = 1 /\ pc' = "retrieve" /\ UNCHANGED out
  /\ UNCHANGED <<case, variant, values, sets, uris, acc>>

Retrieve ==
  /\ pc = "retrieve"
  /\ IF i > Len(locs) THEN pc' = "finish" /\ UNCHANGED <<i, acc, out>>
     ELSE LET ct == RetrieveLoc(locs[i]) IN
          CASE ct.c = "doc"   -> acc' = Merge(acc, Load(ct.e)) /\ i' = i + 1 /\ UNCHANGED <<pc, out>>
            [] ct.c = "empty" -> i' = i + 1 /\ UNCHANGED <<pc, acc, out>>
            [] OTHER          -> Done(Err) /\ UNCHANGED <<i, acc>>
  /\ UNCHANGED <<case, variant, values, sets, uris, locs>>

Finish ==
  /\ pc = "finish"
  /\ \E f \in Finals(Expand(acc)) : Done(Ok(f))
  /\ UNCHANGED <<case, variant, i, values, sets, uris, locs, acc>>

Next == ParseFlag \/ Settings \/ NewResolver \/ Retrieve \/ Finish
ImplSpec == Init /\ [][Next]_ivars

\* the pinned design may leave Effective only through a literal "::" key (the open finding)
KnownCase == variant = "pinned" /\ KnownTree(acc)
ImplOK == pc = "done" => (out \in Effective(case) \/ KnownCase)
\* ... and the repaired design never
FixedOK == (pc = "done" /\ variant = "fixed") => out \in Effective(case)
TypeOK == /\ pc \in {"flags", "settings", "newresolver", "retrieve", "finish", "done"}
          /\ (out = None) = (pc # "done")
=============================================================================
