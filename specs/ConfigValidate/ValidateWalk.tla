---------------------------- MODULE ValidateWalk ----------------------------
(* C13, clause "Every validation rule of every nested configuration value is evaluated, so an invalid
   nested setting is reported even when its parents are valid."

   VALUE TREES built by actions.  A tree is a set of slot paths; the node at a path is a value of the Go
   type Node of harness/cfgvalidate/cmd/walk.go, whose fields cover every case of the reflective walk of
   confmap/xconfmap/config.go:

       slot      Go field                                   path segment(s)           kind
       val       Val *Node      `mapstructure:"val"`        val                       renamed tag, pointer (nil if absent)
       untagged  Untagged *Node                             untagged                  no tag: lower-cased field name
       skipped   Skipped *Node  `mapstructure:"-"`          -                         "-" tag (still exported: walked)
       hidden    hidden *Node                               (never walked)            unexported field
       item0/1   Items Items    `mapstructure:"items"`      items :: 0 | 1            named slice type of pointers
       tabA/B    Table Table    `mapstructure:"table"`      table :: a | b            named map type of pointers
       anyN      Any any        `mapstructure:"any"`        any                       pointer wrapped in an interface
       inner     Emb `,squash` . Inner *Node "inner"        emb :: inner              embedded struct (squash)
       wnext     Wrap *Wrap "wrap" . Next *Node "next"      wrap :: next              pointer to a struct without Validate

   VALIDATION RULES (positions) of the node at path p; a rule fails iff <<p, position>> is in `bad`, except the
   two structural ones:
       self    Node.Validate (pointer receiver)                      plain   Plain Leaf (struct by value, value receiver)
       emb     Emb.Validate (pointer receiver), shadowed in Node     vitem0  VItems []Leaf, element 0 (slice of values)
       mvalA   MVals map[string]PLeaf, value "a" (pointer receiver on a NON-ADDRESSABLE map value)
       anyL    Any holding a Leaf VALUE (non-pointer in an interface)
       keyBad  Keys map[KeyT]int, a key whose own Validate fails
       wbase   Base.Validate of the struct embedded in Wrap.  Wrap has no Validate of its own, so Go
               PROMOTES Base's: the rule is reported at `wrap` (as Wrap's) and again at `wrap::base`
       items   Items.Validate: fails iff the list has two items        (rule of the collection itself)
       table   Table.Validate: fails iff the map has the row "b"

   STATEMENT LEVEL: Failing = the failing rules that are reachable (not below an unexported field);
   Expected = each of them with its path.  IMPLEMENTATION SHAPED: Reports = the recursion of validate():
   struct: own Validate, then every exported field with fieldName(tag) prefixed; pointer/interface: Elem
   (nil: nothing); slice: own Validate, then elements with the index; map: own Validate, keys and values
   with the key.  Design properties: WalkComplete (reported rules = Failing, parents failing or not),
   WalkPaths (each at its path), OnlyPromotedExtra (the only duplicate report is the promoted method).

   Segment kinds tell the check which path segments the user-visible configuration determines (tag, index,
   key) and which are conventions of the code (lower, squash, dash): a difference in the latter is model
   drift, a difference in the former, or a missed / spurious rule, is a violation. *)
EXTENDS Naturals, Sequences, FiniteSets, TLC

CONSTANTS MaxDepth, MaxNodes, MaxWraps, MaxBad

VARIABLES tree, wraps, bad
wvars == <<tree, wraps, bad>>

NodeSlots == {"val", "untagged", "skipped", "hidden", "item0", "item1", "tabA", "tabB", "anyN", "inner", "wnext"}
FlagPos   == {"self", "plain", "emb", "vitem0", "mvalA", "anyL", "keyBad", "wbase"}

Child(p, s) == Append(p, s)
Has(p, s)   == Child(p, s) \in tree

WInit == tree = {<<>>} /\ wraps = {} /\ bad = {}

AddNode(p, s) == /\ p \in tree /\ Len(p) < MaxDepth /\ ~Has(p, s) /\ Cardinality(tree) <= MaxNodes
                 /\ s = "item1" => Has(p, "item0")
                 /\ s = "wnext" => p \in wraps
                 /\ s = "anyN" => <<p, "anyL">> \notin bad
                 /\ tree' = tree \cup {Child(p, s)} /\ UNCHANGED <<wraps, bad>>
AddWrap(p)    == /\ p \in tree \ wraps /\ Cardinality(wraps) < MaxWraps
                 /\ wraps' = wraps \cup {p} /\ UNCHANGED <<tree, bad>>
Flag(p, pos)  == /\ p \in tree /\ <<p, pos>> \notin bad /\ Cardinality(bad) < MaxBad
                 /\ pos = "wbase" => p \in wraps
                 /\ pos = "anyL" => ~Has(p, "anyN")
                 /\ bad' = bad \cup {<<p, pos>>} /\ UNCHANGED <<tree, wraps>>

WNext == \E p \in tree : \/ \E s \in NodeSlots : AddNode(p, s)
                         \/ AddWrap(p)
                         \/ \E pos \in FlagPos : Flag(p, pos)
WSpec == WInit /\ [][WNext]_wvars

-----------------------------------------------------------------------------
(* path segments: <<text, kind>> *)
SlotSegs(s) ==
  CASE s = "val"      -> << <<"val", "tag">> >>
    [] s = "untagged" -> << <<"untagged", "lower">> >>
    [] s = "skipped"  -> << <<"-", "dash">> >>
    [] s = "hidden"   -> << <<"hidden", "unexported">> >>
    [] s = "item0"    -> << <<"items", "tag">>, <<"0", "index">> >>
    [] s = "item1"    -> << <<"items", "tag">>, <<"1", "index">> >>
    [] s = "tabA"     -> << <<"table", "tag">>, <<"a", "key">> >>
    [] s = "tabB"     -> << <<"table", "tag">>, <<"b", "key">> >>
    [] s = "anyN"     -> << <<"any", "tag">> >>
    [] s = "inner"    -> << <<"emb", "squash">>, <<"inner", "tag">> >>
    [] s = "wnext"    -> << <<"wrap", "tag">>, <<"next", "tag">> >>
PosSegs(pos) ==
  CASE pos = "self"   -> <<>>
    [] pos = "plain"  -> << <<"plain", "tag">> >>
    [] pos = "emb"    -> << <<"emb", "squash">> >>
    [] pos = "vitem0" -> << <<"vitems", "tag">>, <<"0", "index">> >>
    [] pos = "mvalA"  -> << <<"mvals", "tag">>, <<"a", "key">> >>
    [] pos = "anyL"   -> << <<"any", "tag">> >>
    [] pos = "keyBad" -> << <<"keys", "tag">>, <<"<ID>", "key">> >>      \* the key is the rule's id
    [] pos = "wbase"  -> << <<"wrap", "tag">> >>
    [] pos = "items"  -> << <<"items", "tag">> >>
    [] pos = "table"  -> << <<"table", "tag">> >>

RECURSIVE NPath(_)
NPath(p) == IF p = <<>> THEN <<>> ELSE NPath(SubSeq(p, 1, Len(p) - 1)) \o SlotSegs(p[Len(p)])

-----------------------------------------------------------------------------
(* statement level *)
Reach(p) == \A i \in DOMAIN p : p[i] # "hidden"
Rules == UNION {    {<<p, "self">>, <<p, "plain">>, <<p, "emb">>}
                 \cup {<<p, pos>> : pos \in {q \in {"vitem0", "mvalA", "anyL", "keyBad"} : <<p, q>> \in bad}}
                 \cup (IF p \in wraps THEN {<<p, "wbase">>} ELSE {})
                 \cup (IF Has(p, "item0") THEN {<<p, "items">>} ELSE {})
                 \cup (IF Has(p, "tabA") \/ Has(p, "tabB") THEN {<<p, "table">>} ELSE {}) : p \in tree}
Fails(r) == CASE r[2] = "items" -> Has(r[1], "item1")
              [] r[2] = "table" -> Has(r[1], "tabB")
              [] OTHER          -> r \in bad
Failing  == {r \in Rules : Fails(r) /\ Reach(r[1])}
Expected == {<<NPath(r[1]) \o PosSegs(r[2]), r>> : r \in Failing}

-----------------------------------------------------------------------------
(* implementation shaped: validate() of confmap/xconfmap/config.go *)
Own(p, pos)  == IF Fails(<<p, pos>>) THEN {<< <<>>, <<p, pos>> >>} ELSE {}       \* callValidateIfPossible
Pre(seg, S)  == {<< <<seg>> \o x[1], x[2] >> : x \in S}                           \* append(err.path, fieldName)

RECURSIVE VStruct(_)
VPtr(p, s) == IF Has(p, s) THEN VStruct(Child(p, s)) ELSE {}                      \* reflect.Ptr: validate(v.Elem()); nil -> Invalid -> nothing
VStruct(p) ==
       Own(p, "self")
  \cup Pre(<<"val", "tag">>, VPtr(p, "val"))
  \cup Pre(<<"untagged", "lower">>, VPtr(p, "untagged"))
  \cup Pre(<<"-", "dash">>, VPtr(p, "skipped"))
       \* hidden: !IsExported -> continue
  \cup Pre(<<"items", "tag">>,  Own(p, "items") \cup Pre(<<"0", "index">>, VPtr(p, "item0")) \cup Pre(<<"1", "index">>, VPtr(p, "item1")))
  \cup Pre(<<"vitems", "tag">>, Pre(<<"0", "index">>, Own(p, "vitem0")))
  \cup Pre(<<"table", "tag">>,  Own(p, "table") \cup Pre(<<"a", "key">>, VPtr(p, "tabA")) \cup Pre(<<"b", "key">>, VPtr(p, "tabB")))
  \cup Pre(<<"mvals", "tag">>,  Pre(<<"a", "key">>, Own(p, "mvalA")))
  \cup Pre(<<"keys", "tag">>,   Pre(<<"<ID>", "key">>, Own(p, "keyBad")))
  \cup Pre(<<"any", "tag">>,    VPtr(p, "anyN") \cup Own(p, "anyL"))                 \* reflect.Interface: validate(v.Elem())
  \cup Pre(<<"plain", "tag">>,  Own(p, "plain"))
  \cup Pre(<<"emb", "squash">>, Own(p, "emb") \cup Pre(<<"inner", "tag">>, VPtr(p, "inner")))
  \cup (IF p \in wraps
        THEN Pre(<<"wrap", "tag">>,    Own(p, "wbase")                               \* promoted Base.Validate called on Wrap
                                  \cup Pre(<<"base", "squash">>, Own(p, "wbase"))   \* ... and again on the embedded field
                                  \cup Pre(<<"next", "tag">>, VPtr(p, "wnext")))
        ELSE {})
Reports == VStruct(<<>>)

WalkComplete      == {x[2] : x \in Reports} = Failing
WalkPaths         == Expected \subseteq Reports
OnlyPromotedExtra == \A x \in Reports \ Expected : x[2][2] = "wbase"
=============================================================================
