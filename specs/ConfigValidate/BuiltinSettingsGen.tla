------------------------- MODULE BuiltinSettingsGen -------------------------
(* prints every document of the bounded space: its component, all its writes (context + further writes), and the
   statement-level effective configuration as the set of paths that differ from the factory defaults *)
EXTENDS BuiltinSettings, Json
Pairs(ws) == {[p |-> x[1], v |-> x[2]] : x \in ws}
EmitDoc == PrintT(<<"BEH", ToJson([c |-> doc.c, n |-> Cardinality(doc.w), w |-> Pairs(AllWrites(doc)), own |-> Pairs(doc.w),
                                    eff |-> Pairs(Effective(doc)), absent |-> Absent(doc)])>>)
=============================================================================
