---- MODULE ConfigOverlay_TTrace_1790444547 ----
EXTENDS Sequences, TLCExt, Toolbox, Naturals, TLC, ConfigOverlay

_expression ==
    LET ConfigOverlay_TEExpression == INSTANCE ConfigOverlay_TEExpression
    IN ConfigOverlay_TEExpression!expression
----

_trace ==
    LET ConfigOverlay_TETrace == INSTANCE ConfigOverlay_TETrace
    IN ConfigOverlay_TETrace!trace
----

_inv ==
    ~(
        TLCGet("level") = Len(_TETrace)
        /\
        hist = (<<[w |-> {<<"tl.s.enabled", "false">>}, defect |-> "none"], [w |-> {}, defect |-> "none"]>>)
    )
----

_init ==
    /\ hist = _TETrace[1].hist
----

_next ==
    /\ \E i,j \in DOMAIN _TETrace:
        /\ \/ /\ j = i + 1
              /\ i = TLCGet("level")
        /\ hist  = _TETrace[i].hist
        /\ hist' = _TETrace[j].hist

\* Uncomment the ASSUME below to write the states of the error trace
\* to the given file in Json format. Note that you can pass any tuple
\* to `JsonSerialize`. For example, a sub-sequence of _TETrace.
    \* ASSUME
    \*     LET J == INSTANCE Json
    \*         IN J!JsonSerialize("ConfigOverlay_TTrace_1790444547.json", _TETrace)

=============================================================================

 Note that you can extract this module `ConfigOverlay_TEExpression`
  to a dedicated file to reuse `expression` (the module in the 
  dedicated `ConfigOverlay_TEExpression.tla` file takes precedence 
  over the module `ConfigOverlay_TEExpression` below).

---- MODULE ConfigOverlay_TEExpression ----
EXTENDS Sequences, TLCExt, Toolbox, Naturals, TLC, ConfigOverlay

expression == 
    [
        \* To hide variables of the `ConfigOverlay` spec from the error trace,
        \* remove the variables below.  The trace will be written in the order
        \* of the fields of this record.
        hist |-> hist
        
        \* Put additional constant-, state-, and action-level expressions here:
        \* ,_stateNumber |-> _TEPosition
        \* ,_histUnchanged |-> hist = hist'
        
        \* Format the `hist` variable as Json value.
        \* ,_histJson |->
        \*     LET J == INSTANCE Json
        \*     IN J!ToJson(hist)
        
        \* Lastly, you may build expressions over arbitrary sets of states by
        \* leveraging the _TETrace operator.  For example, this is how to
        \* count the number of times a spec variable changed up to the current
        \* state in the trace.
        \* ,_histModCount |->
        \*     LET F[s \in DOMAIN _TETrace] ==
        \*         IF s = 1 THEN 0
        \*         ELSE IF _TETrace[s].hist # _TETrace[s-1].hist
        \*             THEN 1 + F[s-1] ELSE F[s-1]
        \*     IN F[_TEPosition - 1]
    ]

=============================================================================



Parsing and semantic processing can take forever if the trace below is long.
 In this case, it is advised to uncomment the module below to deserialize the
 trace from a generated binary file.

\*
\*---- MODULE ConfigOverlay_TETrace ----
\*EXTENDS IOUtils, TLC, ConfigOverlay
\*
\*trace == IODeserialize("ConfigOverlay_TTrace_1790444547.bin", TRUE)
\*
\*=============================================================================
\*

---- MODULE ConfigOverlay_TETrace ----
EXTENDS TLC, ConfigOverlay

trace == 
    <<
    ([hist |-> <<>>]),
    ([hist |-> <<[w |-> {}, defect |-> "none"]>>]),
    ([hist |-> <<[w |-> {<<"tl.s.enabled", "false">>}, defect |-> "none"]>>]),
    ([hist |-> <<[w |-> {<<"tl.s.enabled", "false">>}, defect |-> "none"], [w |-> {}, defect |-> "none"]>>])
    >>
----


=============================================================================

---- CONFIG ConfigOverlay_TTrace_1790444547 ----
CONSTANTS
    MaxLoads = 2
    MaxWrites = 1
    Defects = { "dangling" , "unknownkey" }
    ShareDefaults = TRUE

INVARIANT
    _inv

CHECK_DEADLOCK
    \* CHECK_DEADLOCK off because of PROPERTY or INVARIANT above.
    FALSE

INIT
    _init

NEXT
    _next

CONSTANT
    _TETrace <- _trace

ALIAS
    _expression
=============================================================================
\* Generated on Sat Sep 26 17:42:28 UTC 2026