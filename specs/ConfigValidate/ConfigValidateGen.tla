------------------------- MODULE ConfigValidateGen -------------------------
(* Prints every damaged (and undamaged) configuration of the bounded space with the statement-level
   verdict: reject and the set of offending entries.  checks/C13.py renders each one as a YAML/JSON
   document and loads it through the real otelcol configuration provider + xconfmap.Validate. *)
EXTENDS ConfigValidate, Json

Doc == [pipes |-> {[sig |-> p[1], name |-> p[2], r |-> cfg[p].r, p |-> cfg[p].p, e |-> cfg[p].e] : p \in On},
        receivers  |-> DefRcv, processors |-> DefProc, exporters |-> DefExp, connectors |-> DefConn, extensions |-> DefExt,
        sexts |-> sexts, blank |-> blank,
        keys |-> {[kind |-> y[1], a |-> y[2], b |-> y[3], key |-> y[4], accepted |-> Accepts(y[1], y[4])] : y \in LiveKeys},
        reject |-> Reject, defects |-> Defects]
EmitDoc == PrintT(<<"BEH", ToJson(Doc)>>)
=============================================================================
