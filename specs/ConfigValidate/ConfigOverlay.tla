---------------------------- MODULE ConfigOverlay ----------------------------
(* C13, clause "Loading a configuration gives every component its factory defaults overlaid by exactly the
   keys the user wrote: each written key is reflected in the typed configuration and in the effective
   configuration ...; writing one setting never changes the value of a sibling setting."

   SETTINGS: a small table of real settings with factory defaults -- value typed, behind a POINTER
   (service::telemetry::logs::sampling::..,  the test component's opt::..), in a MAP (labels::..) and in a
   SLICE (hosts) -- of the service telemetry section and of two components of ONE type (rt/a, rt/b).
   A DOCUMENT is a set of writes <<setting, value>> (Write) and possibly one defect (Damage):
       "dangling"    a pipeline references an undefined processor: decoded, then rejected by validation
       "unknownkey"  a key no field accepts: rejected by the decoder (which has written the other keys by then)
   A HISTORY is a sequence of documents loaded one after the other IN ONE PROCESS (NewLoad).

   STATEMENT LEVEL: Typed(doc) = defaults overlaid by exactly the written keys; it depends on the document
   only, never on what was loaded before.

   IMPLEMENTATION SHAPED: every load starts from default objects and the decoder writes INTO them (for a
   pointer / map / slice valued field into the existing pointee: that is how "defaults overlaid" works for
   them).  ShareDefaults = FALSE: the pinned tree, otelcol.unmarshal and the factories build fresh default
   objects for every load and every component.  ShareDefaults = TRUE: a variant that builds the defaults once
   per process (a shallow copy shares pointees, maps and backing arrays): TLC shows that Faithful fails for
   it -- the history is what the sequences are generated for. *)
EXTENDS Naturals, Sequences, FiniteSets, TLC

CONSTANTS MaxLoads, MaxWrites, Defects, ShareDefaults

VARIABLES hist
Comps == {"a", "b"}          \* the receivers rt/a and rt/b

\* [s: setting, d: default, alts: values a document may write, g: reference group ("" = value typed)]
Table ==
     { [s |-> "tl.level",        d |-> "info",    alts |-> {"debug", "error"}, g |-> ""],
       [s |-> "tl.encoding",     d |-> "console", alts |-> {"json"},           g |-> ""],
       [s |-> "tl.s.enabled",    d |-> "true",    alts |-> {"false"},          g |-> "tl.s"],
       [s |-> "tl.s.initial",    d |-> "10",      alts |-> {"3"},              g |-> "tl.s"],
       [s |-> "tl.s.thereafter", d |-> "100",     alts |-> {"7"},              g |-> "tl.s"],
       [s |-> "tm.level",        d |-> "normal",  alts |-> {"detailed", "basic"}, g |-> ""] }
  \cup UNION { { [s |-> c \o ".endpoint",    d |-> "default:1", alts |-> {"h:9"},  g |-> ""],
                 [s |-> c \o ".limit",       d |-> "7",         alts |-> {"3"},    g |-> ""],
                 [s |-> c \o ".nested.name", d |-> "dflt",      alts |-> {"n1"},   g |-> ""],
                 [s |-> c \o ".nested.flag", d |-> "false",     alts |-> {"true"}, g |-> ""],
                 [s |-> c \o ".opt.size",    d |-> "5",         alts |-> {"9"},    g |-> c \o ".opt"],
                 [s |-> c \o ".opt.mode",    d |-> "m0",        alts |-> {"m1"},   g |-> c \o ".opt"],
                 [s |-> c \o ".labels.env",  d |-> "dev",       alts |-> {"prod"}, g |-> c \o ".labels"],
                 [s |-> c \o ".labels.team", d |-> "<absent>",  alts |-> {"x"},    g |-> c \o ".labels"],
                 [s |-> c \o ".hosts",       d |-> "h0,hx",     alts |-> {"h1", "", "h1,h2,h3"}, g |-> c \o ".hosts"] } : c \in Comps }
Names      == {r.s : r \in Table}
Row(s)     == CHOOSE r \in Table : r.s = s
Default(s) == Row(s).d
Group(s)   == Row(s).g

EmptyDoc == [w |-> {}, defect |-> "none"]
OInit == hist = <<>>
Last  == hist[Len(hist)]
NewLoad == Len(hist) < MaxLoads /\ hist' = Append(hist, EmptyDoc)
Write(s, v) == /\ Len(hist) > 0 /\ Cardinality(Last.w) < MaxWrites
               /\ \A x \in Last.w : x[1] # s
               /\ hist' = [hist EXCEPT ![Len(hist)].w = @ \cup {<<s, v>>}]
Damage(k) == /\ Len(hist) > 0 /\ Last.defect = "none"
             /\ hist' = [hist EXCEPT ![Len(hist)].defect = k]
ONext == \/ NewLoad
         \/ \E r \in Table : \E v \in r.alts : Write(r.s, v)
         \/ \E k \in Defects : Damage(k)
OSpec == OInit /\ [][ONext]_hist

-----------------------------------------------------------------------------
Overlay(base, w) == [s \in Names |-> IF \E x \in w : x[1] = s THEN (CHOOSE x \in w : x[1] = s)[2] ELSE base[s]]

(* statement level *)
Typed(doc)   == Overlay([s \in Names |-> Default(s)], doc.w)
Decoded(doc) == doc.defect # "unknownkey"
Reject(doc)  == doc.defect # "none"

(* implementation shaped *)
RECURSIVE ImplTyped(_)
ImplTyped(i) ==
  LET base == [s \in Names |-> IF ShareDefaults /\ Group(s) # "" /\ i > 1 THEN ImplTyped(i - 1)[s] ELSE Default(s)]
  IN Overlay(base, hist[i].w)

Faithful == \A i \in DOMAIN hist : ImplTyped(i) = Typed(hist[i])
=============================================================================
