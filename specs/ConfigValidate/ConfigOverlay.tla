---------------------------- MODULE ConfigOverlay ----------------------------
(* C13, clause "Loading a configuration gives every component its factory defaults overlaid by exactly the
   keys the user wrote: each written key is reflected in the typed configuration and in the effective
   configuration ...; writing one setting never changes the value of a sibling setting."

   SETTINGS: a small table of real settings with factory defaults -- value typed, behind a POINTER
   (service::telemetry::logs::sampling::..,  the test component's opt::..), in a MAP (labels::..) and in a
   SLICE (hosts) -- of the service telemetry section and of two components of ONE type (rt/a, rt/b).
   A DOCUMENT is a set of writes <<setting, value>> (Write) and possibly one defect (Damage):
       "dangling"    a pipeline references an undefined processor: decoded, then rejected by validation
       "unknownkey"  a key no field accepts: rejected by the decoder (which has written the other keys by then)
   A HISTORY is a sequence of documents loaded one after the other IN ONE PROCESS (NewLoad).

   STATEMENT LEVEL: Typed(doc) = defaults overlaid by exactly the written keys; it depends on the document
   only, never on what was loaded before.

   IMPLEMENTATION SHAPED: every load starts from default objects and the decoder writes INTO them (for a
   pointer / map / slice valued field into the existing pointee: that is how "defaults overlaid" works for
   them).  ShareDefaults = FALSE: the pinned tree, otelcol.unmarshal and the factories build fresh default
   objects for every load and every component.  ShareDefaults = TRUE: a variant that builds the defaults once
   per process (a shallow copy shares pointees, maps and backing arrays): TLC shows that Faithful fails for
   it -- the history is what the sequences are generated for.

   REDACTION ("... and in the effective configuration handed to extensions (secrets redacted)"): rt/a also has
   secret-typed settings (configopaque.String) in every container position the encoder distinguishes -- plain
   field, pointer, slice, map value, struct in a map, struct in a slice, squashed embedded struct -- and, for
   contrast, a plain string field and a map of plain strings written with the same kind of text.  Effective /
   Redacted below; the check additionally searches the WHOLE marshalled effective configuration for every
   written secret text. *)
EXTENDS Naturals, Sequences, FiniteSets, TLC

CONSTANTS MaxLoads, MaxWrites, Defects, ShareDefaults,
          MapFastPath    \* TRUE: the encoder variant that copies map values of string KIND without the encode hook

VARIABLES hist
Comps == {"a", "b"}          \* the receivers rt/a and rt/b

\* [s: setting, d: default, alts: values a document may write, g: reference group ("" = value typed),
\*  sec: secret typed (configopaque.String), pos: the container position the encoder meets it in, red: how a written value
\*  must appear in the effective configuration]
V(s, d, alts, g) == [s |-> s, d |-> d, alts |-> alts, g |-> g, sec |-> FALSE, pos |-> "", red |-> ""]
S(s, d, alts, pos, red) == [s |-> s, d |-> d, alts |-> alts, g |-> "", sec |-> TRUE, pos |-> pos, red |-> red]
Marker == "[REDACTED]"
SecComps == {"a"}            \* the secret-typed (and the two contrasting plain) settings are written for rt/a only
Table ==
     { V("tl.level", "info", {"debug", "error"}, ""),
       V("tl.encoding", "console", {"json"}, ""),
       V("tl.s.enabled", "true", {"false"}, "tl.s"),
       V("tl.s.initial", "10", {"3"}, "tl.s"),
       V("tl.s.thereafter", "100", {"7"}, "tl.s"),
       V("tm.level", "normal", {"detailed", "basic"}, "") }
  \cup UNION { { V(c \o ".endpoint", "default:1", {"h:9"}, ""),
                 V(c \o ".limit", "7", {"3"}, ""),
                 V(c \o ".nested.name", "dflt", {"n1"}, ""),
                 V(c \o ".nested.flag", "false", {"true"}, ""),
                 V(c \o ".opt.size", "5", {"9"}, c \o ".opt"),
                 V(c \o ".opt.mode", "m0", {"m1"}, c \o ".opt"),
                 V(c \o ".labels.env", "dev", {"prod"}, c \o ".labels"),
                 V(c \o ".labels.team", "<absent>", {"x"}, c \o ".labels"),
                 V(c \o ".hosts", "h0,hx", {"h1", "", "h1,h2,h3"}, c \o ".hosts") } : c \in Comps }
  \cup UNION { { S(c \o ".sec.plain",   "",         {"S3CR3T-plain"},          "field",           Marker),
                 S(c \o ".sec.ptr",     "<absent>", {"S3CR3T-ptr"},            "pointer",         Marker),
                 S(c \o ".sec.list",    "",         {"S3CR3T-l1,S3CR3T-l2"},   "slice",           "[REDACTED],[REDACTED]"),
                 S(c \o ".sec.map.k",   "<absent>", {"S3CR3T-map"},            "mapvalue",        Marker),
                 S(c \o ".sec.rowmap",  "<absent>", {"S3CR3T-rowmap"},         "struct-in-map",   Marker),
                 S(c \o ".sec.rowlist", "",         {"S3CR3T-rowlist"},        "struct-in-slice", Marker),
                 S(c \o ".sec.squash",  "",         {"S3CR3T-squash"},         "squash",          Marker),
                 V(c \o ".pub.plain",   "",         {"S3CR3T-pub"},    ""),           \* same kind of text, NOT secret typed
                 V(c \o ".pub.map.k",   "<absent>", {"S3CR3T-pubmap"}, "") } : c \in SecComps }
Names      == {r.s : r \in Table}
RowF       == [n \in Names |-> CHOOSE r \in Table : r.s = n]     \* (constant: evaluated once)
Row(s)     == RowF[s]
Default(s) == Row(s).d
Group(s)   == Row(s).g

EmptyDoc == [w |-> {}, defect |-> "none"]
OInit == hist = <<>>
Last  == hist[Len(hist)]
NewLoad == Len(hist) < MaxLoads /\ hist' = Append(hist, EmptyDoc)
Write(s, v) == /\ Len(hist) > 0 /\ Cardinality(Last.w) < MaxWrites
               /\ \A x \in Last.w : x[1] # s
               /\ hist' = [hist EXCEPT ![Len(hist)].w = @ \cup {<<s, v>>}]
Damage(k) == /\ Len(hist) > 0 /\ Last.defect = "none"
             /\ hist' = [hist EXCEPT ![Len(hist)].defect = k]
ONext == \/ NewLoad
         \/ \E r \in Table : \E v \in r.alts : Write(r.s, v)
         \/ \E k \in Defects : Damage(k)
OSpec == OInit /\ [][ONext]_hist

-----------------------------------------------------------------------------
Overlay(base, w) == [s \in Names |-> IF \E x \in w : x[1] = s THEN (CHOOSE x \in w : x[1] = s)[2] ELSE base[s]]

(* statement level *)
Typed(doc)   == Overlay([s \in Names |-> Default(s)], doc.w)
Decoded(doc) == doc.defect # "unknownkey"
Reject(doc)  == doc.defect # "none"

(* implementation shaped *)
RECURSIVE ImplTyped(_)
ImplTyped(i) ==
  LET base == [s \in Names |-> IF ShareDefaults /\ Group(s) # "" /\ i > 1 THEN ImplTyped(i - 1)[s] ELSE Default(s)]
  IN Overlay(base, hist[i].w)

Faithful == \A i \in DOMAIN hist : ImplTyped(i) = Typed(hist[i])

-----------------------------------------------------------------------------
(* the EFFECTIVE configuration (confmap.Marshal of the typed configuration: what extensions are handed) *)
Written(doc, s) == \E x \in doc.w : x[1] = s
\* statement level: "secrets redacted": a written secret shows the redaction marker, everything else the typed value.
\* How an UNWRITTEN (empty) secret is rendered is not documented by configopaque: left open.
Effective(doc) == [s \in Names |-> IF Row(s).sec THEN (IF Written(doc, s) THEN Row(s).red ELSE "<open>") ELSE Typed(doc)[s]]
\* implementation shaped: the reflective encoder applies the TextMarshaler hook to every value it meets, whatever
\* container it sits in -- unless (MapFastPath) it copies the values of a map of string kind directly
ImplEffective(i) == [s \in Names |->
     IF ~Row(s).sec THEN ImplTyped(i)[s]
     ELSE IF MapFastPath /\ Row(s).pos = "mapvalue" THEN ImplTyped(i)[s]
     ELSE IF Written(hist[i], s) THEN Row(s).red ELSE "<open>"]
Redacted == \A i \in DOMAIN hist : \A s \in Names :
               Effective(hist[i])[s] = "<open>" \/ ImplEffective(i)[s] = Effective(hist[i])[s]
=============================================================================
