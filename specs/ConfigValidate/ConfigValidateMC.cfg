SPECIFICATION VSpec
CONSTANTS
  PipeSeq <- Pipes2
  Rcvs = {"r1"}
  Procs = {"p1", "p2"}
  Exps = {"e1"}
  Conns = {"ca1"}
  Support <- SupportDef
  MaxSize = 5
  ExtIds = {"x1"}
  MaxDefects = 2
INVARIANTS WalkSound
CHECK_DEADLOCK FALSE
