SPECIFICATION VSpec
CONSTANTS
  PipeSeq <- Pipes2
  Rcvs = {"r1"}
  Procs = {"p1"}
  Exps = {"e1"}
  Conns = {"ca1"}
  Support <- SupportDef
  MaxSize = 3
  ExtIds = {"x1"}
  MaxDefects = 1
  MaxKeys = 1
INVARIANTS WalkSound
CHECK_DEADLOCK FALSE
