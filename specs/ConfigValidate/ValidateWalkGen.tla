-------------------------- MODULE ValidateWalkGen --------------------------
(* prints every value tree of the bounded space with the statement-level answer (failing rules, each with
   its path) and the implementation-shaped answer (everything the walk reports) *)
EXTENDS ValidateWalk, Json
Recs(S) == {[path |-> x[1], rule |-> x[2]] : x \in S}
EmitTree == PrintT(<<"BEH", ToJson([nodes |-> tree \ {<<>>}, wraps |-> wraps, bad |-> bad,
                                     failing |-> Failing, expected |-> Recs(Expected), reports |-> Recs(Reports)])>>)
=============================================================================
