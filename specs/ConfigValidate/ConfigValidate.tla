--------------------------- MODULE ConfigValidate ---------------------------
(* C13 (partial) -- configuration loading is strict: the reference / shape clauses and the unknown-key clause.

   Covered clauses of the statement: a key that no field accepts at any depth of a component or of the
   service section (WriteKey, with its accepted negative twin), a pipeline or service reference to a
   component that is not defined, a processor listed twice in a pipeline, a pipeline without receivers
   or exporters, an identifier shared by a connector and a receiver or exporter -- each "is rejected
   with an error naming the offending entry instead of being ignored"; plus the empty configuration.
   Sibling modules: ValidateWalk (every nested validation rule is evaluated), ConfigOverlay (defaults
   overlaid by exactly the written keys, over histories of loads).
   NOT covered (see DESIGN 4 C13): per-field faithfulness of the built-in components' config structs,
   redaction / the effective configuration marshalled for extensions, the Validate() rules of the
   built-in components themselves.

   CONFIGURATIONS are built by the actions of PipelineGraph (same builder as C09, so every reachable
   pipeline configuration is complete and well-formed) and then damaged by DEFECT-INJECTING actions:
       DanglingRef(x)      id x loses its top-level definition (every reference to it dangles)
       DupProcessor(p, x)  processor x is listed a second time in pipeline p
       EmptyPipeline(p, s) pipeline p loses all its receivers (s = "r") or exporters (s = "e")
       AmbiguousID(c, k)   connector id c is additionally defined as a receiver / an exporter
       UseExt(x)           service::extensions lists x
       Blank               the document is empty
   at most MaxDefects of them, and
       WriteKey(place, k)  key k is written at a place of the document (at most MaxKeys; defined below)

   STATEMENT LEVEL: Defects = the set of offending entries of the configuration; the configuration
   must be rejected iff Defects # {} and the error must name one of them.

   IMPLEMENTATION SHAPED: Outcomes = what otelcol.Config.Validate (first error of a fixed sequence of
   checks, map iteration order free) together with the nested Validate() calls reached by the
   xconfmap.Validate walk (pipelines.Config.Validate, PipelineConfig.Validate: first error per
   pipeline; all joined) can report -- or, when the document has a key no field accepts, what the
   decoder reports instead (nothing is validated then).  Design property: every possible outcome is non-empty iff
   Defects # {} and reports only entries of Defects. *)
EXTENDS PipelineGraphMC

CONSTANTS ExtIds, MaxDefects,
          MaxKeys     \* bound on the number of written keys (0: the reference/shape clauses only)

VARIABLES undef,    \* ids without top-level definition
          ambig,    \* set of <<connector id, "receiver" | "exporter">>
          sexts,    \* service::extensions
          blank,    \* empty document
          nd,       \* number of injected defects
          keys      \* written keys: set of <<place kind, a, b, key>> (see WriteKey)

vvars == <<cfg, undef, ambig, sexts, blank, nd, keys>>

AllIds == Rcvs \cup Procs \cup Exps \cup Conns \cup ExtIds

VInit == GInit /\ undef = {} /\ ambig = {} /\ sexts = {} /\ blank = FALSE /\ nd = 0 /\ keys = {}

Inject == ~blank /\ nd < MaxDefects /\ nd' = nd + 1

BuildCfg == /\ ~blank /\ nd = 0 /\ keys = {} /\ GNext      \* defects are injected into a finished configuration
            /\ UNCHANGED <<undef, ambig, sexts, blank, nd, keys>>
UseExt(x) == /\ ~blank /\ nd = 0 /\ keys = {} /\ x \in ExtIds \ sexts /\ sexts' = sexts \cup {x}
             /\ UNCHANGED <<cfg, undef, ambig, blank, nd, keys>>
DanglingRef(x) == /\ Inject /\ x \in AllIds \ undef /\ undef' = undef \cup {x}
                  /\ UNCHANGED <<cfg, ambig, sexts, blank, keys>>
Count(s, x) == Cardinality({i \in DOMAIN s : s[i] = x})
DupProcessor(p, x) == /\ Inject /\ p \in On /\ Count(cfg[p].p, x) = 1
                      /\ \E k \in 0..Len(cfg[p].p) :          \* anywhere in the list, not only adjacent
                            cfg' = [cfg EXCEPT ![p].p = SubSeq(@, 1, k) \o <<x>> \o SubSeq(@, k + 1, Len(@))]
                      /\ UNCHANGED <<undef, ambig, sexts, blank, keys>>
EmptyPipeline(p, s) == /\ Inject /\ p \in On
                       /\ IF s = "r" THEN cfg[p].r # {} /\ cfg' = [cfg EXCEPT ![p].r = {}]
                                     ELSE cfg[p].e # {} /\ cfg' = [cfg EXCEPT ![p].e = {}]
                       /\ cfg'[p] # EmptyPipe                  \* the pipeline itself stays declared
                       /\ UNCHANGED <<undef, ambig, sexts, blank, keys>>
AmbiguousID(c, k) == /\ Inject /\ c \in Conns /\ <<c, k>> \notin ambig /\ ambig' = ambig \cup {<<c, k>>}
                     /\ UNCHANGED <<cfg, undef, sexts, blank, keys>>
Blank == /\ Inject /\ blank' = TRUE /\ cfg' = EmptyCfg /\ undef' = AllIds /\ ambig' = {} /\ sexts' = {} /\ keys' = {}

\* WriteKey: one more key is written somewhere in the document.  PLACES a document has:
\*   <<"top">>  <<"service">>  <<"telemetry">> (service::telemetry)  <<"logs">> / <<"metrics">> (service::telemetry::logs|metrics)
\*   <<"pipeline", signal, name>>        inside service::pipelines::<id>
\*   <<"comp1", class, id>>              inside the body of a defined component of class receivers | processors | ...
\*   <<"comp2", class, id>>              ... one level deeper, inside its nested struct `nested`
\*   <<"comp3", class, id>>              ... two levels deeper, inside a row of its map of structs `table`
\* (service::extensions is a list: no place).  KEYS: a small alphabet in which every key is accepted by a field at
\* SOME place and by no field at the others, plus keys no field accepts anywhere (incl. wrong-case variants):
\* so the same key is the defect at one place and its NEGATIVE TWIN (must be accepted and decoded) at another.
KeyNames == {"level", "resource", "endpoint", "flag", "weight", "bogus", "Endpoint", "LEVEL"}
Accepts(kind, key) == \/ kind \in {"logs", "metrics"} /\ key = "level"
                      \/ kind = "telemetry" /\ key = "resource"
                      \/ kind = "comp1" /\ key = "endpoint"
                      \/ kind = "comp2" /\ key = "flag"
                      \/ kind = "comp3" /\ key = "weight"
Classes == {<<"receivers", Rcvs>>, <<"processors", Procs>>, <<"exporters", Exps>>, <<"connectors", Conns>>, <<"extensions", ExtIds>>}
Places == IF blank THEN {}
          ELSE {<<k, "", "">> : k \in {"top", "service", "telemetry", "logs", "metrics"}}
               \cup {<<"pipeline", p[1], p[2]>> : p \in On}
               \cup UNION {{<<d, ci[1], x>> : x \in ci[2] \ undef, d \in {"comp1", "comp2", "comp3"}} : ci \in Classes}
WriteKey(pl, k) == /\ Cardinality(keys) < MaxKeys /\ pl \in Places
                   /\ \A y \in keys : <<y[1], y[2], y[3]>> # pl            \* one written key per place
                   /\ keys' = keys \cup {<<pl[1], pl[2], pl[3], k>>}
                   /\ UNCHANGED <<cfg, undef, ambig, sexts, blank, nd>>

VNext == \/ BuildCfg \/ (\E x \in ExtIds : UseExt(x))
         \/ (\E x \in AllIds : DanglingRef(x))
         \/ (\E p \in Pipes, x \in Procs : DupProcessor(p, x))
         \/ (\E p \in Pipes, s \in {"r", "e"} : EmptyPipeline(p, s))
         \/ (\E c \in Conns, k \in {"receiver", "exporter"} : AmbiguousID(c, k))
         \/ Blank
         \/ (\E pl \in Places, k \in KeyNames : WriteKey(pl, k))
VSpec == VInit /\ [][VNext]_vvars

-----------------------------------------------------------------------------
(* statement level: the offending entries.  Uniform tuples <<class, what, signal, pipeline name, id>> *)

DefConn == Conns \ undef
DefRcv  == (Rcvs \ undef) \cup {c \in Conns : <<c, "receiver">> \in ambig}
DefExp  == (Exps \ undef) \cup {c \in Conns : <<c, "exporter">> \in ambig}
DefProc == Procs \ undef
DefExt  == ExtIds \ undef
NothingDefined == DefConn \cup DefRcv \cup DefExp \cup DefProc \cup DefExt = {}

Undefined ==
       UNION {{<<"undefined", "receiver", p[1], p[2], x>> : x \in cfg[p].r \ (DefRcv \cup DefConn)} : p \in On}
  \cup UNION {{<<"undefined", "processor", p[1], p[2], x>> : x \in Range(cfg[p].p) \ DefProc} : p \in On}
  \cup UNION {{<<"undefined", "exporter", p[1], p[2], x>> : x \in cfg[p].e \ (DefExp \cup DefConn)} : p \in On}
UndefinedExt == {<<"undefined", "extension", "", "", x>> : x \in sexts \ DefExt}
Duplicates == UNION {{<<"duplicate", "processor", p[1], p[2], x>> : x \in {y \in Range(cfg[p].p) : Count(cfg[p].p, y) > 1}} : p \in On}
NoRcv(p) == <<"shape", "receivers", p[1], p[2], "">>
NoExp(p) == <<"shape", "exporters", p[1], p[2], "">>
Shapes == {NoRcv(p) : p \in {q \in On : cfg[q].r = {}}} \cup {NoExp(p) : p \in {q \in On : cfg[q].e = {}}}
Ambiguous == {<<"ambiguous", ck[2], "", "", ck[1]>> : ck \in {a \in ambig : a[1] \in DefConn}}
\* configurations without any pipeline / receiver / exporter are rejected as well (no entry to name)
Missing == (IF On = {} THEN {<<"missing", "pipelines", "", "", "">>} ELSE {})
           \cup (IF DefRcv = {} THEN {<<"missing", "receivers", "", "", "">>} ELSE {})
           \cup (IF DefExp = {} THEN {<<"missing", "exporters", "", "", "">>} ELSE {})

\* "a key that no field accepts": written at a place that (still) exists, accepted by no field there
LiveKeys    == {y \in keys : <<y[1], y[2], y[3]>> \in Places}
UnknownKeys == {<<"unknownkey", y[1], y[2], y[3], y[4]>> : y \in {z \in LiveKeys : ~Accepts(z[1], z[4])}}

Defects == (IF blank \/ NothingDefined THEN {<<"empty", "", "", "", "">>} ELSE {})
           \cup UnknownKeys \cup Undefined \cup UndefinedExt \cup Duplicates \cup Shapes \cup Ambiguous \cup Missing
Reject == Defects # {}

-----------------------------------------------------------------------------
(* implementation shaped: what the validation walk can report *)

\* otelcol.Config.Validate: the first failing check of a fixed sequence; "any" where a Go map / list order decides
TopChoices ==
  IF NothingDefined THEN {{<<"empty", "", "", "", "">>}}
  ELSE IF DefRcv = {} THEN {{<<"missing", "receivers", "", "", "">>}}
  ELSE IF DefExp = {} THEN {{<<"missing", "exporters", "", "", "">>}}
  ELSE IF Ambiguous # {} THEN {{a} : a \in Ambiguous}
  ELSE IF UndefinedExt # {} THEN {{a} : a \in UndefinedExt}
  ELSE IF Undefined # {} THEN {{a} : a \in Undefined}
  ELSE {{}}
\* PipelineConfig.Validate: no receivers, else no exporters, else the first duplicated processor
PipeChoices(p) ==
  IF cfg[p].r = {} THEN {{NoRcv(p)}}
  ELSE IF cfg[p].e = {} THEN {{NoExp(p)}}
  ELSE LET D == {d \in Duplicates : d[3] = p[1] /\ d[4] = p[2]} IN IF D = {} THEN {{}} ELSE {{d} : d \in D}
\* pipelines.Config.Validate
NoPipes == IF On = {} THEN {<<"missing", "pipelines", "", "", "">>} ELSE {}

RECURSIVE Combine(_)
Combine(S) == IF S = {} THEN {{}}
              ELSE LET p == CHOOSE q \in S : TRUE
                   IN {a \cup b : a \in PipeChoices(p), b \in Combine(S \ {p})}
\* xconfmap.Validate joins everything the walk finds
\* The document is decoded (confmap, ErrorUnused) BEFORE anything is validated: unknown keys are reported by the
\* decoder (one or several of them, the component sections stop at their first failing component) and then
\* nothing else is; only a document that decodes reaches the validation walk.
Outcomes == IF UnknownKeys # {} THEN (SUBSET UnknownKeys) \ {{}}
            ELSE {t \cup n \cup NoPipes : t \in TopChoices, n \in Combine(On)}

\* design property
WalkSound == \A o \in Outcomes : (o # {} <=> Reject) /\ o \subseteq Defects
=============================================================================
