--------------------------- MODULE BuiltinSettings ---------------------------
(* C13, first clause, over the REAL BUILT-IN COMPONENTS: "Loading a configuration gives every component its
   factory defaults overlaid by exactly the keys the user wrote: each written key is reflected in the typed
   configuration and in the effective configuration handed to extensions (secrets redacted), and writing one
   setting never changes the value of a sibling setting that was also written" -- "for every collector
   configuration assembled from the built-in components with any subset of their settings written with
   arbitrary valid values".

   ConfigOverlay.tla states the clause for a synthetic component (and histories of loads); this module restates
   it for the settings of the built-in factories (same formulation: Overlay of the written keys over the
   defaults; the defaults themselves are SYMBOLIC here -- "<default>" -- because the check takes them from the
   factories at run time: CreateDefaultConfig marshalled by confmap).

   TABLE: component -> rows <<path, alternative valid values>>.  A value token is JSON text with single quotes
   ("'3s'", "500", "true", "['a','b']").  S rows are secret typed (configopaque.String): the effective
   configuration shows the redaction marker for them.
   A DOCUMENT = one component, one CONTEXT (the writes a document needs to be valid at all, e.g. the exporter's
   endpoint, or `sizer: items` + `batch::flush_timeout` next to the other batch keys) and a set of further WRITES
   (a write to a path of the context replaces the context's write).

   Documented interactions are explicit and narrow (never a blanket tolerance):
     Presence   sections of which the documentation says "present only when written"
                (otlp receiver: a protocol that is not written is not started: README "protocols")
     Alias      a deprecated key that sets another key (sending_queue::blocking -> block_on_overflow,
                queuebatch/config.go "Deprecated: [v0.123.0] use `block_on_overflow`"); applies only when the target
                key is not written; a document that writes both with different values is not generated (the
                precedence is not documented)
     Created    a section that is absent by default (nil pointer) and comes into being with these values for its
                unwritten keys when any of its keys is written (the zero values of its non-omitempty fields)
     Shows      a value that the documentation defines as case-insensitive / normalised: written -> shown
   SwitchErases = TRUE is the NEGATIVE CONTROL: a decoder hook in which a "switch" write (sending_queue::enabled =
   false) erases a sibling subtree (sending_queue::batch): TLC must refute Faithful for it. *)
EXTENDS Naturals, Sequences, FiniteSets, TLC

CONSTANTS MaxWrites,       \* writes on top of the context
          Comps,           \* the components documents are generated for
          SwitchErases     \* negative control

VARIABLES doc              \* [c: component, ctx: context (set of <<path, value>>), w: set of <<path, value>>]

Marker == "[REDACTED]"
R(c, p, alts) == [c |-> c, p |-> p, alts |-> alts, sec |-> FALSE]
S(c, p, alts) == [c |-> c, p |-> p, alts |-> alts, sec |-> TRUE]

-----------------------------------------------------------------------------
(* shared sections; x = path prefix ("" or "a::b::") *)
TLSCommon(c, x) ==
  { R(c, x \o "tls::ca_file", {"'/tmp/ca.pem'"}),
    S(c, x \o "tls::ca_pem", {"'S3CR3T-ca'"}),
    R(c, x \o "tls::include_system_ca_certs_pool", {"true"}),
    R(c, x \o "tls::cert_file", {"'/tmp/cert.pem'"}),
    S(c, x \o "tls::cert_pem", {"'S3CR3T-cert'"}),
    R(c, x \o "tls::key_file", {"'/tmp/key.pem'"}),
    S(c, x \o "tls::key_pem", {"'S3CR3T-key'"}),
    R(c, x \o "tls::min_version", {"'1.2'", "'1.3'"}),
    R(c, x \o "tls::max_version", {"'1.3'"}),
    R(c, x \o "tls::cipher_suites", {"['TLS_ECDHE_ECDSA_WITH_AES_128_GCM_SHA256']"}),
    R(c, x \o "tls::reload_interval", {"'10s'"}),
    R(c, x \o "tls::curve_preferences", {"['X25519']"}) }
TLSClient(c, x) == TLSCommon(c, x) \cup
  { R(c, x \o "tls::insecure", {"true"}),
    R(c, x \o "tls::insecure_skip_verify", {"true"}),
    R(c, x \o "tls::server_name_override", {"'srv.example'"}) }
TLSServer(c, x) == TLSCommon(c, x) \cup
  { R(c, x \o "tls::client_ca_file", {"'/tmp/clientca.pem'"}),
    R(c, x \o "tls::client_ca_file_reload", {"true"}) }
Queue(c) ==
  { R(c, "sending_queue::enabled", {"false"}),
    R(c, "sending_queue::wait_for_result", {"true"}),
    R(c, "sending_queue::sizer", {"'items'", "'bytes'"}),
    R(c, "sending_queue::queue_size", {"500"}),
    R(c, "sending_queue::block_on_overflow", {"true"}),
    R(c, "sending_queue::blocking", {"true"}),
    R(c, "sending_queue::storage", {"'file_storage/q'"}),
    R(c, "sending_queue::num_consumers", {"3"}),
    R(c, "sending_queue::batch::flush_timeout", {"'3s'", "'250ms'"}),
    R(c, "sending_queue::batch::min_size", {"10"}),
    R(c, "sending_queue::batch::max_size", {"100"}) }
Retry(c) ==
  { R(c, "retry_on_failure::enabled", {"false"}),
    R(c, "retry_on_failure::initial_interval", {"'1s'"}),
    R(c, "retry_on_failure::randomization_factor", {"0.3"}),
    R(c, "retry_on_failure::multiplier", {"2.5"}),
    R(c, "retry_on_failure::max_interval", {"'10s'"}),
    R(c, "retry_on_failure::max_elapsed_time", {"'60s'"}) }
HTTPServer(c, x) == TLSServer(c, x) \cup
  { R(c, x \o "endpoint", {"'localhost:5318'"}),
    R(c, x \o "cors::allowed_origins", {"['https://a.example']"}),
    R(c, x \o "cors::allowed_headers", {"['x-h']"}),
    R(c, x \o "cors::max_age", {"60"}),
    R(c, x \o "max_request_body_size", {"1000"}),
    R(c, x \o "include_metadata", {"true"}),
    S(c, x \o "response_headers::x-r", {"'S3CR3T-rh'"}),
    R(c, x \o "compression_algorithms", {"['gzip']", "['zstd','snappy']"}),
    R(c, x \o "read_timeout", {"'5s'"}),
    R(c, x \o "read_header_timeout", {"'6s'"}),
    R(c, x \o "write_timeout", {"'7s'"}),
    R(c, x \o "idle_timeout", {"'8s'"}) }
MemLimiter(c) ==
  { R(c, "check_interval", {"'2s'"}),
    R(c, "min_gc_interval_when_soft_limited", {"'20s'"}),
    R(c, "min_gc_interval_when_hard_limited", {"'3s'"}),
    R(c, "limit_mib", {"200"}),
    R(c, "spike_limit_mib", {"20"}),
    R(c, "limit_percentage", {"60"}),
    R(c, "spike_limit_percentage", {"10"}) }

OTLPHTTP == "exporters/otlphttp"
OTLP     == "exporters/otlp"
DEBUG    == "exporters/debug"
RCV      == "receivers/otlp"
BATCH    == "processors/batch"
MLP      == "processors/memory_limiter"
MLE      == "extensions/memory_limiter"
ZPAGES   == "extensions/zpages"
G == "protocols::grpc::"
H == "protocols::http::"

Table ==
  Queue(OTLPHTTP) \cup Retry(OTLPHTTP) \cup TLSClient(OTLPHTTP, "") \cup
  { R(OTLPHTTP, "endpoint", {"'http://h1:4318'", "'https://h2:4318'"}),
    R(OTLPHTTP, "proxy_url", {"'http://proxy.example:3128'"}),
    R(OTLPHTTP, "read_buffer_size", {"1024"}),
    R(OTLPHTTP, "write_buffer_size", {"2048"}),
    R(OTLPHTTP, "timeout", {"'7s'"}),
    S(OTLPHTTP, "headers::x-a", {"'S3CR3T-hdr'"}),
    R(OTLPHTTP, "compression", {"'zstd'", "'snappy'"}),
    R(OTLPHTTP, "compression_params::level", {"6"}),
    R(OTLPHTTP, "max_idle_conns", {"50"}),
    R(OTLPHTTP, "max_idle_conns_per_host", {"5"}),
    R(OTLPHTTP, "max_conns_per_host", {"7"}),
    R(OTLPHTTP, "idle_conn_timeout", {"'30s'"}),
    R(OTLPHTTP, "disable_keep_alives", {"true"}),
    R(OTLPHTTP, "http2_read_idle_timeout", {"'11s'"}),
    R(OTLPHTTP, "http2_ping_timeout", {"'4s'"}),
    R(OTLPHTTP, "cookies::enabled", {"true"}),
    R(OTLPHTTP, "traces_endpoint", {"'http://t.example:4318/v1/traces'"}),
    R(OTLPHTTP, "metrics_endpoint", {"'http://m.example:4318/v1/metrics'"}),
    R(OTLPHTTP, "logs_endpoint", {"'http://l.example:4318/v1/logs'"}),
    R(OTLPHTTP, "encoding", {"'json'"}) }
  \cup
  Queue(OTLP) \cup Retry(OTLP) \cup TLSClient(OTLP, "") \cup
  { R(OTLP, "endpoint", {"'h1:4317'", "'https://h2:4317'"}),
    R(OTLP, "timeout", {"'7s'"}),
    R(OTLP, "compression", {"'zstd'", "'snappy'"}),
    R(OTLP, "keepalive::time", {"'10s'"}),
    R(OTLP, "keepalive::timeout", {"'5s'"}),
    R(OTLP, "keepalive::permit_without_stream", {"true"}),
    R(OTLP, "read_buffer_size", {"1024"}),
    R(OTLP, "write_buffer_size", {"2048"}),
    R(OTLP, "wait_for_ready", {"true"}),
    S(OTLP, "headers::x-a", {"'S3CR3T-hdr'"}),
    R(OTLP, "balancer_name", {"'pick_first'"}),
    R(OTLP, "authority", {"'auth.example'"}) }
  \cup
  { R(DEBUG, "verbosity", {"'detailed'", "'normal'"}),
    R(DEBUG, "sampling_initial", {"5"}),
    R(DEBUG, "sampling_thereafter", {"10"}),
    R(DEBUG, "use_internal_logger", {"false"}) }
  \cup
  TLSServer(RCV, G) \cup HTTPServer(RCV, H) \cup
  { R(RCV, G \o "endpoint", {"'localhost:5317'"}),
    R(RCV, G \o "transport", {"'tcp4'"}),
    R(RCV, G \o "dialer::timeout", {"'2s'"}),
    R(RCV, G \o "max_recv_msg_size_mib", {"8"}),
    R(RCV, G \o "max_concurrent_streams", {"10"}),
    R(RCV, G \o "read_buffer_size", {"1024"}),
    R(RCV, G \o "write_buffer_size", {"2048"}),
    R(RCV, G \o "keepalive::server_parameters::max_connection_idle", {"'10s'"}),
    R(RCV, G \o "keepalive::server_parameters::max_connection_age", {"'20s'"}),
    R(RCV, G \o "keepalive::server_parameters::max_connection_age_grace", {"'5s'"}),
    R(RCV, G \o "keepalive::server_parameters::time", {"'30s'"}),
    R(RCV, G \o "keepalive::server_parameters::timeout", {"'6s'"}),
    R(RCV, G \o "keepalive::enforcement_policy::min_time", {"'9s'"}),
    R(RCV, G \o "keepalive::enforcement_policy::permit_without_stream", {"true"}),
    R(RCV, G \o "include_metadata", {"true"}),
    R(RCV, H \o "traces_url_path", {"'/x/traces'"}),
    R(RCV, H \o "metrics_url_path", {"'/x/metrics'"}),
    R(RCV, H \o "logs_url_path", {"'/x/logs'"}) }
  \cup
  { R(BATCH, "timeout", {"'1s'"}),
    R(BATCH, "send_batch_size", {"100"}),
    R(BATCH, "send_batch_max_size", {"10000"}),
    R(BATCH, "metadata_keys", {"['tenant','zone']"}),
    R(BATCH, "metadata_cardinality_limit", {"10"}) }
  \cup MemLimiter(MLP) \cup MemLimiter(MLE)
  \cup HTTPServer(ZPAGES, "") \cup { R(ZPAGES, "expvar::enabled", {"true"}) }

(* contexts: what a document of the component needs to be valid at all *)
Contexts(c) ==
  CASE c = OTLPHTTP -> { {<<"endpoint", "'http://localhost:4318'">>},
                         {<<"endpoint", "'http://localhost:4318'">>, <<"sending_queue::sizer", "'items'">>,
                          <<"sending_queue::batch::flush_timeout", "'1s'">>} }
    [] c = OTLP     -> { {<<"endpoint", "'localhost:4317'">>},
                         {<<"endpoint", "'localhost:4317'">>, <<"sending_queue::sizer", "'bytes'">>,
                          <<"sending_queue::batch::flush_timeout", "'1s'">>} }
    [] c \in {MLP, MLE} -> { {<<"check_interval", "'1s'">>, <<"limit_mib", "100">>},
                             {<<"check_interval", "'1s'">>, <<"limit_percentage", "50">>} }
    [] OTHER -> { {} }

Presence == { <<RCV, "protocols::grpc">>, <<RCV, "protocols::http">> }
Alias    == { [c |-> c, p |-> "sending_queue::blocking", q |-> "sending_queue::block_on_overflow"] : c \in {OTLP, OTLPHTTP} }
Created  == { <<c, "sending_queue::batch", {<<"sending_queue::batch::flush_timeout", "0">>, <<"sending_queue::batch::min_size", "0">>,
                                            <<"sending_queue::batch::max_size", "0">>}>> : c \in {OTLP, OTLPHTTP} }
           \cup { <<OTLP, "keepalive", {<<"keepalive::time", "0">>, <<"keepalive::timeout", "0">>}>> }
Shows    == { <<DEBUG, "verbosity", "'detailed'", "'Detailed'">>, <<DEBUG, "verbosity", "'normal'", "'Normal'">> }
(* negative control: <<component, switch path, switch value, erased subtree>> *)
Switch   == { <<c, "sending_queue::enabled", "false", "sending_queue::batch">> : c \in {OTLP, OTLPHTTP} }

-----------------------------------------------------------------------------
Rows(c)  == {r \in Table : r.c = c}
IsPrefix(a, b) == Len(a) <= Len(b) /\ SubSeq(b, 1, Len(a)) = a       \* of strings
Under(p, sect) == IsPrefix(sect \o "::", p)
SecPaths(c)  == {r.p : r \in {x \in Rows(c) : x.sec}}

Paths(ws)     == {x[1] : x \in ws}
\* the document's writes: the context's, replaced path by path by the further writes
AllWrites(d)  == d.w \cup {x \in d.ctx : x[1] \notin Paths(d.w)}
ValOf(ws, p)  == (CHOOSE x \in ws : x[1] = p)[2]

\* not generated: a deprecated alias and its target written with different values (precedence undocumented)
Conflict(c, ws) == \E a \in Alias : a.c = c /\ a.p \in Paths(ws) /\ a.q \in Paths(ws) /\ ValOf(ws, a.p) # ValOf(ws, a.q)

BInit == \E c \in Comps : \E x \in Contexts(c) : doc = [c |-> c, ctx |-> x, w |-> {}]
Write(p, v) == /\ Cardinality(doc.w) < MaxWrites
               /\ p \notin Paths(doc.w)
               /\ ~Conflict(doc.c, AllWrites([doc EXCEPT !.w = @ \cup {<<p, v>>}]))
               /\ doc' = [doc EXCEPT !.w = @ \cup {<<p, v>>}]
BNext == \E r \in Rows(doc.c) : \E v \in r.alts : Write(r.p, v)
BSpec == BInit /\ [][BNext]_doc

-----------------------------------------------------------------------------
(* what a written value looks like in the effective configuration *)
Shown(c, p, v) == IF p \in SecPaths(c) THEN Marker
                  ELSE IF \E s \in Shows : s[1] = c /\ s[2] = p /\ s[3] = v
                       THEN (CHOOSE s \in Shows : s[1] = c /\ s[2] = p /\ s[3] = v)[4] ELSE v

(* STATEMENT LEVEL: the effective configuration of a document as a set of <<path, shown value>> that differ from
   the factory default ("defaults overlaid by exactly the written keys"), and the sections that are absent *)
CreatedDefaults(c, ws) == UNION { {y \in k[3] : y[1] \notin Paths(ws)} : k \in {k \in Created : k[1] = c /\ \E p \in Paths(ws) : Under(p, k[2])} }
Aliased(c, ws) == { <<a.q, Shown(c, a.q, ValOf(ws, a.p))>> : a \in {a \in Alias : a.c = c /\ a.p \in Paths(ws) /\ a.q \notin Paths(ws)} }
Effective(d) == LET ws == AllWrites(d) IN
    { <<x[1], Shown(d.c, x[1], x[2])>> : x \in ws } \cup Aliased(d.c, ws) \cup CreatedDefaults(d.c, ws)
Absent(d) == { k[2] : k \in {k \in Presence : k[1] = d.c /\ ~\E p \in Paths(AllWrites(d)) : Under(p, k[2])} }

(* IMPLEMENTATION SHAPED: the decoder writes every key of the document into the default object (creating absent
   sections), then the component's Unmarshal hook runs: alias, presence -- and, in the negative control, the switch *)
Decoded(d) == LET ws == AllWrites(d) IN { <<x[1], Shown(d.c, x[1], x[2])>> : x \in ws } \cup CreatedDefaults(d.c, ws)
Hooked(d)  == LET ws == AllWrites(d)
                  dec == Decoded(d)
                  al == { <<a.q, Shown(d.c, a.q, ValOf(ws, a.p))>> : a \in {a \in Alias : a.c = d.c /\ a.p \in Paths(ws)} }
                  kept == {x \in dec : x[1] \notin Paths(al)} \cup al
              IN IF SwitchErases
                 THEN {x \in kept : ~\E s \in Switch : s[1] = d.c /\ s[2] \in Paths(ws) /\ ValOf(ws, s[2]) = s[3] /\ Under(x[1], s[4])}
                 ELSE kept
ImplEffective(d) == Hooked(d)

(* Faithful: every written key shows its written value (siblings that were also written keep theirs), and nothing
   else differs from the factory defaults except what a documented interaction determines *)
Faithful == /\ \A x \in AllWrites(doc) : <<x[1], Shown(doc.c, x[1], x[2])>> \in ImplEffective(doc)
            /\ ImplEffective(doc) = Effective(doc)
=============================================================================
