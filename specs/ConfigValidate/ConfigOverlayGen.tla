-------------------------- MODULE ConfigOverlayGen --------------------------
(* prints every history of the bounded space: per load the writes, the defect and the statement-level typed
   configuration (every setting of the table, written or default) *)
EXTENDS ConfigOverlay, Json
Load(i) == [w |-> {[s |-> x[1], v |-> x[2], sec |-> Row(x[1]).sec] : x \in hist[i].w}, defect |-> hist[i].defect,
            decoded |-> Decoded(hist[i]), reject |-> Reject(hist[i]), typed |-> Typed(hist[i]), effective |-> Effective(hist[i])]
EmitHist == Len(hist) > 0 => PrintT(<<"BEH", ToJson([i \in DOMAIN hist |-> Load(i)])>>)
=============================================================================
