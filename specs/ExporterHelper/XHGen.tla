------------------------------ MODULE XHGen ------------------------------
(* Script generator for C03 / C19: behaviours of ExporterHelper.tla projected to what the driver
   (harness/exporter/xs) controls -- the order of sends, pauses that let exports / the flush timer
   happen, the moment Shutdown is requested, and the outcome of the k-th export call.  An export
   attempt the behaviour places after the shutdown request is scripted "slow" (the real call blocks
   until Shutdown has been requested), so that it really overlaps the drain. *)
EXTENDS ExporterHelper, Json

VARIABLES steps, outs
gvars == <<vars, steps, outs>>

S(op, r) == [op |-> op, req |-> r, items |-> IF r = "" THEN 0 ELSE Cardinality(ItemsOf[r])]

GInit == Init /\ steps = <<>> /\ outs = <<>>

GNext ==
  \/ \E r \in Reqs : Send(r) /\ steps' = Append(steps, S("send", r)) /\ UNCHANGED outs
  \/ \E c \in Consumers : (Read(c) \/ Consume(c)) /\ UNCHANGED <<steps, outs>>
  \/ TimerFlush /\ steps' = (IF sdpc = "idle" THEN Append(steps, S("wait_flush", "")) ELSE steps) /\ UNCHANGED outs
  \/ TimerExit /\ UNCHANGED <<steps, outs>>
  \/ \E f \in flights :
        \/ \E o \in {"ok", "perm", "transient"} :
              /\ Attempt(f, o)
              /\ outs' = Append(outs, IF sdpc # "idle" /\ o = "ok" /\ f.attempts = 0 THEN "slow" ELSE o)
              /\ steps' = (IF sdpc = "idle" /\ (steps = <<>> \/ steps[Len(steps)].op # "wait_idle")
                             THEN Append(steps, S("wait_idle", "")) ELSE steps)
        \/ (WaitDone(f) \/ StopDuringWait(f) \/ Reap(f)) /\ UNCHANGED <<steps, outs>>
  \/ SStep /\ steps' = (IF sdpc = "idle" THEN Append(steps, S("shutdown", "")) ELSE steps) /\ UNCHANGED outs

GSpec == GInit /\ [][GNext]_gvars
EmitScript == Returned => PrintT(<<"BEH", ToJson([steps |-> steps, outcomes |-> outs])>>)
=============================================================================
