---------------------------- MODULE ExporterHelper ----------------------------
(* C03 / C19 -- composition of the exporter helper (exporterhelper/internal/base_exporter.go):

     producers -> [obs queue -> queue (memory | persistent) -> N consumer loops -> batcher
                   (disabled | default: merge/split by items, min/max size, flush timer, flush goroutines)]
               -> obs report sender (items sent / failed counters) -> retry sender -> export function

   and the shutdown sequence of BaseExporter.Shutdown as its own process:
     StopRetry   retry sender: close(stopCh)      (a retry wait ends with a shutdown-classified error)
     StopQueue   queue: stopped := TRUE, wake consumers
     JoinCons    wait for the consumer loops (memory queue: they first drain every queued request;
                 persistent queue: they stop reading, queued requests stay stored)
     FinalFlush  batcher: flush the partially filled batch
     JoinFlush   wait for every flush goroutine and the timer goroutine
     Returned

   A request is a set of items; the export function's outcome per attempt is chosen
   nondeterministically: ok | perm | transient.  Counters are the observables of C19. *)
EXTENDS Integers, Sequences, FiniteSets, TLC

CONSTANTS Reqs,          \* request ids
          ItemsOf,       \* request -> set of item ids (disjoint)
          QueueKind,     \* "memory" | "persistent"
          Cap,           \* queue capacity in requests
          NumConsumers,
          BatchOn, MinSize, MaxSize,   \* default batcher (items sizer); MaxSize = 0: no split
          RetryOn,
          MaxAttempts    \* bound on attempts per batch (model bound only)

Consumers == 1..NumConsumers
AllItems == UNION {ItemsOf[r] : r \in Reqs}

VARIABLES
  q,            \* queued requests (FIFO)
  stopped, retryStopped,
  prod,         \* request -> "todo" | "accepted" | "refused"
  cpc,          \* consumer -> "idle" | "holding" | "exited"
  chold,        \* consumer -> request held (or "none")
  cur,          \* current (partially filled) batch: sequence of items
  curReqs,      \* requests with items in the current batch
  flights,      \* set of export jobs: [id, items, reqs, st, attempts]  st: "ready"|"calling"|"waiting"|"done"
  nextId,
  timerAlive,
  sdpc,         \* shutdown process pc: "idle","stopretry","stopqueue","joincons","finalflush","joinflush","returned"
  before,       \* requests accepted before shutdown was requested
  \* observables
  attempts,     \* item -> number of export attempts that included it
  final,        \* items whose export finished with a final outcome (ok / perm / exhausted / non-retried failure)
  okItems,      \* items exported successfully
  stored,       \* persistent queue: items still durably stored
  sent, failed, enqFailed,   \* C19 counters (items)
  given,
  lateExport,   \* an export call began after Returned
  attemptFailed \* some export attempt returned an error

vars == <<q, stopped, retryStopped, prod, cpc, chold, cur, curReqs, flights, nextId, timerAlive, sdpc, before,
          attempts, final, okItems, stored, sent, failed, enqFailed, given, lateExport, attemptFailed>>

SeqToSet(s) == {s[i] : i \in 1..Len(s)}
RECURSIVE SetToSeq(_)
SetToSeq(S) == IF S = {} THEN <<>> ELSE LET x == CHOOSE y \in S : TRUE IN <<x>> \o SetToSeq(S \ {x})

Init ==
  /\ q = <<>> /\ stopped = FALSE /\ retryStopped = FALSE
  /\ prod = [r \in Reqs |-> "todo"]
  /\ cpc = [c \in Consumers |-> "idle"] /\ chold = [c \in Consumers |-> "none"]
  /\ cur = <<>> /\ curReqs = {} /\ flights = {} /\ nextId = 1 /\ timerAlive = BatchOn
  /\ sdpc = "idle" /\ before = {}
  /\ attempts = [i \in AllItems |-> 0] /\ final = {} /\ okItems = {} /\ stored = {}
  /\ sent = 0 /\ failed = 0 /\ enqFailed = 0 /\ given = 0 /\ lateExport = FALSE /\ attemptFailed = FALSE

ShutdownRequested == sdpc # "idle"

----------------------------------------------------------------------------
\* producers (ConsumeLogs -> obs queue -> queue.Offer)
Send(r) ==
  /\ prod[r] = "todo" /\ ~stopped
  /\ given' = given + Cardinality(ItemsOf[r])
  /\ IF Len(q) + (IF QueueKind = "memory" THEN Cardinality({c \in Consumers : cpc[c] = "holding"}) ELSE 0) < Cap
       THEN /\ q' = Append(q, r) /\ prod' = [prod EXCEPT ![r] = "accepted"]
            /\ stored' = IF QueueKind = "persistent" THEN stored \cup ItemsOf[r] ELSE stored
            /\ before' = IF ShutdownRequested THEN before ELSE before \cup {r}
            /\ UNCHANGED enqFailed
       ELSE /\ prod' = [prod EXCEPT ![r] = "refused"]
            /\ enqFailed' = enqFailed + Cardinality(ItemsOf[r])
            /\ UNCHANGED <<q, stored, before>>
  /\ UNCHANGED <<stopped, retryStopped, cpc, chold, cur, curReqs, flights, nextId, timerAlive, sdpc,
                 attempts, final, okItems, sent, failed, lateExport, attemptFailed>>

\* consumer loop: Read
Read(c) ==
  /\ cpc[c] = "idle"
  /\ IF q # <<>> /\ ~(QueueKind = "persistent" /\ stopped)
       THEN /\ cpc' = [cpc EXCEPT ![c] = "holding"] /\ chold' = [chold EXCEPT ![c] = Head(q)] /\ q' = Tail(q)
       ELSE /\ stopped /\ cpc' = [cpc EXCEPT ![c] = "exited"] /\ UNCHANGED <<chold, q>>
  /\ UNCHANGED <<stopped, retryStopped, prod, cur, curReqs, flights, nextId, timerAlive, sdpc, before,
                 attempts, final, okItems, stored, sent, failed, enqFailed, given, lateExport, attemptFailed>>

NewFlight(id, its, rs) == [id |-> id, items |-> its, reqs |-> rs, st |-> "ready", attempts |-> 0, sync |-> 0]

\* chunks of a sequence: consecutive pieces of MaxSize items (MaxSize = 0: one piece)
RECURSIVE Chunks(_)
Chunks(s) == IF Len(s) = 0 THEN <<>>
             ELSE IF MaxSize = 0 \/ Len(s) <= MaxSize THEN <<s>>
             ELSE <<SubSeq(s, 1, MaxSize)>> \o Chunks(SubSeq(s, MaxSize + 1, Len(s)))

\* batcher.Consume: disabled batcher exports synchronously on the consumer goroutine; the default batcher merges
\* into the current batch, flushes every full chunk on its own goroutine and keeps a last chunk below MinSize
Consume(c) ==
  /\ cpc[c] = "holding"
  /\ LET r == chold[c] IN
     IF ~BatchOn
       THEN /\ flights' = flights \cup {[NewFlight(nextId, ItemsOf[r], {r}) EXCEPT !.sync = c]}
            /\ nextId' = nextId + 1
            /\ cpc' = [cpc EXCEPT ![c] = "exporting"]
            /\ UNCHANGED <<cur, curReqs, chold>>
       ELSE LET all == cur \o SetToSeq(ItemsOf[r])
                ch  == Chunks(all)
                n   == Len(ch)
                keepLast == n > 0 /\ Len(ch[n]) < MinSize
                toFlush == IF keepLast THEN SubSeq(ch, 1, n - 1) ELSE ch
                rs  == curReqs \cup {r}
            IN /\ cur' = IF keepLast THEN ch[n] ELSE <<>>
               /\ curReqs' = IF keepLast THEN rs ELSE {}
               /\ flights' = flights \cup {NewFlight(nextId + k - 1, SeqToSet(toFlush[k]), rs) : k \in 1..Len(toFlush)}
               /\ nextId' = nextId + Len(toFlush)
               /\ cpc' = [cpc EXCEPT ![c] = "idle"] /\ chold' = [chold EXCEPT ![c] = "none"]
  /\ UNCHANGED <<q, stopped, retryStopped, prod, timerAlive, sdpc, before,
                 attempts, final, okItems, stored, sent, failed, enqFailed, given, lateExport, attemptFailed>>

\* flush timer
TimerFlush ==
  /\ BatchOn /\ timerAlive /\ cur # <<>>
  /\ flights' = flights \cup {NewFlight(nextId, SeqToSet(cur), curReqs)} /\ nextId' = nextId + 1
  /\ cur' = <<>> /\ curReqs' = {}
  /\ UNCHANGED <<q, stopped, retryStopped, prod, cpc, chold, timerAlive, sdpc, before,
                 attempts, final, okItems, stored, sent, failed, enqFailed, given, lateExport, attemptFailed>>
TimerExit ==
  /\ timerAlive /\ sdpc \in {"joinflush", "returned"}      \* shutdownCh closed by batcher.Shutdown
  /\ timerAlive' = FALSE
  /\ UNCHANGED <<q, stopped, retryStopped, prod, cpc, chold, cur, curReqs, flights, nextId, sdpc, before,
                 attempts, final, okItems, stored, sent, failed, enqFailed, given, lateExport, attemptFailed>>

\* one export attempt of a flight (obs report sender -> retry sender -> export function)
Finish(f, ok) ==   \* the retry sender returned a non-shutdown result: obs report counts, queue item(s) finalised
  /\ final' = final \cup f.items
  /\ okItems' = IF ok THEN okItems \cup f.items ELSE okItems
  /\ sent' = IF ok THEN sent + Cardinality(f.items) ELSE sent
  /\ failed' = IF ok THEN failed ELSE failed + Cardinality(f.items)
  /\ stored' = stored \ f.items

Attempt(f, o) ==
  /\ f \in flights /\ f.st = "ready" /\ f.attempts < MaxAttempts
  /\ lateExport' = (lateExport \/ sdpc = "returned")
  /\ attemptFailed' = (attemptFailed \/ o # "ok")
  /\ attempts' = [i \in AllItems |-> IF i \in f.items THEN attempts[i] + 1 ELSE attempts[i]]
  /\ LET g == [f EXCEPT !.attempts = @ + 1] IN
     CASE o = "ok"   -> /\ flights' = (flights \ {f}) \cup {[g EXCEPT !.st = "done"]} /\ Finish(f, TRUE)
       [] o = "perm" -> /\ flights' = (flights \ {f}) \cup {[g EXCEPT !.st = "done"]} /\ Finish(f, FALSE)
       [] o = "transient" ->
            IF RetryOn /\ g.attempts < MaxAttempts
              THEN IF retryStopped
                     THEN \* stopCh closed: shutdown-classified error; counted as failed by the obs report sender,
                          \* a persistent queue keeps the request
                          /\ flights' = (flights \ {f}) \cup {[g EXCEPT !.st = "done"]}
                          /\ failed' = failed + Cardinality(f.items)
                          /\ final' = IF QueueKind = "memory" THEN final \cup f.items ELSE final
                          /\ UNCHANGED <<okItems, sent, stored>>
                     ELSE /\ flights' = (flights \ {f}) \cup {[g EXCEPT !.st = "waiting"]}
                          /\ UNCHANGED <<final, okItems, sent, failed, stored>>
              ELSE /\ flights' = (flights \ {f}) \cup {[g EXCEPT !.st = "done"]} /\ Finish(f, FALSE)
  /\ UNCHANGED <<q, stopped, retryStopped, prod, cpc, chold, cur, curReqs, nextId, timerAlive, sdpc, before, enqFailed, given>>

WaitDone(f) ==
  /\ f \in flights /\ f.st = "waiting" /\ ~retryStopped
  /\ flights' = (flights \ {f}) \cup {[f EXCEPT !.st = "ready"]}
  /\ UNCHANGED <<q, stopped, retryStopped, prod, cpc, chold, cur, curReqs, nextId, timerAlive, sdpc, before,
                 attempts, final, okItems, stored, sent, failed, enqFailed, given, lateExport, attemptFailed>>

StopDuringWait(f) ==
  /\ f \in flights /\ f.st = "waiting" /\ retryStopped
  /\ flights' = (flights \ {f}) \cup {[f EXCEPT !.st = "done"]}
  /\ failed' = failed + Cardinality(f.items)
  /\ final' = IF QueueKind = "memory" THEN final \cup f.items ELSE final
  /\ UNCHANGED <<q, stopped, retryStopped, prod, cpc, chold, cur, curReqs, nextId, timerAlive, sdpc, before,
                 attempts, okItems, stored, sent, enqFailed, given, lateExport, attemptFailed>>

\* the flight's goroutine ends (flush goroutine) or the consumer continues (disabled batcher)
Reap(f) ==
  /\ f \in flights /\ f.st = "done"
  /\ flights' = flights \ {f}
  /\ IF f.sync # 0 THEN /\ cpc' = [cpc EXCEPT ![f.sync] = "idle"] /\ chold' = [chold EXCEPT ![f.sync] = "none"]
                   ELSE UNCHANGED <<cpc, chold>>
  /\ UNCHANGED <<q, stopped, retryStopped, prod, cur, curReqs, nextId, timerAlive, sdpc, before,
                 attempts, final, okItems, stored, sent, failed, enqFailed, given, lateExport, attemptFailed>>

----------------------------------------------------------------------------
\* BaseExporter.Shutdown
SStep ==
  /\ CASE sdpc = "idle"      -> sdpc' = "stopretry" /\ UNCHANGED <<retryStopped, stopped, cur, curReqs, flights, nextId>>
       [] sdpc = "stopretry" -> sdpc' = "stopqueue" /\ retryStopped' = RetryOn /\ UNCHANGED <<stopped, cur, curReqs, flights, nextId>>
       [] sdpc = "stopqueue" -> sdpc' = "joincons" /\ stopped' = TRUE /\ UNCHANGED <<retryStopped, cur, curReqs, flights, nextId>>
       [] sdpc = "joincons"  -> /\ \A c \in Consumers : cpc[c] = "exited"
                                /\ sdpc' = "finalflush" /\ UNCHANGED <<retryStopped, stopped, cur, curReqs, flights, nextId>>
       [] sdpc = "finalflush" -> /\ sdpc' = "joinflush" /\ UNCHANGED <<retryStopped, stopped>>
                                 /\ IF BatchOn /\ cur # <<>>
                                      THEN /\ flights' = flights \cup {NewFlight(nextId, SeqToSet(cur), curReqs)}
                                           /\ nextId' = nextId + 1 /\ cur' = <<>> /\ curReqs' = {}
                                      ELSE UNCHANGED <<cur, curReqs, flights, nextId>>
       [] sdpc = "joinflush" -> /\ flights = {} /\ ~timerAlive
                                /\ sdpc' = "returned" /\ UNCHANGED <<retryStopped, stopped, cur, curReqs, flights, nextId>>
       [] OTHER -> FALSE
  /\ UNCHANGED <<q, prod, cpc, chold, timerAlive, before, attempts, final, okItems, stored, sent, failed, enqFailed, given, lateExport, attemptFailed>>

Next == \/ \E r \in Reqs : Send(r)
        \/ \E c \in Consumers : Read(c) \/ Consume(c)
        \/ TimerFlush \/ TimerExit
        \/ \E f \in flights : \/ \E o \in {"ok", "perm", "transient"} : Attempt(f, o)
                              \/ WaitDone(f) \/ StopDuringWait(f) \/ Reap(f)
        \/ SStep
Spec == Init /\ [][Next]_vars

----------------------------------------------------------------------------
\* C03
Returned == sdpc = "returned"
BeforeItems == UNION {ItemsOf[r] : r \in before}
DrainedMemory     == (Returned /\ QueueKind = "memory") => \A i \in BeforeItems : attempts[i] >= 1
DrainedPersistent == (Returned /\ QueueKind = "persistent") => \A i \in BeforeItems : i \in final \/ i \in stored
AllExportsReturned == Returned => flights = {}
NoGoroutineLeft   == Returned => (/\ \A c \in Consumers : cpc[c] = "exited" /\ ~timerAlive /\ flights = {})
NoExportAfterReturn == ~lateExport
NothingLeftInBatch == Returned => cur = <<>>
\* exactly once when no attempt fails: an item successfully exported was attempted once unless an attempt failed
ExactlyOnceIfNoFailure == (Returned /\ ~attemptFailed /\ QueueKind = "memory") => \A i \in BeforeItems : attempts[i] = 1
\* C19
ExporterBalance == Returned => sent + failed + enqFailed = given - Cardinality(stored)
=============================================================================
