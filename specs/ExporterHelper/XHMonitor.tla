------------------------------ MODULE XHMonitor ------------------------------
(* C03 / C19 monitor: the clauses of the two statements evaluated by TLC on the events recorded
   from the REAL exporter helper (harness/exporter/xs).  One verdict line per violated clause and
   script; the run continues so every trace of the batch gets a verdict.

   events: reset{script,cfg,universe} offer_start{req,items} offer_end{req,res,items} push_start{items,call}
           push_end{items,call,out} late_push{items} shutdown_start shutdown_end shutdown_hang{left}
           final{left,sent,failed,enq_failed,stored,qsize} *)
EXTENDS Integers, Sequences, FiniteSets, TLC, Json

Log == ndJsonDeserialize("observed.ndjson")

VARIABLES l, sid, cfg,
          before,      \* items of requests whose enqueue returned nil before shutdown was requested
          given,       \* items handed to the exporter (all sends)
          attempts,    \* item -> number of export calls that included it
          finalItems,  \* items in an export call that returned ok / perm, or failed with retry disabled
          open,        \* export calls started and not returned
          anyFail, shutReq, shutRet, late,
          offerErr,    \* items of requests whose send call returned an error
          rwant, rgot, rlife,  \* restart phase (second incarnation over the same storage): items stored at the restart, items
                       \* exported by the second incarnation, the user's lifetime there
          ulife        \* "new" | "started" | "stopped": the user's start function (exporterhelper.WithStart) has returned /
                       \* the user's shutdown function (WithShutdown) has been called

mvars == <<l, sid, cfg, before, given, attempts, finalItems, open, anyFail, shutReq, shutRet, late, offerErr, ulife, rwant, rgot, rlife>>

E == Log[l]
Is(e) == l <= Len(Log) /\ E.ev = e /\ l' = l + 1
SetOf(s) == {s[i] : i \in 1..Len(s)}
Report(clause, detail) == PrintT(<<"BEH", ToJson([script |-> sid, clause |-> clause, detail |-> detail])>>)

MInit == /\ l = 1 /\ sid = "" /\ cfg = [queue |-> "none"] /\ before = {} /\ given = 0 /\ attempts = <<>>
         /\ finalItems = {} /\ open = {} /\ anyFail = FALSE /\ shutReq = FALSE /\ shutRet = FALSE /\ late = FALSE /\ offerErr = {} /\ ulife = "new" /\ rwant = {} /\ rgot = {} /\ rlife = "none"

MReset == /\ Is("reset")
          /\ sid' = E.script /\ cfg' = E.cfg /\ before' = {} /\ given' = 0
          /\ attempts' = [i \in SetOf(E.universe) |-> 0]
          /\ finalItems' = {} /\ open' = {} /\ anyFail' = FALSE /\ shutReq' = FALSE /\ shutRet' = FALSE /\ late' = FALSE /\ offerErr' = {} /\ ulife' = "new" /\ rwant' = {} /\ rgot' = {} /\ rlife' = "none"

MOfferStart == /\ Is("offer_start") /\ given' = given + E.n
               /\ UNCHANGED <<sid, cfg, before, attempts, finalItems, open, anyFail, shutReq, shutRet, late, offerErr, ulife, rwant, rgot, rlife>>

MOfferEnd == /\ Is("offer_end")
             /\ before' = IF E.res = "ok" /\ ~shutReq THEN before \cup SetOf(E.items) ELSE before
             /\ offerErr' = IF E.res # "ok" THEN offerErr \cup SetOf(E.items) ELSE offerErr
             /\ UNCHANGED <<sid, cfg, given, attempts, finalItems, open, anyFail, shutReq, shutRet, late, ulife, rwant, rgot, rlife>>

\* (extra clause, not part of C03 / C19: documented order of BaseExporter.Start / Shutdown -- the wrapped exporter is started first
\*  and shut down last, so the export function runs only inside the user's lifetime)
MPushStart == /\ Is("push_start")
              /\ (ulife # "started" => Report("ExportWithinUserLifetime", <<ulife, E.items>>))
              /\ attempts' = [i \in DOMAIN attempts |-> IF i \in SetOf(E.items) THEN attempts[i] + 1 ELSE attempts[i]]
              /\ open' = open \cup {E.call}
              /\ UNCHANGED <<sid, cfg, before, given, finalItems, anyFail, shutReq, shutRet, late, offerErr, ulife, rwant, rgot, rlife>>

MPushEnd == /\ Is("push_end")
            /\ open' = open \ {E.call}
            /\ anyFail' = (anyFail \/ E.out # "ok")
            \* final: the call returned ok / a permanent error, or any error with retry disabled; of a PARTIAL failure the
            \* items not named as undelivered were delivered
            /\ finalItems' = IF E.out \in {"ok", "perm"} \/ ~cfg.retry THEN finalItems \cup SetOf(E.items)
                              ELSE IF Len(E.rem) > 0 THEN finalItems \cup (SetOf(E.items) \ SetOf(E.rem))
                              ELSE finalItems
            /\ UNCHANGED <<sid, cfg, before, given, attempts, shutReq, shutRet, late, offerErr, ulife, rwant, rgot, rlife>>

MLate == /\ Is("late_push") /\ late' = TRUE
         /\ Report("NoExportAfterReturn", E.items)
         /\ UNCHANGED <<sid, cfg, before, given, attempts, finalItems, open, anyFail, shutReq, shutRet, offerErr, ulife, rwant, rgot, rlife>>

MShutStart == /\ Is("shutdown_start") /\ shutReq' = TRUE
              /\ UNCHANGED <<sid, cfg, before, given, attempts, finalItems, open, anyFail, shutRet, late, offerErr, ulife, rwant, rgot, rlife>>

\* C03 clauses that are decided at the moment Shutdown returns
MShutEnd == /\ Is("shutdown_end") /\ shutRet' = TRUE
            \* (without a queue the export runs on the CALLER's goroutine inside its own send call: not the helper's to join)
            /\ ((open # {} /\ cfg.queue # "none") => Report("AllExportsReturned", open))
            /\ (cfg.queue = "memory" =>
                  LET missing == {i \in before : attempts[i] = 0} IN missing # {} => Report("DrainedMemory", missing))
            /\ ((cfg.queue = "memory" /\ ~anyFail) =>
                  LET twice == {i \in before : attempts[i] > 1} IN twice # {} => Report("ExactlyOnceIfNoFailure", twice))
            /\ UNCHANGED <<sid, cfg, before, given, attempts, finalItems, open, anyFail, shutReq, late, offerErr, ulife, rwant, rgot, rlife>>

MShutHang == /\ Is("shutdown_hang") /\ Report("ShutdownReturns", E.left)
             /\ UNCHANGED <<sid, cfg, before, given, attempts, finalItems, open, anyFail, shutReq, shutRet, late, offerErr, ulife, rwant, rgot, rlife>>

\* decided after the settle period: goroutines, durable contents, counters
MFinal == /\ Is("final")
          /\ (shutRet /\ Len(E.left) > 0 => Report("NoGoroutineLeft", E.left))
          /\ ((shutRet /\ cfg.queue = "persistent") =>
                LET lost == {i \in before : i \notin finalItems /\ i \notin SetOf(E.stored)} IN
                lost # {} => Report("DrainedPersistent", lost))
          /\ (shutRet =>
                LET st == IF cfg.queue = "persistent" THEN Len(E.stored) ELSE 0 IN
                (E.sent + E.failed + E.enq_failed # given - st) =>
                   Report("ExporterBalance", [sent |-> E.sent, failed |-> E.failed, enq_failed |-> E.enq_failed,
                                              given |-> given, stored |-> st, wfr |-> cfg.wfr, queue |-> cfg.queue,
                                              anyFail |-> anyFail,
                                              \* items handed to the export function although their send call returned an error
                                              handedButOfferErr |-> Cardinality({i \in offerErr : attempts[i] >= 1}),
                                              \* items still stored although an export attempt on them was made and not finalised
                                              storedAfterAttempt |-> Cardinality({i \in SetOf(E.stored) : attempts[i] >= 1 /\ i \notin finalItems}),
                                              \* items still stored although they went through an export attempt (finalised or not):
                                              \* the persistent queue keeps or deletes WHOLE requests
                                              storedAttempted |-> Cardinality({i \in SetOf(E.stored) : attempts[i] >= 1})]))
          /\ UNCHANGED <<sid, cfg, before, given, attempts, finalItems, open, anyFail, shutReq, shutRet, late, offerErr, ulife, rwant, rgot, rlife>>

MUStart == /\ Is("ustart_end") /\ ulife' = "started"
           /\ UNCHANGED <<sid, cfg, before, given, attempts, finalItems, open, anyFail, shutReq, shutRet, late, offerErr, rwant, rgot, rlife>>
MUStop == /\ Is("ushutdown_begin") /\ ulife' = "stopped"
          /\ ((open # {} /\ cfg.queue # "none") => Report("ExportWithinUserLifetime", <<"export in flight when the user's shutdown function is called", open>>))
          /\ UNCHANGED <<sid, cfg, before, given, attempts, finalItems, open, anyFail, shutReq, shutRet, late, offerErr, rwant, rgot, rlife>>
\* ---- restart phase (extra clauses, not part of C03 / C19): "still durably stored for the next start" means the next start
\*      exports it; and the second incarnation too exports only inside the user's lifetime
RKeep == UNCHANGED <<sid, cfg, before, given, attempts, finalItems, open, anyFail, shutReq, shutRet, late, offerErr, ulife>>
MRestart == Is("restart") /\ rwant' = SetOf(E.stored) /\ rgot' = {} /\ rlife' = "new" /\ RKeep
MRUStart == Is("r_ustart_end") /\ rlife' = "started" /\ UNCHANGED <<rwant, rgot>> /\ RKeep
MRUStop  == Is("r_ushutdown_begin") /\ rlife' = "stopped" /\ UNCHANGED <<rwant, rgot>> /\ RKeep
MRPushStart == /\ Is("r_push_start") /\ (rlife # "started" => Report("ExportWithinUserLifetime", <<"second incarnation", rlife, E.items>>))
               /\ UNCHANGED <<rwant, rgot, rlife>> /\ RKeep
MRPushEnd == Is("r_push_end") /\ rgot' = rgot \cup SetOf(E.items) /\ UNCHANGED <<rwant, rlife>> /\ RKeep
MRFinal == /\ Is("r_final")
           /\ LET missing == rwant \ rgot
                  ghost == rgot \ rwant IN
              /\ (missing # {} => Report("StoredIsRedelivered", missing))
              /\ (ghost # {} => Report("RedeliveredWasStored", ghost))
              /\ (SetOf(E.stored) # {} => Report("RedeliveredIsDeleted", E.stored))
           /\ UNCHANGED <<rwant, rgot, rlife>> /\ RKeep
MSkip == /\ l <= Len(Log) /\ E.ev \in {"note"} /\ l' = l + 1
         /\ UNCHANGED <<sid, cfg, before, given, attempts, finalItems, open, anyFail, shutReq, shutRet, late, offerErr, ulife, rwant, rgot, rlife>>

MNext == MReset \/ MOfferStart \/ MOfferEnd \/ MPushStart \/ MPushEnd \/ MLate \/ MShutStart \/ MShutEnd
         \/ MShutHang \/ MFinal \/ MSkip \/ MUStart \/ MUStop
         \/ MRestart \/ MRUStart \/ MRUStop \/ MRPushStart \/ MRPushEnd \/ MRFinal
MSpec == MInit /\ [][MNext]_mvars
AllConsumed == TLCGet("stats").diameter - 1 = Len(Log)
=============================================================================
