module go.opentelemetry.io/collector/pdata/verifh

go 1.23.0

require (
	go.opentelemetry.io/collector/pdata v1.30.0
	go.opentelemetry.io/collector/pdata/pprofile v0.0.0
)

require (
	github.com/gogo/protobuf v1.3.2 // indirect
	github.com/json-iterator/go v1.1.12 // indirect
	github.com/modern-go/concurrent v0.0.0-20180306012644-bacd9c7ef1dd // indirect
	github.com/modern-go/reflect2 v1.0.2 // indirect
	go.uber.org/multierr v1.11.0 // indirect
	golang.org/x/net v0.39.0 // indirect
	golang.org/x/sys v0.32.0 // indirect
	golang.org/x/text v0.24.0 // indirect
	google.golang.org/genproto/googleapis/rpc v0.0.0-20250115164207-1a7da9e5054f // indirect
	google.golang.org/grpc v1.71.1 // indirect
	google.golang.org/protobuf v1.36.6 // indirect
)

replace (
	go.opentelemetry.io/collector => /tmp/wt-C07
	go.opentelemetry.io/collector/client => /tmp/wt-C07/client
	go.opentelemetry.io/collector/cmd/builder => /tmp/wt-C07/cmd/builder
	go.opentelemetry.io/collector/cmd/mdatagen => /tmp/wt-C07/cmd/mdatagen
	go.opentelemetry.io/collector/cmd/otelcorecol => /tmp/wt-C07/cmd/otelcorecol
	go.opentelemetry.io/collector/component => /tmp/wt-C07/component
	go.opentelemetry.io/collector/component/componentstatus => /tmp/wt-C07/component/componentstatus
	go.opentelemetry.io/collector/component/componenttest => /tmp/wt-C07/component/componenttest
	go.opentelemetry.io/collector/config/configauth => /tmp/wt-C07/config/configauth
	go.opentelemetry.io/collector/config/configcompression => /tmp/wt-C07/config/configcompression
	go.opentelemetry.io/collector/config/configgrpc => /tmp/wt-C07/config/configgrpc
	go.opentelemetry.io/collector/config/confighttp => /tmp/wt-C07/config/confighttp
	go.opentelemetry.io/collector/config/confighttp/xconfighttp => /tmp/wt-C07/config/confighttp/xconfighttp
	go.opentelemetry.io/collector/config/configmiddleware => /tmp/wt-C07/config/configmiddleware
	go.opentelemetry.io/collector/config/confignet => /tmp/wt-C07/config/confignet
	go.opentelemetry.io/collector/config/configopaque => /tmp/wt-C07/config/configopaque
	go.opentelemetry.io/collector/config/configretry => /tmp/wt-C07/config/configretry
	go.opentelemetry.io/collector/config/configtelemetry => /tmp/wt-C07/config/configtelemetry
	go.opentelemetry.io/collector/config/configtls => /tmp/wt-C07/config/configtls
	go.opentelemetry.io/collector/confmap => /tmp/wt-C07/confmap
	go.opentelemetry.io/collector/confmap/internal/e2e => /tmp/wt-C07/confmap/internal/e2e
	go.opentelemetry.io/collector/confmap/provider/envprovider => /tmp/wt-C07/confmap/provider/envprovider
	go.opentelemetry.io/collector/confmap/provider/fileprovider => /tmp/wt-C07/confmap/provider/fileprovider
	go.opentelemetry.io/collector/confmap/provider/httpprovider => /tmp/wt-C07/confmap/provider/httpprovider
	go.opentelemetry.io/collector/confmap/provider/httpsprovider => /tmp/wt-C07/confmap/provider/httpsprovider
	go.opentelemetry.io/collector/confmap/provider/yamlprovider => /tmp/wt-C07/confmap/provider/yamlprovider
	go.opentelemetry.io/collector/confmap/xconfmap => /tmp/wt-C07/confmap/xconfmap
	go.opentelemetry.io/collector/connector => /tmp/wt-C07/connector
	go.opentelemetry.io/collector/connector/connectortest => /tmp/wt-C07/connector/connectortest
	go.opentelemetry.io/collector/connector/forwardconnector => /tmp/wt-C07/connector/forwardconnector
	go.opentelemetry.io/collector/connector/xconnector => /tmp/wt-C07/connector/xconnector
	go.opentelemetry.io/collector/consumer => /tmp/wt-C07/consumer
	go.opentelemetry.io/collector/consumer/consumererror => /tmp/wt-C07/consumer/consumererror
	go.opentelemetry.io/collector/consumer/consumererror/xconsumererror => /tmp/wt-C07/consumer/consumererror/xconsumererror
	go.opentelemetry.io/collector/consumer/consumertest => /tmp/wt-C07/consumer/consumertest
	go.opentelemetry.io/collector/consumer/xconsumer => /tmp/wt-C07/consumer/xconsumer
	go.opentelemetry.io/collector/exporter => /tmp/wt-C07/exporter
	go.opentelemetry.io/collector/exporter/debugexporter => /tmp/wt-C07/exporter/debugexporter
	go.opentelemetry.io/collector/exporter/exporterhelper/xexporterhelper => /tmp/wt-C07/exporter/exporterhelper/xexporterhelper
	go.opentelemetry.io/collector/exporter/exportertest => /tmp/wt-C07/exporter/exportertest
	go.opentelemetry.io/collector/exporter/nopexporter => /tmp/wt-C07/exporter/nopexporter
	go.opentelemetry.io/collector/exporter/otlpexporter => /tmp/wt-C07/exporter/otlpexporter
	go.opentelemetry.io/collector/exporter/otlphttpexporter => /tmp/wt-C07/exporter/otlphttpexporter
	go.opentelemetry.io/collector/exporter/xexporter => /tmp/wt-C07/exporter/xexporter
	go.opentelemetry.io/collector/extension => /tmp/wt-C07/extension
	go.opentelemetry.io/collector/extension/extensionauth => /tmp/wt-C07/extension/extensionauth
	go.opentelemetry.io/collector/extension/extensionauth/extensionauthtest => /tmp/wt-C07/extension/extensionauth/extensionauthtest
	go.opentelemetry.io/collector/extension/extensioncapabilities => /tmp/wt-C07/extension/extensioncapabilities
	go.opentelemetry.io/collector/extension/extensionmiddleware => /tmp/wt-C07/extension/extensionmiddleware
	go.opentelemetry.io/collector/extension/extensionmiddleware/extensionmiddlewaretest => /tmp/wt-C07/extension/extensionmiddleware/extensionmiddlewaretest
	go.opentelemetry.io/collector/extension/extensiontest => /tmp/wt-C07/extension/extensiontest
	go.opentelemetry.io/collector/extension/memorylimiterextension => /tmp/wt-C07/extension/memorylimiterextension
	go.opentelemetry.io/collector/extension/xextension => /tmp/wt-C07/extension/xextension
	go.opentelemetry.io/collector/extension/zpagesextension => /tmp/wt-C07/extension/zpagesextension
	go.opentelemetry.io/collector/featuregate => /tmp/wt-C07/featuregate
	go.opentelemetry.io/collector/filter => /tmp/wt-C07/filter
	go.opentelemetry.io/collector/internal/e2e => /tmp/wt-C07/internal/e2e
	go.opentelemetry.io/collector/internal/fanoutconsumer => /tmp/wt-C07/internal/fanoutconsumer
	go.opentelemetry.io/collector/internal/memorylimiter => /tmp/wt-C07/internal/memorylimiter
	go.opentelemetry.io/collector/internal/sharedcomponent => /tmp/wt-C07/internal/sharedcomponent
	go.opentelemetry.io/collector/internal/telemetry => /tmp/wt-C07/internal/telemetry
	go.opentelemetry.io/collector/internal/tools => /tmp/wt-C07/internal/tools
	go.opentelemetry.io/collector/otelcol => /tmp/wt-C07/otelcol
	go.opentelemetry.io/collector/otelcol/otelcoltest => /tmp/wt-C07/otelcol/otelcoltest
	go.opentelemetry.io/collector/pdata => /tmp/wt-C07/pdata
	go.opentelemetry.io/collector/pdata/pprofile => /tmp/wt-C07/pdata/pprofile
	go.opentelemetry.io/collector/pipeline => /tmp/wt-C07/pipeline
	go.opentelemetry.io/collector/pipeline/xpipeline => /tmp/wt-C07/pipeline/xpipeline
	go.opentelemetry.io/collector/processor => /tmp/wt-C07/processor
	go.opentelemetry.io/collector/processor/batchprocessor => /tmp/wt-C07/processor/batchprocessor
	go.opentelemetry.io/collector/processor/memorylimiterprocessor => /tmp/wt-C07/processor/memorylimiterprocessor
	go.opentelemetry.io/collector/processor/processorhelper => /tmp/wt-C07/processor/processorhelper
	go.opentelemetry.io/collector/processor/processorhelper/xprocessorhelper => /tmp/wt-C07/processor/processorhelper/xprocessorhelper
	go.opentelemetry.io/collector/processor/processortest => /tmp/wt-C07/processor/processortest
	go.opentelemetry.io/collector/processor/xprocessor => /tmp/wt-C07/processor/xprocessor
	go.opentelemetry.io/collector/receiver => /tmp/wt-C07/receiver
	go.opentelemetry.io/collector/receiver/nopreceiver => /tmp/wt-C07/receiver/nopreceiver
	go.opentelemetry.io/collector/receiver/otlpreceiver => /tmp/wt-C07/receiver/otlpreceiver
	go.opentelemetry.io/collector/receiver/receiverhelper => /tmp/wt-C07/receiver/receiverhelper
	go.opentelemetry.io/collector/receiver/receivertest => /tmp/wt-C07/receiver/receivertest
	go.opentelemetry.io/collector/receiver/xreceiver => /tmp/wt-C07/receiver/xreceiver
	go.opentelemetry.io/collector/scraper => /tmp/wt-C07/scraper
	go.opentelemetry.io/collector/scraper/scraperhelper => /tmp/wt-C07/scraper/scraperhelper
	go.opentelemetry.io/collector/scraper/scrapertest => /tmp/wt-C07/scraper/scrapertest
	go.opentelemetry.io/collector/semconv => /tmp/wt-C07/semconv
	go.opentelemetry.io/collector/service => /tmp/wt-C07/service
	go.opentelemetry.io/collector/service/hostcapabilities => /tmp/wt-C07/service/hostcapabilities
)
