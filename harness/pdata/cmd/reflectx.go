// Reflection layer of the C07 driver: classifies the pdata wrapper types, knows how to give an element a
// content derived from the abstract (tag, shape, kids) of specs/PData/PData.tla through the PUBLIC API only,
// and how to read a value back through every public getter ("dump").
package main

import (
	"encoding/hex"
	"fmt"
	"reflect"
	"sort"
	"strconv"
	"strings"
	"sync"

	"go.opentelemetry.io/collector/pdata/pcommon"
)

type kind int

const (
	kNone kind = iota
	kMsg       // generated message wrapper (LogRecord, Metric, Resource ...) and the payload roots
	kMsgSlice  // generated slice of messages (pointer or value slice)
	kAnySlice  // pcommon.Slice
	kMap       // pcommon.Map
	kValue     // pcommon.Value
	kPrim      // primitive slices (ByteSlice, Float64Slice ...)
	kRawStr    // pcommon.TraceState: FromRaw(string)/AsRaw() string
)

var (
	tMap        = reflect.TypeOf(pcommon.Map{})
	tAnySlice   = reflect.TypeOf(pcommon.Slice{})
	tValue      = reflect.TypeOf(pcommon.Value{})
	tTraceState = reflect.TypeOf(pcommon.TraceState{})
)

const pdataPrefix = "go.opentelemetry.io/collector/pdata"

func isWrapper(t reflect.Type) bool {
	return t.Kind() == reflect.Struct && strings.HasPrefix(t.PkgPath(), pdataPrefix) &&
		t.NumField() == 2 && t.Field(0).Name == "orig" && t.Field(1).Name == "state"
}

// method tables are cached: reflect.Type.MethodByName builds a function type on every call
var methodTabs sync.Map // reflect.Type -> map[string]int

func methodTab(t reflect.Type) map[string]int {
	if m, ok := methodTabs.Load(t); ok {
		return m.(map[string]int)
	}
	m := make(map[string]int, t.NumMethod())
	for i := 0; i < t.NumMethod(); i++ {
		m[t.Method(i).Name] = i
	}
	methodTabs.Store(t, m)
	return m
}

func hasMethod(t reflect.Type, n string) bool { _, ok := methodTab(t)[n]; return ok }

var kindCache sync.Map

func kindOf(t reflect.Type) kind {
	if k, ok := kindCache.Load(t); ok {
		return k.(kind)
	}
	k := kindOf0(t)
	kindCache.Store(t, k)
	return k
}

func kindOf0(t reflect.Type) kind {
	switch t {
	case tMap:
		return kMap
	case tAnySlice:
		return kAnySlice
	case tValue:
		return kValue
	case tTraceState:
		return kRawStr
	}
	if !isWrapper(t) {
		return kNone
	}
	if hasMethod(t, "AppendEmpty") && hasMethod(t, "At") && hasMethod(t, "RemoveIf") {
		return kMsgSlice
	}
	if hasMethod(t, "Append") && hasMethod(t, "SetAt") && hasMethod(t, "At") {
		return kPrim
	}
	return kMsg
}

func isContainerKind(k kind) bool {
	return k == kMsgSlice || k == kAnySlice || k == kMap || k == kValue || k == kPrim
}

// valid reports whether a wrapper refers to data (one-of accessors of the alternative that is not
// selected return a wrapper around nil).
func valid(v reflect.Value) bool { return !v.Field(0).IsNil() }

func shortName(t reflect.Type) string {
	p := t.PkgPath()
	return p[strings.LastIndex(p, "/")+1:] + "." + t.Name()
}

func call(v reflect.Value, name string, args ...reflect.Value) []reflect.Value {
	i, ok := methodTab(v.Type())[name]
	if !ok {
		panic(fmt.Sprintf("driver: no method %s on %s", name, v.Type()))
	}
	return v.Method(i).Call(args)
}

// ---------------------------------------------------------------------------------------------
// scalars derived from a tag

func scalarKind(t reflect.Type) bool {
	switch t.Kind() {
	case reflect.String, reflect.Bool, reflect.Int, reflect.Int8, reflect.Int16, reflect.Int32, reflect.Int64,
		reflect.Uint, reflect.Uint8, reflect.Uint16, reflect.Uint32, reflect.Uint64, reflect.Float32, reflect.Float64:
		return true
	case reflect.Array:
		return t.Elem().Kind() == reflect.Uint8
	}
	return false
}

func derive(t reflect.Type, tag int) reflect.Value {
	v := reflect.New(t).Elem()
	switch t.Kind() {
	case reflect.String:
		if tag != 0 {
			v.SetString("t" + strconv.Itoa(tag))
		}
	case reflect.Bool:
		v.SetBool(tag%2 == 1)
	case reflect.Int, reflect.Int8, reflect.Int16, reflect.Int32, reflect.Int64:
		v.SetInt(int64(tag))
	case reflect.Uint, reflect.Uint8, reflect.Uint16, reflect.Uint32, reflect.Uint64:
		v.SetUint(uint64(tag))
	case reflect.Float32, reflect.Float64:
		v.SetFloat(float64(tag))
	case reflect.Array:
		if tag != 0 {
			v.Index(0).SetUint(uint64(tag % 256))
			v.Index(t.Len() - 1).SetUint(uint64(tag % 256))
		}
	default:
		panic("driver: derive of " + t.String())
	}
	return v
}

// underive reads the tag back from a scalar (used by Sort's less function)
func underive(v reflect.Value) (int, bool) {
	switch v.Kind() {
	case reflect.String:
		s := v.String()
		if s == "" {
			return 0, true
		}
		n, err := strconv.Atoi(strings.TrimPrefix(s, "t"))
		return n, err == nil
	case reflect.Int, reflect.Int16, reflect.Int32, reflect.Int64:
		return int(v.Int()), true
	case reflect.Uint, reflect.Uint16, reflect.Uint32, reflect.Uint64:
		return int(v.Uint()), true
	case reflect.Float32, reflect.Float64:
		return int(v.Float()), true
	case reflect.Array:
		return int(v.Index(0).Uint()), true
	}
	return 0, false
}

func invertible(t reflect.Type) bool {
	switch t.Kind() {
	case reflect.String, reflect.Int, reflect.Int16, reflect.Int32, reflect.Int64, reflect.Uint, reflect.Uint16,
		reflect.Uint32, reflect.Uint64, reflect.Float32, reflect.Float64:
		return true
	case reflect.Array:
		return t.Elem().Kind() == reflect.Uint8
	}
	return false
}

// ---------------------------------------------------------------------------------------------
// plan of a message type

type scalarField struct {
	name  string // X of SetX / X
	typ   reflect.Type
	group int // index of its one-of group, -1 if plain
}
type optField struct {
	name string
	typ  reflect.Type
}
type variant struct{ name string } // SetEmpty<name>() / <name>()

type msgPlan struct {
	typ      reflect.Type
	scalars  []scalarField
	groups   [][]int // one-of groups of scalar alternatives (indices into scalars)
	optional []optField
	variants []variant
	subs     []string // accessors returning nested messages (not one-of alternatives)
	rawstrs  []string // accessors returning pcommon.TraceState
	conts    []string // accessors returning containers
	getters  []string // every zero-argument getter, for dump
	tagField string   // plain invertible scalar used to read the tag back ("" if none)
}

var (
	planMu   sync.Mutex
	plans    = map[reflect.Type]*msgPlan{}
	planFast sync.Map
)

var mutatorPrefixes = []string{"Set", "Append", "Put", "Remove", "Move", "Copy", "Ensure", "Clear", "FromRaw", "Sort", "Mark"}

func isMutatorName(n string) bool {
	for _, p := range mutatorPrefixes {
		if strings.HasPrefix(n, p) {
			return true
		}
	}
	return false
}

func planOf(t reflect.Type) *msgPlan {
	if p, ok := planFast.Load(t); ok {
		return p.(*msgPlan)
	}
	planMu.Lock()
	defer planMu.Unlock()
	if p, ok := plans[t]; ok {
		return p
	}
	p := &msgPlan{typ: t}
	defer func() { plans[t] = p; planFast.Store(t, p) }()
	for i := 0; i < t.NumMethod(); i++ {
		m := t.Method(i)
		mt := m.Type // receiver is In(0)
		n := m.Name
		if mt.NumIn() == 1 && mt.NumOut() == 1 && !isMutatorName(n) && n != "All" && mt.Out(0).Kind() != reflect.Func {
			p.getters = append(p.getters, n)
			rt := mt.Out(0)
			if isWrapper(rt) {
				switch k := kindOf(rt); {
				case k == kRawStr:
					p.rawstrs = append(p.rawstrs, n)
				case isContainerKind(k):
					p.conts = append(p.conts, n)
				case k == kMsg:
					if hasMethod(t, "SetEmpty"+n) {
						p.variants = append(p.variants, variant{n})
					} else {
						p.subs = append(p.subs, n)
					}
				}
			}
		}
		if strings.HasPrefix(n, "Set") && mt.NumIn() == 2 && mt.NumOut() == 0 && scalarKind(mt.In(1)) {
			x := n[3:]
			g, ok := t.MethodByName(x)
			if !ok || g.Type.NumIn() != 1 || g.Type.NumOut() != 1 || g.Type.Out(0) != mt.In(1) {
				continue
			}
			if hasMethod(t, "Has"+x) && hasMethod(t, "Remove"+x) {
				p.optional = append(p.optional, optField{x, mt.In(1)})
			} else {
				p.scalars = append(p.scalars, scalarField{x, mt.In(1), -1})
			}
		}
	}
	// one-of groups among the scalars, found by probing a fresh value: setting B clears A
	if ctor, ok := ctorByType[t]; ok && len(p.scalars) > 1 {
		parent := make([]int, len(p.scalars))
		for i := range parent {
			parent[i] = i
		}
		var find func(int) int
		find = func(i int) int {
			if parent[i] != i {
				parent[i] = find(parent[i])
			}
			return parent[i]
		}
		excl := false
		for i := range p.scalars {
			for j := range p.scalars {
				if i == j {
					continue
				}
				f := ctor.Call(nil)[0]
				call(f, "Set"+p.scalars[i].name, derive(p.scalars[i].typ, 1))
				call(f, "Set"+p.scalars[j].name, derive(p.scalars[j].typ, 1))
				got := call(f, p.scalars[i].name)[0]
				if got.IsZero() && !derive(p.scalars[i].typ, 1).IsZero() {
					parent[find(i)] = find(j)
					excl = true
				}
			}
		}
		if excl {
			byRoot := map[int][]int{}
			for i := range p.scalars {
				byRoot[find(i)] = append(byRoot[find(i)], i)
			}
			roots := []int{}
			for r := range byRoot {
				roots = append(roots, r)
			}
			sort.Ints(roots)
			for _, r := range roots {
				if len(byRoot[r]) > 1 {
					for _, i := range byRoot[r] {
						p.scalars[i].group = len(p.groups)
					}
					p.groups = append(p.groups, byRoot[r])
				}
			}
		}
	}
	for _, s := range p.scalars {
		if s.group < 0 && invertible(s.typ) {
			p.tagField = s.name
			break
		}
	}
	return p
}

// currentVariant returns the selected one-of message alternative of e for shape s ("" if none)
func (p *msgPlan) variantFor(s int) string {
	if s <= 0 || len(p.variants) == 0 {
		return ""
	}
	return p.variants[(s-1)%len(p.variants)].name
}

// initElem gives a ZERO message (fresh from AppendEmpty / New) the structure of shape s and the scalars of tag t.
func initElem(e reflect.Value, t, s int) {
	p := planOf(e.Type())
	if vn := p.variantFor(s); vn != "" {
		call(e, "SetEmpty"+vn)
	}
	setScalars(e, t, s)
}

// setScalars overwrites every scalar field of e (recursively through nested messages and the selected one-of
// alternative) with the value derived from tag t; optional fields and scalar one-of alternatives follow shape s.
func setScalars(e reflect.Value, t, s int) {
	p := planOf(e.Type())
	for _, f := range p.scalars {
		if f.group >= 0 {
			continue
		}
		call(e, "Set"+f.name, derive(f.typ, t))
	}
	if s > 0 {
		for _, g := range p.groups {
			f := p.scalars[g[(s-1)%len(g)]]
			call(e, "Set"+f.name, derive(f.typ, t))
		}
		for _, f := range p.optional {
			call(e, "Set"+f.name, derive(f.typ, t))
		}
	}
	for _, n := range p.rawstrs {
		call(call(e, n)[0], "FromRaw", derive(reflect.TypeOf(""), t))
	}
	for _, n := range p.subs {
		setScalars(call(e, n)[0], t, s)
	}
	if vn := p.variantFor(s); vn != "" {
		if sub := call(e, vn)[0]; valid(sub) {
			setScalars(sub, t, s)
		}
	}
}

// containersOf lists the live nested containers of message e (shape s): its own, those of nested messages
// and of the selected one-of alternative.
func containersOf(e reflect.Value, s int) []reflect.Value {
	p := planOf(e.Type())
	var out []reflect.Value
	for _, n := range p.conts {
		out = append(out, call(e, n)[0])
	}
	for _, n := range p.subs {
		out = append(out, containersOf(call(e, n)[0], s)...)
	}
	if vn := p.variantFor(s); vn != "" {
		if sub := call(e, vn)[0]; valid(sub) {
			out = append(out, containersOf(sub, s)...)
		}
	}
	return out
}

// putKid makes kid number idx (1-based) of container c carry tag; create=false edits the existing kid in place.
func putKid(c reflect.Value, idx, tag int, create bool) {
	switch kindOf(c.Type()) {
	case kMap:
		c.Interface().(pcommon.Map).PutInt("c"+strconv.Itoa(idx), int64(tag))
	case kAnySlice:
		sl := c.Interface().(pcommon.Slice)
		if create {
			sl.AppendEmpty().SetInt(int64(tag))
		} else {
			sl.At(idx - 1).SetInt(int64(tag))
		}
	case kValue:
		v := c.Interface().(pcommon.Value)
		if create && idx == 1 {
			v.SetEmptySlice().AppendEmpty().SetInt(int64(tag))
		} else if create {
			v.Slice().AppendEmpty().SetInt(int64(tag))
		} else {
			v.Slice().At(idx - 1).SetInt(int64(tag))
		}
	case kPrim:
		et := primElemTypeOf(c.Type())
		if create {
			call(c, "Append", derive(et, tag))
		} else {
			call(c, "SetAt", reflect.ValueOf(idx-1), derive(et, tag))
		}
	case kMsgSlice:
		if create {
			setScalars(call(c, "AppendEmpty")[0], tag, 0)
		} else {
			setScalars(call(c, "At", reflect.ValueOf(idx-1))[0], tag, 0)
		}
	default:
		panic("driver: putKid on " + c.Type().String())
	}
}

func mustMethod(t reflect.Type, n string) int {
	i, ok := methodTab(t)[n]
	if !ok {
		panic("driver: no method " + n + " on " + t.String())
	}
	return i
}

// ---------------------------------------------------------------------------------------------
// pcommon.Value as an element (t, s, k):  s=0 empty, 1 int t, 2 map {t, c1..}, 3 slice [t, k..], 4 bytes [t, k..]

func initValue(v pcommon.Value, t, s int) {
	switch s {
	case 0:
	case 1:
		v.SetInt(int64(t))
	case 2:
		v.SetEmptyMap().PutInt("t", int64(t))
	case 3:
		v.SetEmptySlice().AppendEmpty().SetInt(int64(t))
	case 4:
		v.SetEmptyBytes().Append(byte(t))
	default:
		panic("driver: value shape")
	}
}

// touchValue edits the value IN PLACE (no Set* on the value itself for the container shapes)
func touchValue(v pcommon.Value, t, s int) {
	switch s {
	case 0:
	case 1:
		v.SetInt(int64(t))
	case 2:
		v.Map().PutInt("t", int64(t))
	case 3:
		v.Slice().At(0).SetInt(int64(t))
	case 4:
		v.Bytes().SetAt(0, byte(t))
	}
}

func putValueKid(v pcommon.Value, s, idx, tag int, create bool) {
	switch s {
	case 2:
		v.Map().PutInt("c"+strconv.Itoa(idx), int64(tag))
	case 3:
		if create {
			v.Slice().AppendEmpty().SetInt(int64(tag))
		} else {
			v.Slice().At(idx).SetInt(int64(tag))
		}
	case 4:
		if create {
			v.Bytes().Append(byte(tag))
		} else {
			v.Bytes().SetAt(idx, byte(tag))
		}
	}
}

// ---------------------------------------------------------------------------------------------
// dump: the content of a value as seen through every public getter, as canonical JSON-like text

func dumpValue(sb *strings.Builder, v pcommon.Value) {
	switch v.Type() {
	case pcommon.ValueTypeEmpty:
		sb.WriteString("null")
	case pcommon.ValueTypeStr:
		sb.WriteString(strconv.Quote("s:" + v.Str()))
	case pcommon.ValueTypeInt:
		sb.WriteString(strconv.FormatInt(v.Int(), 10))
	case pcommon.ValueTypeDouble:
		sb.WriteString(strconv.FormatFloat(v.Double(), 'g', -1, 64))
		sb.WriteString("f")
	case pcommon.ValueTypeBool:
		sb.WriteString(strconv.FormatBool(v.Bool()))
	case pcommon.ValueTypeBytes:
		sb.WriteString(`"b:` + hex.EncodeToString(v.Bytes().AsRaw()) + `"`)
	case pcommon.ValueTypeMap:
		dumpMap(sb, v.Map())
	case pcommon.ValueTypeSlice:
		sl := v.Slice()
		sb.WriteByte('[')
		for i := 0; i < sl.Len(); i++ {
			if i > 0 {
				sb.WriteByte(',')
			}
			dumpValue(sb, sl.At(i))
		}
		sb.WriteByte(']')
	default:
		sb.WriteString(`"?"`)
	}
}

// maps are unordered: entries sorted by key (a duplicated key stays visible)
func dumpMap(sb *strings.Builder, m pcommon.Map) {
	type kv struct {
		k string
		v string
	}
	ents := make([]kv, 0, m.Len())
	m.Range(func(k string, v pcommon.Value) bool {
		var vb strings.Builder
		dumpValue(&vb, v)
		ents = append(ents, kv{k, vb.String()})
		return true
	})
	sort.Slice(ents, func(i, j int) bool {
		if ents[i].k != ents[j].k {
			return ents[i].k < ents[j].k
		}
		return ents[i].v < ents[j].v
	})
	sb.WriteByte('{')
	for i, e := range ents {
		if i > 0 {
			sb.WriteByte(',')
		}
		sb.WriteString(strconv.Quote(e.k))
		sb.WriteByte(':')
		sb.WriteString(e.v)
	}
	sb.WriteByte('}')
}

func dumpStr(v reflect.Value) string {
	var sb strings.Builder
	dump(&sb, v)
	return sb.String()
}

func dump(sb *strings.Builder, v reflect.Value) {
	t := v.Type()
	switch kindOf(t) {
	case kValue:
		dumpValue(sb, v.Interface().(pcommon.Value))
	case kMap:
		dumpMap(sb, v.Interface().(pcommon.Map))
	case kAnySlice:
		sl := v.Interface().(pcommon.Slice)
		sb.WriteByte('[')
		for i := 0; i < sl.Len(); i++ {
			if i > 0 {
				sb.WriteByte(',')
			}
			dumpValue(sb, sl.At(i))
		}
		sb.WriteByte(']')
	case kRawStr:
		sb.WriteString(strconv.Quote(v.Interface().(pcommon.TraceState).AsRaw()))
	case kPrim, kMsgSlice:
		n := int(call(v, "Len")[0].Int())
		at := v.Method(mustMethod(t, "At"))
		sb.WriteByte('[')
		for i := 0; i < n; i++ {
			if i > 0 {
				sb.WriteByte(',')
			}
			dumpAny(sb, at.Call([]reflect.Value{reflect.ValueOf(i)})[0])
		}
		sb.WriteByte(']')
	case kMsg:
		if !valid(v) {
			sb.WriteString("null")
			return
		}
		p := planOf(t)
		sb.WriteByte('{')
		for i, g := range p.getters {
			if i > 0 {
				sb.WriteByte(',')
			}
			sb.WriteString(g)
			sb.WriteByte(':')
			dumpAny(sb, call(v, g)[0])
		}
		sb.WriteByte('}')
	default:
		panic("driver: dump of " + t.String())
	}
}

func dumpAny(sb *strings.Builder, r reflect.Value) {
	t := r.Type()
	if isWrapper(t) {
		dump(sb, r)
		return
	}
	switch t.Kind() {
	case reflect.Array:
		b := make([]byte, t.Len())
		for i := range b {
			b[i] = byte(r.Index(i).Uint())
		}
		sb.WriteString(`"` + hex.EncodeToString(b) + `"`)
	case reflect.String:
		sb.WriteString(strconv.Quote(r.String()))
	case reflect.Bool:
		sb.WriteString(strconv.FormatBool(r.Bool()))
	case reflect.Int, reflect.Int8, reflect.Int16, reflect.Int32, reflect.Int64:
		sb.WriteString(strconv.FormatInt(r.Int(), 10))
	case reflect.Uint, reflect.Uint8, reflect.Uint16, reflect.Uint32, reflect.Uint64:
		sb.WriteString(strconv.FormatUint(r.Uint(), 10))
	case reflect.Float32, reflect.Float64:
		sb.WriteString(strconv.FormatFloat(r.Float(), 'g', -1, 64))
	default:
		sb.WriteString(strconv.Quote(fmt.Sprintf("%v", r.Interface())))
	}
}

var primElemTypes sync.Map

func primElemTypeOf(t reflect.Type) reflect.Type {
	if e, ok := primElemTypes.Load(t); ok {
		return e.(reflect.Type)
	}
	e := t.Method(mustMethod(t, "At")).Type.Out(0)
	primElemTypes.Store(t, e)
	return e
}
