// Read-only sweep: on a variable that was marked read-only, every mutator of every value reachable from the
// payload is attempted with well-formed arguments and must panic with the shared-data panic.
package main

import (
	"reflect"
	"strconv"
	"strings"
	"sync"

	"go.opentelemetry.io/collector/pdata/pcommon"
)

const roPanic = "invalid access to shared data"

type sweeper struct {
	ro        map[string]bool
	attempted int
	failures  []string // mutators that did not panic
}

func (s *sweeper) sweep(c *cont) {
	start := c.v
	if c.root.IsValid() {
		start = c.root
	}
	s.walk(start, 0)
}

func (s *sweeper) walk(v reflect.Value, depth int) {
	if depth > 12 {
		return
	}
	t := v.Type()
	k := kindOf(t)
	if k == kNone || !valid(v) {
		return
	}
	s.attempt(v)
	s.readers(v)
	switch k {
	case kMsg:
		for _, g := range planOf(t).getters {
			r := call(v, g)[0]
			if isWrapper(r.Type()) {
				s.walk(r, depth+1)
			}
		}
	case kMsgSlice, kAnySlice:
		n := int(call(v, "Len")[0].Int())
		for i := 0; i < n; i++ {
			s.walk(call(v, "At", reflect.ValueOf(i))[0], depth+1)
		}
	case kMap:
		v.Interface().(pcommon.Map).Range(func(_ string, x pcommon.Value) bool {
			s.walk(reflect.ValueOf(x), depth+1)
			return true
		})
	case kValue:
		x := v.Interface().(pcommon.Value)
		switch x.Type() {
		case pcommon.ValueTypeMap:
			s.walk(reflect.ValueOf(x.Map()), depth+1)
		case pcommon.ValueTypeSlice:
			s.walk(reflect.ValueOf(x.Slice()), depth+1)
		case pcommon.ValueTypeBytes:
			s.walk(reflect.ValueOf(x.Bytes()), depth+1)
		}
	}
}

func fresh(t reflect.Type) (reflect.Value, bool) {
	if c, ok := ctorByType[t]; ok {
		return c.Call(nil)[0], true
	}
	return reflect.Value{}, false
}

// candidate arguments for a parameter type
func synth(t reflect.Type) []reflect.Value {
	if isWrapper(t) {
		if f, ok := fresh(t); ok {
			return []reflect.Value{f}
		}
		return nil
	}
	if scalarKind(t) {
		if t.Kind() == reflect.Int { // indices and capacities
			return []reflect.Value{reflect.ValueOf(0).Convert(t)}
		}
		return []reflect.Value{derive(t, 1)}
	}
	switch t.Kind() {
	case reflect.Func:
		return []reflect.Value{reflect.MakeFunc(t, func([]reflect.Value) []reflect.Value {
			out := make([]reflect.Value, t.NumOut())
			for i := range out {
				out[i] = reflect.Zero(t.Out(i))
			}
			return out
		})}
	case reflect.Interface: // any
		return []reflect.Value{reflect.Zero(t), reflect.ValueOf(int64(7)).Convert(reflect.TypeOf(int64(0)))}
	case reflect.Map:
		if t == reflect.TypeOf(map[string]any{}) {
			return []reflect.Value{reflect.ValueOf(map[string]any{"a": int64(1)}), reflect.ValueOf(map[string]any{})}
		}
	case reflect.Slice:
		if t == reflect.TypeOf([]any{}) {
			return []reflect.Value{reflect.ValueOf([]any{int64(1)}), reflect.ValueOf([]any{})}
		}
		if scalarKind(t.Elem()) {
			one := reflect.MakeSlice(t, 1, 1)
			one.Index(0).Set(derive(t.Elem(), 1))
			return []reflect.Value{one, reflect.MakeSlice(t, 0, 0)}
		}
	}
	return nil
}

type mutInfo struct {
	idx    int
	name   string
	params []reflect.Type
}

var mutCache sync.Map // reflect.Type -> []mutInfo

func mutatorsOf(t reflect.Type) []mutInfo {
	if m, ok := mutCache.Load(t); ok {
		return m.([]mutInfo)
	}
	var out []mutInfo
	for i := 0; i < t.NumMethod(); i++ {
		m := t.Method(i)
		if !isMutatorName(m.Name) || strings.HasPrefix(m.Name, "Mark") {
			continue
		}
		mi := mutInfo{idx: i, name: m.Name}
		for j := 1; j < m.Type.NumIn(); j++ {
			pt := m.Type.In(j)
			if m.Type.IsVariadic() && j == m.Type.NumIn()-1 {
				pt = pt.Elem()
			}
			mi.params = append(mi.params, pt)
		}
		out = append(out, mi)
	}
	mutCache.Store(t, out)
	return out
}

func (s *sweeper) attempt(v reflect.Value) {
	t := v.Type()
	for _, m := range mutatorsOf(t) {
		n := m.name
		switch {
		case n == "CopyTo":
			// the receiver is only read; the read-only value is the destination
			if f, ok := fresh(t); ok {
				s.try(t, "CopyTo(into read-only)", func() { call(f, "CopyTo", v) })
			}
			continue
		case n == "MoveTo" || n == "MoveAndAppendTo":
			if f, ok := fresh(t); ok {
				s.try(t, n+"(from read-only)", func() { call(v, n, f) })
			}
			if f, ok := fresh(t); ok {
				s.try(t, n+"(into read-only)", func() { call(f, n, v) })
			}
			continue
		}
		// every combination of the candidate arguments
		nin := len(m.params)
		cands := make([][]reflect.Value, nin)
		okArgs := true
		for j, pt := range m.params {
			cands[j] = synth(pt)
			if len(cands[j]) == 0 {
				okArgs = false
			}
		}
		if !okArgs {
			continue
		}
		combos := [][]reflect.Value{{}}
		for j := 0; j < nin; j++ {
			var next [][]reflect.Value
			for _, c := range combos {
				for _, a := range cands[j] {
					next = append(next, append(append([]reflect.Value{}, c...), a))
				}
			}
			combos = next
		}
		for ci, args := range combos {
			args := args
			idx := m.idx
			s.try(t, n+"#"+strconv.Itoa(ci), func() { v.Method(idx).Call(args) })
		}
	}
}

// readers: "all readers keep working" on a read-only payload.  Every method that is not a mutator and whose arguments can be
// synthesised without an index (Len, Get, Range, All, AsRaw, AsString, Equal, Type, the scalar getters, CopyTo INTO a fresh
// value ...) is called on every value reachable from the read-only payload; iterators it returns are entered.  None may panic.
func (s *sweeper) readers(v reflect.Value) {
	t := v.Type()
	for i := 0; i < t.NumMethod(); i++ {
		m := t.Method(i)
		n := m.Name
		if (isMutatorName(n) && n != "CopyTo") || strings.HasPrefix(n, "Mark") || n == "At" {
			continue
		}
		var args []reflect.Value
		ok := true
		for j := 1; j < m.Type.NumIn(); j++ {
			pt := m.Type.In(j)
			if m.Type.IsVariadic() && j == m.Type.NumIn()-1 {
				continue
			}
			if pt.Kind() == reflect.Int {
				ok = false
				break
			}
			c := synth(pt)
			if len(c) == 0 {
				ok = false
				break
			}
			args = append(args, c[0])
		}
		if !ok {
			continue
		}
		var rec any
		func() {
			defer func() { rec = recover() }()
			outs := v.Method(i).Call(args)
			for _, o := range outs {
				if o.Kind() == reflect.Func && !o.IsNil() && o.Type().NumIn() == 1 && o.Type().In(0).Kind() == reflect.Func {
					o.Call(synth(o.Type().In(0))) // an iterator (All): enter it
				}
			}
		}()
		if rec != nil {
			s.failures = append(s.failures, shortName(t)+"."+n+" (a reader) panicked on a read-only value: "+strings.SplitN(fmtAny(rec), "\n", 2)[0])
		}
	}
}

func fmtAny(x any) string {
	if e, ok := x.(error); ok {
		return e.Error()
	}
	if s, ok := x.(string); ok {
		return s
	}
	return "panic"
}

func (s *sweeper) try(t reflect.Type, what string, f func()) {
	var rec any
	func() {
		defer func() { rec = recover() }()
		f()
	}()
	if rec == nil {
		s.attempted++
		s.failures = append(s.failures, shortName(t)+"."+what)
		return
	}
	if msg, ok := rec.(string); ok && msg == roPanic {
		s.attempted++
	}
	// any other panic (index out of range on an empty slice ...) says nothing about the property
}
