// Container adapters: the abstract operations of specs/PData/PData.tla applied to real pdata containers
// through their public API (by reflection, so that EVERY generated type is driven by the same code).
package main

import (
	"fmt"
	"reflect"
	"strconv"
	"strings"
	"unsafe"

	"go.opentelemetry.io/collector/pdata/internal"
	"go.opentelemetry.io/collector/pdata/pcommon"
)

type elem struct {
	id, t, s int
	k        []int
}

type pstep struct {
	method string
	arg    string // PutEmpty(arg)
}

type typeInfo struct {
	name     string
	typ      reflect.Type
	kind     kind
	profile  string // ptrslice | valslice | anyslice | map | prim
	ctor     reflect.Value
	rootName string
	rootCtor reflect.Value
	path     []pstep
	elemType reflect.Type
}

type cont struct {
	ti   *typeInfo
	v    reflect.Value
	root reflect.Value // payload root when hosted
}

func follow(root reflect.Value, path []pstep) reflect.Value {
	v := root
	for _, st := range path {
		if st.method == "PutEmpty" {
			v = call(v, st.method, reflect.ValueOf(st.arg))[0]
		} else {
			v = call(v, st.method)[0]
		}
	}
	return v
}

func newVar(ti *typeInfo, hosted bool) *cont {
	if hosted && ti.rootCtor.IsValid() {
		root := ti.rootCtor.Call(nil)[0]
		return &cont{ti: ti, v: follow(root, ti.path), root: root}
	}
	return &cont{ti: ti, v: ti.ctor.Call(nil)[0]}
}

func (c *cont) markRO() {
	if c.root.IsValid() {
		call(c.root, "MarkReadOnly")
		return
	}
	// not reachable from a payload: flip the shared state flag the way MarkReadOnly does
	pv := reflect.New(c.v.Type()).Elem()
	pv.Set(c.v)
	st := *(**internal.State)(unsafe.Pointer(pv.Field(1).UnsafeAddr()))
	*st = internal.StateReadOnly
}

func key(id int) string { return "k" + strconv.Itoa(id) }

func (c *cont) length() int { return int(call(c.v, "Len")[0].Int()) }

// element i (1-based, position in the reference sequence; for maps the entry with the id of prev[i-1])
func (c *cont) elemAt(i int, prev []elem) reflect.Value {
	switch c.ti.kind {
	case kMap:
		v, ok := c.v.Interface().(pcommon.Map).Get(key(prev[i-1].id))
		if !ok {
			panic(fmt.Sprintf("driver: key %s missing", key(prev[i-1].id)))
		}
		return reflect.ValueOf(v)
	default:
		return call(c.v, "At", reflect.ValueOf(i-1))[0]
	}
}

func (c *cont) primElemType() reflect.Type {
	return primElemTypeOf(c.v.Type())
}

// appendElem: AppendEmpty / Put + content of (t, s); kids are added by the caller
func (c *cont) appendElem(e elem) {
	switch c.ti.kind {
	case kMsgSlice:
		initElem(call(c.v, "AppendEmpty")[0], e.t, e.s)
	case kAnySlice:
		initValue(c.v.Interface().(pcommon.Slice).AppendEmpty(), e.t, e.s)
	case kPrim:
		call(c.v, "Append", derive(c.primElemType(), e.t))
	case kMap:
		m := c.v.Interface().(pcommon.Map)
		switch e.s {
		case 0:
			m.PutEmpty(key(e.id))
		case 1:
			m.PutInt(key(e.id), int64(e.t))
		case 2:
			m.PutEmptyMap(key(e.id)).PutInt("t", int64(e.t))
		case 3:
			m.PutEmptySlice(key(e.id)).AppendEmpty().SetInt(int64(e.t))
		case 4:
			m.PutEmptyBytes(key(e.id)).Append(byte(e.t))
		}
	}
}

// touchElem: rewrite the scalars of an existing element in place and add (create) or edit its kid number idx
func (c *cont) touchElem(ev reflect.Value, s, tag, idx int, create bool) {
	switch c.ti.kind {
	case kMsgSlice:
		setScalars(ev, tag, s)
		if idx > 0 {
			for _, nc := range containersOf(ev, s) {
				putKid(nc, idx, tag, create)
			}
		}
	case kAnySlice, kMap:
		v := ev.Interface().(pcommon.Value)
		touchValue(v, tag, s)
		if idx > 0 {
			putValueKid(v, s, idx, tag, create)
		}
	}
}

// populate builds content through the public API (used for the initial contents of the real variables and
// for the freshly built expected values)
func (c *cont) populate(es []elem) {
	for i, e := range es {
		c.appendElem(e)
		if len(e.k) == 0 || c.ti.kind == kPrim {
			continue
		}
		var ev reflect.Value
		if c.ti.kind == kMap {
			ev = c.elemAt(i+1, es)
		} else {
			ev = call(c.v, "At", reflect.ValueOf(c.length()-1))[0]
		}
		for idx, kt := range e.k {
			switch c.ti.kind {
			case kMsgSlice:
				for _, nc := range containersOf(ev, e.s) {
					putKid(nc, idx+1, kt, true)
				}
			default:
				putValueKid(ev.Interface().(pcommon.Value), e.s, idx+1, kt, true)
			}
		}
	}
}

func predHolds(p string, i, n, id int) bool {
	switch p {
	case "first":
		return i == 1
	case "last":
		return i == n
	case "evens":
		return i%2 == 0
	case "odds":
		return i%2 == 1
	case "all":
		return true
	case "ideven":
		return id%2 == 0
	case "idodd":
		return id%2 == 1
	}
	panic("driver: predicate " + p)
}

type opRec struct {
	op, a, b string
	i, j, s  int
	p        string
	n        int
}

func lastElem(es []elem) elem {
	if len(es) == 0 {
		return elem{t: 99}
	}
	return es[len(es)-1]
}

func touchable(ti *typeInfo, e elem) bool {
	return e.s != 0 || (ti.kind != kAnySlice && ti.kind != kMap)
}

// kidOp derives from the reference pre/post element which kid is created or edited by a touch
func kidOp(pre, post elem) (idx int, create bool) {
	if len(post.k) > len(pre.k) {
		return len(post.k), true
	}
	if len(post.k) > 0 {
		return len(post.k), false
	}
	return 0, false
}

// applyOp performs one abstract operation on the real variables.  prev/post are the reference contents before
// and after the step: they provide the INPUTS of the operation (fresh tags, keys of map entries), never the result.
func applyOp(vars map[string]*cont, o opRec, prev, post map[string][]elem, sw *sweeper) {
	a := vars[o.a]
	b := vars[o.b]
	switch o.op {
	case "append":
		e := lastElem(post[o.a])
		if len(post[o.a]) == len(prev[o.a]) { // expected to panic: any tag
			e = elem{t: 99, s: o.s}
		}
		a.appendElem(elem{id: 0, t: e.t, s: o.s})
	case "put":
		tag := 99
		for _, e := range post[o.a] {
			if e.id == o.n {
				tag = e.t
			}
		}
		a.appendElem(elem{id: o.n, t: tag, s: o.s})
	case "touch":
		pre, po := prev[o.a][o.i-1], post[o.a][o.i-1]
		idx, create := kidOp(pre, po)
		tag := po.t
		if a.ti.kind == kPrim {
			call(a.v, "SetAt", reflect.ValueOf(o.i-1), derive(a.primElemType(), tag))
		} else {
			a.touchElem(a.elemAt(o.i, prev[o.a]), pre.s, tag, idx, create)
		}
	case "remove":
		a.v.Interface().(pcommon.Map).Remove(key(o.n))
	case "removeif":
		m := a.v.Method(mustMethod(a.v.Type(), "RemoveIf"))
		ft := m.Type().In(0)
		n := a.length()
		i := 0
		f := reflect.MakeFunc(ft, func(args []reflect.Value) []reflect.Value {
			i++
			id := 0
			if a.ti.kind == kMap {
				id, _ = strconv.Atoi(strings.TrimPrefix(args[0].String(), "k"))
			}
			return []reflect.Value{reflect.ValueOf(predHolds(o.p, i, n, id))}
		})
		m.Call([]reflect.Value{f})
	case "ensure":
		call(a.v, "EnsureCapacity", reflect.ValueOf(o.n))
	case "sort":
		m := a.v.Method(mustMethod(a.v.Type(), "Sort"))
		ft := m.Type().In(0)
		tf := planOf(a.ti.elemType).tagField
		f := reflect.MakeFunc(ft, func(args []reflect.Value) []reflect.Value {
			x, _ := underive(call(args[0], tf)[0])
			y, _ := underive(call(args[1], tf)[0])
			return []reflect.Value{reflect.ValueOf(x > y)}
		})
		m.Call([]reflect.Value{f})
	case "copy":
		call(a.v, "CopyTo", b.v)
	case "move":
		call(a.v, "MoveTo", b.v)
	case "moveappend":
		call(a.v, "MoveAndAppendTo", b.v)
	case "ecopy":
		call(a.elemAt(o.i, prev[o.a]), "CopyTo", b.elemAt(o.j, prev[o.b]))
	case "emove":
		call(a.elemAt(o.i, prev[o.a]), "MoveTo", b.elemAt(o.j, prev[o.b]))
	case "fromraw":
		tags := make([]int, o.n)
		for q := range tags {
			tags[q] = 90 + q
			if len(post[o.a]) == o.n && q < len(post[o.a]) {
				tags[q] = post[o.a][q].t
			}
		}
		switch a.ti.kind {
		case kMap:
			raw := map[string]any{}
			for q, t := range tags {
				raw[key(q+1)] = int64(t)
			}
			if err := a.v.Interface().(pcommon.Map).FromRaw(raw); err != nil {
				panic(err)
			}
		case kAnySlice:
			raw := []any{}
			for _, t := range tags {
				raw = append(raw, int64(t))
			}
			if err := a.v.Interface().(pcommon.Slice).FromRaw(raw); err != nil {
				panic(err)
			}
		case kPrim:
			et := a.primElemType()
			raw := reflect.MakeSlice(reflect.SliceOf(et), 0, len(tags))
			for _, t := range tags {
				raw = reflect.Append(raw, derive(et, t))
			}
			call(a.v, "FromRaw", raw)
		}
	case "clear":
		a.v.Interface().(pcommon.Map).Clear()
	case "markro":
		a.markRO()
	case "touchall":
		for _, name := range []string{"x", "y", "z"} {
			c, ok := vars[name]
			if !ok {
				continue
			}
			if sw.ro[name] {
				sw.sweep(c)
				continue
			}
			for q := range prev[name] {
				pre, po := prev[name][q], post[name][q]
				if !touchable(c.ti, pre) {
					continue
				}
				if c.ti.kind == kPrim {
					call(c.v, "SetAt", reflect.ValueOf(q), derive(c.primElemType(), po.t))
					continue
				}
				idx, create := kidOp(pre, po)
				c.touchElem(c.elemAt(q+1, prev[name]), pre.s, po.t, idx, create)
			}
		}
	default:
		panic("driver: unknown op " + o.op)
	}
}
