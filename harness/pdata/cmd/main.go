// C07 driver: replays TLC-generated programs (specs/PData/PDataGen.tla) on every real pdata container type of a
// kind profile and compares, after every step, the real content of every variable (read through every public
// getter) with the content the reference model specifies (built afresh through the public API), and the panics.
//
//	driver list                                   -> JSON description of the tested types
//	driver run <profile.json> <behaviours.ndjson> <out.json>
package main

import (
	"bufio"
	"encoding/json"
	"fmt"
	"os"
	"reflect"
	"regexp"
	"runtime"
	"runtime/pprof"
	"sort"
	"strings"
	"sync"
)

var (
	ctorByType = map[reflect.Type]reflect.Value{}
	types      []*typeInfo
)

func initRegistry() {
	names := make([]string, 0, len(registry))
	for n, c := range registry {
		cv := reflect.ValueOf(c)
		ctorByType[cv.Type().Out(0)] = cv
		names = append(names, n)
	}
	sort.Strings(names)
	paths := findPaths()
	for _, n := range names {
		cv := reflect.ValueOf(registry[n])
		t := cv.Type().Out(0)
		k := kindOf(t)
		ti := &typeInfo{name: n, typ: t, kind: k, ctor: cv}
		switch k {
		case kMsgSlice:
			ti.elemType = t.Method(mustMethod(t, "At")).Type.Out(0)
			if hasMethod(t, "Sort") {
				ti.profile = "ptrslice"
			} else {
				ti.profile = "valslice"
			}
		case kAnySlice:
			ti.profile = "anyslice"
		case kMap:
			ti.profile = "map"
		case kPrim:
			ti.profile = "prim"
		default:
			continue
		}
		if hp, ok := paths[t]; ok {
			ti.rootName, ti.rootCtor, ti.path = hp.rootName, hp.rootCtor, hp.path
		}
		types = append(types, ti)
	}
}

type hostPath struct {
	rootName string
	rootCtor reflect.Value
	path     []pstep
}

// findPaths: shortest public-API path from a payload root to a value of every wrapper type
func findPaths() map[reflect.Type]hostPath {
	out := map[reflect.Type]hostPath{}
	rootNames := make([]string, 0, len(roots))
	for n := range roots {
		rootNames = append(rootNames, n)
	}
	sort.Strings(rootNames)
	for _, rn := range rootNames {
		rc := reflect.ValueOf(roots[rn])
		queue := [][]pstep{{}}
		seen := map[reflect.Type]bool{rc.Type().Out(0): true}
		for len(queue) > 0 {
			p := queue[0]
			queue = queue[1:]
			v := follow(rc.Call(nil)[0], p)
			t := v.Type()
			var edges []pstep
			switch kindOf(t) {
			case kMsg:
				pl := planOf(t)
				for _, g := range pl.getters {
					if m, _ := t.MethodByName(g); isWrapper(m.Type.Out(0)) {
						if hasMethod(t, "SetEmpty"+g) {
							edges = append(edges, pstep{method: "SetEmpty" + g})
						} else {
							edges = append(edges, pstep{method: g})
						}
					}
				}
			case kMsgSlice, kAnySlice:
				edges = append(edges, pstep{method: "AppendEmpty"})
			case kValue:
				edges = append(edges, pstep{method: "SetEmptyMap"}, pstep{method: "SetEmptySlice"}, pstep{method: "SetEmptyBytes"})
			case kMap:
				edges = append(edges, pstep{method: "PutEmpty", arg: "h"})
			}
			for _, e := range edges {
				np := append(append([]pstep{}, p...), e)
				nv := follow(rc.Call(nil)[0], np)
				nt := nv.Type()
				if seen[nt] || !isWrapper(nt) || !valid(nv) {
					continue
				}
				seen[nt] = true
				if _, ok := out[nt]; !ok || len(np) < len(out[nt].path) {
					out[nt] = hostPath{rn, rc, np}
				}
				queue = append(queue, np)
			}
		}
	}
	return out
}

// ---------------------------------------------------------------------------------------------

type rawStep struct {
	O []any            `json:"o"`
	P bool             `json:"p"`
	V map[string][]any `json:"v"`
}

type step struct {
	op  opRec
	pan bool
	val map[string][]elem
}

func num(x any) int { return int(x.(float64)) }

func parseBehaviour(line []byte) ([]step, error) {
	var raw []rawStep
	if err := json.Unmarshal(line, &raw); err != nil {
		return nil, err
	}
	out := make([]step, len(raw))
	for i, r := range raw {
		o := r.O
		out[i].op = opRec{op: o[0].(string), a: o[1].(string), b: o[2].(string), i: num(o[3]), j: num(o[4]),
			s: num(o[5]), p: o[6].(string), n: num(o[7])}
		out[i].pan = r.P
		out[i].val = map[string][]elem{}
		for name, es := range r.V {
			lst := make([]elem, len(es))
			for q, e := range es {
				f := e.([]any)
				ks := f[3].([]any)
				lst[q] = elem{id: num(f[0]), t: num(f[1]), s: num(f[2]), k: make([]int, len(ks))}
				for z, kk := range ks {
					lst[q].k[z] = num(kk)
				}
			}
			out[i].val[name] = lst
		}
	}
	return out, nil
}

type mismatch struct {
	Type  string `json:"type"`
	Beh   int    `json:"beh"`
	Step  int    `json:"step"`
	Class string `json:"class"` // panic-unexpected | panic-missing | state | readonly-mutator
	Op    []any  `json:"op"`
	Var   string `json:"var,omitempty"`
	Want  string `json:"want,omitempty"`
	Got   string `json:"got,omitempty"`
	Panic string `json:"panic,omitempty"`
}

type typeResult struct {
	Programs   int        `json:"programs"`
	Steps      int        `json:"steps"`
	Compared   int        `json:"compared"`
	Mismatched int        `json:"mismatched_programs"`
	ROAttempts int        `json:"readonly_mutators_attempted"`
	Mismatches []mismatch `json:"mismatches"`
	Hosted     string     `json:"hosted"`
}

func elemsKey(es []elem) string {
	var sb strings.Builder
	for _, e := range es {
		fmt.Fprintf(&sb, "%d,%d,%d,%v;", e.id, e.t, e.s, e.k)
	}
	return sb.String()
}

func clip(s string) string {
	if len(s) > 1500 {
		return s[:1500] + "..."
	}
	return s
}

type runner struct {
	ti     *typeInfo
	cache  map[string]string
	res    *typeResult
	hosted bool
}

func (r *runner) expected(es []elem) string {
	k := elemsKey(es)
	if d, ok := r.cache[k]; ok {
		return d
	}
	c := newVar(r.ti, false)
	c.populate(es)
	d := dumpStr(c.v)
	if len(r.cache) < 200000 {
		r.cache[k] = d
	}
	return d
}

const maxKeepPerType = 40

func (r *runner) add(m mismatch) {
	if len(r.res.Mismatches) < maxKeepPerType {
		r.res.Mismatches = append(r.res.Mismatches, m)
	}
}

// runProgram returns true if the real code agreed with the reference at every step
func (r *runner) runProgram(bi int, prog []step) bool {
	vars := map[string]*cont{}
	names := make([]string, 0, 3)
	for n := range prog[0].val {
		names = append(names, n)
	}
	sort.Strings(names)
	sw := &sweeper{ro: map[string]bool{}}
	for si, st := range prog {
		var rec any
		func() {
			defer func() { rec = recover() }()
			if si == 0 {
				for _, n := range names {
					vars[n] = newVar(r.ti, r.hosted)
					vars[n].populate(st.val[n])
				}
				return
			}
			applyOp(vars, st.op, prog[si-1].val, st.val, sw)
		}()
		r.res.Steps++
		opj := []any{st.op.op, st.op.a, st.op.b, st.op.i, st.op.j, st.op.s, st.op.p, st.op.n}
		if rec != nil {
			if msg, ok := rec.(string); ok && strings.HasPrefix(msg, "driver:") {
				panic(msg) // defect of the driver, not of pdata
			}
		}
		if rec != nil && !st.pan {
			r.add(mismatch{Type: r.ti.name, Beh: bi, Step: si, Class: "panic-unexpected", Op: opj, Panic: fmt.Sprint(rec)})
			return false
		}
		if rec == nil && st.pan {
			r.add(mismatch{Type: r.ti.name, Beh: bi, Step: si, Class: "panic-missing", Op: opj})
			return false
		}
		if st.op.op == "markro" && !st.pan {
			sw.ro[st.op.a] = true
		}
		if len(sw.failures) > 0 {
			r.add(mismatch{Type: r.ti.name, Beh: bi, Step: si, Class: "readonly-mutator", Op: opj, Got: strings.Join(sw.failures, " ")})
			r.res.ROAttempts += sw.attempted
			return false
		}
		for _, n := range names {
			var got string
			var drec any
			func() {
				defer func() { drec = recover() }()
				got = dumpStr(vars[n].v)
			}()
			if drec != nil {
				r.add(mismatch{Type: r.ti.name, Beh: bi, Step: si, Class: "reader-panic", Op: opj, Var: n, Panic: fmt.Sprint(drec)})
				return false
			}
			want := r.expected(st.val[n])
			r.res.Compared++
			if got != want {
				r.add(mismatch{Type: r.ti.name, Beh: bi, Step: si, Class: "state", Op: opj, Var: n, Want: clip(want), Got: clip(got)})
				return false
			}
		}
	}
	r.res.ROAttempts += sw.attempted
	return true
}

func main() {
	initRegistry()
	if len(os.Args) < 2 {
		fmt.Fprintln(os.Stderr, "usage: driver list | run <profile.json> <behaviours.ndjson> <out.json>")
		os.Exit(2)
	}
	switch os.Args[1] {
	case "list":
		type row struct {
			Name, Profile, Root, Elem string
			Path                      []string
			Registry                  []string `json:",omitempty"`
		}
		var rows []row
		for _, ti := range types {
			r := row{Name: ti.name, Profile: ti.profile, Root: ti.rootName}
			if ti.elemType != nil {
				r.Elem = shortName(ti.elemType)
			}
			for _, p := range ti.path {
				r.Path = append(r.Path, p.method)
			}
			rows = append(rows, r)
		}
		all := make([]string, 0, len(registry))
		for n := range registry {
			all = append(all, n)
		}
		sort.Strings(all)
		_ = json.NewEncoder(os.Stdout).Encode(map[string]any{"types": rows, "registry": all})
	case "plan":
		for _, ti := range types {
			if ti.elemType == nil {
				continue
			}
			p := planOf(ti.elemType)
			fmt.Printf("%s elem=%s tag=%s scalars=%d groups=%v optional=%v variants=%v subs=%v rawstr=%v conts=%v\n", ti.name,
				shortName(ti.elemType), p.tagField, len(p.scalars), p.groups, p.optional, p.variants, p.subs, p.rawstrs, p.conts)
		}
	case "run":
		if pf := os.Getenv("C07_CPUPROF"); pf != "" {
			fh, _ := os.Create(pf)
			_ = pprof.StartCPUProfile(fh)
			defer pprof.StopCPUProfile()
		}
		run(os.Args[2], os.Args[3], os.Args[4])
	default:
		os.Exit(2)
	}
}

func run(profilePath, behPath, outPath string) {
	var prof struct {
		Profile string `json:"profile"`
		Types   string `json:"types"` // optional regexp on the type name
		Hosted  *bool  `json:"hosted"`
		Workers int    `json:"workers"`
		Stride  int    `json:"stride"` // program bi runs on type number ti iff (bi+ti+offset) % stride == 0
		Offset  int    `json:"offset"`
	}
	b, err := os.ReadFile(profilePath)
	if err != nil {
		panic(err)
	}
	if err := json.Unmarshal(b, &prof); err != nil {
		panic(err)
	}
	var progs [][]step
	f, err := os.Open(behPath)
	if err != nil {
		panic(err)
	}
	sc := bufio.NewScanner(f)
	sc.Buffer(make([]byte, 1<<20), 1<<26)
	for sc.Scan() {
		if len(sc.Bytes()) == 0 {
			continue
		}
		p, err := parseBehaviour(sc.Bytes())
		if err != nil {
			panic(err)
		}
		progs = append(progs, p)
	}
	f.Close()
	var sel []*typeInfo
	var re *regexp.Regexp
	if prof.Types != "" {
		re = regexp.MustCompile(prof.Types)
	}
	for _, ti := range types {
		if ti.profile == prof.Profile && (re == nil || re.MatchString(ti.name)) {
			sel = append(sel, ti)
		}
	}
	hosted := prof.Hosted == nil || *prof.Hosted
	workers := prof.Workers
	if workers <= 0 {
		workers = runtime.NumCPU()
		if workers > 12 {
			workers = 12
		}
	}
	chunks := 1
	if len(sel) > 0 && len(sel) < workers {
		chunks = (workers + len(sel) - 1) / len(sel)
	}
	if prof.Stride <= 0 {
		prof.Stride = 1
	}
	type task struct {
		ti     *typeInfo
		tidx   int
		lo, hi int
	}
	var tasks []task
	for tidx, ti := range sel {
		for c := 0; c < chunks; c++ {
			lo, hi := len(progs)*c/chunks, len(progs)*(c+1)/chunks
			if lo < hi {
				tasks = append(tasks, task{ti, tidx, lo, hi})
			}
		}
	}
	results := map[string]*typeResult{}
	var mu sync.Mutex
	var wg sync.WaitGroup
	sem := make(chan struct{}, workers)
	for _, tk := range tasks {
		wg.Add(1)
		sem <- struct{}{}
		go func(tk task) {
			defer wg.Done()
			defer func() { <-sem }()
			res := &typeResult{}
			r := &runner{ti: tk.ti, cache: map[string]string{}, res: res, hosted: hosted}
			for bi := tk.lo; bi < tk.hi; bi++ {
				if (bi+tk.tidx+prof.Offset)%prof.Stride != 0 {
					continue
				}
				res.Programs++
				if !r.runProgram(bi, progs[bi]) {
					res.Mismatched++
				}
			}
			mu.Lock()
			defer mu.Unlock()
			if old, ok := results[tk.ti.name]; ok {
				old.Programs += res.Programs
				old.Steps += res.Steps
				old.Compared += res.Compared
				old.Mismatched += res.Mismatched
				old.ROAttempts += res.ROAttempts
				old.Mismatches = append(old.Mismatches, res.Mismatches...)
				if len(old.Mismatches) > maxKeepPerType {
					old.Mismatches = old.Mismatches[:maxKeepPerType]
				}
			} else {
				res.Hosted = "standalone"
				if hosted && tk.ti.rootCtor.IsValid() {
					res.Hosted = tk.ti.rootName
				}
				results[tk.ti.name] = res
			}
		}(tk)
	}
	wg.Wait()
	out := map[string]any{"profile": prof.Profile, "behaviours": len(progs), "types": results}
	ob, _ := json.Marshal(out)
	if err := os.WriteFile(outPath, ob, 0o644); err != nil {
		panic(err)
	}
}
