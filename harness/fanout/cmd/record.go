// Recording machinery shared (via symlink) by harness/fanout and harness/fanoutgraph:
// the event schema of specs/Fanout/FanoutTrace.tla and a recorder that snapshots every handle.
package main

import (
	"encoding/json"

	"go.opentelemetry.io/collector/pdata/plog"
	"go.opentelemetry.io/collector/pdata/pmetric"
	"go.opentelemetry.io/collector/pdata/pprofile"
	"go.opentelemetry.io/collector/pdata/ptrace"
)

type viewRec struct {
	D  string `json:"d"`
	M  []int  `json:"m"`
	RO bool   `json:"ro"`
	O  int    `json:"o"`
}

type event struct {
	Ev    string    `json:"ev"`
	ID    *int      `json:"id,omitempty"`
	Sig   string    `json:"sig,omitempty"`
	Via   string    `json:"via,omitempty"`
	N     *int      `json:"n,omitempty"`
	Mut   []bool    `json:"mut,omitempty"`
	Fail  []bool    `json:"fail,omitempty"`
	RoIn  *bool     `json:"roIn,omitempty"`
	Adv   *bool     `json:"adv,omitempty"`
	Sent  []string  `json:"sent,omitempty"`
	Pre   [][]int   `json:"pre,omitempty"`
	Decl  *bool     `json:"decl,omitempty"`
	O     *int      `json:"o,omitempty"`
	C     *int      `json:"c,omitempty"`
	K     *int      `json:"k,omitempty"`
	P     *bool     `json:"p,omitempty"`
	IsNil *bool     `json:"isnil,omitempty"`
	Has   *[]int    `json:"has,omitempty"`
	V     []viewRec `json:"v"`
	Crash string    `json:"crash,omitempty"`
	Stray []int     `json:"stray,omitempty"`
	Order []int     `json:"order,omitempty"`
}

// baseOps is what the recorder needs to know about the payload type of one signal.
type baseOps[T any] struct {
	name   string
	build  func(variant int) T
	bytes  func(T) []byte
	mutate func(T, string, int)
	isRO   func(T) bool
	markRO func(T)
}

var (
	logsBase = baseOps[plog.Logs]{name: "logs", build: buildLogs, bytes: bytesLogs, mutate: mutateLogs,
		isRO: func(d plog.Logs) bool { return d.IsReadOnly() }, markRO: func(d plog.Logs) { d.MarkReadOnly() }}
	metricsBase = baseOps[pmetric.Metrics]{name: "metrics", build: buildMetrics, bytes: bytesMetrics, mutate: mutateMetrics,
		isRO: func(d pmetric.Metrics) bool { return d.IsReadOnly() }, markRO: func(d pmetric.Metrics) { d.MarkReadOnly() }}
	tracesBase = baseOps[ptrace.Traces]{name: "traces", build: buildTraces, bytes: bytesTraces, mutate: mutateTraces,
		isRO: func(d ptrace.Traces) bool { return d.IsReadOnly() }, markRO: func(d ptrace.Traces) { d.MarkReadOnly() }}
	profilesBase = baseOps[pprofile.Profiles]{name: "profiles", build: buildProfiles, bytes: bytesProfiles, mutate: mutateProfiles,
		isRO: func(d pprofile.Profiles) bool { return d.IsReadOnly() }, markRO: func(d pprofile.Profiles) { d.MarkReadOnly() }}
)

// recorder keeps the caller's handle (slot 0) and the handle every consumer was given (slots 1..n) and
// writes one event per step with the views of ALL slots after the step.
type recorder[T any] struct {
	base    baseOps[T]
	n       int
	out     *json.Encoder
	src     T
	handles []*T // 1..n, nil until delivered
	nmut    []int
	objs    map[uintptr]int
}

func newRecorder[T any](base baseOps[T], n int, out *json.Encoder, src T) *recorder[T] {
	r := &recorder[T]{base: base, n: n, out: out, src: src, handles: make([]*T, n+1), nmut: make([]int, n+1),
		objs: map[uintptr]int{}}
	r.objID(src) // object 0 = the caller's
	return r
}

func (r *recorder[T]) objID(x T) int {
	p := origPtr(any(x))
	if id, ok := r.objs[p]; ok {
		return id
	}
	id := len(r.objs)
	r.objs[p] = id
	return id
}

func (r *recorder[T]) viewOf(x T) viewRec {
	b := r.base.bytes(x)
	return viewRec{D: digest(b), M: markersIn(b), RO: r.base.isRO(x), O: r.objID(x)}
}

func (r *recorder[T]) views() []viewRec {
	vs := make([]viewRec, r.n+1)
	vs[0] = r.viewOf(r.src)
	for c := 1; c <= r.n; c++ {
		if r.handles[c] != nil {
			vs[c] = r.viewOf(*r.handles[c])
		} else {
			vs[c] = viewRec{D: "-", M: []int{}, O: -1}
		}
	}
	return vs
}

func (r *recorder[T]) emit(e event) {
	e.V = r.views()
	if err := r.out.Encode(e); err != nil {
		panic(err)
	}
}

// tryMutate applies the mutation, recovering the pdata read-only panic.
func (r *recorder[T]) tryMutate(x T, marker, k int) (panicked bool) {
	defer func() {
		if rec := recover(); rec != nil {
			panicked = true
		}
	}()
	r.base.mutate(x, markerString(marker), k)
	return false
}

// mutateVia writes marker 10*c+k through consumer c's own handle.
func (r *recorder[T]) mutateVia(c int) {
	r.nmut[c]++
	k := r.nmut[c]
	panicked := r.tryMutate(*r.handles[c], 10*c+k, k)
	r.emit(event{Ev: "mutate", C: &c, K: &k, P: &panicked})
}

func (r *recorder[T]) deliver(c int, d T) {
	h := d
	r.handles[c] = &h
	r.emit(event{Ev: "deliver", C: &c})
}
