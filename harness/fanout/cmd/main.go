// C06 driver, level 1: runs TLC-generated fan-out scenarios on the real
// internal/fanoutconsumer.New{Logs,Metrics,Traces,Profiles} and on the connector routers
// (connector.New{Logs,Metrics,Traces}Router, xconnector.NewProfilesRouter) and records the content
// timeline of every consumer for the TLC monitor (specs/Fanout/FanoutTrace.tla).
//
//	fanout run <scenarios.ndjson> <observed.ndjson>
//
// A scenario line (from FanoutGen + the product chosen by checks/C06.py):
//
//	{"id":..,"sig":"logs|metrics|traces|profiles","via":"fanout|router|routesub","pv":payload variant,
//	 "n":N,"mut":[..],"fail":[..],"sync":[..],"async":["no"|"next"|"end"..],"roIn":b}
//
// Recording consumers keep the handle they are given (like a consumer that works asynchronously),
// take a snapshot of the canonical proto bytes of EVERY handle after every step, write a unique
// marker through the handle when their program says so (recovering the pdata read-only panic) and
// return a unique error when they are scripted to fail.  Nothing here decides a verdict.
package main

import (
	"go.uber.org/multierr"
	"bufio"
	"context"
	"encoding/json"
	"errors"
	"fmt"
	"os"

	"go.opentelemetry.io/collector/connector"
	"go.opentelemetry.io/collector/connector/xconnector"
	"go.opentelemetry.io/collector/consumer"
	"go.opentelemetry.io/collector/consumer/consumererror"
	"go.opentelemetry.io/collector/consumer/xconsumer"
	"go.opentelemetry.io/collector/internal/fanoutconsumer"
	"go.opentelemetry.io/collector/pdata/plog"
	"go.opentelemetry.io/collector/pdata/pmetric"
	"go.opentelemetry.io/collector/pdata/pprofile"
	"go.opentelemetry.io/collector/pdata/ptrace"
	"go.opentelemetry.io/collector/pipeline"
	"go.opentelemetry.io/collector/pipeline/xpipeline"
)

type scenario struct {
	ID    int      `json:"id"`
	Sig   string   `json:"sig"`
	Via   string   `json:"via"`
	PV    int      `json:"pv"`
	N     int      `json:"n"`
	Mut   []bool   `json:"mut"`
	Fail  []bool   `json:"fail"`
	Sync  []bool   `json:"sync"`
	Async []string `json:"async"`
	RoIn  bool     `json:"roIn"`
}

type capser interface {
	Capabilities() consumer.Capabilities
}

// sigOps is everything the driver needs to know about one signal.
type sigOps[T any, C capser] struct {
	base    baseOps[T]
	newCons func(func(context.Context, T) error, bool) C
	fanout  func([]C) C
	router  func(map[pipeline.ID]C) (C, func(...pipeline.ID) (C, error))
	consume func(C, context.Context, T) error
	signal  pipeline.Signal
}

type runState[T any, C capser] struct {
	*recorder[T]
	sc       scenario
	returned []bool
	asyncDue []bool
	order    []int
	stray    []int
}

// runDue performs the asynchronous mutations that are due: "next" ones at every hook, all at the end.
func (st *runState[T, C]) runDue(final bool) {
	for c := 1; c <= st.sc.N; c++ {
		if st.asyncDue[c] && st.returned[c] && (final || st.sc.Async[c-1] == "next") {
			st.asyncDue[c] = false
			st.mutateVia(c)
		}
	}
}

func (st *runState[T, C]) onConsume(c int, d T) error {
	if c > st.sc.N { // decoy consumer of a routed subset: must not be invoked
		st.stray = append(st.stray, c)
		return nil
	}
	st.runDue(false) // siblings scripted to act "before the next consumer is invoked"
	st.order = append(st.order, c)
	st.deliver(c, d)
	if st.sc.Sync[c-1] {
		st.mutateVia(c)
	}
	if st.sc.Async[c-1] != "no" {
		st.asyncDue[c] = true
	}
	st.returned[c] = true
	if st.sc.Fail[c-1] {
		return shaped(failErr(c), st.sc.ID+c)
	}
	return nil
}

// shaped: "every consumer is invoked even if an earlier one failed" whatever KIND of error the failure is.  The scripted
// failure is handed back bare, as a permanent error, or wrapping / joined with a context error of the consumer's own (its
// export timed out, its worker was stopped) -- the caller's context is alive in every scenario (seeded change C06-6 stopped
// the fan-out when a consumer's error looked like an expired request).  errors.Is(err, failErr(c)) holds for every shape.
// errShared: ONE error value that several consumers return (a cached client error, a package-level sentinel): the returned
// error must still account for every failure (seeded change C06-9 de-duplicated errors that are errors.Is-equal).
var errShared = errors.New("shared sentinel: backend unavailable")

func sharedShape(k int) bool { return k%7 >= 4 } // runs of three consecutive indices: several consumers of one scenario share it

func shaped(err error, k int) error {
	if sharedShape(k) {
		return errShared
	}
	switch k % 5 {
	case 1:
		return fmt.Errorf("%w: %w", err, context.DeadlineExceeded)
	case 2:
		return errors.Join(context.Canceled, err)
	case 3:
		return consumererror.NewPermanent(err)
	case 4:
		return fmt.Errorf("export failed: %w", fmt.Errorf("%w (%w)", err, context.DeadlineExceeded))
	}
	return err
}

type consumerError struct{ c int }

func (e consumerError) Error() string { return fmt.Sprintf("consumer %d failed", e.c) }
func failErr(c int) error             { return consumerError{c} }

func runScenario[T any, C capser](ops sigOps[T, C], sc scenario, out *json.Encoder) {
	src := ops.base.build(sc.PV)
	if sc.RoIn {
		ops.base.markRO(src)
	}
	st := &runState[T, C]{recorder: newRecorder(ops.base, sc.N, out, src), sc: sc}
	st.returned = make([]bool, sc.N+2)
	st.asyncDue = make([]bool, sc.N+2)

	cons := make([]C, 0, sc.N+1)
	for c := 1; c <= sc.N; c++ {
		c := c
		cons = append(cons, ops.newCons(func(_ context.Context, d T) error { return st.onConsume(c, d) }, sc.Mut[c-1]))
	}
	var fan C
	switch sc.Via {
	case "fanout":
		fan = ops.fanout(cons)
	case "router", "routesub":
		cm := map[pipeline.ID]C{}
		ids := make([]pipeline.ID, 0, sc.N)
		for c := 1; c <= sc.N; c++ {
			id := pipeline.NewIDWithName(ops.signal, fmt.Sprintf("p%d", c))
			cm[id] = cons[c-1]
			ids = append(ids, id)
		}
		if sc.Via == "routesub" { // two more pipelines that are NOT selected (one of each capability)
			for x := 1; x <= 2; x++ {
				c := sc.N + x
				cm[pipeline.NewIDWithName(ops.signal, fmt.Sprintf("decoy%d", x))] =
					ops.newCons(func(_ context.Context, d T) error { return st.onConsume(c, d) }, x == 1)
			}
		}
		all, sub := ops.router(cm)
		if sc.Via == "router" {
			fan = all
		} else {
			var err error
			if fan, err = sub(ids...); err != nil {
				panic(err)
			}
		}
	default:
		panic("unknown via " + sc.Via)
	}

	adv := fan.Capabilities().MutatesData
	sent := make([]string, sc.N)
	pre := make([][]int, sc.N)
	for i := range sent {
		sent[i] = digest(ops.base.bytes(st.src))
		pre[i] = []int{}
	}
	st.emit(event{Ev: "reset", ID: &sc.ID, Sig: sc.Sig, Via: sc.Via, N: &sc.N, Mut: sc.Mut, Fail: sc.Fail,
		RoIn: &sc.RoIn, Adv: &adv, Sent: sent, Pre: pre})

	var err error
	crash := ""
	func() {
		defer func() {
			if r := recover(); r != nil {
				crash = fmt.Sprint(r)
			}
		}()
		err = ops.consume(fan, context.Background(), st.src)
	}()
	has := []int{}
	// consumers that failed with the shared sentinel cannot be told apart in the aggregate: they are accounted for by COUNT
	nShared := 0
	for _, e := range multierr.Errors(err) {
		if e == errShared {
			nShared++
		}
	}
	for c := 1; c <= sc.N; c++ {
		if sc.Fail[c-1] && sharedShape(sc.ID+c) {
			if nShared > 0 {
				nShared--
				has = append(has, c)
			}
			continue
		}
		if errors.Is(err, failErr(c)) {
			has = append(has, c)
		}
	}
	isnil := err == nil && crash == ""
	st.emit(event{Ev: "return", IsNil: &isnil, Has: &has, Crash: crash, Stray: st.stray, Order: st.order})
	st.runDue(true)
}

func must[T any](v T, err error) T {
	if err != nil {
		panic(err)
	}
	return v
}

var logsOps = sigOps[plog.Logs, consumer.Logs]{
	base: logsBase, signal: pipeline.SignalLogs,
	newCons: func(f func(context.Context, plog.Logs) error, m bool) consumer.Logs {
		return must(consumer.NewLogs(f, consumer.WithCapabilities(consumer.Capabilities{MutatesData: m})))
	},
	fanout: fanoutconsumer.NewLogs,
	router: func(cm map[pipeline.ID]consumer.Logs) (consumer.Logs, func(...pipeline.ID) (consumer.Logs, error)) {
		r := connector.NewLogsRouter(cm)
		return r, r.Consumer
	},
	consume: func(c consumer.Logs, ctx context.Context, d plog.Logs) error { return c.ConsumeLogs(ctx, d) },
}

var metricsOps = sigOps[pmetric.Metrics, consumer.Metrics]{
	base: metricsBase, signal: pipeline.SignalMetrics,
	newCons: func(f func(context.Context, pmetric.Metrics) error, m bool) consumer.Metrics {
		return must(consumer.NewMetrics(f, consumer.WithCapabilities(consumer.Capabilities{MutatesData: m})))
	},
	fanout: fanoutconsumer.NewMetrics,
	router: func(cm map[pipeline.ID]consumer.Metrics) (consumer.Metrics, func(...pipeline.ID) (consumer.Metrics, error)) {
		r := connector.NewMetricsRouter(cm)
		return r, r.Consumer
	},
	consume: func(c consumer.Metrics, ctx context.Context, d pmetric.Metrics) error {
		return c.ConsumeMetrics(ctx, d)
	},
}

var tracesOps = sigOps[ptrace.Traces, consumer.Traces]{
	base: tracesBase, signal: pipeline.SignalTraces,
	newCons: func(f func(context.Context, ptrace.Traces) error, m bool) consumer.Traces {
		return must(consumer.NewTraces(f, consumer.WithCapabilities(consumer.Capabilities{MutatesData: m})))
	},
	fanout: fanoutconsumer.NewTraces,
	router: func(cm map[pipeline.ID]consumer.Traces) (consumer.Traces, func(...pipeline.ID) (consumer.Traces, error)) {
		r := connector.NewTracesRouter(cm)
		return r, r.Consumer
	},
	consume: func(c consumer.Traces, ctx context.Context, d ptrace.Traces) error { return c.ConsumeTraces(ctx, d) },
}

var profilesOps = sigOps[pprofile.Profiles, xconsumer.Profiles]{
	base: profilesBase, signal: xpipeline.SignalProfiles,
	newCons: func(f func(context.Context, pprofile.Profiles) error, m bool) xconsumer.Profiles {
		return must(xconsumer.NewProfiles(f, consumer.WithCapabilities(consumer.Capabilities{MutatesData: m})))
	},
	fanout: fanoutconsumer.NewProfiles,
	router: func(cm map[pipeline.ID]xconsumer.Profiles) (xconsumer.Profiles, func(...pipeline.ID) (xconsumer.Profiles, error)) {
		r := xconnector.NewProfilesRouter(cm)
		return r, r.Consumer
	},
	consume: func(c xconsumer.Profiles, ctx context.Context, d pprofile.Profiles) error {
		return c.ConsumeProfiles(ctx, d)
	},
}

func main() {
	if len(os.Args) != 4 || os.Args[1] != "run" {
		fmt.Fprintln(os.Stderr, "usage: fanout run <scenarios.ndjson> <observed.ndjson>")
		os.Exit(64)
	}
	in, err := os.Open(os.Args[2])
	if err != nil {
		panic(err)
	}
	defer in.Close()
	outf, err := os.Create(os.Args[3])
	if err != nil {
		panic(err)
	}
	w := bufio.NewWriterSize(outf, 1<<20)
	enc := json.NewEncoder(w)
	rd := bufio.NewScanner(in)
	rd.Buffer(make([]byte, 1<<20), 1<<24)
	runs := 0
	for rd.Scan() {
		if len(rd.Bytes()) == 0 {
			continue
		}
		var sc scenario
		if err := json.Unmarshal(rd.Bytes(), &sc); err != nil {
			panic(err)
		}
		if sc.N < 1 || len(sc.Mut) != sc.N || len(sc.Fail) != sc.N || len(sc.Sync) != sc.N || len(sc.Async) != sc.N {
			panic(fmt.Sprintf("malformed scenario %d", sc.ID))
		}
		switch sc.Sig {
		case "logs":
			runScenario(logsOps, sc, enc)
		case "metrics":
			runScenario(metricsOps, sc, enc)
		case "traces":
			runScenario(tracesOps, sc, enc)
		case "profiles":
			runScenario(profilesOps, sc, enc)
		default:
			panic("unknown signal " + sc.Sig)
		}
		runs++
	}
	if err := rd.Err(); err != nil {
		panic(err)
	}
	if err := w.Flush(); err != nil {
		panic(err)
	}
	if err := outf.Close(); err != nil {
		panic(err)
	}
	fmt.Printf("{\"runs\":%d}\n", runs)
}
