// Payload builders, canonical encoding, mutators and identity for the four signals.
// Shared (via symlink) by harness/fanout and harness/fanoutgraph.
//
// Payloads are small but use every container level (resource / scope / record + attributes with
// nested maps, slices and bytes, and the per-signal sub-containers), and a mutation writes its
// marker IN PLACE at every level, so a clone that is shallow at any level becomes visible in the
// canonical bytes of the sibling that shares that level.
package main

import (
	"bytes"
	"crypto/sha256"
	"encoding/hex"
	"fmt"
	"reflect"
	"regexp"
	"sort"
	"strconv"

	"go.opentelemetry.io/collector/pdata/pcommon"
	"go.opentelemetry.io/collector/pdata/plog"
	"go.opentelemetry.io/collector/pdata/pmetric"
	"go.opentelemetry.io/collector/pdata/pprofile"
	"go.opentelemetry.io/collector/pdata/ptrace"
)

const nVariants = 3

func markerString(m int) string { return fmt.Sprintf("MK%03d;", m) }

var markerRe = regexp.MustCompile(`MK(\d{3});`)

// markersIn returns the distinct marker numbers that occur in the encoded payload.
func markersIn(b []byte) []int {
	seen := map[int]bool{}
	for _, m := range markerRe.FindAllSubmatch(b, -1) {
		v, _ := strconv.Atoi(string(m[1]))
		seen[v] = true
	}
	out := make([]int, 0, len(seen))
	for v := range seen {
		out = append(out, v)
	}
	sort.Ints(out)
	return out
}

func digest(b []byte) string {
	h := sha256.Sum256(b)
	return hex.EncodeToString(h[:6])
}

// origPtr returns the address of the protobuf message behind a pdata top-level wrapper
// (plog.Logs, pmetric.Metrics, ptrace.Traces, pprofile.Profiles: struct{orig *T; state *State}).
// It is used only to say whether two handles denote the same object.
func origPtr(x any) uintptr {
	v := reflect.ValueOf(x)
	if v.Kind() != reflect.Struct {
		panic("origPtr: not a struct")
	}
	f := v.FieldByName("orig")
	if !f.IsValid() || f.Kind() != reflect.Ptr {
		panic("origPtr: pdata wrapper layout changed (no pointer field 'orig')")
	}
	return f.Pointer()
}

// ---------------------------------------------------------------------------------- attributes

func fillAttrs(m pcommon.Map, tag string, variant int) {
	m.PutStr("s", "str-"+tag)
	if variant == 2 {
		return
	}
	m.PutInt("i", 7)
	nest := m.PutEmptyMap("nest")
	nest.PutStr("ns", "nested-"+tag)
	nest.PutEmptyMap("deep").PutStr("ds", "deep-"+tag)
	list := m.PutEmptySlice("list")
	list.AppendEmpty().SetStr("l0-" + tag)
	list.AppendEmpty().SetEmptyMap().PutStr("lm", "inlist-"+tag)
	m.PutEmptyBytes("bytes").FromRaw([]byte("b-" + tag))
	if variant == 1 {
		m.PutBool("flag", true)
		m.PutDouble("dbl", 1.5)
	}
}

// touchValue rewrites a value in place (recursively) so that it carries the marker.
func touchValue(v pcommon.Value, mk string) {
	switch v.Type() {
	case pcommon.ValueTypeStr:
		v.SetStr(v.Str() + mk)
	case pcommon.ValueTypeInt:
		v.SetInt(v.Int() + 1)
	case pcommon.ValueTypeDouble:
		v.SetDouble(v.Double() + 1)
	case pcommon.ValueTypeBool:
		v.SetBool(!v.Bool())
	case pcommon.ValueTypeMap:
		touchAttrs(v.Map(), mk, false)
	case pcommon.ValueTypeSlice:
		s := v.Slice()
		for i := 0; i < s.Len(); i++ {
			touchValue(s.At(i), mk)
		}
		s.AppendEmpty().SetStr(mk)
	case pcommon.ValueTypeBytes:
		v.Bytes().Append([]byte(mk)...)
	case pcommon.ValueTypeEmpty:
		v.SetStr(mk)
	}
}

// touchAttrs modifies every existing entry in place, adds a key and (structural) removes one.
func touchAttrs(m pcommon.Map, mk string, structural bool) {
	m.Range(func(_ string, v pcommon.Value) bool {
		touchValue(v, mk)
		return true
	})
	m.PutStr("added-"+mk, mk)
	if structural {
		m.Remove("i")
		m.PutEmptyMap("newmap-"+mk).PutStr("k", mk)
	}
}

// ---------------------------------------------------------------------------------- logs

// variant 3 of every signal: a LEAFLESS payload -- resources and scopes with attributes and schema URLs, but no log record /
// span / data point / sample ("every payload of every signal": it is delivered, shared and protected like any other; seeded
// change C06-8 returned early from the fan-out for payloads without items).
func buildLogs(variant int) plog.Logs {
	ld := plog.NewLogs()
	if variant == 3 {
		for r := 0; r < 2; r++ {
			rl := ld.ResourceLogs().AppendEmpty()
			rl.SetSchemaUrl(fmt.Sprintf("https://r%d", r))
			fillAttrs(rl.Resource().Attributes(), fmt.Sprintf("r%d", r), 0)
			sl := rl.ScopeLogs().AppendEmpty()
			sl.Scope().SetName("scope-without-records")
			fillAttrs(sl.Scope().Attributes(), "sc", 2)
		}
		return ld
	}
	if variant == 2 { // minimal: one record, one attribute per level
		lr := ld.ResourceLogs().AppendEmpty()
		fillAttrs(lr.Resource().Attributes(), "r", 2)
		sl := lr.ScopeLogs().AppendEmpty()
		sl.Scope().SetName("scope")
		rec := sl.LogRecords().AppendEmpty()
		rec.Body().SetStr("body")
		fillAttrs(rec.Attributes(), "l", 2)
		return ld
	}
	for r := 0; r < 2; r++ {
		rl := ld.ResourceLogs().AppendEmpty()
		rl.SetSchemaUrl(fmt.Sprintf("https://r%d", r))
		fillAttrs(rl.Resource().Attributes(), fmt.Sprintf("r%d", r), variant)
		for s := 0; s < 2-variant; s++ {
			sl := rl.ScopeLogs().AppendEmpty()
			sl.SetSchemaUrl(fmt.Sprintf("https://s%d", s))
			sl.Scope().SetName(fmt.Sprintf("scope%d", s))
			sl.Scope().SetVersion("v1")
			fillAttrs(sl.Scope().Attributes(), fmt.Sprintf("s%d", s), variant)
			for l := 0; l < 2; l++ {
				rec := sl.LogRecords().AppendEmpty()
				rec.SetTimestamp(pcommon.Timestamp(1000 + l))
				rec.SetSeverityText("INFO")
				rec.SetSeverityNumber(plog.SeverityNumberInfo)
				rec.SetEventName("ev")
				fillAttrs(rec.Attributes(), fmt.Sprintf("l%d", l), variant)
				if l == 0 {
					fillAttrs(rec.Body().SetEmptyMap(), "body", variant)
				} else {
					b := rec.Body().SetEmptySlice()
					b.AppendEmpty().SetStr("b0")
					b.AppendEmpty().SetEmptyBytes().FromRaw([]byte("b1"))
				}
			}
		}
	}
	return ld
}

func mutateLogs(ld plog.Logs, mk string, k int) {
	structural := k != 1
	rls := ld.ResourceLogs()
	for i := 0; i < rls.Len(); i++ {
		rl := rls.At(i)
		rl.SetSchemaUrl(rl.SchemaUrl() + mk)
		touchAttrs(rl.Resource().Attributes(), mk, structural)
		sls := rl.ScopeLogs()
		for j := 0; j < sls.Len(); j++ {
			sl := sls.At(j)
			sl.SetSchemaUrl(sl.SchemaUrl() + mk)
			sl.Scope().SetName(sl.Scope().Name() + mk)
			touchAttrs(sl.Scope().Attributes(), mk, structural)
			lrs := sl.LogRecords()
			for l := 0; l < lrs.Len(); l++ {
				rec := lrs.At(l)
				rec.SetSeverityText(rec.SeverityText() + mk)
				rec.SetTimestamp(rec.Timestamp() + 1)
				touchAttrs(rec.Attributes(), mk, structural)
				touchValue(rec.Body(), mk)
			}
			if structural {
				first := true
				lrs.RemoveIf(func(plog.LogRecord) bool { f := first; first = false; return f && lrs.Len() > 1 })
				lrs.AppendEmpty().Body().SetStr(mk)
			}
		}
		if structural {
			sls.AppendEmpty().Scope().SetName(mk)
		}
	}
	rls.AppendEmpty().Resource().Attributes().PutStr("new-"+mk, mk)
}

func bytesLogs(ld plog.Logs) []byte {
	b, err := (&plog.ProtoMarshaler{}).MarshalLogs(ld)
	if err != nil {
		panic(err)
	}
	return b
}

// ---------------------------------------------------------------------------------- metrics

func fillNumberPoints(dps pmetric.NumberDataPointSlice, tag string, variant int) {
	for p := 0; p < 2; p++ {
		dp := dps.AppendEmpty()
		dp.SetTimestamp(pcommon.Timestamp(2000 + p))
		if p == 0 {
			dp.SetIntValue(int64(10 + p))
		} else {
			dp.SetDoubleValue(0.5)
		}
		fillAttrs(dp.Attributes(), tag+"dp", variant)
		ex := dp.Exemplars().AppendEmpty()
		ex.SetIntValue(3)
		fillAttrs(ex.FilteredAttributes(), tag+"ex", 2)
	}
}

func buildMetrics(variant int) pmetric.Metrics {
	if variant == 3 {
		md := pmetric.NewMetrics()
		for r := 0; r < 2; r++ {
			rm := md.ResourceMetrics().AppendEmpty()
			rm.SetSchemaUrl(fmt.Sprintf("https://r%d", r))
			fillAttrs(rm.Resource().Attributes(), fmt.Sprintf("r%d", r), 0)
			sm := rm.ScopeMetrics().AppendEmpty()
			sm.Scope().SetName("scope-without-points")
			m := sm.Metrics().AppendEmpty()
			m.SetName("gauge-without-points")
			m.SetUnit("1")
			m.SetEmptyGauge()
		}
		return md
	}
	md := pmetric.NewMetrics()
	nres := 2
	if variant == 2 {
		nres = 1
	}
	for r := 0; r < nres; r++ {
		rm := md.ResourceMetrics().AppendEmpty()
		rm.SetSchemaUrl(fmt.Sprintf("https://r%d", r))
		fillAttrs(rm.Resource().Attributes(), fmt.Sprintf("r%d", r), variant)
		sm := rm.ScopeMetrics().AppendEmpty()
		sm.SetSchemaUrl("https://s")
		sm.Scope().SetName("scope")
		fillAttrs(sm.Scope().Attributes(), "s", variant)
		g := sm.Metrics().AppendEmpty()
		g.SetName("gauge")
		g.SetUnit("1")
		g.SetDescription("a gauge")
		g.Metadata().PutStr("md", "x")
		fillNumberPoints(g.SetEmptyGauge().DataPoints(), "g", variant)
		if variant == 2 {
			continue
		}
		s := sm.Metrics().AppendEmpty()
		s.SetName("sum")
		sum := s.SetEmptySum()
		sum.SetIsMonotonic(true)
		sum.SetAggregationTemporality(pmetric.AggregationTemporalityCumulative)
		fillNumberPoints(sum.DataPoints(), "s", variant)
		h := sm.Metrics().AppendEmpty()
		h.SetName("histogram")
		hist := h.SetEmptyHistogram()
		hist.SetAggregationTemporality(pmetric.AggregationTemporalityDelta)
		hp := hist.DataPoints().AppendEmpty()
		hp.SetCount(3)
		hp.SetSum(4.5)
		hp.BucketCounts().FromRaw([]uint64{1, 2})
		hp.ExplicitBounds().FromRaw([]float64{1.0})
		fillAttrs(hp.Attributes(), "hp", variant)
		hp.Exemplars().AppendEmpty().SetDoubleValue(1.25)
		e := sm.Metrics().AppendEmpty()
		e.SetName("exphistogram")
		ep := e.SetEmptyExponentialHistogram().DataPoints().AppendEmpty()
		ep.SetCount(5)
		ep.SetScale(2)
		ep.Positive().BucketCounts().FromRaw([]uint64{1, 1})
		ep.Negative().BucketCounts().FromRaw([]uint64{3})
		fillAttrs(ep.Attributes(), "ep", variant)
		q := sm.Metrics().AppendEmpty()
		q.SetName("summary")
		qp := q.SetEmptySummary().DataPoints().AppendEmpty()
		qp.SetCount(9)
		qv := qp.QuantileValues().AppendEmpty()
		qv.SetQuantile(0.5)
		qv.SetValue(2)
		fillAttrs(qp.Attributes(), "qp", variant)
	}
	return md
}

func mutateNumberPoints(dps pmetric.NumberDataPointSlice, mk string, structural bool) {
	for p := 0; p < dps.Len(); p++ {
		dp := dps.At(p)
		dp.SetTimestamp(dp.Timestamp() + 1)
		if dp.ValueType() == pmetric.NumberDataPointValueTypeInt {
			dp.SetIntValue(dp.IntValue() + 1)
		} else {
			dp.SetDoubleValue(dp.DoubleValue() + 1)
		}
		touchAttrs(dp.Attributes(), mk, structural)
		exs := dp.Exemplars()
		for x := 0; x < exs.Len(); x++ {
			touchAttrs(exs.At(x).FilteredAttributes(), mk, structural)
		}
		if structural {
			exs.AppendEmpty().FilteredAttributes().PutStr(mk, mk)
		}
	}
	if structural {
		dps.AppendEmpty().Attributes().PutStr(mk, mk)
	}
}

func mutateMetrics(md pmetric.Metrics, mk string, k int) {
	structural := k != 1
	rms := md.ResourceMetrics()
	for i := 0; i < rms.Len(); i++ {
		rm := rms.At(i)
		rm.SetSchemaUrl(rm.SchemaUrl() + mk)
		touchAttrs(rm.Resource().Attributes(), mk, structural)
		sms := rm.ScopeMetrics()
		for j := 0; j < sms.Len(); j++ {
			sm := sms.At(j)
			sm.Scope().SetName(sm.Scope().Name() + mk)
			touchAttrs(sm.Scope().Attributes(), mk, structural)
			ms := sm.Metrics()
			for l := 0; l < ms.Len(); l++ {
				m := ms.At(l)
				m.SetName(m.Name() + mk)
				m.SetDescription(m.Description() + mk)
				touchAttrs(m.Metadata(), mk, structural)
				switch m.Type() {
				case pmetric.MetricTypeGauge:
					mutateNumberPoints(m.Gauge().DataPoints(), mk, structural)
				case pmetric.MetricTypeSum:
					m.Sum().SetIsMonotonic(!m.Sum().IsMonotonic())
					mutateNumberPoints(m.Sum().DataPoints(), mk, structural)
				case pmetric.MetricTypeHistogram:
					dps := m.Histogram().DataPoints()
					for p := 0; p < dps.Len(); p++ {
						dp := dps.At(p)
						dp.SetCount(dp.Count() + 1)
						if dp.BucketCounts().Len() > 0 {
							dp.BucketCounts().SetAt(0, dp.BucketCounts().At(0)+1)
						}
						dp.BucketCounts().Append(7)
						dp.ExplicitBounds().Append(9.5)
						touchAttrs(dp.Attributes(), mk, structural)
						dp.Exemplars().AppendEmpty().FilteredAttributes().PutStr(mk, mk)
					}
				case pmetric.MetricTypeExponentialHistogram:
					dps := m.ExponentialHistogram().DataPoints()
					for p := 0; p < dps.Len(); p++ {
						dp := dps.At(p)
						dp.SetScale(dp.Scale() + 1)
						dp.Positive().BucketCounts().Append(4)
						if dp.Negative().BucketCounts().Len() > 0 {
							dp.Negative().BucketCounts().SetAt(0, 99)
						}
						touchAttrs(dp.Attributes(), mk, structural)
					}
				case pmetric.MetricTypeSummary:
					dps := m.Summary().DataPoints()
					for p := 0; p < dps.Len(); p++ {
						dp := dps.At(p)
						dp.SetCount(dp.Count() + 1)
						qvs := dp.QuantileValues()
						for q := 0; q < qvs.Len(); q++ {
							qvs.At(q).SetValue(qvs.At(q).Value() + 1)
						}
						qvs.AppendEmpty().SetQuantile(0.99)
						touchAttrs(dp.Attributes(), mk, structural)
					}
				}
			}
			if structural {
				first := true
				ms.RemoveIf(func(pmetric.Metric) bool { f := first; first = false; return f && ms.Len() > 1 })
				nm := ms.AppendEmpty()
				nm.SetName(mk)
				nm.SetEmptyGauge().DataPoints().AppendEmpty().Attributes().PutStr(mk, mk)
			}
		}
		if structural {
			sms.AppendEmpty().Scope().SetName(mk)
		}
	}
	rms.AppendEmpty().Resource().Attributes().PutStr("new-"+mk, mk)
}

func bytesMetrics(md pmetric.Metrics) []byte {
	b, err := (&pmetric.ProtoMarshaler{}).MarshalMetrics(md)
	if err != nil {
		panic(err)
	}
	return b
}

// ---------------------------------------------------------------------------------- traces

func buildTraces(variant int) ptrace.Traces {
	if variant == 3 {
		td := ptrace.NewTraces()
		for r := 0; r < 2; r++ {
			rs := td.ResourceSpans().AppendEmpty()
			rs.SetSchemaUrl(fmt.Sprintf("https://r%d", r))
			fillAttrs(rs.Resource().Attributes(), fmt.Sprintf("r%d", r), 0)
			ss := rs.ScopeSpans().AppendEmpty()
			ss.Scope().SetName("scope-without-spans")
			fillAttrs(ss.Scope().Attributes(), "sc", 2)
		}
		return td
	}
	td := ptrace.NewTraces()
	nres := 2
	if variant == 2 {
		nres = 1
	}
	for r := 0; r < nres; r++ {
		rs := td.ResourceSpans().AppendEmpty()
		rs.SetSchemaUrl(fmt.Sprintf("https://r%d", r))
		fillAttrs(rs.Resource().Attributes(), fmt.Sprintf("r%d", r), variant)
		for s := 0; s < 2-variant%2; s++ {
			ss := rs.ScopeSpans().AppendEmpty()
			ss.SetSchemaUrl("https://s")
			ss.Scope().SetName(fmt.Sprintf("scope%d", s))
			fillAttrs(ss.Scope().Attributes(), "s", variant)
			for p := 0; p < 2; p++ {
				sp := ss.Spans().AppendEmpty()
				sp.SetName(fmt.Sprintf("span%d", p))
				sp.SetTraceID(pcommon.TraceID([16]byte{1, 2, 3, byte(p + 1)}))
				sp.SetSpanID(pcommon.SpanID([8]byte{9, byte(p + 1)}))
				sp.SetKind(ptrace.SpanKindServer)
				sp.TraceState().FromRaw("a=b")
				sp.Status().SetCode(ptrace.StatusCodeError)
				sp.Status().SetMessage("msg")
				fillAttrs(sp.Attributes(), fmt.Sprintf("sp%d", p), variant)
				if variant == 2 {
					continue
				}
				ev := sp.Events().AppendEmpty()
				ev.SetName("event")
				fillAttrs(ev.Attributes(), "ev", variant)
				ln := sp.Links().AppendEmpty()
				ln.SetTraceID(pcommon.TraceID([16]byte{7}))
				ln.TraceState().FromRaw("l=k")
				fillAttrs(ln.Attributes(), "ln", variant)
			}
		}
	}
	return td
}

func mutateTraces(td ptrace.Traces, mk string, k int) {
	structural := k != 1
	rss := td.ResourceSpans()
	for i := 0; i < rss.Len(); i++ {
		rs := rss.At(i)
		rs.SetSchemaUrl(rs.SchemaUrl() + mk)
		touchAttrs(rs.Resource().Attributes(), mk, structural)
		sss := rs.ScopeSpans()
		for j := 0; j < sss.Len(); j++ {
			ss := sss.At(j)
			ss.Scope().SetName(ss.Scope().Name() + mk)
			touchAttrs(ss.Scope().Attributes(), mk, structural)
			sps := ss.Spans()
			for l := 0; l < sps.Len(); l++ {
				sp := sps.At(l)
				sp.SetName(sp.Name() + mk)
				sp.TraceState().FromRaw(sp.TraceState().AsRaw() + mk)
				sp.Status().SetMessage(sp.Status().Message() + mk)
				touchAttrs(sp.Attributes(), mk, structural)
				evs := sp.Events()
				for e := 0; e < evs.Len(); e++ {
					evs.At(e).SetName(evs.At(e).Name() + mk)
					touchAttrs(evs.At(e).Attributes(), mk, structural)
				}
				lns := sp.Links()
				for e := 0; e < lns.Len(); e++ {
					lns.At(e).TraceState().FromRaw(lns.At(e).TraceState().AsRaw() + mk)
					touchAttrs(lns.At(e).Attributes(), mk, structural)
				}
				if structural {
					evs.AppendEmpty().SetName(mk)
					lns.AppendEmpty().Attributes().PutStr(mk, mk)
				}
			}
			if structural {
				first := true
				sps.RemoveIf(func(ptrace.Span) bool { f := first; first = false; return f && sps.Len() > 1 })
				sps.AppendEmpty().SetName(mk)
			}
		}
		if structural {
			sss.AppendEmpty().Scope().SetName(mk)
		}
	}
	rss.AppendEmpty().Resource().Attributes().PutStr("new-"+mk, mk)
}

func bytesTraces(td ptrace.Traces) []byte {
	b, err := (&ptrace.ProtoMarshaler{}).MarshalTraces(td)
	if err != nil {
		panic(err)
	}
	return b
}

// ---------------------------------------------------------------------------------- profiles

func buildProfiles(variant int) pprofile.Profiles {
	if variant == 3 {
		pd := pprofile.NewProfiles()
		for r := 0; r < 2; r++ {
			rp := pd.ResourceProfiles().AppendEmpty()
			rp.SetSchemaUrl(fmt.Sprintf("https://r%d", r))
			fillAttrs(rp.Resource().Attributes(), fmt.Sprintf("r%d", r), 0)
			sp := rp.ScopeProfiles().AppendEmpty()
			sp.Scope().SetName("scope-without-profiles")
			fillAttrs(sp.Scope().Attributes(), "sc", 2)
		}
		return pd
	}
	pd := pprofile.NewProfiles()
	nres := 2
	if variant == 2 {
		nres = 1
	}
	for r := 0; r < nres; r++ {
		rp := pd.ResourceProfiles().AppendEmpty()
		rp.SetSchemaUrl(fmt.Sprintf("https://r%d", r))
		fillAttrs(rp.Resource().Attributes(), fmt.Sprintf("r%d", r), variant)
		sp := rp.ScopeProfiles().AppendEmpty()
		sp.SetSchemaUrl("https://s")
		sp.Scope().SetName("scope")
		fillAttrs(sp.Scope().Attributes(), "s", variant)
		for p := 0; p < 2-variant%2; p++ {
			pr := sp.Profiles().AppendEmpty()
			pr.SetProfileID(pprofile.ProfileID([16]byte{1, byte(p + 1)}))
			pr.SetTime(pcommon.Timestamp(3000))
			pr.SetOriginalPayloadFormat("fmt")
			pr.OriginalPayload().FromRaw([]byte("payload"))
			pr.StringTable().FromRaw([]string{"", "cpu", "ns"})
			pr.LocationIndices().FromRaw([]int32{0})
			pr.AttributeIndices().FromRaw([]int32{0})
			pr.CommentStrindices().FromRaw([]int32{1})
			st := pr.SampleType().AppendEmpty()
			st.SetTypeStrindex(1)
			st.SetUnitStrindex(2)
			pr.PeriodType().SetTypeStrindex(1)
			at := pr.AttributeTable().AppendEmpty()
			at.SetKey("akey")
			at.Value().SetStr("aval")
			if variant != 2 {
				at2 := pr.AttributeTable().AppendEmpty()
				at2.SetKey("amap")
				fillAttrs(at2.Value().SetEmptyMap(), "at", variant)
			}
			au := pr.AttributeUnits().AppendEmpty()
			au.SetAttributeKeyStrindex(1)
			au.SetUnitStrindex(2)
			sa := pr.Sample().AppendEmpty()
			sa.SetLocationsLength(1)
			sa.Value().FromRaw([]int64{4, 5})
			sa.AttributeIndices().FromRaw([]int32{0})
			sa.TimestampsUnixNano().FromRaw([]uint64{11})
			mp := pr.MappingTable().AppendEmpty()
			mp.SetMemoryStart(100)
			mp.SetFilenameStrindex(1)
			mp.AttributeIndices().FromRaw([]int32{0})
			loc := pr.LocationTable().AppendEmpty()
			loc.SetAddress(42)
			loc.AttributeIndices().FromRaw([]int32{0})
			li := loc.Line().AppendEmpty()
			li.SetFunctionIndex(0)
			li.SetLine(12)
			fn := pr.FunctionTable().AppendEmpty()
			fn.SetNameStrindex(1)
			lk := pr.LinkTable().AppendEmpty()
			lk.SetTraceID(pcommon.TraceID([16]byte{5}))
			lk.SetSpanID(pcommon.SpanID([8]byte{6}))
		}
	}
	return pd
}

func mutateProfiles(pd pprofile.Profiles, mk string, k int) {
	structural := k != 1
	rps := pd.ResourceProfiles()
	for i := 0; i < rps.Len(); i++ {
		rp := rps.At(i)
		rp.SetSchemaUrl(rp.SchemaUrl() + mk)
		touchAttrs(rp.Resource().Attributes(), mk, structural)
		sps := rp.ScopeProfiles()
		for j := 0; j < sps.Len(); j++ {
			sp := sps.At(j)
			sp.Scope().SetName(sp.Scope().Name() + mk)
			touchAttrs(sp.Scope().Attributes(), mk, structural)
			prs := sp.Profiles()
			for l := 0; l < prs.Len(); l++ {
				pr := prs.At(l)
				pr.SetOriginalPayloadFormat(pr.OriginalPayloadFormat() + mk)
				pr.OriginalPayload().Append([]byte(mk)...)
				if pr.StringTable().Len() > 1 {
					pr.StringTable().SetAt(1, pr.StringTable().At(1)+mk)
				}
				pr.StringTable().Append(mk)
				pr.LocationIndices().Append(3)
				pr.AttributeIndices().Append(5)
				pr.CommentStrindices().Append(2)
				pr.PeriodType().SetUnitStrindex(pr.PeriodType().UnitStrindex() + 1)
				for x := 0; x < pr.SampleType().Len(); x++ {
					pr.SampleType().At(x).SetTypeStrindex(pr.SampleType().At(x).TypeStrindex() + 1)
				}
				ats := pr.AttributeTable()
				for x := 0; x < ats.Len(); x++ {
					ats.At(x).SetKey(ats.At(x).Key() + mk)
					touchValue(ats.At(x).Value(), mk)
				}
				for x := 0; x < pr.AttributeUnits().Len(); x++ {
					pr.AttributeUnits().At(x).SetUnitStrindex(pr.AttributeUnits().At(x).UnitStrindex() + 1)
				}
				sas := pr.Sample()
				for x := 0; x < sas.Len(); x++ {
					sa := sas.At(x)
					sa.SetLocationsLength(sa.LocationsLength() + 1)
					if sa.Value().Len() > 0 {
						sa.Value().SetAt(0, sa.Value().At(0)+1)
					}
					sa.Value().Append(8)
					sa.AttributeIndices().Append(1)
					sa.TimestampsUnixNano().Append(12)
				}
				for x := 0; x < pr.MappingTable().Len(); x++ {
					mp := pr.MappingTable().At(x)
					mp.SetMemoryStart(mp.MemoryStart() + 1)
					mp.AttributeIndices().Append(2)
				}
				for x := 0; x < pr.LocationTable().Len(); x++ {
					loc := pr.LocationTable().At(x)
					loc.SetAddress(loc.Address() + 1)
					loc.AttributeIndices().Append(2)
					for y := 0; y < loc.Line().Len(); y++ {
						loc.Line().At(y).SetLine(loc.Line().At(y).Line() + 1)
					}
					if structural {
						loc.Line().AppendEmpty().SetLine(77)
					}
				}
				for x := 0; x < pr.FunctionTable().Len(); x++ {
					pr.FunctionTable().At(x).SetStartLine(pr.FunctionTable().At(x).StartLine() + 1)
				}
				for x := 0; x < pr.LinkTable().Len(); x++ {
					pr.LinkTable().At(x).SetSpanID(pcommon.SpanID([8]byte{0xee, byte(k)}))
				}
				if structural {
					na := ats.AppendEmpty()
					na.SetKey(mk)
					na.Value().SetStr(mk)
					sas.AppendEmpty().Value().Append(1)
					pr.MappingTable().AppendEmpty().SetMemoryStart(5)
					pr.LocationTable().AppendEmpty().SetAddress(6)
					pr.FunctionTable().AppendEmpty().SetStartLine(7)
					pr.LinkTable().AppendEmpty().SetSpanID(pcommon.SpanID([8]byte{1}))
					pr.SampleType().AppendEmpty().SetTypeStrindex(2)
					pr.AttributeUnits().AppendEmpty().SetUnitStrindex(1)
				}
			}
			if structural {
				first := true
				prs.RemoveIf(func(pprofile.Profile) bool { f := first; first = false; return f && prs.Len() > 1 })
				prs.AppendEmpty().StringTable().Append(mk)
			}
		}
		if structural {
			sps.AppendEmpty().Scope().SetName(mk)
		}
	}
	rps.AppendEmpty().Resource().Attributes().PutStr("new-"+mk, mk)
}

func bytesProfiles(pd pprofile.Profiles) []byte {
	b, err := (&pprofile.ProtoMarshaler{}).MarshalProfiles(pd)
	if err != nil {
		panic(err)
	}
	return b
}

var _ = bytes.Contains
