// Conformance driver for C05 (retry sender).
//
//	retry run <unit_ns> <par> <scripts.ndjson> <trace.ndjson>
//
// Every input line is a TLC-generated script {cfg, outs, stop, cancel, nominal} (see
// specs/RetrySender/RetrySenderGen.tla).  The script is run in real time against the real retry sender
// reached through the public API exporterhelper.NewLogs(..., WithRetry, WithTimeout) (queue disabled) with
// a scripted pusher.  Nothing is judged here: the driver records, per script, what the backend saw
// (items and instants of every attempt, the outcome it answered), the interval the sender announced
// (zap field "interval"), when Shutdown()/cancel() ran, and the class of the error returned; TLC
// validates the trace (RetrySenderTrace.tla).  Times are microseconds of one monotonic clock.
package main

import (
	"bufio"
	"bytes"
	"context"
	"encoding/json"
	"errors"
	"fmt"
	"os"
	"sort"
	"strconv"
	"strings"
	"sync"
	"time"

	"go.uber.org/zap"
	"go.uber.org/zap/zapcore"

	"go.opentelemetry.io/collector/component"
	"go.opentelemetry.io/collector/component/componenttest"
	"go.opentelemetry.io/collector/config/configretry"
	"go.opentelemetry.io/collector/consumer/consumererror"
	"go.opentelemetry.io/collector/exporter"
	"go.opentelemetry.io/collector/exporter/exporterhelper"
	"go.opentelemetry.io/collector/exporter/exporterhelper/internal/experr"
	"go.opentelemetry.io/collector/pdata/plog"
	"go.opentelemetry.io/collector/pdata/ptrace"
	"go.opentelemetry.io/collector/pdata/pmetric"
)

type cfgT struct {
	Enabled  bool  `json:"enabled"`
	Init     int64 `json:"init"`
	Mult2    int64 `json:"mult2"`
	Maxi     int64 `json:"maxi"`
	Rnd2     int64 `json:"rnd2"`
	Budget   int64 `json:"budget"`
	Tmo      int64 `json:"tmo"`
	Deadline int64 `json:"deadline"`
}

type outT struct {
	Kind string `json:"kind"`
	Thr  int64  `json:"thr"`
	Dur  int64  `json:"dur"`
	Sub  string `json:"sub"`
	Stop bool   `json:"stop"`
}

type specT struct {
	N    int    `json:"n"`
	When string `json:"when"`
}

type script struct {
	Cfg     cfgT            `json:"cfg"`
	Outs    []outT          `json:"outs"`
	Stop    specT           `json:"stop"`
	Cancel  specT           `json:"cancel"`
	Nominal json.RawMessage `json:"nominal"`
}

const noDeadline = 1000000 // the generator's NoDeadline (time units)

var t0 = time.Now()

func nowUs() int64 { return int64(time.Since(t0) / time.Microsecond) }

type event map[string]any

type runner struct {
	sc   script
	sid  int
	unit time.Duration

	mu     sync.Mutex
	events []event
	n      int // attempts so far
	stop0  int64
	stop1  int64
	cnl0   int64
	cnl1   int64
	exp    component.Component
	sig    string // logs | traces | metrics: the request type (its OnError extracts the remainder of a partial failure)
	cancel context.CancelFunc
	once   sync.Once
	conce  sync.Once
	wg     sync.WaitGroup
	result int64 // instant the result was recorded (0: not yet)
	late   int
}

func (r *runner) doStop() {
	r.once.Do(func() {
		a := nowUs()
		_ = r.exp.Shutdown(context.Background())
		b := nowUs() + 1
		r.mu.Lock()
		r.stop0, r.stop1 = a, b
		r.mu.Unlock()
	})
}

func (r *runner) doCancel() {
	r.conce.Do(func() {
		a := nowUs()
		r.cancel()
		b := nowUs() + 1
		r.mu.Lock()
		r.cnl0, r.cnl1 = a, b
		r.mu.Unlock()
	})
}

func ids(ld plog.Logs) []int64 {
	var out []int64
	for i := 0; i < ld.ResourceLogs().Len(); i++ {
		rl := ld.ResourceLogs().At(i)
		for j := 0; j < rl.ScopeLogs().Len(); j++ {
			sl := rl.ScopeLogs().At(j)
			for k := 0; k < sl.LogRecords().Len(); k++ {
				v, _ := sl.LogRecords().At(k).Attributes().Get("id")
				out = append(out, v.Int())
			}
		}
	}
	sort.Slice(out, func(a, b int) bool { return out[a] < out[b] })
	return out
}

func mkLogs(items []int64) plog.Logs {
	ld := plog.NewLogs()
	sl := ld.ResourceLogs().AppendEmpty().ScopeLogs().AppendEmpty()
	for _, id := range items {
		lr := sl.LogRecords().AppendEmpty()
		lr.Attributes().PutInt("id", id)
		lr.Body().SetStr("item " + strconv.FormatInt(id, 10))
	}
	return ld
}

// companionErr marks the failures of the companion request (see runScript): its log entries and attempts are not part of
// the recorded trace of the script's own request.
const companionErr = "companion request: transient failure"

func (r *runner) push(ctx context.Context, ld plog.Logs) error {
	return r.pushItems(ctx, ids(ld), func(err error, rem []int64) error { return consumererror.NewLogs(err, mkLogs(rem)) })
}

func (r *runner) pushTraces(ctx context.Context, td ptrace.Traces) error {
	return r.pushItems(ctx, idsTraces(td), func(err error, rem []int64) error { return consumererror.NewTraces(err, mkTraces(rem)) })
}

func (r *runner) pushMetrics(ctx context.Context, md pmetric.Metrics) error {
	return r.pushItems(ctx, idsMetrics(md), func(err error, rem []int64) error { return consumererror.NewMetrics(err, mkMetrics(rem)) })
}

func idsTraces(td ptrace.Traces) []int64 {
	var out []int64
	for i := 0; i < td.ResourceSpans().Len(); i++ {
		rs := td.ResourceSpans().At(i)
		for j := 0; j < rs.ScopeSpans().Len(); j++ {
			ss := rs.ScopeSpans().At(j)
			for k := 0; k < ss.Spans().Len(); k++ {
				v, _ := ss.Spans().At(k).Attributes().Get("id")
				out = append(out, v.Int())
			}
		}
	}
	sort.Slice(out, func(a, b int) bool { return out[a] < out[b] })
	return out
}

func mkTraces(items []int64) ptrace.Traces {
	td := ptrace.NewTraces()
	ss := td.ResourceSpans().AppendEmpty().ScopeSpans().AppendEmpty()
	for _, id := range items {
		sp := ss.Spans().AppendEmpty()
		sp.Attributes().PutInt("id", id)
		sp.SetName("item " + strconv.FormatInt(id, 10))
	}
	return td
}

func idsMetrics(md pmetric.Metrics) []int64 {
	var out []int64
	for i := 0; i < md.ResourceMetrics().Len(); i++ {
		rm := md.ResourceMetrics().At(i)
		for j := 0; j < rm.ScopeMetrics().Len(); j++ {
			sm := rm.ScopeMetrics().At(j)
			for k := 0; k < sm.Metrics().Len(); k++ {
				dps := sm.Metrics().At(k).Gauge().DataPoints()
				for l := 0; l < dps.Len(); l++ {
					v, _ := dps.At(l).Attributes().Get("id")
					out = append(out, v.Int())
				}
			}
		}
	}
	sort.Slice(out, func(a, b int) bool { return out[a] < out[b] })
	return out
}

func mkMetrics(items []int64) pmetric.Metrics {
	md := pmetric.NewMetrics()
	sm := md.ResourceMetrics().AppendEmpty().ScopeMetrics().AppendEmpty()
	for _, id := range items {
		m := sm.Metrics().AppendEmpty()
		m.SetName("item " + strconv.FormatInt(id, 10))
		dp := m.SetEmptyGauge().DataPoints().AppendEmpty()
		dp.Attributes().PutInt("id", id)
		dp.SetIntValue(id)
	}
	return md
}

func (r *runner) pushItems(ctx context.Context, got []int64, partial func(error, []int64) error) error {
	a := nowUs()
	if len(got) > 0 && got[0] >= 900 {
		// the companion request: always fails retryably, at once
		return errors.New(companionErr)
	}
	r.mu.Lock()
	r.n++
	n := r.n
	lateNow := r.result != 0
	if lateNow {
		r.late++
	}
	r.mu.Unlock()
	if lateNow {
		return consumererror.NewPermanent(errors.New("attempt after the result"))
	}
	o := outT{Kind: "permanent", Sub: "-"} // beyond the script: end it
	beyond := true
	if n <= len(r.sc.Outs) {
		o, beyond = r.sc.Outs[n-1], false
	}
	if o.Stop {
		r.doStop()
	}
	if o.Dur > 0 {
		time.Sleep(time.Duration(o.Dur) * r.unit)
	}
	var err error
	rem := []int64{}
	kind := o.Kind
	switch o.Kind {
	case "ok":
	case "transient":
		err = errors.New("transient failure")
	case "permanent":
		err = consumererror.NewPermanent(errors.New("permanent failure"))
	case "throttle":
		err = exporterhelper.NewThrottleRetry(errors.New("throttled"), time.Duration(o.Thr)*r.unit)
	case "partial":
		if len(got) < 2 {
			kind = "transient"
			err = errors.New("transient failure")
			break
		}
		if o.Sub == "keep_max" {
			rem = []int64{got[len(got)-1]}
		} else {
			rem = append(rem, got[1:]...)
		}
		err = partial(errors.New("partial failure"), rem)
	case "expire":
		if _, has := ctx.Deadline(); !has {
			kind = "transient"
			err = errors.New("transient failure")
			break
		}
		<-ctx.Done()
		err = ctx.Err()
	default:
		panic("unknown outcome kind " + o.Kind)
	}
	// The classification of an error (permanent / throttle / partial failure carrying the remainder) is made with errors.As,
	// i.e. over the whole error TREE: the same outcome is handed back in different shapes -- bare, wrapped with %w, joined with
	// an unrelated error (errors.Join), one of two %w operands.  The meaning, and so the specified behaviour, is the same.
	if err != nil && (kind == "permanent" || kind == "throttle" || kind == "partial") {
		switch (r.sid + n) % 4 {
		case 1:
			err = fmt.Errorf("backend answered: %w", err)
		case 2:
			err = errors.Join(errors.New("another backend of the same exporter failed as well"), err)
		case 3:
			err = fmt.Errorf("%w; %w", errors.New("first operand"), err)
		}
	}
	thr := int64(0)
	if kind == "throttle" {
		thr = int64(time.Duration(o.Thr) * r.unit / time.Microsecond)
	}
	b := nowUs()
	r.mu.Lock()
	r.events = append(r.events, event{"ev": "attempt", "n": n, "items": got, "t0": a, "t1": b, "kind": kind,
		"thr": thr, "rem": rem, "beyond": beyond})
	r.mu.Unlock()
	return err
}

// zap core: sees every log entry of the exporter; the retry sender announces each retry with the field
// "interval".
type core struct{ r *runner }

func (c core) Enabled(zapcore.Level) bool        { return true }
func (c core) With([]zapcore.Field) zapcore.Core { return c }
func (c core) Sync() error                       { return nil }
func (c core) Check(e zapcore.Entry, ce *zapcore.CheckedEntry) *zapcore.CheckedEntry {
	return ce.AddCore(e, c)
}

func (c core) Write(_ zapcore.Entry, fields []zapcore.Field) error {
	for _, f := range fields {
		if f.Key == "error" {
			if e, ok := f.Interface.(error); ok && e != nil && strings.Contains(e.Error(), companionErr) {
				return nil // announced for the companion request, not for the script's own
			}
		}
	}
	for _, f := range fields {
		if f.Key != "interval" || f.Type != zapcore.StringType {
			continue
		}
		d, err := time.ParseDuration(f.String)
		if err != nil {
			continue
		}
		r := c.r
		t := nowUs() + 1
		r.mu.Lock()
		n := r.n
		r.events = append(r.events, event{"ev": "delay", "d": int64(d / time.Microsecond), "t": t})
		r.mu.Unlock()
		for _, x := range []struct {
			sp specT
			do func()
		}{{r.sc.Stop, r.doStop}, {r.sc.Cancel, r.doCancel}} {
			if x.sp.N != n {
				continue
			}
			if x.sp.When == "start" {
				x.do()
			} else {
				r.wg.Add(1)
				go func(do func()) {
					defer r.wg.Done()
					time.Sleep(d / 2)
					do()
				}(x.do)
			}
		}
	}
	return nil
}

var typ = component.MustNewType("verif")

func runScript(sid int, sc script, unit time.Duration) ([]event, error) {
	r := &runner{sc: sc, sid: sid, unit: unit, stop0: -1, stop1: -1, cnl0: -1, cnl1: -1}
	us := func(u int64) int64 { return int64(time.Duration(u) * unit / time.Microsecond) }
	rcfg := configretry.BackOffConfig{
		Enabled:             sc.Cfg.Enabled,
		InitialInterval:     time.Duration(sc.Cfg.Init) * unit,
		RandomizationFactor: float64(sc.Cfg.Rnd2) / 2,
		Multiplier:          float64(sc.Cfg.Mult2) / 2,
		MaxInterval:         time.Duration(sc.Cfg.Maxi) * unit,
		MaxElapsedTime:      time.Duration(sc.Cfg.Budget) * unit,
	}
	if err := rcfg.Validate(); err != nil {
		return nil, fmt.Errorf("script %d: configuration rejected by Validate: %w", sid, err)
	}
	set := exporter.Settings{ID: component.NewIDWithName(typ, strconv.Itoa(sid)),
		TelemetrySettings: componenttest.NewNopTelemetrySettings(), BuildInfo: component.NewDefaultBuildInfo()}
	set.Logger = zap.New(core{r})
	// the request type decides how the remainder of a partial failure is extracted (request.ErrorHandler of the logs / traces /
	// metrics request): the three signals take turns
	r.sig = []string{"logs", "traces", "metrics"}[sid%3]
	ropts := []exporterhelper.Option{exporterhelper.WithRetry(rcfg),
		exporterhelper.WithTimeout(exporterhelper.TimeoutConfig{Timeout: time.Duration(sc.Cfg.Tmo) * unit})}
	var exp component.Component
	var send func(context.Context, []int64) error
	var err error
	switch r.sig {
	case "traces":
		var x exporter.Traces
		x, err = exporterhelper.NewTraces(context.Background(), set, &struct{}{}, r.pushTraces, ropts...)
		exp, send = x, func(ctx context.Context, it []int64) error { return x.ConsumeTraces(ctx, mkTraces(it)) }
	case "metrics":
		var x exporter.Metrics
		x, err = exporterhelper.NewMetrics(context.Background(), set, &struct{}{}, r.pushMetrics, ropts...)
		exp, send = x, func(ctx context.Context, it []int64) error { return x.ConsumeMetrics(ctx, mkMetrics(it)) }
	default:
		var x exporter.Logs
		x, err = exporterhelper.NewLogs(context.Background(), set, &struct{}{}, r.push, ropts...)
		exp, send = x, func(ctx context.Context, it []int64) error { return x.ConsumeLogs(ctx, mkLogs(it)) }
	}
	if err != nil {
		return nil, err
	}
	r.exp = exp
	if err := startC(func(sc context.Context) error { return exp.Start(sc, componenttest.NewNopHost()) }); err != nil {
		return nil, err
	}
	items := []int64{1, 2, 3}
	ctx, cancel := context.WithCancel(context.Background())
	r.cancel = cancel
	deadline := int64(-1)
	if sc.Cfg.Deadline != noDeadline {
		dl := time.Now().Add(time.Duration(sc.Cfg.Deadline) * unit)
		var c2 context.CancelFunc
		ctx, c2 = context.WithDeadline(ctx, dl)
		defer c2()
		deadline = int64(dl.Sub(t0) / time.Microsecond)
	}
	// "for every request": every third script sends a COMPANION request through the same exporter while its own request is
	// being retried -- another request that keeps failing retryably.  Retrying is decided per request: the companion must
	// not change when, how often and after which waits the script's own request is retried (seeded change C05-6 shared one
	// back-off progression between all requests of an exporter).  The model is unchanged.
	var cwg sync.WaitGroup
	cctx, ccancel := context.WithCancel(context.Background())
	if sc.Cfg.Enabled && sid%3 == 0 {
		cwg.Add(1)
		go func() {
			defer cwg.Done()
			_ = send(cctx, []int64{901, 902})
		}()
		time.Sleep(unit / 4)
	}
	tc := nowUs()
	err = send(ctx, items)
	tr := nowUs() + 1
	cls := "error"
	switch {
	case err == nil:
		cls = "ok"
	case experr.IsShutdownErr(err):
		cls = "shutdown"
	case consumererror.IsPermanent(err):
		cls = "permanent"
	}
	r.mu.Lock()
	r.result = tr
	r.events = append(r.events, event{"ev": "result", "cls": cls, "t": tr})
	r.mu.Unlock()
	// anything arriving after the verdict?  (nothing should: Send has returned)
	time.Sleep(4 * unit)
	r.wg.Wait()
	r.doStop()
	cancel()
	ccancel()
	cwg.Wait()
	r.mu.Lock()
	defer r.mu.Unlock()
	stop0, stop1 := r.stop0, r.stop1
	if stop0 > tr { // the clean-up shutdown above is not part of the script
		stop0, stop1 = -1, -1
	}
	begin := event{"ev": "begin", "sid": sid, "tc": tc, "deadline": deadline, "items": items,
		"stop0": stop0, "stop1": stop1, "cancel0": r.cnl0, "cancel1": r.cnl1,
		"cfg": map[string]any{"enabled": sc.Cfg.Enabled, "init": us(sc.Cfg.Init), "mult2": sc.Cfg.Mult2, "maxi": us(sc.Cfg.Maxi),
			"rnd2": sc.Cfg.Rnd2, "budget": us(sc.Cfg.Budget), "tmo": us(sc.Cfg.Tmo)}}
	out := append([]event{begin}, r.events...)
	out = append(out, event{"ev": "late", "n": r.late})
	return out, nil
}

func main() {
	if len(os.Args) != 6 || os.Args[1] != "run" {
		fmt.Fprintln(os.Stderr, "usage: retry run <unit_ns> <par> <scripts.ndjson> <trace.ndjson>")
		os.Exit(3)
	}
	unitNs, _ := strconv.ParseInt(os.Args[2], 10, 64)
	par, _ := strconv.Atoi(os.Args[3])
	fail := func(err error) {
		fmt.Fprintln(os.Stderr, err)
		os.Exit(3)
	}
	f, err := os.Open(os.Args[4])
	if err != nil {
		fail(err)
	}
	var scripts []script
	sc := bufio.NewScanner(f)
	sc.Buffer(make([]byte, 1<<20), 1<<26)
	for sc.Scan() {
		if len(bytes.TrimSpace(sc.Bytes())) == 0 {
			continue
		}
		var s script
		if err := json.Unmarshal(sc.Bytes(), &s); err != nil {
			fail(fmt.Errorf("script %d: %w", len(scripts), err))
		}
		scripts = append(scripts, s)
	}
	f.Close()
	traces := make([][]event, len(scripts))
	errs := make([]error, len(scripts))
	sem := make(chan struct{}, max(par, 1))
	var wg sync.WaitGroup
	for i := range scripts {
		wg.Add(1)
		sem <- struct{}{}
		go func(i int) {
			defer wg.Done()
			defer func() { <-sem }()
			traces[i], errs[i] = runScript(i, scripts[i], time.Duration(unitNs))
		}(i)
	}
	wg.Wait()
	for _, e := range errs {
		if e != nil {
			fail(e)
		}
	}
	o, err := os.Create(os.Args[5])
	if err != nil {
		fail(err)
	}
	w := bufio.NewWriter(o)
	enc := json.NewEncoder(w)
	for _, tr := range traces {
		for _, e := range tr {
			if err := enc.Encode(e); err != nil {
				fail(err)
			}
		}
	}
	_ = enc.Encode(event{"ev": "end"})
	if err := w.Flush(); err != nil {
		fail(err)
	}
	o.Close()
}

// startC calls a component's Start with a context that is cancelled as soon as Start has returned: component.Component
// says that context "will be cancelled soon", so nothing that has to outlive Start may depend on it.
func startC(start func(context.Context) error) error {
	ctx, cancel := context.WithCancel(context.Background())
	defer cancel()
	return start(ctx)
}
