// End-to-end driver for the composition model specs/Pipeline: a REAL service (service.New / Start / Shutdown) running
//
//	test receiver -> real batch processor (processor/batchprocessor) -> exporter built with exporterhelper.NewLogs
//	(sending queue, consumers, retry) -> scripted backend
//
//	pipe run <scripts.ndjson> <traces.ndjson>
//
// script: {"id":..,"cfg":{"batch":N,"cap":Q,"retry":bool},"steps":[{"op":"inject","item":"a"}|{"op":"pause"}|{"op":"shutdown"}],
//
//	"outcomes":["ok"|"perm"|"transient"|"slow",...]}
package main

import (
	"bufio"
	"context"
	"encoding/json"
	"errors"
	"fmt"
	"os"
	"sync"
	"time"

	"go.uber.org/zap/zapcore"

	"go.opentelemetry.io/collector/component"
	"go.opentelemetry.io/collector/config/configretry"
	"go.opentelemetry.io/collector/config/configtelemetry"
	"go.opentelemetry.io/collector/connector"
	"go.opentelemetry.io/collector/connector/forwardconnector"
	"go.opentelemetry.io/collector/consumer"
	"go.opentelemetry.io/collector/consumer/consumererror"
	"go.opentelemetry.io/collector/exporter"
	"go.opentelemetry.io/collector/exporter/exporterhelper"
	"go.opentelemetry.io/collector/pdata/plog"
	"go.opentelemetry.io/collector/pipeline"
	"go.opentelemetry.io/collector/processor"
	"go.opentelemetry.io/collector/processor/batchprocessor"
	"go.opentelemetry.io/collector/receiver"
	"go.opentelemetry.io/collector/service"
	"go.opentelemetry.io/collector/service/extensions"
	"go.opentelemetry.io/collector/service/pipelines"
	"go.opentelemetry.io/collector/service/telemetry"
)

type Cfg struct {
	Batch int   `json:"batch"`
	Cap   int64 `json:"cap"`
	Retry bool  `json:"retry"`
	// Chain: two pipelines linked by the real forward connector (specs/PipelineChain, extra E07):
	// receiver -> batch/1 (Batch) -> forward -> batch/2 (Batch2) -> exporter
	Chain  bool `json:"chain"`
	Batch2 int  `json:"batch2"`
}

type Step struct {
	Op   string `json:"op"`
	Item string `json:"item"`
}

type Script struct {
	ID       string   `json:"id"`
	Cfg      Cfg      `json:"cfg"`
	Steps    []Step   `json:"steps"`
	Outcomes []string `json:"outcomes"`
}

type Ev struct {
	Ev     string   `json:"ev"`
	Script string   `json:"script,omitempty"`
	Cfg    *Cfg     `json:"cfg,omitempty"`
	Items  []string `json:"items"`
	OK     bool     `json:"ok"`
	Call   int      `json:"call,omitempty"`
	Out    string   `json:"out,omitempty"`
	Text   string   `json:"text,omitempty"`
}

type world struct {
	mu      sync.Mutex
	evs     []Ev
	sc      Script
	next    consumer.Logs
	calls   int
	shutReq chan struct{}
	shutRet bool
}

func (w *world) log(e Ev) {
	if e.Items == nil {
		e.Items = []string{}
	}
	w.mu.Lock()
	w.evs = append(w.evs, e)
	w.mu.Unlock()
}

func tags(ld plog.Logs) []string {
	var out []string
	for i := 0; i < ld.ResourceLogs().Len(); i++ {
		rl := ld.ResourceLogs().At(i)
		for j := 0; j < rl.ScopeLogs().Len(); j++ {
			lrs := rl.ScopeLogs().At(j).LogRecords()
			for k := 0; k < lrs.Len(); k++ {
				out = append(out, lrs.At(k).Body().Str())
			}
		}
	}
	return out
}

func mk(tag string) plog.Logs {
	ld := plog.NewLogs()
	ld.ResourceLogs().AppendEmpty().ScopeLogs().AppendEmpty().LogRecords().AppendEmpty().Body().SetStr(tag)
	return ld
}

// receiver: hands its next consumer to the driver
type vrecv struct{ w *world }

func (r *vrecv) Start(context.Context, component.Host) error { return nil }
func (r *vrecv) Shutdown(context.Context) error              { return nil }

// exporter wrapper: records whether the exporter helper accepted (enqueued) the batch
type vexp struct {
	exporter.Logs
	w *world
}

func (x *vexp) ConsumeLogs(ctx context.Context, ld plog.Logs) error {
	t := tags(ld) // read before: the exporter may take ownership
	err := x.Logs.ConsumeLogs(ctx, ld)
	x.w.log(Ev{Ev: "exp_consume", Items: t, OK: err == nil})
	return err
}

func (w *world) push(_ context.Context, ld plog.Logs) error {
	t := tags(ld)
	w.mu.Lock()
	w.calls++
	call := w.calls
	out := "ok"
	if call <= len(w.sc.Outcomes) {
		out = w.sc.Outcomes[call-1]
	}
	late := w.shutRet
	w.mu.Unlock()
	w.log(Ev{Ev: "push_start", Items: t, Call: call})
	if late {
		w.log(Ev{Ev: "late_push", Items: t, Call: call})
	}
	if out == "slow" {
		select {
		case <-w.shutReq:
			time.Sleep(10 * time.Millisecond)
		case <-time.After(10 * time.Second):
		}
		out = "ok"
	}
	w.log(Ev{Ev: "push_end", Items: t, Call: call, Out: out})
	switch out {
	case "ok":
		return nil
	case "perm":
		return consumererror.NewPermanent(errors.New("scripted permanent failure"))
	}
	return errors.New("scripted transient failure")
}

func runScript(sc Script) []Ev {
	w := &world{sc: sc, shutReq: make(chan struct{})}
	cfg := sc.Cfg
	w.log(Ev{Ev: "reset", Script: sc.ID, Cfg: &cfg})
	typ := component.MustNewType("v")
	id := component.NewID(typ)
	rf := receiver.NewFactory(typ, func() component.Config { return &struct{}{} },
		receiver.WithLogs(func(_ context.Context, _ receiver.Settings, _ component.Config, next consumer.Logs) (receiver.Logs, error) {
			w.next = next
			return &vrecv{w: w}, nil
		}, component.StabilityLevelStable))
	bf := batchprocessor.NewFactory()
	bcfg := bf.CreateDefaultConfig().(*batchprocessor.Config)
	bcfg.SendBatchSize = uint32(sc.Cfg.Batch)
	bcfg.SendBatchMaxSize = uint32(sc.Cfg.Batch)
	bcfg.Timeout = 15 * time.Millisecond
	ef := exporter.NewFactory(typ, func() component.Config { return &struct{}{} },
		exporter.WithLogs(func(ctx context.Context, set exporter.Settings, c component.Config) (exporter.Logs, error) {
			qc := exporterhelper.NewDefaultQueueConfig()
			qc.QueueSize = sc.Cfg.Cap
			qc.NumConsumers = 1
			opts := []exporterhelper.Option{exporterhelper.WithQueue(qc), exporterhelper.WithTimeout(exporterhelper.TimeoutConfig{Timeout: 0})}
			if sc.Cfg.Retry {
				rc := configretry.NewDefaultBackOffConfig()
				rc.InitialInterval, rc.MaxInterval, rc.RandomizationFactor, rc.MaxElapsedTime = 3*time.Millisecond, 3*time.Millisecond, 0, 0
				opts = append(opts, exporterhelper.WithRetry(rc))
			}
			e, err := exporterhelper.NewLogs(ctx, set, c, w.push, opts...)
			if err != nil {
				return nil, err
			}
			return &vexp{Logs: e, w: w}, nil
		}, component.StabilityLevelStable))
	set := service.Settings{
		BuildInfo:           component.NewDefaultBuildInfo(),
		ReceiversConfigs:    map[component.ID]component.Config{id: &struct{}{}},
		ReceiversFactories:  map[component.Type]receiver.Factory{typ: rf},
		ProcessorsConfigs:   map[component.ID]component.Config{component.NewID(bf.Type()): bcfg},
		ProcessorsFactories: map[component.Type]processor.Factory{bf.Type(): bf},
		ExportersConfigs:    map[component.ID]component.Config{id: &struct{}{}},
		ExportersFactories:  map[component.Type]exporter.Factory{typ: ef},
		AsyncErrorChannel:   make(chan error, 16),
	}
	pipes := pipelines.Config{pipeline.NewID(pipeline.SignalLogs): {
		Receivers: []component.ID{id}, Processors: []component.ID{component.NewID(bf.Type())}, Exporters: []component.ID{id}}}
	if sc.Cfg.Chain {
		b1, b2 := component.NewIDWithName(bf.Type(), "1"), component.NewIDWithName(bf.Type(), "2")
		bcfg2 := bf.CreateDefaultConfig().(*batchprocessor.Config)
		bcfg2.SendBatchSize, bcfg2.SendBatchMaxSize, bcfg2.Timeout = uint32(sc.Cfg.Batch2), uint32(sc.Cfg.Batch2), 15*time.Millisecond
		set.ProcessorsConfigs = map[component.ID]component.Config{b1: bcfg, b2: bcfg2}
		ff := forwardconnector.NewFactory()
		fid := component.NewID(ff.Type())
		set.ConnectorsConfigs = map[component.ID]component.Config{fid: ff.CreateDefaultConfig()}
		set.ConnectorsFactories = map[component.Type]connector.Factory{ff.Type(): ff}
		pipes = pipelines.Config{
			pipeline.NewIDWithName(pipeline.SignalLogs, "in"):  {Receivers: []component.ID{id}, Processors: []component.ID{b1}, Exporters: []component.ID{fid}},
			pipeline.NewIDWithName(pipeline.SignalLogs, "out"): {Receivers: []component.ID{fid}, Processors: []component.ID{b2}, Exporters: []component.ID{id}},
		}
	}
	scfg := service.Config{
		Telemetry: telemetry.Config{
			Logs:    telemetry.LogsConfig{Level: zapcore.FatalLevel, Encoding: "console", OutputPaths: []string{"stderr"}, ErrorOutputPaths: []string{"stderr"}},
			Metrics: telemetry.MetricsConfig{Level: configtelemetry.LevelNone},
		},
		Extensions: extensions.Config{},
		Pipelines:  pipes,
	}
	ctx := context.Background()
	srv, err := service.New(ctx, set, scfg)
	if err != nil {
		w.log(Ev{Ev: "note", Text: "new: " + err.Error()})
		return w.evs
	}
	if err := srv.Start(ctx); err != nil {
		w.log(Ev{Ev: "note", Text: "start: " + err.Error()})
		return w.evs
	}
	did := false
	shutdown := func() {
		if did {
			return
		}
		did = true
		w.log(Ev{Ev: "shutdown_start"})
		close(w.shutReq)
		done := make(chan struct{})
		go func() { _ = srv.Shutdown(ctx); close(done) }()
		select {
		case <-done:
			w.mu.Lock()
			w.shutRet = true
			w.evs = append(w.evs, Ev{Ev: "shutdown_end", Items: []string{}})
			w.mu.Unlock()
		case <-time.After(30 * time.Second):
			w.log(Ev{Ev: "note", Text: "service shutdown did not return"})
		}
	}
	for _, st := range sc.Steps {
		switch st.Op {
		case "inject":
			err := w.next.ConsumeLogs(ctx, mk(st.Item))
			w.log(Ev{Ev: "inject_end", Items: []string{st.Item}, OK: err == nil})
		case "pause":
			time.Sleep(25 * time.Millisecond) // lets the batch timer fire and exports happen
		case "shutdown":
			shutdown()
		}
		if did {
			break
		}
	}
	shutdown()
	time.Sleep(60 * time.Millisecond) // watch for work after Shutdown returned
	return w.evs
}

func main() {
	if len(os.Args) != 4 || os.Args[1] != "run" {
		fmt.Fprintln(os.Stderr, "usage: pipe run <scripts.ndjson> <traces.ndjson>")
		os.Exit(3)
	}
	in, err := os.Open(os.Args[2])
	if err != nil {
		fmt.Fprintln(os.Stderr, err)
		os.Exit(3)
	}
	var scripts []Script
	sc := bufio.NewScanner(in)
	sc.Buffer(make([]byte, 1<<20), 1<<26)
	for sc.Scan() {
		var s Script
		if err := json.Unmarshal(sc.Bytes(), &s); err != nil {
			fmt.Fprintln(os.Stderr, err)
			os.Exit(3)
		}
		scripts = append(scripts, s)
	}
	results := make([][]Ev, len(scripts))
	sem := make(chan struct{}, 16)
	var wg sync.WaitGroup
	for i := range scripts {
		wg.Add(1)
		sem <- struct{}{}
		go func(i int) {
			defer wg.Done()
			defer func() { <-sem }()
			results[i] = runScript(scripts[i])
		}(i)
	}
	wg.Wait()
	out, err := os.Create(os.Args[3])
	if err != nil {
		fmt.Fprintln(os.Stderr, err)
		os.Exit(3)
	}
	bw := bufio.NewWriter(out)
	enc := json.NewEncoder(bw)
	for _, evs := range results {
		for _, e := range evs {
			_ = enc.Encode(e)
		}
	}
	bw.Flush()
	out.Close()
}
