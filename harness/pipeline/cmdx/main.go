// End-to-end driver for the composition model specs/PipelineX (extra E05): a REAL service (service.New / Start / Shutdown)
//
//	test receiver -> real memory limiter (processor/memorylimiterprocessor) -> real batch processor -> fan-out ->
//	two exporters built with exporterhelper.NewLogs (sending queue, one consumer, retry) -> scripted backends e1, e2
//
//	pipex run <scripts.ndjson> <traces.ndjson>
//
// script: {"id":..,"cfg":{"batch":N,"cap":Q,"retry":bool,"limiter":bool},
//
//	"steps":[{"op":"inject","item":"a"}|{"op":"mem","item":"high"|"low"}|{"op":"pause"}|{"op":"shutdown"}],
//	"outcomes":{"e1":["ok"|"perm"|"transient"|"slow",...],"e2":[...]}}
//
// The memory reading the limiter sees is scripted (memorylimiter.ReadMemStatsFn is captured when the limiter is built:
// it is set, under a process-wide mutex, to this script's reading around service.New).
package main

import (
	"bufio"
	"context"
	"encoding/json"
	"errors"
	"fmt"
	"os"
	"runtime"
	"sync"
	"sync/atomic"
	"time"

	"go.uber.org/zap/zapcore"

	"go.opentelemetry.io/collector/component"
	"go.opentelemetry.io/collector/config/configretry"
	"go.opentelemetry.io/collector/config/configtelemetry"
	"go.opentelemetry.io/collector/consumer"
	"go.opentelemetry.io/collector/consumer/consumererror"
	"go.opentelemetry.io/collector/exporter"
	"go.opentelemetry.io/collector/exporter/exporterhelper"
	"go.opentelemetry.io/collector/internal/memorylimiter"
	"go.opentelemetry.io/collector/pdata/plog"
	"go.opentelemetry.io/collector/pipeline"
	"go.opentelemetry.io/collector/processor"
	"go.opentelemetry.io/collector/processor/batchprocessor"
	"go.opentelemetry.io/collector/processor/memorylimiterprocessor"
	"go.opentelemetry.io/collector/receiver"
	"go.opentelemetry.io/collector/service"
	"go.opentelemetry.io/collector/service/extensions"
	"go.opentelemetry.io/collector/service/pipelines"
	"go.opentelemetry.io/collector/service/telemetry"
)

type Cfg struct {
	Batch   int   `json:"batch"`
	Cap     int64 `json:"cap"`
	Retry   bool  `json:"retry"`
	Limiter bool  `json:"limiter"`
}

type Step struct {
	Op   string `json:"op"`
	Item string `json:"item"`
}

type Script struct {
	ID       string   `json:"id"`
	Cfg      Cfg      `json:"cfg"`
	Steps    []Step   `json:"steps"`
	Outcomes map[string][]string `json:"outcomes"`
}

type Ev struct {
	Ev     string   `json:"ev"`
	Exp    string   `json:"exp"`
	Script string   `json:"script,omitempty"`
	Cfg    *Cfg     `json:"cfg,omitempty"`
	Items  []string `json:"items"`
	OK     bool     `json:"ok"`
	Call   int      `json:"call,omitempty"`
	Out    string   `json:"out,omitempty"`
	Text   string   `json:"text,omitempty"`
}

type world struct {
	mu      sync.Mutex
	evs     []Ev
	sc      Script
	next    consumer.Logs
	calls   map[string]int
	shutReq chan struct{}
	shutRet bool
	mem     atomic.Uint64 // the reading the memory limiter sees, bytes
}

func (w *world) log(e Ev) {
	if e.Items == nil {
		e.Items = []string{}
	}
	w.mu.Lock()
	w.evs = append(w.evs, e)
	w.mu.Unlock()
}

func tags(ld plog.Logs) []string {
	var out []string
	for i := 0; i < ld.ResourceLogs().Len(); i++ {
		rl := ld.ResourceLogs().At(i)
		for j := 0; j < rl.ScopeLogs().Len(); j++ {
			lrs := rl.ScopeLogs().At(j).LogRecords()
			for k := 0; k < lrs.Len(); k++ {
				out = append(out, lrs.At(k).Body().Str())
			}
		}
	}
	return out
}

func mk(tag string) plog.Logs {
	ld := plog.NewLogs()
	ld.ResourceLogs().AppendEmpty().ScopeLogs().AppendEmpty().LogRecords().AppendEmpty().Body().SetStr(tag)
	return ld
}

// receiver: hands its next consumer to the driver
type vrecv struct{ w *world }

func (r *vrecv) Start(context.Context, component.Host) error { return nil }
func (r *vrecv) Shutdown(context.Context) error              { return nil }

// exporter wrapper: records whether the exporter helper accepted (enqueued) the batch
type vexp struct {
	exporter.Logs
	w    *world
	name string
}

func (x *vexp) ConsumeLogs(ctx context.Context, ld plog.Logs) error {
	t := tags(ld) // read before: the exporter may take ownership
	err := x.Logs.ConsumeLogs(ctx, ld)
	x.w.log(Ev{Ev: "exp_consume", Exp: x.name, Items: t, OK: err == nil})
	return err
}

func (w *world) push(name string, ld plog.Logs) error {
	t := tags(ld)
	w.mu.Lock()
	w.calls[name]++
	call := w.calls[name]
	out := "ok"
	if call <= len(w.sc.Outcomes[name]) {
		out = w.sc.Outcomes[name][call-1]
	}
	late := w.shutRet
	w.mu.Unlock()
	w.log(Ev{Ev: "push_start", Exp: name, Items: t, Call: call})
	if late {
		w.log(Ev{Ev: "late_push", Exp: name, Items: t, Call: call})
	}
	if out == "slow" {
		select {
		case <-w.shutReq:
			time.Sleep(10 * time.Millisecond)
		case <-time.After(10 * time.Second):
		}
		out = "ok"
	}
	w.log(Ev{Ev: "push_end", Exp: name, Items: t, Call: call, Out: out})
	switch out {
	case "ok":
		return nil
	case "perm":
		return consumererror.NewPermanent(errors.New("scripted permanent failure"))
	}
	return errors.New("scripted transient failure")
}

var buildMu sync.Mutex

func runScript(sc Script) []Ev {
	w := &world{sc: sc, shutReq: make(chan struct{}), calls: map[string]int{}}
	w.mem.Store(10 << 20)
	cfg := sc.Cfg
	w.log(Ev{Ev: "reset", Script: sc.ID, Cfg: &cfg})
	typ := component.MustNewType("v")
	id := component.NewID(typ)
	rf := receiver.NewFactory(typ, func() component.Config { return &struct{}{} },
		receiver.WithLogs(func(_ context.Context, _ receiver.Settings, _ component.Config, next consumer.Logs) (receiver.Logs, error) {
			w.next = next
			return &vrecv{w: w}, nil
		}, component.StabilityLevelStable))
	bf := batchprocessor.NewFactory()
	bcfg := bf.CreateDefaultConfig().(*batchprocessor.Config)
	bcfg.SendBatchSize = uint32(sc.Cfg.Batch)
	bcfg.SendBatchMaxSize = uint32(sc.Cfg.Batch)
	bcfg.Timeout = 15 * time.Millisecond
	mkExp := func(name string) (component.ID, exporter.Factory) {
		et := component.MustNewType("v" + name)
		return component.NewID(et), exporter.NewFactory(et, func() component.Config { return &struct{}{} },
			exporter.WithLogs(func(ctx context.Context, set exporter.Settings, c component.Config) (exporter.Logs, error) {
				qc := exporterhelper.NewDefaultQueueConfig()
				qc.QueueSize = sc.Cfg.Cap
				qc.NumConsumers = 1
				opts := []exporterhelper.Option{exporterhelper.WithQueue(qc), exporterhelper.WithTimeout(exporterhelper.TimeoutConfig{Timeout: 0})}
				if sc.Cfg.Retry {
					rc := configretry.NewDefaultBackOffConfig()
					rc.InitialInterval, rc.MaxInterval, rc.RandomizationFactor, rc.MaxElapsedTime = 3*time.Millisecond, 3*time.Millisecond, 0, 0
					opts = append(opts, exporterhelper.WithRetry(rc))
				}
				e, err := exporterhelper.NewLogs(ctx, set, c, func(_ context.Context, ld plog.Logs) error { return w.push(name, ld) }, opts...)
				if err != nil {
					return nil, err
				}
				return &vexp{Logs: e, w: w, name: name}, nil
			}, component.StabilityLevelStable))
	}
	e1id, e1f := mkExp("e1")
	e2id, e2f := mkExp("e2")
	mf := memorylimiterprocessor.NewFactory()
	mcfg := mf.CreateDefaultConfig().(*memorylimiterprocessor.Config)
	mcfg.CheckInterval = 4 * time.Millisecond
	mcfg.MemoryLimitMiB, mcfg.MemorySpikeLimitMiB = 100, 20
	mcfg.MinGCIntervalWhenSoftLimited, mcfg.MinGCIntervalWhenHardLimited = time.Hour, time.Hour
	procs := []component.ID{component.NewID(bf.Type())}
	if sc.Cfg.Limiter {
		procs = []component.ID{component.NewID(mf.Type()), component.NewID(bf.Type())}
	}
	set := service.Settings{
		BuildInfo:           component.NewDefaultBuildInfo(),
		ReceiversConfigs:    map[component.ID]component.Config{id: &struct{}{}},
		ReceiversFactories:  map[component.Type]receiver.Factory{typ: rf},
		ProcessorsConfigs:   map[component.ID]component.Config{component.NewID(bf.Type()): bcfg, component.NewID(mf.Type()): mcfg},
		ProcessorsFactories: map[component.Type]processor.Factory{bf.Type(): bf, mf.Type(): mf},
		ExportersConfigs:    map[component.ID]component.Config{e1id: &struct{}{}, e2id: &struct{}{}},
		ExportersFactories:  map[component.Type]exporter.Factory{e1id.Type(): e1f, e2id.Type(): e2f},
		AsyncErrorChannel:   make(chan error, 16),
	}
	scfg := service.Config{
		Telemetry: telemetry.Config{
			Logs:    telemetry.LogsConfig{Level: zapcore.FatalLevel, Encoding: "console", OutputPaths: []string{"stderr"}, ErrorOutputPaths: []string{"stderr"}},
			Metrics: telemetry.MetricsConfig{Level: configtelemetry.LevelNone},
		},
		Extensions: extensions.Config{},
		Pipelines: pipelines.Config{pipeline.NewID(pipeline.SignalLogs): {
			Receivers: []component.ID{id}, Processors: procs, Exporters: []component.ID{e1id, e2id}}},
	}
	ctx := context.Background()
	buildMu.Lock()
	oldRead := memorylimiter.ReadMemStatsFn
	memorylimiter.ReadMemStatsFn = func(ms *runtime.MemStats) { ms.Alloc = w.mem.Load() }
	srv, err := service.New(ctx, set, scfg)
	memorylimiter.ReadMemStatsFn = oldRead
	buildMu.Unlock()
	if err != nil {
		w.log(Ev{Ev: "note", Text: "new: " + err.Error()})
		return w.evs
	}
	if err := srv.Start(ctx); err != nil {
		w.log(Ev{Ev: "note", Text: "start: " + err.Error()})
		return w.evs
	}
	did := false
	shutdown := func() {
		if did {
			return
		}
		did = true
		w.log(Ev{Ev: "shutdown_start"})
		close(w.shutReq)
		done := make(chan struct{})
		go func() { _ = srv.Shutdown(ctx); close(done) }()
		select {
		case <-done:
			w.mu.Lock()
			w.shutRet = true
			w.evs = append(w.evs, Ev{Ev: "shutdown_end", Items: []string{}})
			w.mu.Unlock()
		case <-time.After(30 * time.Second):
			w.log(Ev{Ev: "note", Text: "service shutdown did not return"})
		}
	}
	for _, st := range sc.Steps {
		switch st.Op {
		case "inject":
			err := w.next.ConsumeLogs(ctx, mk(st.Item))
			w.log(Ev{Ev: "inject_end", Items: []string{st.Item}, OK: err == nil})
		case "mem":
			if st.Item == "high" {
				w.mem.Store(90 << 20) // above the soft limit (80 MiB), below the hard limit
			} else {
				w.mem.Store(10 << 20)
			}
			w.log(Ev{Ev: "mem", Text: st.Item})
			time.Sleep(20 * time.Millisecond) // several check intervals: the limiter has looked (the monitor does not depend on it)
		case "pause":
			time.Sleep(25 * time.Millisecond) // lets the batch timer fire and exports happen
		case "shutdown":
			shutdown()
		}
		if did {
			break
		}
	}
	shutdown()
	time.Sleep(60 * time.Millisecond) // watch for work after Shutdown returned
	return w.evs
}

func main() {
	if len(os.Args) != 4 || os.Args[1] != "run" {
		fmt.Fprintln(os.Stderr, "usage: pipex run <scripts.ndjson> <traces.ndjson>")
		os.Exit(3)
	}
	in, err := os.Open(os.Args[2])
	if err != nil {
		fmt.Fprintln(os.Stderr, err)
		os.Exit(3)
	}
	var scripts []Script
	sc := bufio.NewScanner(in)
	sc.Buffer(make([]byte, 1<<20), 1<<26)
	for sc.Scan() {
		var s Script
		if err := json.Unmarshal(sc.Bytes(), &s); err != nil {
			fmt.Fprintln(os.Stderr, err)
			os.Exit(3)
		}
		scripts = append(scripts, s)
	}
	results := make([][]Ev, len(scripts))
	sem := make(chan struct{}, 16)
	var wg sync.WaitGroup
	for i := range scripts {
		wg.Add(1)
		sem <- struct{}{}
		go func(i int) {
			defer wg.Done()
			defer func() { <-sem }()
			results[i] = runScript(scripts[i])
		}(i)
	}
	wg.Wait()
	out, err := os.Create(os.Args[3])
	if err != nil {
		fmt.Fprintln(os.Stderr, err)
		os.Exit(3)
	}
	bw := bufio.NewWriter(out)
	enc := json.NewEncoder(bw)
	for _, evs := range results {
		for _, e := range evs {
			_ = enc.Encode(e)
		}
	}
	bw.Flush()
	out.Close()
}
