// Conformance driver for E12 (ResolverLifecycle): the resource lifecycle of confmap.Resolver, its providers and converters.
//
//	cmd run <scripts.ndjson> <observed.ndjson> [parallel]
//
// Every line of scripts.ndjson is one script produced from a TLC-generated behaviour of specs/ResolverLifecycle:
//
//	{"id":n, "provs":["pa","pb"], "tops":["pa:t1","pb:t2"], "nconv":2, "cw":true, "stall_ms":10000, "settle_us":3000,
//	 "ops":[ {"op":"new"},
//	         {"op":"resolve", "docs":{uri:{"out":"ok|fail","val":json,"yaml":text}}, "convfail":k, "tree":echoed,
//	                          "inject":[{"at":k,"ops":[notify...]}]},
//	         {"op":"notify", "x":id, "ref":{"res":n,"uri":u,"occ":k}, "err":id},
//	         {"op":"recv", "long":bool},
//	         {"op":"shutdown", "inject":[...]} ]}    (script level: "cfail":[retrieval numbers], "pfail":[schemes])
//
// A REAL confmap.Resolver is built through the public API (NewResolver with ProviderFactory / ConverterFactory values made
// by NewProviderFactory / NewConverterFactory) around instrumented providers and converters: every call the Resolver makes
// (factory Create, Retrieve, the Close function of a Retrieved, Convert, Provider.Shutdown) and every call the driver makes
// (Resolve, Shutdown, a watcher call = notification, a receive on Watch()) is recorded with its position in ONE sequence
// (one mutex) -- this sequence is the observation, one line of observed.ndjson per script: {"id", "cfg", "ev":[...]}.
// "inject": the k-th provider-side event recorded during that Resolve / Shutdown (entries and returns both count) is
// followed, inside the provider call, by the given notifications: this is how provider goroutines notify DURING a Resolve
// or a Shutdown.  "cw" (close waits): the Close function of a Retrieved waits for the watcher calls of that retrieval that
// are in flight ("Should block until all resources are closed, and guarantee that onChange is not going to be called after
// it returns").  A Resolve / Shutdown / receive that does not come back within stall_ms is recorded as "stall" and the
// script is abandoned.  Nothing is judged here: specs/ResolverLifecycle/ResolverLifecycleMonitor.tla (statement) and
// ...Trace.tla (model) judge the observations.
package main

import (
	"bufio"
	"context"
	"encoding/json"
	"errors"
	"fmt"
	"os"
	"strconv"
	"sync"
	"time"

	"go.opentelemetry.io/collector/confmap"
)

type doc struct {
	Out   string          `json:"out"` // ok | fail
	Val   json.RawMessage `json:"val,omitempty"`
	YAML  *string         `json:"yaml,omitempty"`
}

type ref struct {
	Res int    `json:"res"`
	URI string `json:"uri"`
	Occ int    `json:"occ"`
}

type inject struct {
	At  int  `json:"at"`
	Ops []op `json:"ops"`
}

type op struct {
	Op       string         `json:"op"`
	Docs     map[string]doc `json:"docs,omitempty"`
	ConvFail int            `json:"convfail"`
	Tree     json.RawMessage `json:"tree,omitempty"` // echoed in the "rcall" event (the model's view of the documents)
	Inject   []inject       `json:"inject,omitempty"`
	X        int            `json:"x,omitempty"`
	Ref      *ref           `json:"ref,omitempty"`
	Err      int            `json:"err,omitempty"`
	Long     bool           `json:"long,omitempty"`
}

type script struct {
	ID       int      `json:"id"`
	Provs    []string `json:"provs"`
	Tops     []string `json:"tops"`
	NConv    int      `json:"nconv"`
	CW       bool     `json:"cw"`
	CFail    []int    `json:"cfail"` // retrievals (by number) whose Close function returns an error
	PFail    []string `json:"pfail"` // providers whose Shutdown returns an error
	StallMS  int      `json:"stall_ms"`
	SettleUS int      `json:"settle_us"`
	Ops      []op     `json:"ops"`
}

type event map[string]any

type observation struct {
	ID  int            `json:"id"`
	Cfg map[string]any `json:"cfg"`
	Ev  []event        `json:"ev"`
}

type retrieval struct {
	id       int
	uri      string
	prov     string
	watcher  confmap.WatcherFunc
	inflight sync.WaitGroup
	cfail    bool
}

type world struct {
	s  script
	t0 time.Time

	mu      sync.Mutex
	ev      []event
	nret    int
	rets    map[int]*retrieval
	byRef   map[string]int // "res|uri|occ" -> retrieval id
	occ     map[string]int // "res|uri" -> retrievals so far
	res     int            // number of the Resolve in progress / last
	docs    map[string]doc
	convF   int
	pfail   map[string]bool
	inj     map[int][]op
	evNo    int // provider-side events recorded during the current Resolve / Shutdown
	notifWG sync.WaitGroup
	nx      int
	pending map[int]chan struct{} // notification id -> closed when the watcher call returned
}

func (w *world) rec(e event) {
	// caller holds w.mu
	e["t"] = time.Since(w.t0).Microseconds()
	w.ev = append(w.ev, e)
}

// provider-side event: recorded, then the notifications injected at this position are raised
func (w *world) prec(e event) {
	w.mu.Lock()
	w.rec(e)
	w.evNo++
	ops := w.inj[w.evNo]
	w.mu.Unlock()
	for _, o := range ops {
		w.notify(o)
	}
}

func (w *world) notify(o op) {
	w.mu.Lock()
	var r *retrieval
	if o.Ref != nil {
		if id, ok := w.byRef[fmt.Sprintf("%d|%s|%d", o.Ref.Res, o.Ref.URI, o.Ref.Occ)]; ok {
			r = w.rets[id]
		}
	}
	if r == nil {
		w.rec(event{"e": "skip", "x": o.X})
		w.mu.Unlock()
		return
	}
	w.nx++
	x := w.nx
	w.rec(event{"e": "notify", "x": x, "r": r.id, "err": o.Err, "sx": o.X})
	done := make(chan struct{})
	w.pending[x] = done
	r.inflight.Add(1)
	w.mu.Unlock()
	go func() {
		panicked := false
		func() {
			defer func() {
				if p := recover(); p != nil {
					panicked = true
				}
			}()
			var err error
			if o.Err != 0 {
				err = werr{o.Err}
			}
			r.watcher(&confmap.ChangeEvent{Error: err})
		}()
		w.mu.Lock()
		w.rec(event{"e": "notifyret", "x": x, "panic": panicked})
		w.mu.Unlock()
		r.inflight.Done()
		close(done)
	}()
	// let the notifier come to rest (delivered, turned away, or blocked on the full channel)
	select {
	case <-done:
	case <-time.After(time.Duration(w.s.SettleUS) * time.Microsecond):
	}
}

type werr struct{ id int }

func (e werr) Error() string { return "watch error " + strconv.Itoa(e.id) }

type provider struct {
	w      *world
	scheme string
}

func (p *provider) Scheme() string { return p.scheme }

func (p *provider) Retrieve(_ context.Context, uri string, watcher confmap.WatcherFunc) (*confmap.Retrieved, error) {
	w := p.w
	w.mu.Lock()
	w.nret++
	id := w.nret
	d, known := w.docs[uri]
	k := fmt.Sprintf("%d|%s", w.res, uri)
	w.occ[k]++
	occ := w.occ[k]
	w.mu.Unlock()
	top := false
	for _, t := range w.s.Tops {
		top = top || t == uri
	}
	w.prec(event{"e": "retr", "r": id, "p": p.scheme, "uri": uri, "res": w.res, "top": top, "haswatcher": watcher != nil})
	if !known || d.Out != "ok" {
		if !known {
			w.mu.Lock()
			w.rec(event{"e": "unfollowed", "what": "retrieve of an unscripted uri " + uri})
			w.mu.Unlock()
		}
		w.prec(event{"e": "retrret", "r": id, "ok": false})
		return nil, errors.New("scripted retrieve failure")
	}
	r := &retrieval{id: id, uri: uri, prov: p.scheme, watcher: watcher}
	for _, c := range w.s.CFail {
		r.cfail = r.cfail || c == id
	}
	closeFn := func(context.Context) error {
		w.prec(event{"e": "close", "r": id})
		if w.s.CW {
			r.inflight.Wait()
		}
		w.prec(event{"e": "closeret", "r": id, "ok": !r.cfail})
		if r.cfail {
			return errors.New("scripted close failure")
		}
		return nil
	}
	var ret *confmap.Retrieved
	var err error
	if d.YAML != nil {
		ret, err = confmap.NewRetrievedFromYAML([]byte(*d.YAML), confmap.WithRetrievedClose(closeFn))
	} else {
		var v any
		if len(d.Val) > 0 {
			if e := json.Unmarshal(d.Val, &v); e != nil {
				panic(e)
			}
		}
		ret, err = confmap.NewRetrieved(v, confmap.WithRetrievedClose(closeFn))
	}
	if err != nil {
		panic(err)
	}
	w.mu.Lock()
	w.rets[id] = r
	w.byRef[fmt.Sprintf("%d|%s|%d", w.res, uri, occ)] = id
	w.mu.Unlock()
	w.prec(event{"e": "retrret", "r": id, "ok": true})
	return ret, nil
}

func (p *provider) Shutdown(context.Context) error {
	w := p.w
	w.prec(event{"e": "pshut", "p": p.scheme})
	w.mu.Lock()
	fail := w.pfail[p.scheme]
	w.mu.Unlock()
	w.prec(event{"e": "pshutret", "p": p.scheme, "ok": !fail})
	if fail {
		return errors.New("scripted provider shutdown failure")
	}
	return nil
}

type converter struct {
	w *world
	c int
}

func (c *converter) Convert(_ context.Context, conf *confmap.Conf) error {
	w := c.w
	w.prec(event{"e": "conv", "c": c.c, "res": w.res})
	w.mu.Lock()
	fail := w.convF == c.c
	w.mu.Unlock()
	w.prec(event{"e": "convret", "c": c.c, "ok": !fail})
	if fail {
		return errors.New("scripted convert failure")
	}
	return nil
}

// call runs f (Resolve / Shutdown) in its own goroutine; false = it did not come back within the stall time
func (w *world) call(f func() error) (ok bool, failed bool, panicked bool, ptext string) {
	type res struct {
		err   error
		panic any
	}
	ch := make(chan res, 1)
	go func() {
		var r res
		func() {
			defer func() { r.panic = recover() }()
			r.err = f()
		}()
		ch <- r
	}()
	select {
	case r := <-ch:
		if r.panic != nil {
			return true, true, true, fmt.Sprint(r.panic)
		}
		return true, r.err != nil, false, ""
	case <-time.After(time.Duration(w.s.StallMS) * time.Millisecond):
		return false, false, false, ""
	}
}

func (w *world) setInject(in []inject) {
	w.inj = map[int][]op{}
	for _, i := range in {
		w.inj[i.At] = append(w.inj[i.At], i.Ops...)
	}
	w.evNo = 0
}

func runScript(s script) observation {
	w := &world{s: s, t0: time.Now(), rets: map[int]*retrieval{}, byRef: map[string]int{}, occ: map[string]int{},
		pfail: map[string]bool{}, pending: map[int]chan struct{}{}, inj: map[int][]op{}}
	if w.s.StallMS == 0 {
		w.s.StallMS = 10000
	}
	if w.s.SettleUS == 0 {
		w.s.SettleUS = 3000
	}
	if s.CFail == nil {
		s.CFail = []int{}
	}
	if s.PFail == nil {
		s.PFail = []string{}
	}
	for _, p := range s.PFail {
		w.pfail[p] = true
	}
	obs := observation{ID: s.ID, Cfg: map[string]any{"np": len(s.Provs), "provs": s.Provs, "nc": s.NConv, "cw": s.CW, "ntop": len(s.Tops),
		"cfail": s.CFail, "pfail": s.PFail}}
	var resolver *confmap.Resolver
	abandoned := false
	shut := false
	for _, o := range s.Ops {
		if abandoned {
			break
		}
		switch o.Op {
		case "new":
			var pf []confmap.ProviderFactory
			for _, sch := range s.Provs {
				sch := sch
				pf = append(pf, confmap.NewProviderFactory(func(confmap.ProviderSettings) confmap.Provider {
					w.mu.Lock()
					w.rec(event{"e": "pcreate", "p": sch})
					w.mu.Unlock()
					return &provider{w: w, scheme: sch}
				}))
			}
			var cf []confmap.ConverterFactory
			for i := 1; i <= s.NConv; i++ {
				i := i
				cf = append(cf, confmap.NewConverterFactory(func(confmap.ConverterSettings) confmap.Converter {
					w.mu.Lock()
					w.rec(event{"e": "ccreate", "c": i})
					w.mu.Unlock()
					return &converter{w: w, c: i}
				}))
			}
			var err error
			resolver, err = confmap.NewResolver(confmap.ResolverSettings{URIs: s.Tops, ProviderFactories: pf, ConverterFactories: cf})
			w.mu.Lock()
			w.rec(event{"e": "newret", "ok": err == nil})
			w.mu.Unlock()
			if err != nil {
				abandoned = true
			}
		case "resolve":
			w.mu.Lock()
			w.res++
			w.docs = o.Docs
			w.convF = o.ConvFail
			w.setInject(o.Inject)
			e := event{"e": "rcall", "n": w.res, "cfl": o.ConvFail}
			if len(o.Tree) > 0 {
				e["tree"] = o.Tree
			}
			w.rec(e)
			n := w.res
			w.mu.Unlock()
			back, failed, panicked, ptext := w.call(func() error { _, err := resolver.Resolve(context.Background()); return err })
			w.mu.Lock()
			if back {
				e := event{"e": "rret", "n": n, "ok": !failed, "panic": panicked}
				if panicked {
					e["ptext"] = ptext
				}
				w.rec(e)
			} else {
				w.rec(event{"e": "stall", "what": "resolve"})
				abandoned = true
			}
			w.inj = map[int][]op{}
			w.mu.Unlock()
		case "notify":
			w.notify(o)
		case "recv":
			w.recv(resolver, o.Long)
		case "shutdown":
			w.mu.Lock()
			w.setInject(o.Inject)
			w.rec(event{"e": "sdcall"})
			w.mu.Unlock()
			back, failed, panicked, ptext := w.call(func() error { return resolver.Shutdown(context.Background()) })
			w.mu.Lock()
			if back {
				e := event{"e": "sdret", "ok": !failed, "panic": panicked}
				if panicked {
					e["ptext"] = ptext
				}
				w.rec(e)
				shut = true
			} else {
				w.rec(event{"e": "stall", "what": "shutdown"})
				abandoned = true
			}
			w.inj = map[int][]op{}
			w.mu.Unlock()
		}
	}
	if shut && !abandoned {
		// every watcher call must have come back by now (or very soon): "neither panic nor block forever"
		w.mu.Lock()
		pend := make(map[int]chan struct{}, len(w.pending))
		for x, ch := range w.pending {
			pend[x] = ch
		}
		w.mu.Unlock()
		deadline := time.After(time.Duration(w.s.StallMS) * time.Millisecond)
		for x, ch := range pend {
			select {
			case <-ch:
			case <-deadline:
				w.mu.Lock()
				w.rec(event{"e": "hang", "x": x})
				w.mu.Unlock()
			}
		}
		w.mu.Lock()
		w.rec(event{"e": "end"})
		w.mu.Unlock()
	}
	w.mu.Lock()
	obs.Ev = append([]event(nil), w.ev...)
	w.mu.Unlock()
	return obs
}

// one receive attempt on Watch(): got = -1 nothing within the waiting time, -2 channel closed, 0 a change event (nil error),
// n > 0 the watch error n
func (w *world) recv(resolver *confmap.Resolver, long bool) {
	w.mu.Lock()
	w.rec(event{"e": "recvcall", "long": long})
	w.mu.Unlock()
	wait := 20 * time.Millisecond
	if long {
		wait = time.Duration(w.s.StallMS) * time.Millisecond
	}
	// the receive and its record are one step under the recorder's mutex (polling): no other recorded event can fall between
	// the moment the value leaves the channel and the "recv" event
	got := -1
	deadline := time.Now().Add(wait)
	for {
		w.mu.Lock()
		taken := true
		select {
		case err, ok := <-resolver.Watch():
			switch {
			case !ok:
				got = -2
			case err == nil:
				got = 0
			default:
				var we werr
				if errors.As(err, &we) {
					got = we.id
				} else {
					got = -3 // an error nobody raised
				}
			}
		default:
			taken = false
		}
		if taken || time.Now().After(deadline) {
			w.rec(event{"e": "recv", "got": got, "long": long})
			w.mu.Unlock()
			break
		}
		w.mu.Unlock()
		time.Sleep(200 * time.Microsecond)
	}
	if got >= 0 {
		// a blocked notifier may move up now: let it
		time.Sleep(time.Duration(w.s.SettleUS) * time.Microsecond)
	}
}

func main() {
	if len(os.Args) < 4 || os.Args[1] != "run" {
		fmt.Fprintln(os.Stderr, "usage: cmd run scripts.ndjson observed.ndjson [parallel]")
		os.Exit(2)
	}
	par := 64
	if len(os.Args) > 4 {
		par, _ = strconv.Atoi(os.Args[4])
	}
	in, err := os.Open(os.Args[2])
	if err != nil {
		panic(err)
	}
	var scripts []script
	sc := bufio.NewScanner(in)
	sc.Buffer(make([]byte, 1<<20), 1<<26)
	for sc.Scan() {
		if len(sc.Bytes()) == 0 {
			continue
		}
		var s script
		if err := json.Unmarshal(sc.Bytes(), &s); err != nil {
			panic(err)
		}
		scripts = append(scripts, s)
	}
	out := make([]observation, len(scripts))
	sem := make(chan struct{}, par)
	var wg sync.WaitGroup
	for i := range scripts {
		wg.Add(1)
		sem <- struct{}{}
		go func(i int) {
			defer wg.Done()
			defer func() { <-sem }()
			out[i] = runScript(scripts[i])
		}(i)
	}
	wg.Wait()
	f, err := os.Create(os.Args[3])
	if err != nil {
		panic(err)
	}
	bw := bufio.NewWriter(f)
	enc := json.NewEncoder(bw)
	for _, o := range out {
		if err := enc.Encode(o); err != nil {
			panic(err)
		}
	}
	bw.Flush()
	f.Close()
}
