// Conformance driver for C03 (graceful exporter shutdown) and C19 (exporter item counters).
//
//	xs run <scripts.ndjson> <traces.ndjson>
//
// Every script builds a REAL exporter with the public helper (exporterhelper.NewLogs/NewTraces/NewMetrics +
// WithQueue / WithRetry / WithTimeout), sends tagged payloads, answers the export calls with scripted outcomes
// (ok | perm | transient | partial:k | slow = returns only after shutdown was requested | deaf = ignores its context and
// answers ok well after the per-attempt timeout) and shuts the exporter
// down at the scripted moment.  Recorded, under one mutex: offer_end, push_start{items}, push_end{outcome},
// shutdown_start/end, pushes after shutdown returned, goroutines left, the item counters
// (sent / send_failed / enqueue_failed) from a manual metric reader and the items still stored (persistent queue).
package main

import (
	"bufio"
	"context"
	"encoding/json"
	"errors"
	"fmt"
	"os"
	"runtime"
	"sort"
	"strconv"
	"strings"
	"sync"
	"time"

	"go.opentelemetry.io/otel/sdk/metric/metricdata"

	"go.opentelemetry.io/collector/component"
	"go.opentelemetry.io/collector/component/componenttest"
	"go.opentelemetry.io/collector/config/configretry"
	"go.opentelemetry.io/collector/consumer/consumererror"
	"go.opentelemetry.io/collector/exporter"
	"go.opentelemetry.io/collector/exporter/exporterhelper"
	"go.opentelemetry.io/collector/exporter/exporterhelper/verifh/xh"
	"go.opentelemetry.io/collector/pdata/plog"
	"go.opentelemetry.io/collector/pdata/pmetric"
	"go.opentelemetry.io/collector/pdata/ptrace"
)

type BatchCfg struct {
	On    bool   `json:"on"`
	Min   int64  `json:"min"`
	Max   int64  `json:"max"`
	Sizer string `json:"sizer"`
}

type Cfg struct {
	Signal    string   `json:"signal"` // logs | traces | metrics
	Queue     string   `json:"queue"`  // memory | persistent | none
	Cap       int64    `json:"cap"`
	Consumers int      `json:"consumers"`
	Block     bool     `json:"block"`
	WFR       bool     `json:"wfr"`
	Batch     BatchCfg `json:"batch"`
	Retry     bool     `json:"retry"`
	RetryFast bool     `json:"retry_fast"` // true: 2 ms back-off (retries happen); false: 1 h (only shutdown ends the wait)
	CloseErr  bool     `json:"close_err"`  // persistent: the storage client's Close reports an error (Shutdown then returns one)
	SlowCall  int      `json:"slow_call"`  // persistent: storage call number slow_call of the first incarnation is slow (held until everything else is quiet)
	TimeoutMs int      `json:"timeout_ms"` // per-attempt timeout (0 = none); "slow" / "deaf" export calls ignore their context and outlast it
}

type Step struct {
	Op    string `json:"op"` // send | shutdown | wait_flush | wait_idle
	Req   string `json:"req,omitempty"`
	Items int    `json:"items,omitempty"`
}

type Script struct {
	ID       string   `json:"id"`
	Cfg      Cfg      `json:"cfg"`
	Steps    []Step   `json:"steps"`
	Outcomes []string `json:"outcomes"`
}

type Ev struct {
	Ev       string   `json:"ev"`
	Script   string   `json:"script,omitempty"`
	Cfg      *Cfg     `json:"cfg,omitempty"`
	Req      string   `json:"req,omitempty"`
	N        int      `json:"n"`
	Res      string   `json:"res,omitempty"`
	Items    []string `json:"items,omitempty"`
	Call     int      `json:"call,omitempty"`
	Out      string   `json:"out,omitempty"`
	Sent     int64    `json:"sent"`
	Failed   int64    `json:"failed"`
	EnqFail  int64    `json:"enq_failed"`
	Stored   []string `json:"stored"`
	Left     []string `json:"left"`
	QSize    int64    `json:"qsize"`
	Text     string   `json:"text,omitempty"`
	Universe []string `json:"universe,omitempty"`
	Rem      []string `json:"rem"` // push_end of a partial failure: the items reported as NOT delivered
}

const flushTimeout = 40 * time.Millisecond

func ids(req string, n int) []string {
	out := make([]string, n)
	for i := range out {
		out[i] = req + "." + strconv.Itoa(i+1)
	}
	return out
}

func mkLogs(tags []string) plog.Logs {
	ld := plog.NewLogs()
	sl := ld.ResourceLogs().AppendEmpty().ScopeLogs().AppendEmpty()
	for _, t := range tags {
		sl.LogRecords().AppendEmpty().Body().SetStr(t)
	}
	return ld
}

func logTags(ld plog.Logs) []string {
	var out []string
	for i := 0; i < ld.ResourceLogs().Len(); i++ {
		rl := ld.ResourceLogs().At(i)
		for j := 0; j < rl.ScopeLogs().Len(); j++ {
			lrs := rl.ScopeLogs().At(j).LogRecords()
			for k := 0; k < lrs.Len(); k++ {
				out = append(out, lrs.At(k).Body().Str())
			}
		}
	}
	return out
}

func mkTraces(tags []string) ptrace.Traces {
	td := ptrace.NewTraces()
	ss := td.ResourceSpans().AppendEmpty().ScopeSpans().AppendEmpty()
	for _, t := range tags {
		ss.Spans().AppendEmpty().SetName(t)
	}
	return td
}

func traceTags(td ptrace.Traces) []string {
	var out []string
	for i := 0; i < td.ResourceSpans().Len(); i++ {
		rs := td.ResourceSpans().At(i)
		for j := 0; j < rs.ScopeSpans().Len(); j++ {
			sp := rs.ScopeSpans().At(j).Spans()
			for k := 0; k < sp.Len(); k++ {
				out = append(out, sp.At(k).Name())
			}
		}
	}
	return out
}

func mkMetrics(tags []string) pmetric.Metrics {
	md := pmetric.NewMetrics()
	sm := md.ResourceMetrics().AppendEmpty().ScopeMetrics().AppendEmpty()
	m := sm.Metrics().AppendEmpty()
	m.SetName("m")
	g := m.SetEmptyGauge()
	for _, t := range tags {
		dp := g.DataPoints().AppendEmpty()
		dp.Attributes().PutStr("id", t)
		dp.SetIntValue(1)
	}
	return md
}

func metricTags(md pmetric.Metrics) []string {
	var out []string
	for i := 0; i < md.ResourceMetrics().Len(); i++ {
		rm := md.ResourceMetrics().At(i)
		for j := 0; j < rm.ScopeMetrics().Len(); j++ {
			ms := rm.ScopeMetrics().At(j).Metrics()
			for k := 0; k < ms.Len(); k++ {
				if ms.At(k).Type() != pmetric.MetricTypeGauge {
					continue
				}
				dps := ms.At(k).Gauge().DataPoints()
				for x := 0; x < dps.Len(); x++ {
					v, _ := dps.At(x).Attributes().Get("id")
					out = append(out, v.Str())
				}
			}
		}
	}
	return out
}

type runner struct {
	sc      Script
	mu      sync.Mutex
	evs     []Ev
	calls   int
	shutReq chan struct{}
	shutRet bool
}

func (r *runner) log(e Ev) {
	r.mu.Lock()
	r.evs = append(r.evs, e)
	r.mu.Unlock()
}

// answer performs the scripted behaviour of one export call; remaining = tags to report as not delivered (partial)
func (r *runner) answer(tags []string) (string, []string) {
	r.mu.Lock()
	r.calls++
	call := r.calls
	out := "ok"
	if call <= len(r.sc.Outcomes) {
		out = r.sc.Outcomes[call-1]
	}
	late := r.shutRet
	r.evs = append(r.evs, Ev{Ev: "push_start", Items: tags, Call: call})
	if late {
		r.evs = append(r.evs, Ev{Ev: "late_push", Items: tags, Call: call})
	}
	r.mu.Unlock()
	var remaining []string
	switch {
	case out == "deaf":
		// a backend that does not look at its context and answers (successfully) long after the per-attempt timeout
		time.Sleep(time.Duration(4*r.sc.Cfg.TimeoutMs+60) * time.Millisecond)
		out = "ok"
	case out == "slow":
		select {
		case <-r.shutReq:
			time.Sleep(15 * time.Millisecond)
		case <-time.After(10 * time.Second):
		}
		out = "ok"
	case strings.HasPrefix(out, "partial:"):
		k, _ := strconv.Atoi(strings.TrimPrefix(out, "partial:"))
		if k >= len(tags) || k <= 0 {
			out = "transient"
		} else {
			remaining = tags[len(tags)-k:]
		}
	}
	rem := remaining
	if rem == nil {
		rem = []string{}
	}
	r.log(Ev{Ev: "push_end", Items: tags, Call: call, Out: out, Rem: rem})
	return out, remaining
}

var errT = errors.New("scripted transient failure")

func toErr(out string) error {
	switch out {
	case "ok":
		return nil
	case "perm":
		return consumererror.NewPermanent(errors.New("scripted permanent failure"))
	}
	return errT
}

func counter(tel *componenttest.Telemetry, name string) int64 {
	m, err := tel.GetMetric(name)
	if err != nil {
		return 0
	}
	if s, ok := m.Data.(metricdata.Sum[int64]); ok {
		var t int64
		for _, dp := range s.DataPoints {
			t += dp.Value
		}
		return t
	}
	return 0
}

func gauge(tel *componenttest.Telemetry, name string) int64 {
	m, err := tel.GetMetric(name)
	if err != nil {
		return -1
	}
	if g, ok := m.Data.(metricdata.Gauge[int64]); ok && len(g.DataPoints) > 0 {
		return g.DataPoints[0].Value
	}
	return -1
}

// goroutines with a frame in the exporter helper (or in this driver's export function)
func leftGoroutines() []string {
	buf := make([]byte, 1<<22)
	n := runtime.Stack(buf, true)
	seen := map[string]int{}
	for _, g := range strings.Split(string(buf[:n]), "\n\n") {
		lines := strings.Split(g, "\n")
		for _, l := range lines[1:] {
			if strings.HasPrefix(l, "go.opentelemetry.io/collector/exporter/exporterhelper/internal") {
				fn := l
				if j := strings.LastIndex(fn, "("); j > 0 {
					fn = fn[:j]
				}
				seen[strings.TrimPrefix(fn, "go.opentelemetry.io/collector/exporter/exporterhelper/")]++
				break
			}
		}
	}
	var out []string
	for k := range seen {
		out = append(out, k)
	}
	sort.Strings(out)
	return out
}

func storedTags(st *xh.Store, signal string) []string {
	sn := st.Snapshot()
	_ = sn
	var out []string
	for _, k := range st.Keys() {
		if _, err := strconv.ParseUint(k, 10, 64); err != nil {
			continue
		}
		b := st.Raw(k)
		switch signal {
		case "logs":
			if ld, err := (&plog.ProtoUnmarshaler{}).UnmarshalLogs(b); err == nil {
				out = append(out, logTags(ld)...)
			}
		case "traces":
			if td, err := (&ptrace.ProtoUnmarshaler{}).UnmarshalTraces(b); err == nil {
				out = append(out, traceTags(td)...)
			}
		case "metrics":
			if md, err := (&pmetric.ProtoUnmarshaler{}).UnmarshalMetrics(b); err == nil {
				out = append(out, metricTags(md)...)
			}
		}
	}
	sort.Strings(out)
	return out
}

func runScript(sc Script, serial *sync.Mutex) []Ev {
	r := &runner{sc: sc, shutReq: make(chan struct{})}
	cfg := sc.Cfg
	var universe []string
	for _, st := range sc.Steps {
		if st.Op == "send" {
			universe = append(universe, ids(st.Req, st.Items)...)
		}
	}
	r.log(Ev{Ev: "reset", Script: sc.ID, Cfg: &cfg, Universe: universe})
	tel := componenttest.NewTelemetry()
	set := exporter.Settings{ID: component.MustNewID("verif"), TelemetrySettings: tel.NewTelemetrySettings(),
		BuildInfo: component.NewDefaultBuildInfo()}
	var opts []exporterhelper.Option
	opts = append(opts, exporterhelper.WithTimeout(exporterhelper.TimeoutConfig{Timeout: time.Duration(cfg.TimeoutMs) * time.Millisecond}))
	// the user's own start / shutdown functions: the export function must only run inside that lifetime
	opts = append(opts, exporterhelper.WithStart(func(context.Context, component.Host) error {
		r.log(Ev{Ev: "ustart_end"})
		return nil
	}), exporterhelper.WithShutdown(func(context.Context) error {
		r.log(Ev{Ev: "ushutdown_begin"})
		return nil
	}))
	var store *xh.Store
	var host component.Host = componenttest.NewNopHost()
	if cfg.Queue != "none" {
		qc := exporterhelper.NewDefaultQueueConfig()
		qc.QueueSize = cfg.Cap
		qc.NumConsumers = max(1, cfg.Consumers)
		qc.BlockOnOverflow = cfg.Block
		qc.WaitForResult = cfg.WFR
		if cfg.Batch.On && cfg.Queue == "persistent" {
			// a persistent queue only admits the requests sizer, sending_queue::batch only items/bytes: the two combine
			// through the (deprecated, still public) WithBatcher option
			bc := exporterhelper.NewDefaultBatcherConfig()
			bc.Enabled = true
			bc.FlushTimeout = flushTimeout
			bc.SizeConfig = exporterhelper.SizeConfig{Sizer: exporterhelper.RequestSizerTypeItems, MinSize: cfg.Batch.Min, MaxSize: cfg.Batch.Max}
			opts = append(opts, exporterhelper.WithBatcher(bc))
		} else if cfg.Batch.On {
			qc.Sizer = exporterhelper.RequestSizerTypeItems
			if cfg.Batch.Sizer == "bytes" {
				qc.Sizer = exporterhelper.RequestSizerTypeBytes
			}
			qc.Batch = &exporterhelper.BatchConfig{FlushTimeout: flushTimeout, MinSize: cfg.Batch.Min, MaxSize: cfg.Batch.Max}
		}
		if cfg.Queue == "persistent" {
			sid := component.MustNewID("vstore")
			qc.StorageID = &sid
			store = xh.NewStore()
			if cfg.CloseErr {
				store.CloseErr = errors.New("scripted failure to close the storage client")
			}
			store.NewIncarnation(0)
			if cfg.SlowCall > 0 {
				// a slow storage write: with the queue's mutex held across storage calls this only delays everybody; a queue
				// that releases its mutex around a write lets later dequeues / completions overtake it (seeded change C03-7)
				store.HoldSurvives = true
				store.SetHold(cfg.SlowCall)
			}
			host = &xh.Host{ID: sid, Ext: &xh.Ext{S: store}}
		}
		opts = append(opts, exporterhelper.WithQueue(qc))
	}
	if cfg.Retry {
		rc := configretry.NewDefaultBackOffConfig()
		rc.RandomizationFactor = 0
		rc.MaxElapsedTime = 0
		if cfg.RetryFast {
			rc.InitialInterval, rc.MaxInterval = 2*time.Millisecond, 2*time.Millisecond
		} else {
			rc.InitialInterval, rc.MaxInterval = time.Hour, time.Hour
		}
		opts = append(opts, exporterhelper.WithRetry(rc))
	}
	prefix := ""
	// build makes an exporter of the script's signal and configuration; ans scripts the backend, o are the options
	build := func(ans func(tags []string) (string, []string), o []exporterhelper.Option) (start func(context.Context, component.Host) error,
		shutdown func(context.Context) error, send func(tags []string) error, err error) {
	switch cfg.Signal {
	case "traces":
		prefix = "spans"
		e, err := exporterhelper.NewTraces(context.Background(), set, struct{}{}, func(_ context.Context, td ptrace.Traces) error {
			tags := traceTags(td)
			out, rem := ans(tags)
			if rem != nil {
				return consumererror.NewTraces(errT, mkTraces(rem))
			}
			return toErr(out)
		}, o...)
		if err != nil {
			return nil, nil, nil, err
		}
		start, shutdown = e.Start, e.Shutdown
		send = func(tags []string) error { return e.ConsumeTraces(context.Background(), mkTraces(tags)) }
	case "metrics":
		prefix = "metric_points"
		e, err := exporterhelper.NewMetrics(context.Background(), set, struct{}{}, func(_ context.Context, md pmetric.Metrics) error {
			tags := metricTags(md)
			out, rem := ans(tags)
			if rem != nil {
				return consumererror.NewMetrics(errT, mkMetrics(rem))
			}
			return toErr(out)
		}, o...)
		if err != nil {
			return nil, nil, nil, err
		}
		start, shutdown = e.Start, e.Shutdown
		send = func(tags []string) error { return e.ConsumeMetrics(context.Background(), mkMetrics(tags)) }
	default:
		prefix = "log_records"
		e, err := exporterhelper.NewLogs(context.Background(), set, struct{}{}, func(_ context.Context, ld plog.Logs) error {
			tags := logTags(ld)
			out, rem := ans(tags)
			if rem != nil {
				return consumererror.NewLogs(errT, mkLogs(rem))
			}
			return toErr(out)
		}, o...)
		if err != nil {
			return nil, nil, nil, err
		}
		start, shutdown = e.Start, e.Shutdown
		send = func(tags []string) error { return e.ConsumeLogs(context.Background(), mkLogs(tags)) }
	}
		return start, shutdown, send, nil
	}
	start, shutdown, send, err := build(r.answer, opts)
	if err != nil {
		r.log(Ev{Ev: "note", Text: "setup: " + err.Error()})
		return r.evs
	}
	if err := startC(func(sc context.Context) error { return start(sc, host) }); err != nil {
		r.log(Ev{Ev: "note", Text: "start: " + err.Error()})
		return r.evs
	}
	var sendWG sync.WaitGroup
	didShutdown := false
	doShutdown := func() {
		if didShutdown {
			return
		}
		didShutdown = true
		r.log(Ev{Ev: "shutdown_start"})
		close(r.shutReq)
		done := make(chan struct{})
		go func() { _ = shutdown(context.Background()); close(done) }()
		select {
		case <-done:
			r.mu.Lock()
			r.shutRet = true
			r.evs = append(r.evs, Ev{Ev: "shutdown_end"})
			r.mu.Unlock()
		case <-time.After(20 * time.Second):
			r.log(Ev{Ev: "shutdown_hang", Left: leftGoroutines()})
		}
	}
	for _, st := range sc.Steps {
		switch st.Op {
		case "send":
			tags := ids(st.Req, st.Items)
			do := func() {
				err := send(tags)
				res := "ok"
				if err != nil {
					res = "err"
				}
				r.log(Ev{Ev: "offer_end", Req: st.Req, N: st.Items, Res: res, Items: tags})
			}
			r.log(Ev{Ev: "offer_start", Req: st.Req, N: st.Items, Items: tags})
			if cfg.WFR || cfg.Queue == "none" || cfg.Block {
				// the send must have taken effect (enqueued, refused or handed to the export function) before the script moves
				// on -- in particular before a shutdown step: a send that only reaches the exporter after Shutdown was
				// requested is outside every statement.  Observable without a hook: the call returned, the queue size gauge
				// grew, or an export call started.
				sz0 := gauge(tel, "otelcol_exporter_queue_size")
				r.mu.Lock()
				calls0 := r.calls
				r.mu.Unlock()
				returned := make(chan struct{})
				sendWG.Add(1)
				go func() { defer sendWG.Done(); defer close(returned); do() }()
				deadline := time.Now().Add(2 * time.Second)
			waitEffect:
				for time.Now().Before(deadline) {
					select {
					case <-returned:
						break waitEffect
					case <-time.After(200 * time.Microsecond):
					}
					r.mu.Lock()
					c := r.calls
					r.mu.Unlock()
					if c > calls0 || gauge(tel, "otelcol_exporter_queue_size") > sz0 {
						break
					}
				}
			} else {
				do()
			}
		case "wait_flush":
			time.Sleep(2*flushTimeout + 10*time.Millisecond)
		case "wait_idle":
			time.Sleep(8 * time.Millisecond)
		case "shutdown":
			doShutdown()
		}
	}
	doShutdown()
	sendsDone := make(chan struct{})
	go func() { sendWG.Wait(); close(sendsDone) }()
	select {
	case <-sendsDone:
	case <-time.After(10 * time.Second):
		r.log(Ev{Ev: "note", Text: "a send call did not return within 10 s after shutdown"})
	}
	// watch for export calls that begin after Shutdown returned, let exiting goroutines finish
	time.Sleep(150 * time.Millisecond)
	var left []string
	serial.Lock() // the census is process-wide: taken while no other script runs
	for i := 0; i < 40; i++ {
		if left = leftGoroutines(); len(left) == 0 {
			break
		}
		time.Sleep(25 * time.Millisecond)
	}
	serial.Unlock()
	if left == nil {
		left = []string{}
	}
	fin := Ev{Ev: "final", Left: left, Stored: []string{},
		Sent:    counter(tel, "otelcol_exporter_sent_"+prefix),
		Failed:  counter(tel, "otelcol_exporter_send_failed_"+prefix),
		EnqFail: counter(tel, "otelcol_exporter_enqueue_failed_"+prefix),
		QSize:   gauge(tel, "otelcol_exporter_queue_size")}
	if store != nil {
		if st := storedTags(store, cfg.Signal); st != nil {
			fin.Stored = st
		}
	}
	r.log(fin)
	if store != nil && r.shutRet {
		r.restart(store, host, opts, build)
	}
	_ = tel.Shutdown(context.Background())
	return r.evs
}

// restart: a second incarnation of the exporter over the same storage, with a backend that accepts everything.  What the first
// incarnation left stored "for the next start" must be exported now, and only after the user's (slow) start function returned.
func (r *runner) restart(store *xh.Store, host component.Host, opts []exporterhelper.Option,
	build func(func([]string) (string, []string), []exporterhelper.Option) (func(context.Context, component.Host) error, func(context.Context) error, func([]string) error, error)) {
	want := storedTags(store, r.sc.Cfg.Signal)
	r.log(Ev{Ev: "restart", Stored: append([]string{}, want...)})
	store.Kill2Quiet()
	store.NewIncarnation(0)
	var mu sync.Mutex
	got := map[string]bool{}
	ans := func(tags []string) (string, []string) {
		r.log(Ev{Ev: "r_push_start", Items: tags})
		mu.Lock()
		for _, t := range tags {
			got[t] = true
		}
		mu.Unlock()
		r.log(Ev{Ev: "r_push_end", Items: tags, Out: "ok"})
		return "ok", nil
	}
	o := append(append([]exporterhelper.Option{}, opts...), exporterhelper.WithStart(func(context.Context, component.Host) error {
		time.Sleep(15 * time.Millisecond) // a slow start: nothing may be exported before it has returned
		r.log(Ev{Ev: "r_ustart_end"})
		return nil
	}), exporterhelper.WithShutdown(func(context.Context) error {
		r.log(Ev{Ev: "r_ushutdown_begin"})
		return nil
	}))
	start, shutdown, _, err := build(ans, o)
	if err != nil {
		r.log(Ev{Ev: "note", Text: "restart setup: " + err.Error()})
		return
	}
	if err := startC(func(sc context.Context) error { return start(sc, host) }); err != nil {
		r.log(Ev{Ev: "note", Text: "restart start: " + err.Error()})
		return
	}
	for t0 := time.Now(); time.Since(t0) < 3*time.Second; time.Sleep(2 * time.Millisecond) {
		mu.Lock()
		all := true
		for _, t := range want {
			all = all && got[t]
		}
		mu.Unlock()
		if all {
			break
		}
	}
	done := make(chan struct{})
	go func() { _ = shutdown(context.Background()); close(done) }()
	select {
	case <-done:
	case <-time.After(20 * time.Second):
		r.log(Ev{Ev: "note", Text: "restart: shutdown did not return"})
	}
	left := storedTags(store, r.sc.Cfg.Signal)
	if left == nil {
		left = []string{}
	}
	r.log(Ev{Ev: "r_final", Stored: left})
}

func main() {
	if len(os.Args) != 4 || os.Args[1] != "run" {
		fmt.Fprintln(os.Stderr, "usage: xs run <scripts.ndjson> <traces.ndjson>")
		os.Exit(3)
	}
	in, err := os.Open(os.Args[2])
	if err != nil {
		fmt.Fprintln(os.Stderr, err)
		os.Exit(3)
	}
	var scripts []Script
	sc := bufio.NewScanner(in)
	sc.Buffer(make([]byte, 1<<20), 1<<26)
	for sc.Scan() {
		var s Script
		if err := json.Unmarshal(sc.Bytes(), &s); err != nil {
			fmt.Fprintln(os.Stderr, "bad script:", err)
			os.Exit(3)
		}
		scripts = append(scripts, s)
	}
	out, err := os.Create(os.Args[3])
	if err != nil {
		fmt.Fprintln(os.Stderr, err)
		os.Exit(3)
	}
	w := bufio.NewWriter(out)
	enc := json.NewEncoder(w)
	// scripts run one at a time: the goroutine census is process-wide
	var serial sync.Mutex
	for _, s := range scripts {
		for _, e := range runScript(s, &serial) {
			_ = enc.Encode(e)
		}
	}
	w.Flush()
	out.Close()
}

// startC calls a component's Start with a context that is cancelled as soon as Start has returned: component.Component
// says that context "will be cancelled soon", so nothing that has to outlive Start may depend on it.
func startC(start func(context.Context) error) error {
	ctx, cancel := context.WithCancel(context.Background())
	defer cancel()
	return start(ctx)
}
