// Conformance driver for C02 (sending queue: exactly-once hand-off, FIFO, bounded size, wake-ups).
//
//	mq seq    <behaviours.ndjson> <result.json>
//	    TLC-generated single-thread histories (offer with a size / complete) with the specified
//	    enqueue result, request at the export gate and reported size after every step; replayed into
//	    the REAL queue (queuebatch.NewQueueBatch: obs queue + async queue + memory or persistent queue,
//	    real sizers for requests/items/bytes) and compared step by step.
//	mq stress <seed> <rounds> <trace.ndjson>
//	    concurrent producers (blocking / non-blocking, cancellable contexts, wait_for_result),
//	    consumers with random latencies and outcomes, then Shutdown; start/end of every call and every
//	    hand-off is recorded under one mutex; TLC searches for a linearisation (SizedQueueLin.tla).
//	    A round that does not finish is reported as `hang` with the blocked call sites.
package main

import (
	"bufio"
	"context"
	"encoding/json"
	"errors"
	"fmt"
	"math/rand"
	"os"
	"regexp"
	"runtime"
	"sort"
	"strconv"
	"strings"
	"sync"
	"sync/atomic"
	"time"

	"go.opentelemetry.io/otel/sdk/metric/metricdata"

	"go.opentelemetry.io/collector/component"
	"go.opentelemetry.io/collector/component/componenttest"
	"go.opentelemetry.io/collector/exporter/exporterhelper/internal/queuebatch"
	"go.opentelemetry.io/collector/exporter/exporterhelper/internal/request"
	"go.opentelemetry.io/collector/exporter/exporterhelper/verifh/xh"
	"go.opentelemetry.io/collector/pipeline"
)

// vreq is a request with scripted sizes.
type vreq struct {
	Name  string `json:"name"`
	Items int    `json:"items"`
	Bytes int64  `json:"bytes"`
}

func (r *vreq) ItemsCount() int { return r.Items }
func (r *vreq) MergeSplit(context.Context, int, request.SizerType, request.Request) ([]request.Request, error) {
	return []request.Request{r}, nil
}

type enc struct{}

func (enc) Marshal(r request.Request) ([]byte, error) { return json.Marshal(r.(*vreq)) }
func (enc) Unmarshal(b []byte) (request.Request, error) {
	v := &vreq{}
	return v, json.Unmarshal(b, v)
}

type Cfg struct {
	Sizer      string `json:"sizer"` // requests | items | bytes
	Cap        int64  `json:"cap"`
	Block      bool   `json:"block"`
	WFR        bool   `json:"wfr"`
	Persistent bool   `json:"persistent"`
	Consumers  int    `json:"consumers"`
}

func sizerType(s string) request.SizerType {
	switch s {
	case "items":
		return request.SizerTypeItems
	case "bytes":
		return request.SizerTypeBytes
	}
	return request.SizerTypeRequests
}

type env struct {
	qb   *queuebatch.QueueBatch
	tel  *componenttest.Telemetry
	host component.Host
}

func newEnv(cfg Cfg, next func(context.Context, request.Request) error) (*env, error) {
	tel := componenttest.NewTelemetry()
	set := queuebatch.Settings[request.Request]{
		Signal:    pipeline.SignalLogs,
		ID:        component.MustNewID("verif"),
		Telemetry: tel.NewTelemetrySettings(),
		Encoding:  enc{},
		Sizers: map[request.SizerType]request.Sizer[request.Request]{
			request.SizerTypeRequests: request.RequestsSizer[request.Request]{},
			request.SizerTypeItems:    request.NewItemsSizer(),
			request.SizerTypeBytes: request.BaseSizer{SizeofFunc: func(r request.Request) int64 {
				return r.(*vreq).Bytes
			}},
		},
	}
	qc := queuebatch.Config{Enabled: true, WaitForResult: cfg.WFR, Sizer: sizerType(cfg.Sizer), QueueSize: cfg.Cap,
		BlockOnOverflow: cfg.Block, NumConsumers: max(1, cfg.Consumers)}
	var host component.Host = componenttest.NewNopHost()
	if cfg.Persistent {
		sid := component.MustNewID("vstore")
		qc.StorageID = &sid
		st := xh.NewStore()
		st.NewIncarnation(0)
		host = &xh.Host{ID: sid, Ext: &xh.Ext{S: st}}
	}
	qb, err := queuebatch.NewQueueBatch(set, qc, next)
	if err != nil {
		return nil, err
	}
	return &env{qb: qb, tel: tel, host: host}, nil
}

func (e *env) gauge(name string) (int64, bool) {
	m, err := e.tel.GetMetric(name)
	if err != nil {
		return 0, false
	}
	if g, ok := m.Data.(metricdata.Gauge[int64]); ok && len(g.DataPoints) > 0 {
		return g.DataPoints[0].Value, true
	}
	return 0, false
}

func mkReq(name string, size int64, sizer string) *vreq {
	r := &vreq{Name: name, Items: 1, Bytes: 1}
	switch sizer {
	case "items":
		r.Items = int(size)
	case "bytes":
		r.Bytes = size
	}
	return r
}

func classify(err error) string {
	switch {
	case err == nil:
		return "ok"
	case errors.Is(err, queuebatch.ErrQueueIsFull):
		return "full"
	case errors.Is(err, context.Canceled), errors.Is(err, context.DeadlineExceeded):
		return "ctx"
	case strings.Contains(err.Error(), "too large"):
		return "toolarge"
	case strings.HasPrefix(err.Error(), "scripted:"):
		return strings.TrimPrefix(err.Error(), "scripted:")
	}
	return "err:" + err.Error()
}

// ---------------------------------------------------------------------------------------------- seq

type SeqStep struct {
	Op   string `json:"op"` // offer | complete
	Req  string `json:"req"`
	Size int64  `json:"size"`
	Res  string `json:"res"`  // specified enqueue result (offer)
	Gate string `json:"gate"` // specified request at the export gate after the step ("" = none)
	Qsz  int64  `json:"qsz"`  // specified reported size after the step
}

type SeqBeh struct {
	Cfg   Cfg       `json:"cfg"`
	Steps []SeqStep `json:"steps"`
}

type SeqMismatch struct {
	Beh   int     `json:"beh"`
	Step  int     `json:"step"`
	What  string  `json:"what"`
	Want  string  `json:"want"`
	Got   string  `json:"got"`
	Input *SeqBeh `json:"input"`
}

func runSeq(b SeqBeh, idx int) *SeqMismatch {
	var mu sync.Mutex
	arrivals := []string{}
	gates := map[string]chan struct{}{}
	gate := func(n string) chan struct{} {
		mu.Lock()
		defer mu.Unlock()
		g, ok := gates[n]
		if !ok {
			g = make(chan struct{}, 1)
			gates[n] = g
		}
		return g
	}
	atGate := ""
	closing := false
	next := func(_ context.Context, r request.Request) error {
		n := r.(*vreq).Name
		mu.Lock()
		if closing {
			mu.Unlock()
			return nil
		}
		arrivals = append(arrivals, n)
		atGate = n
		mu.Unlock()
		<-gate(n)
		mu.Lock()
		atGate = ""
		mu.Unlock()
		return nil
	}
	b.Cfg.Consumers = 1
	e, err := newEnv(b.Cfg, next)
	if err != nil {
		return &SeqMismatch{Beh: idx, What: "setup", Got: err.Error(), Input: &b}
	}
	if err := startC(func(sc context.Context) error { return e.qb.Start(sc, e.host) }); err != nil {
		return &SeqMismatch{Beh: idx, What: "start", Got: err.Error(), Input: &b}
	}
	defer func() {
		mu.Lock()
		closing = true
		for _, g := range gates {
			select {
			case g <- struct{}{}:
			default:
			}
		}
		mu.Unlock()
		done := make(chan struct{})
		go func() { _ = e.qb.Shutdown(context.Background()); close(done) }()
		select {
		case <-done:
		case <-time.After(5 * time.Second):
		}
		_ = e.tel.Shutdown(context.Background())
	}()
	curGate := func() string { mu.Lock(); defer mu.Unlock(); return atGate }
	for k, st := range b.Steps {
		switch st.Op {
		case "offer":
			err := e.qb.Send(context.Background(), mkReq(st.Req, st.Size, b.Cfg.Sizer))
			if got := classify(err); got != st.Res {
				return &SeqMismatch{Beh: idx, Step: k, What: "enqueue result", Want: st.Res, Got: got, Input: &b}
			}
		case "complete":
			gate(st.Req) <- struct{}{}
		}
		// settle: poll until the observables equal the specified ones (2 s), then report what is seen
		deadline := time.Now().Add(2 * time.Second)
		var g string
		var sz int64
		for {
			g = curGate()
			sz, _ = e.gauge("otelcol_exporter_queue_size")
			if (g == st.Gate && sz == st.Qsz) || time.Now().After(deadline) {
				break
			}
			time.Sleep(200 * time.Microsecond)
		}
		if g != st.Gate {
			return &SeqMismatch{Beh: idx, Step: k, What: "request at the export function", Want: st.Gate, Got: g, Input: &b}
		}
		if sz != st.Qsz {
			return &SeqMismatch{Beh: idx, Step: k, What: "reported queue size", Want: fmt.Sprint(st.Qsz), Got: fmt.Sprint(sz), Input: &b}
		}
		if c, ok := e.gauge("otelcol_exporter_queue_capacity"); !ok || c != b.Cfg.Cap {
			return &SeqMismatch{Beh: idx, Step: k, What: "reported queue capacity", Want: fmt.Sprint(b.Cfg.Cap), Got: fmt.Sprint(c), Input: &b}
		}
	}
	return nil
}

func seqMain(in, out string) error {
	f, err := os.Open(in)
	if err != nil {
		return err
	}
	defer f.Close()
	sc := bufio.NewScanner(f)
	sc.Buffer(make([]byte, 1<<20), 1<<26)
	var behs []SeqBeh
	for sc.Scan() {
		var b SeqBeh
		if err := json.Unmarshal(sc.Bytes(), &b); err != nil {
			return err
		}
		behs = append(behs, b)
	}
	var mu sync.Mutex
	var mism []*SeqMismatch
	sem := make(chan struct{}, 16)
	var wg sync.WaitGroup
	for i := range behs {
		wg.Add(1)
		sem <- struct{}{}
		go func(i int) {
			defer wg.Done()
			defer func() { <-sem }()
			if m := runSeq(behs[i], i); m != nil {
				mu.Lock()
				if len(mism) < 50 {
					mism = append(mism, m)
				}
				mu.Unlock()
			}
		}(i)
	}
	wg.Wait()
	res := map[string]any{"behaviours": len(behs), "mismatches": mism}
	b, _ := json.Marshal(res)
	return os.WriteFile(out, b, 0o644)
}

// ---------------------------------------------------------------------------------------------- stress

type Ev struct {
	Ev      string   `json:"ev"`
	Cfg     *Cfg     `json:"cfg,omitempty"`
	Round   int      `json:"round,omitempty"`
	P       int      `json:"p,omitempty"`
	Req     string   `json:"req,omitempty"`
	Size    int64    `json:"size"`
	Res     string   `json:"res,omitempty"`
	Out     string   `json:"out,omitempty"`
	W       int      `json:"w,omitempty"`
	Value   int64    `json:"value"`
	Cancel  bool     `json:"cancel"`
	Heavy   bool     `json:"heavy,omitempty"`
	Fifo    bool     `json:"fifo"` // single producer, single consumer: the hand-off order must be the acceptance order
	Blocked []string `json:"blocked,omitempty"`
	Reqs    []string `json:"reqs,omitempty"`
	Sizes   []int64  `json:"sizes,omitempty"`
}

var frameRe = regexp.MustCompile(`(?m)^(go\.opentelemetry\.io/collector/[^\s(]+(?:\(\*?[\w\[\]\.·,\s]+\))?[^\s(]*)`)

// blockedSites summarises where collector goroutines are blocked (function names only, innermost collector frame + state).
func blockedSites() []string {
	buf := make([]byte, 1<<22)
	n := runtime.Stack(buf, true)
	seen := map[string]int{}
	for _, g := range strings.Split(string(buf[:n]), "\n\n") {
		lines := strings.Split(g, "\n")
		if len(lines) < 2 {
			continue
		}
		state := ""
		if i := strings.Index(lines[0], "["); i >= 0 {
			state = strings.TrimSuffix(lines[0][i+1:], "]:")
			if j := strings.Index(state, ","); j >= 0 {
				state = state[:j]
			}
		}
		for _, l := range lines[1:] {
			if strings.HasPrefix(l, "go.opentelemetry.io/collector/exporter/exporterhelper/internal/") {
				fn := l
				if j := strings.LastIndex(fn, "("); j > 0 {
					fn = fn[:j]
				}
				fn = strings.TrimPrefix(fn, "go.opentelemetry.io/collector/exporter/exporterhelper/internal/")
				seen[fn+" ["+state+"]"]++
				break
			}
		}
	}
	var out []string
	for k, v := range seen {
		out = append(out, fmt.Sprintf("%s x%d", k, v))
	}
	sort.Strings(out)
	return out
}

// lonelyRound choreographs the wake-up corner that random rounds rarely reach: a blocked producer whose context ends at
// the very moment space is freed, and LATER exactly one producer blocked alone on a full queue that then drains -- it must
// be released (a wake-up counter that drifted would skip the only signal).
func lonelyRound(rng *rand.Rand, round int, emit func(Ev)) bool {
	cfg := Cfg{Sizer: "requests", Cap: 1, Block: true, WFR: false, Persistent: rng.Intn(4) == 0, Consumers: 1}
	var mu sync.Mutex
	log := func(e Ev) { mu.Lock(); emit(e); mu.Unlock() }
	gates := map[string]chan struct{}{"A": make(chan struct{}, 1), "B": make(chan struct{}, 1), "C": make(chan struct{}, 1), "D": make(chan struct{}, 1)}
	arrived := map[string]chan struct{}{"A": make(chan struct{}, 1), "B": make(chan struct{}, 1), "C": make(chan struct{}, 1), "D": make(chan struct{}, 1)}
	w := 0
	next := func(_ context.Context, r request.Request) error {
		n := r.(*vreq).Name
		mu.Lock()
		w++
		k := w
		emit(Ev{Ev: "push_start", Req: n, W: k})
		mu.Unlock()
		arrived[n] <- struct{}{}
		<-gates[n]
		log(Ev{Ev: "push_end", Req: n, Out: "ok", W: k})
		return nil
	}
	e, err := newEnv(cfg, next)
	if err != nil {
		return true
	}
	c := cfg
	log(Ev{Ev: "reset", Round: round, Cfg: &c, Reqs: []string{"A", "B", "C", "D"}, Sizes: []int64{1, 1, 1, 1}})
	if err := startC(func(sc context.Context) error { return e.qb.Start(sc, e.host) }); err != nil {
		return true
	}
	offer := func(p int, name string, ctx context.Context, cancel bool) string {
		log(Ev{Ev: "offer_start", P: p, Req: name, Size: 1, Cancel: cancel})
		res := classify(e.qb.Send(ctx, mkReq(name, 1, cfg.Sizer)))
		log(Ev{Ev: "offer_end", P: p, Req: name, Res: res, Size: 1})
		return res
	}
	waitCh := func(ch chan struct{}, d time.Duration) bool {
		select {
		case <-ch:
			return true
		case <-time.After(d):
			return false
		}
	}
	hang := func() bool { log(Ev{Ev: "hang", Blocked: blockedSites()}); return false }
	offer(1, "A", context.Background(), false)
	if !waitCh(arrived["A"], 10*time.Second) {
		return hang()
	}
	// P1: blocked, its context ends at (about) the moment A finishes
	d := time.Duration(80+rng.Intn(250)) * time.Microsecond
	ctx1, cancel1 := context.WithCancel(context.Background())
	p1 := make(chan string, 1)
	go func() { p1 <- offer(2, "B", ctx1, true) }()
	t0 := time.Now()
	for time.Since(t0) < d { // spin: precise timing
	}
	if rng.Intn(2) == 0 {
		cancel1()
		gates["A"] <- struct{}{}
	} else {
		gates["A"] <- struct{}{}
		cancel1()
	}
	var r1 string
	select {
	case r1 = <-p1:
	case <-time.After(20 * time.Second):
		return hang()
	}
	cancel1()
	if r1 == "ok" { // B got in after all: let it through
		if !waitCh(arrived["B"], 10*time.Second) {
			return hang()
		}
		gates["B"] <- struct{}{}
	}
	// the queue drains; then it is filled again and exactly one producer blocks
	pc := make(chan string, 1)
	go func() { pc <- offer(1, "C", context.Background(), false) }()
	select {
	case <-pc:
	case <-time.After(20 * time.Second):
		return hang()
	}
	if !waitCh(arrived["C"], 10*time.Second) {
		return hang()
	}
	p2 := make(chan string, 1)
	go func() { p2 <- offer(3, "D", context.Background(), false) }()
	time.Sleep(time.Duration(100+rng.Intn(300)) * time.Microsecond) // let it block (if it is not yet blocked the run is still valid)
	gates["C"] <- struct{}{}
	select {
	case <-p2:
	case <-time.After(20 * time.Second):
		// re-confirm once more before calling it a hang
		select {
		case <-p2:
		case <-time.After(10 * time.Second):
			return hang()
		}
	}
	if !waitCh(arrived["D"], 10*time.Second) {
		return hang()
	}
	gates["D"] <- struct{}{}
	log(Ev{Ev: "shutdown_start"})
	done := make(chan struct{})
	go func() { _ = e.qb.Shutdown(context.Background()); close(done) }()
	select {
	case <-done:
	case <-time.After(20 * time.Second):
		return hang()
	}
	log(Ev{Ev: "shutdown_end"})
	_ = e.tel.Shutdown(context.Background())
	return true
}

// idleRound: the consumer side of "no lost wake-ups".  K consumers are parked in Read on an empty queue; bursts of
// k <= (idle consumers) requests are enqueued back to back (one producer, or several released together) while NO export
// call is allowed to return.  Every accepted request must be handed to one of the idle consumers: completions may come
// arbitrarily late, so a request that sits in the queue next to a parked consumer is never handed over in that
// execution (WorkConserving in SizedQueue.tla; a wake-up issued only on the empty -> non-empty transition loses it).
func idleRound(rng *rand.Rand, round int, emit func(Ev)) bool {
	K := 2 + rng.Intn(5)
	cfg := Cfg{Sizer: []string{"requests", "items", "bytes"}[rng.Intn(3)], Cap: 64, Block: rng.Intn(2) == 0, WFR: false,
		Persistent: rng.Intn(4) == 0, Consumers: K}
	if cfg.Persistent {
		cfg.Sizer = "requests"
	}
	var mu sync.Mutex
	log := func(e Ev) { mu.Lock(); emit(e); mu.Unlock() }
	release := make(chan struct{})
	var started atomic.Int64
	w := 0
	next := func(_ context.Context, r request.Request) error {
		n := r.(*vreq).Name
		mu.Lock()
		w++
		emit(Ev{Ev: "push_start", Req: n, W: w})
		mu.Unlock()
		started.Add(1)
		<-release
		return nil
	}
	e, err := newEnv(cfg, next)
	if err != nil {
		return true
	}
	c := cfg
	log(Ev{Ev: "reset", Round: round, Cfg: &c, Heavy: true})
	if err := startC(func(sc context.Context) error { return e.qb.Start(sc, e.host) }); err != nil {
		return true
	}
	time.Sleep(time.Duration(200+rng.Intn(2000)) * time.Microsecond) // let the consumers park
	idle, seq, ok := K, 0, true
	var accepted int64
	for wave := 0; ok && idle > 0 && wave < 3; wave++ {
		k := 2 + rng.Intn(idle)
		if k > idle {
			k = idle
		}
		names := make([]string, k)
		for i := range names {
			seq++
			names[i] = fmt.Sprintf("i%d", seq)
		}
		offer := func(n string) {
			err := e.qb.Send(context.Background(), mkReq(n, 1, cfg.Sizer))
			log(Ev{Ev: "offer_end", P: 1, Req: n, Res: classify(err), Size: 1})
		}
		if rng.Intn(2) == 0 { // one producer, back to back
			for _, n := range names {
				offer(n)
			}
		} else { // several producers released together
			var wg sync.WaitGroup
			var ready atomic.Int64
			for _, n := range names {
				wg.Add(1)
				go func(n string) {
					defer wg.Done()
					ready.Add(1)
					for ready.Load() < int64(len(names)) {
					}
					offer(n)
				}(n)
			}
			wg.Wait()
		}
		accepted += int64(k)
		idle -= k
		// all of them must reach the export function although none of the earlier calls returns
		for t := 0; started.Load() < accepted; t++ {
			if t > 30000 { // 30 s
				size, _ := e.gauge("otelcol_exporter_queue_size")
				log(Ev{Ev: "hang", Blocked: append([]string{fmt.Sprintf("idle-consumers: %d requests accepted, %d handed over, %d of %d consumers still idle, reported size %d, no completion pending release",
					accepted, started.Load(), idle+int(accepted-started.Load()), K, size)}, blockedSites()...)})
				ok = false
				break
			}
			time.Sleep(time.Millisecond)
		}
	}
	close(release)
	if !ok {
		return false
	}
	log(Ev{Ev: "shutdown_start"})
	done := make(chan struct{})
	go func() { _ = e.qb.Shutdown(context.Background()); close(done) }()
	select {
	case <-done:
	case <-time.After(30 * time.Second):
		log(Ev{Ev: "hang", Blocked: blockedSites()})
		return false
	}
	log(Ev{Ev: "shutdown_end"})
	_ = e.tel.Shutdown(context.Background())
	return true
}

// backlogRound: ONE producer and ONE consumer, a large capacity, and a backlog that grows and shrinks in phases while the
// consumer is held at a gate: offer a, let b of them through, offer c more, ... then drain.  Every accepted request must be
// handed over exactly once IN ACCEPTANCE ORDER and the size must return to zero, whatever the backlog length was when the
// consumer had already taken something (an item list that re-organises its storage while wrapped -- seeded change C02-7 --
// only shows with more pending requests than its initial allotment after a first read).
func backlogRound(rng *rand.Rand, round int, emit func(Ev)) bool {
	cfg := Cfg{Sizer: []string{"requests", "items"}[rng.Intn(2)], Cap: 600, Block: false, WFR: false, Persistent: rng.Intn(5) == 0, Consumers: 1}
	if cfg.Persistent {
		cfg.Sizer = "requests"
	}
	var mu sync.Mutex
	log := func(e Ev) { mu.Lock(); emit(e); mu.Unlock() }
	tokens := make(chan struct{}, 1024)
	var started, finished atomic.Int64
	w := 0
	next := func(_ context.Context, r request.Request) error {
		<-tokens
		mu.Lock()
		w++
		emit(Ev{Ev: "push_start", Req: r.(*vreq).Name, W: w})
		mu.Unlock()
		started.Add(1)
		finished.Add(1)
		return nil
	}
	e, err := newEnv(cfg, next)
	if err != nil {
		return true
	}
	c := cfg
	log(Ev{Ev: "reset", Round: round, Cfg: &c, Heavy: true, Fifo: true})
	if err := startC(func(sc context.Context) error { return e.qb.Start(sc, e.host) }); err != nil {
		return true
	}
	seq, pending, released := 0, 0, 0
	offerN := func(n int) {
		for i := 0; i < n; i++ {
			seq++
			name := fmt.Sprintf("b%d", seq)
			err := e.qb.Send(context.Background(), mkReq(name, 1, cfg.Sizer))
			log(Ev{Ev: "offer_end", P: 1, Req: name, Res: classify(err), Size: 1})
			if err == nil {
				pending++
			}
		}
	}
	releaseN := func(n int) bool {
		for i := 0; i < n; i++ {
			tokens <- struct{}{}
		}
		released += n
		for t := 0; finished.Load() < int64(released); t++ {
			if t > 30000 {
				log(Ev{Ev: "hang", Blocked: append([]string{fmt.Sprintf("backlog: %d requests released to the single consumer, %d handed over", released, finished.Load())}, blockedSites()...)})
				return false
			}
			time.Sleep(time.Millisecond)
		}
		pending -= n
		return true
	}
	sizes := []int{3, 7, 15, 16, 17, 31, 32, 33, 48, 63, 64, 65, 100, 129}
	for phase := 0; phase < 4; phase++ {
		a := sizes[rng.Intn(len(sizes))]
		if pending+a > 500 {
			a = 500 - pending
		}
		offerN(a)
		b := 1 + rng.Intn(pending)
		if phase == 0 && rng.Intn(2) == 0 {
			b = 1 + rng.Intn(min(pending, 8))
		}
		if !releaseN(b) {
			return false
		}
	}
	if pending > 0 && !releaseN(pending) {
		return false
	}
	var v int64
	for t := 0; t < 400; t++ {
		if v, _ = e.gauge("otelcol_exporter_queue_size"); v == 0 {
			break
		}
		time.Sleep(5 * time.Millisecond)
	}
	log(Ev{Ev: "final_size", Value: v + 1})
	log(Ev{Ev: "shutdown_start"})
	done := make(chan struct{})
	go func() { _ = e.qb.Shutdown(context.Background()); close(done) }()
	select {
	case <-done:
	case <-time.After(30 * time.Second):
		log(Ev{Ev: "hang", Blocked: blockedSites()})
		return false
	}
	log(Ev{Ev: "shutdown_end"})
	_ = e.tel.Shutdown(context.Background())
	return true
}

// cancelRound: "a producer blocked by block-on-overflow ... returns with its context's error when the context ends first".
// The queue is full and STAYS full (the only export call is held at a gate); a producer blocks; its context is cancelled or
// its deadline passes; it must come back with the context's error although nothing frees any space (seeded change C02-8
// detached the context the persistent queue waits with).
func cancelRound(rng *rand.Rand, round int, emit func(Ev)) bool {
	cfg := Cfg{Sizer: []string{"requests", "items", "bytes"}[rng.Intn(3)], Cap: int64(1 + rng.Intn(3)), Block: true, WFR: false,
		Persistent: rng.Intn(2) == 0, Consumers: 1 + rng.Intn(2)}
	if cfg.Persistent {
		cfg.Sizer, cfg.Consumers = "requests", 1
	}
	var mu sync.Mutex
	log := func(e Ev) { mu.Lock(); emit(e); mu.Unlock() }
	release := make(chan struct{})
	w := 0
	next := func(_ context.Context, r request.Request) error {
		mu.Lock()
		w++
		emit(Ev{Ev: "push_start", Req: r.(*vreq).Name, W: w})
		mu.Unlock()
		<-release
		return nil
	}
	e, err := newEnv(cfg, next)
	if err != nil {
		return true
	}
	c := cfg
	log(Ev{Ev: "reset", Round: round, Cfg: &c, Heavy: true})
	if err := startC(func(sc context.Context) error { return e.qb.Start(sc, e.host) }); err != nil {
		return true
	}
	// fill the queue with requests of size 1 that stay unfinished.  The in-memory queue counts a request until it has
	// finished: Cap requests fill it.  The persistent queue resets its size to zero whenever a read empties it, so: one
	// consumer, which first takes one request out of the (then empty) queue and is held; Cap more requests fill it.
	fills := int(cfg.Cap)
	send := func(i int) {
		n := fmt.Sprintf("f%d", i)
		err := e.qb.Send(context.Background(), mkReq(n, 1, cfg.Sizer))
		log(Ev{Ev: "offer_end", P: 1, Req: n, Res: classify(err), Size: 1})
	}
	if cfg.Persistent {
		fills++
		send(1)
		for t := 0; t < 10000; t++ { // wait until the consumer holds it
			mu.Lock()
			n := w
			mu.Unlock()
			if n >= 1 {
				break
			}
			time.Sleep(time.Millisecond)
		}
		for i := 2; i <= fills; i++ {
			send(i)
		}
	} else {
		for i := 1; i <= fills; i++ {
			send(i)
		}
	}
	ok := true
	for k := 0; k < 3 && ok; k++ {
		ctx, cancel := context.WithCancel(context.Background())
		if k == 1 {
			ctx, cancel = context.WithTimeout(context.Background(), time.Duration(1+rng.Intn(20))*time.Millisecond)
		}
		res := make(chan string, 1)
		name := fmt.Sprintf("x%d", k+1)
		go func() { res <- classify(e.qb.Send(ctx, mkReq(name, 1, cfg.Sizer))) }()
		time.Sleep(time.Duration(200+rng.Intn(3000)) * time.Microsecond) // let it block
		cancel()
		select {
		case r := <-res:
			log(Ev{Ev: "offer_end", P: 2, Req: name, Res: r, Size: 1})
			if r != "ctx" {
				// the queue was full for the whole call: neither accepted nor refused for lack of space are possible
				log(Ev{Ev: "hang", Blocked: []string{fmt.Sprintf("blocked-producer-cancel: the queue was full for the whole call and the producer's context ended, but Send returned %q instead of the context's error", r)}})
				ok = false
			}
		case <-time.After(30 * time.Second):
			log(Ev{Ev: "hang", Blocked: append([]string{"blocked-producer-cancel: a producer blocked on a full queue did not return within 30 s after its context ended (nothing frees space: the export call is held)"}, blockedSites()...)})
			ok = false
		}
	}
	close(release)
	if !ok {
		return false
	}
	// let the fill requests through before shutting down (a persistent queue keeps what is still queued at shutdown)
	for t := 0; t < 10000; t++ {
		mu.Lock()
		n := w
		mu.Unlock()
		if n >= fills {
			break
		}
		time.Sleep(time.Millisecond)
	}
	log(Ev{Ev: "shutdown_start"})
	done := make(chan struct{})
	go func() { _ = e.qb.Shutdown(context.Background()); close(done) }()
	select {
	case <-done:
	case <-time.After(30 * time.Second):
		log(Ev{Ev: "hang", Blocked: blockedSites()})
		return false
	}
	log(Ev{Ev: "shutdown_end"})
	_ = e.tel.Shutdown(context.Background())
	return true
}

func stressRound(rng *rand.Rand, round int, emit func(Ev)) bool {
	if round%16 == 14 || round%16 == 9 {
		return cancelRound(rng, round, emit)
	}
	if round%16 == 3 || round%16 == 10 {
		return backlogRound(rng, round, emit)
	}
	if round%16 == 12 || round%16 == 7 {
		return idleRound(rng, round, emit)
	}
	if round%8 == 2 || round%8 == 6 {
		return lonelyRound(rng, round, emit)
	}
	cfg := Cfg{Sizer: []string{"requests", "items", "bytes"}[rng.Intn(3)], Cap: int64(1 + rng.Intn(4)), Block: rng.Intn(4) != 0,
		WFR: rng.Intn(3) == 0, Persistent: false, Consumers: 1 + rng.Intn(2)}
	if rng.Intn(5) == 0 {
		cfg.Persistent, cfg.WFR, cfg.Sizer = true, false, "requests"
	}
	P := 2 + rng.Intn(3)
	K := 1 + rng.Intn(3)
	heavy := round%8 == 0 // many short-lived blocked producers: exercises wake-ups racing with cancellation
	flow := round%16 == 4 // many requests of different sizes flowing through several consumers: exercises the size accounting
	if flow {
		heavy = true
		cfg = Cfg{Sizer: []string{"items", "bytes"}[rng.Intn(2)], Cap: int64(24 + rng.Intn(48)), Block: true, WFR: false, Consumers: 4 + rng.Intn(5)}
		P, K = 8, 60
	} else if heavy {
		cfg.Block, cfg.Cap, cfg.Consumers, cfg.Persistent = true, int64(1+rng.Intn(2)), 2, false
		if cfg.Sizer == "requests" {
			cfg.Cap = 2
		}
		cfg.WFR = rng.Intn(4) == 0
		P, K = 48+rng.Intn(16), 150
	}
	var mu sync.Mutex
	compact := false // heavy rounds: only what the search-free monitor (SQHeavy.tla) needs
	log := func(e Ev) {
		if compact && (e.Ev == "offer_start" || e.Ev == "push_end" || (e.Ev == "offer_end" && e.Res == "ctx")) {
			return
		}
		mu.Lock()
		emit(e)
		mu.Unlock()
	}
	outcomes := map[string]string{}
	delays := map[string]time.Duration{}
	type offer struct {
		req    string
		size   int64
		cancel time.Duration // 0 = background context
	}
	plans := make([][]offer, P)
	var names []string
	var sizes []int64
	for p := 0; p < P; p++ {
		for k := 0; k < K; k++ {
			name := fmt.Sprintf("r%d_%d", p+1, k+1)
			var size int64 = 1
			if cfg.Sizer != "requests" {
				switch x := rng.Intn(10); {
				case x == 0:
					size = 0
				case x == 1:
					size = cfg.Cap + 1
				default:
					size = 1 + rng.Int63n(cfg.Cap)
				}
			}
			o := offer{req: name, size: size}
			if rng.Intn(3) == 0 {
				o.cancel = time.Duration(rng.Intn(400)) * time.Microsecond
			}
			if flow {
				o.size, size = 1+rng.Int63n(16), 0
				size = o.size
				o.cancel = 0
			} else if heavy {
				o.cancel = time.Duration(1+rng.Intn(60)) * time.Microsecond
				if p%6 == 0 {
					o.cancel = 0 // canaries: blocked producers without a deadline hang forever if a wake-up is lost
				}
				if size > cfg.Cap || size == 0 {
					o.size, size = 1, 1
				}
			}
			plans[p] = append(plans[p], o)
			names = append(names, name)
			sizes = append(sizes, size)
			outcomes[name] = []string{"ok", "ok", "fail"}[rng.Intn(3)]
			delays[name] = time.Duration(rng.Intn(300)) * time.Microsecond
			if heavy {
				delays[name] = time.Duration(rng.Intn(30)) * time.Microsecond
			}
			if flow {
				delays[name] = 0
			}
		}
	}
	var workerSeq int
	var wmu sync.Mutex
	var acceptedN, finishedN atomic.Int64
	next := func(_ context.Context, r request.Request) error {
		defer finishedN.Add(1)
		n := r.(*vreq).Name
		wmu.Lock()
		workerSeq++
		w := workerSeq
		wmu.Unlock()
		log(Ev{Ev: "push_start", Req: n, W: w})
		time.Sleep(delays[n])
		out := outcomes[n]
		log(Ev{Ev: "push_end", Req: n, Out: out, W: w})
		if out == "ok" {
			return nil
		}
		return errors.New("scripted:" + out)
	}
	e, err := newEnv(cfg, next)
	if err != nil {
		log(Ev{Ev: "note", Res: err.Error()})
		return true
	}
	c := cfg
	compact = heavy
	if heavy {
		names, sizes = nil, nil
	}
	log(Ev{Ev: "reset", Round: round, Cfg: &c, Reqs: names, Sizes: sizes, Heavy: heavy})
	if err := startC(func(sc context.Context) error { return e.qb.Start(sc, e.host) }); err != nil {
		log(Ev{Ev: "note", Res: err.Error()})
		return true
	}
	var wg sync.WaitGroup
	for p := 0; p < P; p++ {
		wg.Add(1)
		go func(p int) {
			defer wg.Done()
			for _, o := range plans[p] {
				ctx := context.Background()
				cancel := func() {}
				if o.cancel > 0 {
					ctx, cancel = context.WithTimeout(ctx, o.cancel)
				}
				log(Ev{Ev: "offer_start", P: p + 1, Req: o.req, Size: o.size, Cancel: o.cancel > 0})
				err := e.qb.Send(ctx, mkReq(o.req, o.size, cfg.Sizer))
				if err == nil && o.size > 0 && !cfg.WFR {
					acceptedN.Add(1)
				}
				log(Ev{Ev: "offer_end", P: p + 1, Req: o.req, Res: classify(err), Size: o.size})
				cancel()
			}
		}(p)
	}
	// sample the reported size while the round runs
	stopSample := make(chan struct{})
	var swg sync.WaitGroup
	swg.Add(1)
	go func() {
		defer swg.Done()
		for {
			select {
			case <-stopSample:
				return
			default:
			}
			if v, ok := e.gauge("otelcol_exporter_queue_size"); ok {
				log(Ev{Ev: "size", Value: v + 1}) // +1: keep 0 visible through omitempty
			}
			if compact {
				time.Sleep(600 * time.Microsecond)
			}
			time.Sleep(150 * time.Microsecond)
		}
	}()
	finished := make(chan struct{})
	go func() {
		wg.Wait()
		// "zero once every accepted request has finished": without wait_for_result wait for the exports of everything that
		// was accepted, give the completion bookkeeping a moment, and read the reported size BEFORE shutdown
		// (the gauges are unregistered by it)
		if !cfg.WFR {
			for t := 0; t < 10000 && finishedN.Load() < acceptedN.Load(); t++ {
				time.Sleep(time.Millisecond)
			}
			if finishedN.Load() >= acceptedN.Load() {
				var v int64
				for t := 0; t < 400; t++ {
					if v, _ = e.gauge("otelcol_exporter_queue_size"); v == 0 {
						break
					}
					time.Sleep(5 * time.Millisecond)
				}
				log(Ev{Ev: "final_size", Value: v + 1})
			}
		}
		log(Ev{Ev: "shutdown_start"})
		_ = e.qb.Shutdown(context.Background())
		log(Ev{Ev: "shutdown_end"})
		close(finished)
	}()
	ok := true
	select {
	case <-finished:
	case <-time.After(20 * time.Second):
		// re-confirm after a second generous wait before calling it a hang
		select {
		case <-finished:
		case <-time.After(10 * time.Second):
			log(Ev{Ev: "hang", Blocked: blockedSites()})
			ok = false
		}
	}
	close(stopSample)
	if ok {
		swg.Wait()
		_ = e.tel.Shutdown(context.Background())
	}
	return ok
}

func stressMain(seed int64, rounds int, out string) error {
	f, err := os.Create(out)
	if err != nil {
		return err
	}
	defer f.Close()
	w := bufio.NewWriter(f)
	defer w.Flush()
	enc := json.NewEncoder(w)
	// rounds run concurrently in groups: contention between rounds perturbs the schedules
	par := 8
	type res struct {
		evs []Ev
		ok  bool
	}
	results := make([]res, rounds)
	sem := make(chan struct{}, par)
	var wg sync.WaitGroup
	for r := 0; r < rounds; r++ {
		wg.Add(1)
		sem <- struct{}{}
		go func(r int) {
			defer wg.Done()
			defer func() { <-sem }()
			rng := rand.New(rand.NewSource(seed*1000003 + int64(r)))
			var evs []Ev
			ok := stressRound(rng, r+1, func(e Ev) { evs = append(evs, e) })
			results[r] = res{evs, ok}
		}(r)
	}
	wg.Wait()
	for _, r := range results {
		for _, e := range r.evs {
			if err := enc.Encode(e); err != nil {
				return err
			}
		}
	}
	return enc.Encode(Ev{Ev: "end"})
}

func main() {
	var err error
	switch {
	case len(os.Args) == 4 && os.Args[1] == "seq":
		err = seqMain(os.Args[2], os.Args[3])
	case len(os.Args) == 5 && os.Args[1] == "stress":
		seed, _ := strconv.ParseInt(os.Args[2], 10, 64)
		rounds, _ := strconv.Atoi(os.Args[3])
		err = stressMain(seed, rounds, os.Args[4])
	default:
		err = errors.New("usage: mq seq <in> <out> | mq stress <seed> <rounds> <out>")
	}
	if err != nil {
		fmt.Fprintln(os.Stderr, err)
		os.Exit(3)
	}
}

// startC calls a component's Start with a context that is cancelled as soon as Start has returned: component.Component
// says that context "will be cancelled soon", so nothing that has to outlive Start may depend on it.
func startC(start func(context.Context) error) error {
	ctx, cancel := context.WithCancel(context.Background())
	defer cancel()
	return start(ctx)
}
