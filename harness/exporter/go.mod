module go.opentelemetry.io/collector/exporter/exporterhelper/verifh

go 1.23.0

require (
	go.opentelemetry.io/collector/component v1.30.0
	go.opentelemetry.io/collector/component/componenttest v0.124.0
	go.opentelemetry.io/collector/config/configretry v1.30.0
	go.opentelemetry.io/collector/consumer/consumererror v0.124.0
	go.opentelemetry.io/collector/exporter v0.124.0
	go.opentelemetry.io/collector/exporter/exportertest v0.124.0
	go.opentelemetry.io/collector/extension/xextension v0.124.0
	go.opentelemetry.io/collector/pdata v1.30.0
	go.opentelemetry.io/otel/sdk/metric v1.35.0
)

require (
	github.com/cenkalti/backoff/v5 v5.0.2 // indirect
	github.com/davecgh/go-spew v1.1.1 // indirect
	github.com/go-logr/logr v1.4.2 // indirect
	github.com/go-logr/stdr v1.2.2 // indirect
	github.com/go-viper/mapstructure/v2 v2.2.1 // indirect
	github.com/gogo/protobuf v1.3.2 // indirect
	github.com/google/uuid v1.6.0 // indirect
	github.com/hashicorp/go-version v1.7.0 // indirect
	github.com/json-iterator/go v1.1.12 // indirect
	github.com/knadh/koanf/maps v0.1.2 // indirect
	github.com/knadh/koanf/providers/confmap v1.0.0 // indirect
	github.com/knadh/koanf/v2 v2.2.0 // indirect
	github.com/mitchellh/copystructure v1.2.0 // indirect
	github.com/mitchellh/reflectwalk v1.0.2 // indirect
	github.com/modern-go/concurrent v0.0.0-20180306012644-bacd9c7ef1dd // indirect
	github.com/modern-go/reflect2 v1.0.2 // indirect
	github.com/pmezard/go-difflib v1.0.0 // indirect
	github.com/stretchr/testify v1.10.0 // indirect
	go.opentelemetry.io/auto/sdk v1.1.0 // indirect
	go.opentelemetry.io/collector/confmap v1.30.0 // indirect
	go.opentelemetry.io/collector/consumer v1.30.0 // indirect
	go.opentelemetry.io/collector/consumer/consumertest v0.124.0 // indirect
	go.opentelemetry.io/collector/consumer/xconsumer v0.124.0 // indirect
	go.opentelemetry.io/collector/exporter/xexporter v0.124.0 // indirect
	go.opentelemetry.io/collector/extension v1.30.0 // indirect
	go.opentelemetry.io/collector/featuregate v1.30.0 // indirect
	go.opentelemetry.io/collector/internal/telemetry v0.124.0 // indirect
	go.opentelemetry.io/collector/pdata/pprofile v0.124.0 // indirect
	go.opentelemetry.io/collector/pipeline v0.124.0 // indirect
	go.opentelemetry.io/collector/receiver v1.30.0 // indirect
	go.opentelemetry.io/collector/receiver/receivertest v0.124.0 // indirect
	go.opentelemetry.io/collector/receiver/xreceiver v0.124.0 // indirect
	go.opentelemetry.io/contrib/bridges/otelzap v0.10.0 // indirect
	go.opentelemetry.io/otel v1.35.0 // indirect
	go.opentelemetry.io/otel/log v0.11.0 // indirect
	go.opentelemetry.io/otel/metric v1.35.0 // indirect
	go.opentelemetry.io/otel/sdk v1.35.0 // indirect
	go.opentelemetry.io/otel/trace v1.35.0 // indirect
	go.uber.org/multierr v1.11.0 // indirect
	go.uber.org/zap v1.27.0 // indirect
	golang.org/x/net v0.39.0 // indirect
	golang.org/x/sys v0.32.0 // indirect
	golang.org/x/text v0.24.0 // indirect
	google.golang.org/genproto/googleapis/rpc v0.0.0-20250115164207-1a7da9e5054f // indirect
	google.golang.org/grpc v1.71.1 // indirect
	google.golang.org/protobuf v1.36.6 // indirect
	gopkg.in/yaml.v3 v3.0.1 // indirect
	sigs.k8s.io/yaml v1.4.0 // indirect
)

replace (
	go.opentelemetry.io/collector => /repo
	go.opentelemetry.io/collector/client => /repo/client
	go.opentelemetry.io/collector/cmd/builder => /repo/cmd/builder
	go.opentelemetry.io/collector/cmd/mdatagen => /repo/cmd/mdatagen
	go.opentelemetry.io/collector/cmd/otelcorecol => /repo/cmd/otelcorecol
	go.opentelemetry.io/collector/component => /repo/component
	go.opentelemetry.io/collector/component/componentstatus => /repo/component/componentstatus
	go.opentelemetry.io/collector/component/componenttest => /repo/component/componenttest
	go.opentelemetry.io/collector/config/configauth => /repo/config/configauth
	go.opentelemetry.io/collector/config/configcompression => /repo/config/configcompression
	go.opentelemetry.io/collector/config/configgrpc => /repo/config/configgrpc
	go.opentelemetry.io/collector/config/confighttp => /repo/config/confighttp
	go.opentelemetry.io/collector/config/confighttp/xconfighttp => /repo/config/confighttp/xconfighttp
	go.opentelemetry.io/collector/config/configmiddleware => /repo/config/configmiddleware
	go.opentelemetry.io/collector/config/confignet => /repo/config/confignet
	go.opentelemetry.io/collector/config/configopaque => /repo/config/configopaque
	go.opentelemetry.io/collector/config/configretry => /repo/config/configretry
	go.opentelemetry.io/collector/config/configtelemetry => /repo/config/configtelemetry
	go.opentelemetry.io/collector/config/configtls => /repo/config/configtls
	go.opentelemetry.io/collector/confmap => /repo/confmap
	go.opentelemetry.io/collector/confmap/internal/e2e => /repo/confmap/internal/e2e
	go.opentelemetry.io/collector/confmap/provider/envprovider => /repo/confmap/provider/envprovider
	go.opentelemetry.io/collector/confmap/provider/fileprovider => /repo/confmap/provider/fileprovider
	go.opentelemetry.io/collector/confmap/provider/httpprovider => /repo/confmap/provider/httpprovider
	go.opentelemetry.io/collector/confmap/provider/httpsprovider => /repo/confmap/provider/httpsprovider
	go.opentelemetry.io/collector/confmap/provider/yamlprovider => /repo/confmap/provider/yamlprovider
	go.opentelemetry.io/collector/confmap/xconfmap => /repo/confmap/xconfmap
	go.opentelemetry.io/collector/connector => /repo/connector
	go.opentelemetry.io/collector/connector/connectortest => /repo/connector/connectortest
	go.opentelemetry.io/collector/connector/forwardconnector => /repo/connector/forwardconnector
	go.opentelemetry.io/collector/connector/xconnector => /repo/connector/xconnector
	go.opentelemetry.io/collector/consumer => /repo/consumer
	go.opentelemetry.io/collector/consumer/consumererror => /repo/consumer/consumererror
	go.opentelemetry.io/collector/consumer/consumererror/xconsumererror => /repo/consumer/consumererror/xconsumererror
	go.opentelemetry.io/collector/consumer/consumertest => /repo/consumer/consumertest
	go.opentelemetry.io/collector/consumer/xconsumer => /repo/consumer/xconsumer
	go.opentelemetry.io/collector/exporter => /repo/exporter
	go.opentelemetry.io/collector/exporter/debugexporter => /repo/exporter/debugexporter
	go.opentelemetry.io/collector/exporter/exporterhelper/xexporterhelper => /repo/exporter/exporterhelper/xexporterhelper
	go.opentelemetry.io/collector/exporter/exportertest => /repo/exporter/exportertest
	go.opentelemetry.io/collector/exporter/nopexporter => /repo/exporter/nopexporter
	go.opentelemetry.io/collector/exporter/otlpexporter => /repo/exporter/otlpexporter
	go.opentelemetry.io/collector/exporter/otlphttpexporter => /repo/exporter/otlphttpexporter
	go.opentelemetry.io/collector/exporter/xexporter => /repo/exporter/xexporter
	go.opentelemetry.io/collector/extension => /repo/extension
	go.opentelemetry.io/collector/extension/extensionauth => /repo/extension/extensionauth
	go.opentelemetry.io/collector/extension/extensionauth/extensionauthtest => /repo/extension/extensionauth/extensionauthtest
	go.opentelemetry.io/collector/extension/extensioncapabilities => /repo/extension/extensioncapabilities
	go.opentelemetry.io/collector/extension/extensionmiddleware => /repo/extension/extensionmiddleware
	go.opentelemetry.io/collector/extension/extensionmiddleware/extensionmiddlewaretest => /repo/extension/extensionmiddleware/extensionmiddlewaretest
	go.opentelemetry.io/collector/extension/extensiontest => /repo/extension/extensiontest
	go.opentelemetry.io/collector/extension/memorylimiterextension => /repo/extension/memorylimiterextension
	go.opentelemetry.io/collector/extension/xextension => /repo/extension/xextension
	go.opentelemetry.io/collector/extension/zpagesextension => /repo/extension/zpagesextension
	go.opentelemetry.io/collector/featuregate => /repo/featuregate
	go.opentelemetry.io/collector/filter => /repo/filter
	go.opentelemetry.io/collector/internal/e2e => /repo/internal/e2e
	go.opentelemetry.io/collector/internal/fanoutconsumer => /repo/internal/fanoutconsumer
	go.opentelemetry.io/collector/internal/memorylimiter => /repo/internal/memorylimiter
	go.opentelemetry.io/collector/internal/sharedcomponent => /repo/internal/sharedcomponent
	go.opentelemetry.io/collector/internal/telemetry => /repo/internal/telemetry
	go.opentelemetry.io/collector/internal/tools => /repo/internal/tools
	go.opentelemetry.io/collector/otelcol => /repo/otelcol
	go.opentelemetry.io/collector/otelcol/otelcoltest => /repo/otelcol/otelcoltest
	go.opentelemetry.io/collector/pdata => /repo/pdata
	go.opentelemetry.io/collector/pdata/pprofile => /repo/pdata/pprofile
	go.opentelemetry.io/collector/pdata/testdata => /repo/pdata/testdata
	go.opentelemetry.io/collector/pipeline => /repo/pipeline
	go.opentelemetry.io/collector/pipeline/xpipeline => /repo/pipeline/xpipeline
	go.opentelemetry.io/collector/processor => /repo/processor
	go.opentelemetry.io/collector/processor/batchprocessor => /repo/processor/batchprocessor
	go.opentelemetry.io/collector/processor/memorylimiterprocessor => /repo/processor/memorylimiterprocessor
	go.opentelemetry.io/collector/processor/processorhelper => /repo/processor/processorhelper
	go.opentelemetry.io/collector/processor/processorhelper/xprocessorhelper => /repo/processor/processorhelper/xprocessorhelper
	go.opentelemetry.io/collector/processor/processortest => /repo/processor/processortest
	go.opentelemetry.io/collector/processor/xprocessor => /repo/processor/xprocessor
	go.opentelemetry.io/collector/receiver => /repo/receiver
	go.opentelemetry.io/collector/receiver/nopreceiver => /repo/receiver/nopreceiver
	go.opentelemetry.io/collector/receiver/otlpreceiver => /repo/receiver/otlpreceiver
	go.opentelemetry.io/collector/receiver/receiverhelper => /repo/receiver/receiverhelper
	go.opentelemetry.io/collector/receiver/receivertest => /repo/receiver/receivertest
	go.opentelemetry.io/collector/receiver/xreceiver => /repo/receiver/xreceiver
	go.opentelemetry.io/collector/scraper => /repo/scraper
	go.opentelemetry.io/collector/scraper/scraperhelper => /repo/scraper/scraperhelper
	go.opentelemetry.io/collector/scraper/scrapertest => /repo/scraper/scrapertest
	go.opentelemetry.io/collector/semconv => /repo/semconv
	go.opentelemetry.io/collector/service => /repo/service
	go.opentelemetry.io/collector/service/hostcapabilities => /repo/service/hostcapabilities
)
